import BSModel.Base.PStr
/-! C12 — copies, structural equality, hash: `Tag.__deepcopy__` (bs4/element.py:1760-1784), `Tag.copy_self`
    (:1786-1812), the attribute loop of `Tag.__init__` (:1676-1692) and its no-builder branch (:1703-1710),
    `PageElement.__copy__` (:496-500), `NavigableString.__deepcopy__` (:1309-1317), `PageElement._is_xml` (:467-488),
    `Tag.__eq__/__ne__` (:2278-2302), `Tag.__hash__` (:2206-2207), `BeautifulSoup.copy_self` (bs4/__init__.py:492-503).

    Trees are values whose nodes carry **object identities**: every `Tag`/`NavigableString` object has an id (a tag's id
    also stands for its `attrs` dict and its `contents` list, which are created with it and never replaced by the code
    modelled here), every attribute value *list* has its own id. Sharing of mutable state between two trees = a common id;
    the effect of an in-place mutation on a tree value = the change of every occurrence of the mutated id (`applyEdit`).
    The settings `cdata_list_attributes`, `preserve_whitespace_tags`, `interesting_string_types`, `_namespaces` are kept
    as the identity of the (builder-level) object the tag points to: `copy_self` hands the very same objects to the clone.

    Code-mirror: `copyImpl` (event loop + tag stack), `eqImpl`; spec: `copySpec` (pre-order recursion), `EqSpec`.
    The event stream is taken as the balanced list `eventsL` of the tree: that `_event_stream(self.descendants)` yields
    exactly this list is C01/C02's chain invariant plus the walk of C05/C11, and is checked on every case by the harness. -/
namespace BS.Copy

/-- what an attribute *key* is besides its text: `none` for a plain `str`, `some ⟨prefix, name, namespace⟩` for a
    `NamespacedAttribute` (a `str` subclass whose text is `prefix:name`; it hashes and compares by that text) -/
structure NsKey where
  pfx : Option PStr
  name : Option PStr
  ns : Option PStr
deriving DecidableEq, Repr

abbrev KMeta := Option NsKey

/-- an attribute value: a `str` of class `cls` (0 `str`, 1 `CharsetMetaAttributeValue`, 2 `ContentMetaAttributeValue`,
    ≥ 3 any other `str` subclass; immutable, its text is what `str.__eq__` and `dict` see), a list object
    (`AttributeValueList` or a subclass `cls`) with identity `lid`, or one of the non-string values user code can store in a
    plain `AttributeDict` (`tag["id"] = 2`, test_tree.py test_attribute_modification): an `int`, a `bool`, `None` -/
inductive AVal where
  | str (cls : Nat) (s : PStr)
  | list (lid : Nat) (cls : Nat) (items : List PStr)
  | int (n : Int)
  | bool (b : Bool)
  | none
deriving DecidableEq, Repr

/-- a dict entry: the key's text, what else the key object is, the value -/
abbrev AEntry := KMeta × AVal
abbrev Attrs := List (PStr × AEntry)

/-- the per-tag settings `copy_self` forwards. `cdata`, `preserveWs`, `interesting`, `namespaces`: identity of the object
    the attribute points to (`none` = `None`, resp. an empty `_namespaces`, which `namespaces or {}` re-creates). -/
structure Settings where
  canBeEmpty : Option Bool     -- can_be_empty_element
  cdata : Option Nat           -- cdata_list_attributes
  preserveWs : Option Nat      -- preserve_whitespace_tags
  interesting : Option Nat     -- interesting_string_types
  hidden : Bool
  sourceline : Option Nat
  sourcepos : Option Nat
  knownXml : Option Bool       -- known_xml
  namespaces : Option Nat      -- _namespaces
deriving DecidableEq, Repr

/-- what a `Tag` object holds besides its children. `parserClass`, `dictCls` (class of the `attrs` dict: 0 `AttributeDict`,
    1 `HTMLAttributeDict`, 2 `XMLAttributeDict`, ≥ 3 custom without processing) is kept by a copy since the repair of
    `copy_self`; `parserClass` and `avlCls` (`attribute_value_list_class`: 0 = the stock `AttributeValueList`) are the two
    fields a copy does **not** keep; nothing in `==`, `hash`, `decode` reads them. -/
structure TagData where
  name : PStr
  pfx : Option PStr
  ns : Option PStr
  attrs : Attrs                -- the dict in insertion order
  st : Settings
  parserClass : Option Nat
  dictCls : Nat
  avlCls : Nat
deriving DecidableEq, Repr

inductive Node where
  | str (id : Nat) (cls : Nat) (val : PStr)
  | tag (id : Nat) (d : TagData) (kids : List Node)
deriving Repr

def Node.id : Node → Nat
  | .str i _ _ => i
  | .tag i _ _ => i

/-- `PageElement._is_xml` (element.py:467-495) of a tag whose parent's `_is_xml` is `inh`. For a parentless element `inh`
    is the fallback `bool(vars(element).get("is_xml", False))`: the builder's flag for a `BeautifulSoup`, `False` for a plain
    `Tag` or string (before /repo 59fbf52 `getattr(tag, "is_xml", False)` was `Tag.__getattr__`, i.e. `find("is_xml")`, and
    gave `None`; the model keeps `Option Bool` so that both readings are inputs) -/
def isXml (inh : Option Bool) (d : TagData) : Option Bool :=
  match d.st.knownXml with
  | some b => some b
  | none => inh

/-! ### the processing attribute dictionaries -/

/-- `str(n)` of an `int` -/
def decimal (n : Int) : PStr := (toString n).toList.map Char.toNat

/-- element.py `HTMLAttributeDict.__setitem__`: `value = key.name if isinstance(key, NamespacedAttribute) else key`
    (`key.name` may be `None`) -/
def boolName (k : PStr) : KMeta → AVal
  | Option.none => .str 0 k
  | some ⟨_, some nm, _⟩ => .str 0 nm
  | some ⟨_, Option.none, _⟩ => .none

/-- `HTMLAttributeDict.__setitem__` (element.py:267-300): `False`/`None` remove the attribute, `True` becomes the
    attribute's name, numbers become their `str`; everything else is stored as it is. `Option.none` = nothing is stored. -/
def coerceHtml (k : PStr) (m : KMeta) : AVal → Option AVal
  | .bool false => none
  | .none => none
  | .bool true => some (boolName k m)
  | .int n => some (.str 0 (decimal n))
  | v => some v

/-- `XMLAttributeDict.__setitem__` (element.py:233-262): `None` becomes `""`, a `bool` is kept, other numbers become
    their `str` -/
def coerceXml : AVal → Option AVal
  | .none => some (.str 0 [])
  | .int n => some (.str 0 (decimal n))
  | v => some v

/-- `d[key] = value` for a dict of class `dictCls`: what ends up stored. A plain `AttributeDict` (0) and the custom
    classes of the harness (≥ 3) store the value as it is. -/
def coerce (dictCls : Nat) (k : PStr) (m : KMeta) (v : AVal) : Option AVal :=
  if dictCls = 1 then coerceHtml k m v else if dictCls = 2 then coerceXml v else some v

/-- every value in the dict is one its own class would store unchanged — true of every dict filled through its own
    `__setitem__` (`tag[k] = v`), of every plain `AttributeDict` whatever it holds, of every dict of strings and lists -/
def Settled (dictCls : Nat) (l : Attrs) : Prop := ∀ e ∈ l, coerce dictCls e.1 e.2.1 e.2.2 = some e.2.2

/-! ### `copy_self` -/

/-- `new[key] = value` seen from the end of the loop: the stored value (if any) goes in front of what the later
    iterations add -/
def pushEntry (k : PStr) (m : KMeta) (ov : Option AVal) (q : Attrs × Nat) : Attrs × Nat :=
  match ov with
  | some v' => ((k, m, v') :: q.1, q.2)
  | Option.none => q

/-- a dict re-processed by its own class: what `new = cls(); for k, v in d.items(): new[k] = v` holds -/
def settleAttrs (cls : Nat) : Attrs → Attrs
  | [] => []
  | (k, m, v) :: r => (pushEntry k m (coerce cls k m v) (settleAttrs cls r, 0)).1

/-- the attribute loop, of `Tag.__init__` (element.py:1685-1692, into a new `HTML/XMLAttributeDict`) before the repair
    and of `Tag.copy_self` (into a new dict of the original's class) after it:
    `for key, value in attrs.items(): if isinstance(value, list): value = value.__class__(value); new[key] = value`.
    List values are re-created (same class, same items, new object); every value goes through the `__setitem__` of the
    new dict's class `dictCls`; keys (the very same immutable key objects) and their order are kept. The keys of a dict are
    distinct, so every `new[key] = value` appends (or, for a removed `False`/`None`, does nothing). -/
def copyAttrs (dictCls : Nat) (next : Nat) : Attrs → Attrs × Nat
  | [] => ([], next)
  | (k, m, .list _ c items) :: r => let q := copyAttrs dictCls (next + 1) r; ((k, m, .list next c items) :: q.1, q.2)
  | (k, m, v) :: r => pushEntry k m (coerce dictCls k m v) (copyAttrs dictCls next r)

/-- `Tag.copy_self` (element.py:1800-1836) **as repaired**: `type(self)(None, None, name, namespace, prefix, attrs,
    is_xml=self._is_xml, sourceline, sourcepos, can_be_empty_element, cdata_list_attributes, preserve_whitespace_tags,
    interesting_string_types, namespaces)`, then `clone.attrs = self.attrs.__class__()` filled by the attribute loop, then
    `setattr` of `can_be_empty_element` and `hidden`. With `builder=None`, `Tag.__init__` sets `known_xml = is_xml`
    (:1698), the settings as passed (:1707-1710), `parser_class = None` (:1643) and the stock
    `attribute_value_list_class`. `xml` = the original's `_is_xml`. Result: id of the clone, its data, the next free id. -/
def copySelf (next : Nat) (d : TagData) (xml : Option Bool) : Nat × TagData × Nat :=
  let q := copyAttrs d.dictCls (next + 1) d.attrs
  (next,
   { d with attrs := q.1, st := { d.st with knownXml := xml }, parserClass := Option.none, avlCls := 0 },
   q.2)

/-- `Tag.copy_self` **before the repair** (bs4 4.13.0): the clone kept the dict `Tag.__init__` made — an
    `XMLAttributeDict` when `is_xml` is true, else an `HTMLAttributeDict` (:1666-1669) — so the original's values were
    processed a second time, by another class than the one that holds them. Kept for `old_copy_self_coerces`. -/
def copySelfOld (next : Nat) (d : TagData) (xml : Option Bool) : Nat × TagData × Nat :=
  let cls := if xml == some true then 2 else 1
  let q := copyAttrs cls (next + 1) d.attrs
  (next,
   { d with attrs := q.1, st := { d.st with knownXml := xml }, parserClass := Option.none, dictCls := cls, avlCls := 0 },
   q.2)

/-! ### the event stream and the copying loop -/

/-- one `(event, element)` pair of `_event_stream`, carrying what the loop of `__deepcopy__` reads from the element:
    a tag's own data and its `_is_xml` (which walks the *original's* parents), a string's class and value -/
inductive Ev where
  | start (d : TagData) (xml : Option Bool)
  | empty (d : TagData) (xml : Option Bool)
  | string (cls : Nat) (val : PStr)
  | stop
deriving Repr

/-- `Tag.is_empty_element`: `len(self.contents) == 0 and self.can_be_empty_element` -/
def isEmptyElement (d : TagData) (kids : List Node) : Bool :=
  kids.isEmpty && d.st.canBeEmpty == some true

mutual
def events (inh : Option Bool) : Node → List Ev
  | .str _ c v => [.string c v]
  | .tag _ d ks =>
    if isEmptyElement d ks then [.empty d (isXml inh d)]
    else .start d (isXml inh d) :: (eventsL (isXml inh d) ks ++ [.stop])
def eventsL (inh : Option Bool) : List Node → List Ev
  | [] => []
  | k :: ks => events inh k ++ eventsL inh ks
end

/-- an entry of `tag_stack`: a clone whose `contents` are still growing -/
structure Frame where
  id : Nat
  d : TagData
  kids : List Node
deriving Repr

def Frame.close (f : Frame) : Node := .tag f.id f.d f.kids

/-- state of the loop: the allocator (next unused object id) and `tag_stack`, top first (the root clone is last) -/
structure St where
  next : Nat
  stack : List Frame
deriving Repr

/-- `tag_stack[-1].append(descendant_clone)`; `none` = `IndexError` on an empty stack -/
def pushKid (n : Node) : List Frame → Option (List Frame)
  | [] => none
  | top :: rest => some ({ top with kids := top.kids ++ [n] } :: rest)

/-- one iteration of the loop of `Tag.__deepcopy__` (element.py:1771-1783). In Python a started clone is appended to
    `tag_stack[-1]` at once and keeps growing through its reference on the stack; the value model attaches the finished
    frame when it is popped — the same position, since every append in between goes to frames above it.
    A `stop` that would pop the root clone itself is reported as `none` right away (in Python the next append would
    raise `IndexError`); `copy_refines` shows neither happens on the event stream of a tree. -/
def step (s : St) : Ev → Option St
  | .stop =>
    match s.stack with
    | top :: below :: rest => some { s with stack := { below with kids := below.kids ++ [top.close] } :: rest }
    | _ => none
  | .string c v =>                                   -- `NavigableString.__deepcopy__`: `type(self)(self)`
    (pushKid (.str s.next c v) s.stack).map fun st => ⟨s.next + 1, st⟩
  | .empty d xml =>
    let r := copySelf s.next d xml
    (pushKid (.tag r.1 r.2.1 []) s.stack).map fun st => ⟨r.2.2, st⟩
  | .start d xml =>
    let r := copySelf s.next d xml
    match s.stack with
    | [] => none
    | st => some ⟨r.2.2, ⟨r.1, r.2.1, []⟩ :: st⟩

def run (s : St) : List Ev → Option St
  | [] => some s
  | e :: es => (step s e).bind fun s' => run s' es

/-- `return clone`: the root clone with everything that was hung below it -/
def collapse : Frame → List Frame → Node
  | top, [] => top.close
  | top, below :: rest => collapse { below with kids := below.kids ++ [top.close] } rest

/-- `copy.copy(el)` = `copy.deepcopy(el)` = `el.__copy__()` = `el.__deepcopy__({})` for an element whose parent's
    `_is_xml` is `inh`, with `next` the first unused object id. Result: the copy and the next unused id. -/
def copyImpl (inh : Option Bool) (next : Nat) : Node → Option (Node × Nat)
  | .str _ c v => some (.str next c v, next + 1)
  | .tag _ d ks =>
    let xml := isXml inh d
    let r := copySelf next d xml
    match run ⟨r.2.2, [⟨r.1, r.2.1, []⟩]⟩ (eventsL xml ks) with
    | some ⟨n, top :: rest⟩ => some (collapse top rest, n)
    | _ => none

/-- `BeautifulSoup.copy_self` (bs4/__init__.py:492-503) replaces the first step: the root clone is a *new, empty*
    `BeautifulSoup("", None, self.builder)` — its data `fresh` comes from the builder, not from `self` — and the same loop
    fills it. -/
def copySoupImpl (fresh : TagData) (inh : Option Bool) (next : Nat) : Node → Option (Node × Nat)
  | .str _ c v => some (.str next c v, next + 1)
  | .tag _ d ks =>
    match run ⟨next + 1, [⟨next, fresh, []⟩]⟩ (eventsL (isXml inh d) ks) with
    | some ⟨n, top :: rest⟩ => some (collapse top rest, n)
    | _ => none

/-- what a `BeautifulSoup` object holds besides being the root tag: the `TreeBuilder` (by identity), `is_xml`, the
    `parse_only` strainer and the `element_classes` mapping (by identity; `none` = `None` resp. `{}`), and what
    `prepare_markup` reported about the input -/
structure SoupInfo where
  builder : Nat
  builderIsXml : Bool                      -- `builder.is_xml`
  isXml : Bool                             -- `self.is_xml`
  parseOnly : Option Nat
  elementClasses : Option Nat
  originalEncoding : Option PStr
  declaredHtmlEncoding : Option PStr
  containsReplacementCharacters : Bool
deriving DecidableEq, Repr

/-- `BeautifulSoup.copy_self` (bs4/__init__.py:492-503): `clone = type(self)("", None, self.builder)` — `__init__` with an
    instantiated builder keeps that very object (:330-345), sets `is_xml = builder.is_xml` (:379), `parse_only = None` and
    `element_classes = {}` (the defaults of the call), and takes `original_encoding`, `declared_html_encoding`,
    `contains_replacement_characters` = `None, None, False` from `prepare_markup("")` (:467-476) — then
    `clone.original_encoding = self.original_encoding`. -/
def soupCopySelf (s : SoupInfo) : SoupInfo :=
  { builder := s.builder, builderIsXml := s.builderIsXml, isXml := s.builderIsXml, parseOnly := none, elementClasses := none,
    originalEncoding := s.originalEncoding, declaredHtmlEncoding := none, containsReplacementCharacters := false }

/-- `__getstate__`/`__setstate__` keep the whole `__dict__`: everything but the identity of the builder (a pickled copy
    of it, or a new instance of its class when it is not picklable), the strainer and the mapping (pickled copies) -/
def soupPickle (fresh : Nat) (s : SoupInfo) : SoupInfo :=
  { s with builder := fresh, parseOnly := s.parseOnly.map fun _ => fresh + 1, elementClasses := s.elementClasses.map fun _ => fresh + 2 }

/-! ### spec: the obvious recursion, ids allocated in pre-order -/

mutual
def copySpec (inh : Option Bool) (next : Nat) : Node → Node × Nat
  | .str _ c v => (.str next c v, next + 1)
  | .tag _ d ks =>
    let r := copySelf next d (isXml inh d)
    let q := copySpecL (isXml inh d) r.2.2 ks
    (.tag r.1 r.2.1 q.1, q.2)
def copySpecL (inh : Option Bool) (next : Nat) : List Node → List Node × Nat
  | [] => ([], next)
  | k :: ks =>
    let a := copySpec inh next k
    let b := copySpecL inh a.2 ks
    (a.1 :: b.1, b.2)
end

mutual
/-- the tree with every attribute dict re-processed by its own class (the identity on every tree the public API builds) -/
def settle : Node → Node
  | .str i c v => .str i c v
  | .tag i d ks => .tag i { d with attrs := settleAttrs d.dictCls d.attrs } (settleL ks)
def settleL : List Node → List Node
  | [] => []
  | k :: ks => settle k :: settleL ks
end

/-! ### what a copy keeps: the tree with identities erased -/

inductive SVal where
  | str (cls : Nat) (s : PStr)
  | list (cls : Nat) (items : List PStr)
  | int (n : Int)
  | bool (b : Bool)
  | none
deriving DecidableEq, Repr

def AVal.erase : AVal → SVal
  | .str c s => .str c s
  | .list _ c items => .list c items
  | .int n => .int n
  | .bool b => .bool b
  | .none => .none

/-- a tag without identities: name, prefix, namespace, attributes in order (keys with what kind of key object they are,
    values with their class), the class of the attribute dict, every setting, and `_is_xml` in place of `known_xml` -/
structure SData where
  name : PStr
  pfx : Option PStr
  ns : Option PStr
  attrs : List (PStr × KMeta × SVal)
  dictCls : Nat
  canBeEmpty : Option Bool
  cdata : Option Nat
  preserveWs : Option Nat
  interesting : Option Nat
  hidden : Bool
  sourceline : Option Nat
  sourcepos : Option Nat
  namespaces : Option Nat
  xml : Option Bool
deriving DecidableEq, Repr

inductive Shape where
  | str (cls : Nat) (val : PStr)
  | tag (d : SData) (kids : List Shape)
deriving Repr

def eraseAttrs (l : Attrs) : List (PStr × KMeta × SVal) := l.map fun kv => (kv.1, kv.2.1, kv.2.2.erase)

def shapeData (d : TagData) (xml : Option Bool) : SData :=
  { name := d.name, pfx := d.pfx, ns := d.ns, attrs := eraseAttrs d.attrs, dictCls := d.dictCls, canBeEmpty := d.st.canBeEmpty,
    cdata := d.st.cdata, preserveWs := d.st.preserveWs, interesting := d.st.interesting, hidden := d.st.hidden,
    sourceline := d.st.sourceline, sourcepos := d.st.sourcepos, namespaces := d.st.namespaces, xml := xml }

mutual
def shape (inh : Option Bool) : Node → Shape
  | .str _ c v => .str c v
  | .tag _ d ks => .tag (shapeData d (isXml inh d)) (shapeL (isXml inh d) ks)
def shapeL (inh : Option Bool) : List Node → List Shape
  | [] => []
  | k :: ks => shape inh k :: shapeL inh ks
end

/-! ### identities -/

def attrIds : Attrs → List Nat
  | [] => []
  | (_, _, .list lid _ _) :: r => lid :: attrIds r
  | (_, _, _) :: r => attrIds r

mutual
/-- every object identity of a tree: node ids and attribute value list ids, in pre-order -/
def ids : Node → List Nat
  | .str i _ _ => [i]
  | .tag i d ks => i :: (attrIds d.attrs ++ idsL ks)
def idsL : List Node → List Nat
  | [] => []
  | k :: ks => ids k ++ idsL ks
end

/-! ### in-place mutations, seen on a tree value -/

/-- a mutation of one object. Applied to a tree value it changes every occurrence of that object. -/
inductive Edit where
  | setAttr (tag : Nat) (k : PStr) (m : KMeta) (v : AVal)   -- `tag[k] = v` (through the `__setitem__` of the tag's dict)
  | delAttr (tag : Nat) (k : PStr)                 -- `del tag[k]`
  | listAppend (lid : Nat) (item : PStr)           -- `tag[k].append(item)` on the list object `lid`
  | listSet (lid : Nat) (items : List PStr)        -- any other in-place change of the list object
  | setName (tag : Nat) (name : PStr)              -- `tag.name = name`
  | insertKid (tag : Nat) (pos : Nat) (n : Node)   -- `tag.insert(pos, n)` / `append` of a detached node
  | clear (tag : Nat)                              -- `tag.clear()`
  | remove (node : Nat)                            -- `node.extract()` / `decompose()`: gone from its parent's contents
  | replace (node : Nat) (by_ : Node)              -- `node.replace_with(by_)`

def Edit.target : Edit → Nat
  | .setAttr t _ _ _ => t | .delAttr t _ => t | .listAppend l _ => l | .listSet l _ => l | .setName t _ => t
  | .insertKid t _ _ => t | .clear t => t | .remove n => n | .replace n _ => n

/-- `dict.__setitem__`: an existing key keeps its position and its key object, a new one is appended -/
def setAssoc (k : PStr) (m : KMeta) (v : AVal) : Attrs → Attrs
  | [] => [(k, m, v)]
  | (k', m', w) :: r => if k' == k then (k', m', v) :: r else (k', m', w) :: setAssoc k m v r

def editVal (e : Edit) : AVal → AVal
  | .list lid c items =>
    match e with
    | .listAppend l item => if l = lid then .list lid c (items ++ [item]) else .list lid c items
    | .listSet l new => if l = lid then .list lid c new else .list lid c items
    | _ => .list lid c items
  | v => v

def editAttrs (e : Edit) (l : Attrs) : Attrs := l.map fun kv => (kv.1, kv.2.1, editVal e kv.2.2)

/-- the part of an edit that concerns the tag object `i` itself -/
def editData (e : Edit) (i : Nat) (d : TagData) : TagData :=
  let d := { d with attrs := editAttrs e d.attrs }
  match e with
  | .setAttr t k m v =>
    if t = i then
      match coerce d.dictCls k m v with
      | some v' => { d with attrs := setAssoc k m v' d.attrs }
      | Option.none => { d with attrs := d.attrs.filter fun kv => !(kv.1 == k) }   -- `if key in self: del self[key]`
    else d
  | .delAttr t k => if t = i then { d with attrs := d.attrs.filter fun kv => !(kv.1 == k) } else d
  | .setName t nm => if t = i then { d with name := nm } else d
  | _ => d

/-- the part of an edit that concerns the `contents` list of tag `i` (after the children themselves were edited) -/
def editKids (e : Edit) (i : Nat) (ks : List Node) : List Node :=
  match e with
  | .insertKid t pos n => if t = i then ks.take pos ++ n :: ks.drop pos else ks
  | .clear t => if t = i then [] else ks
  | .remove x => ks.filter fun k => !(k.id == x)
  | .replace x n => ks.map fun k => if k.id = x then n else k
  | _ => ks

mutual
def applyEdit (e : Edit) : Node → Node
  | .str i c v => .str i c v
  | .tag i d ks => .tag i (editData e i d) (editKids e i (applyEditL e ks))
def applyEditL (e : Edit) : List Node → List Node
  | [] => []
  | k :: ks => applyEdit e k :: applyEditL e ks
end

/-- a history of in-place mutations, applied one after the other -/
def applyEdits : List Edit → Node → Node
  | [], t => t
  | e :: es, t => applyEdits es (applyEdit e t)

/-! ### `==` -/

/-- the number a value is for `int.__eq__` (`bool` is a subclass of `int`: `True == 1`) -/
def numOf : AVal → Option Int
  | .int n => some n
  | .bool b => some (if b then 1 else 0)
  | _ => Option.none

/-- `==` of two attribute values: `str.__eq__` (by text, whatever the subclass), `list.__eq__` (by items, whatever the
    subclass), `int.__eq__` for `int`/`bool`, `None == None`; values of different kinds are never equal -/
def valEq : AVal → AVal → Bool
  | .str _ a, .str _ b => a == b
  | .list _ _ a, .list _ _ b => a == b
  | .none, .none => true
  | v, w => match numOf v, numOf w with
    | some a, some b => a == b
    | _, _ => false

/-- `dict.__eq__`: same length, and every key of the left one is in the right one with an equal value -/
def dictEq (a b : Attrs) : Bool :=
  a.length == b.length &&
  a.all fun kv => match b.lookup kv.1 with
    | some w => valEq kv.2.2 w.2
    | Option.none => false

mutual
/-- `self is other`: two values denote the same object when they agree entirely, identities included -/
def same : Node → Node → Bool
  | .str i c v, .str j d w => i == j && c == d && v == w
  | .tag i a ks, .tag j b ls => i == j && decide (a = b) && sameL ks ls
  | _, _ => false
def sameL : List Node → List Node → Bool
  | [], [] => true
  | k :: ks, l :: ls => same k l && sameL ks ls
  | _, _ => false
end

mutual
/-- `a == b` for tree nodes. Two tags: `Tag.__eq__` (element.py:2278-2297); two strings: `str.__eq__` (the class is not
    looked at); a tag and a string: `False` from either side (`isinstance(other, Tag)` fails, resp. `str.__eq__` returns
    `NotImplemented` and the reflected `Tag.__eq__` answers). The `hasattr` tests always pass on a `Tag`. -/
def eqImpl : Node → Node → Bool
  | .str _ _ v, .str _ _ w => v == w
  | .tag i a ks, .tag j b ls =>
    if same (.tag i a ks) (.tag j b ls) then true                 -- `if self is other: return True`
    else if !(a.name == b.name) || !(dictEq a.attrs b.attrs) || !(ks.length == ls.length) then false
    else kidsEq ks ls
  | _, _ => false
/-- `for i, my_child in enumerate(self.contents): if my_child != other.contents[i]: return False` — `!=` is
    `not ==` for every pair of node kinds. The last case (`IndexError`) is excluded by the `len` test before the loop. -/
def kidsEq : List Node → List Node → Bool
  | [], _ => true
  | k :: ks, l :: ls => if !(eqImpl k l) then false else kidsEq ks ls
  | _ :: _, [] => false
end

/-- `Tag.__ne__`: `not self == other` -/
def neImpl (a b : Node) : Bool := !(eqImpl a b)

/-! #### spec: equality of identity-free, order-free normal forms -/

/-- an attribute value as `==` sees it -/
inductive EVal where
  | str (s : PStr)
  | list (items : List PStr)
  | num (n : Int)
  | none
deriving DecidableEq, Repr

def AVal.val : AVal → EVal
  | .str _ s => .str s
  | .list _ _ items => .list items
  | .int n => .num n
  | .bool b => .num (if b then 1 else 0)
  | .none => .none

/-- the attributes as a finite map (what "the same attributes regardless of order" means) -/
def attrMap (l : Attrs) (k : PStr) : Option EVal := (l.lookup k).map fun e => e.2.val

/-- what `==` can see of a tree: a string's text; a tag's name, its attributes as a map, its children -/
inductive Canon where
  | str (val : PStr)
  | tag (name : PStr) (attrs : PStr → Option EVal) (kids : List Canon)

mutual
def canon : Node → Canon
  | .str _ _ v => .str v
  | .tag _ d ks => .tag d.name (attrMap d.attrs) (canonL ks)
def canonL : List Node → List Canon
  | [] => []
  | k :: ks => canon k :: canonL ks
end

/-- "Two tags are equal exactly when they have the same name, the same attributes regardless of order and pairwise
    equal children" (two strings: the same text; a tag and a string: never) -/
def EqSpec (a b : Node) : Prop := canon a = canon b

mutual
/-- the attribute dicts of a tree are dicts: no key twice -/
def DictOK : Node → Prop
  | .str _ _ _ => True
  | .tag _ d ks => (d.attrs.map Prod.fst).Nodup ∧ DictOKL ks
def DictOKL : List Node → Prop
  | [] => True
  | k :: ks => DictOK k ∧ DictOKL ks
end

mutual
/-- number of nodes of a tree -/
def sizeN : Node → Nat
  | .str _ _ _ => 1
  | .tag _ _ ks => 1 + sizeL ks
def sizeL : List Node → Nat
  | [] => 0
  | k :: ks => sizeN k + sizeL ks
end

/-- `Below a x`: the node `x` occurs strictly below the tag `a` -/
inductive Below : Node → Node → Prop
  | kid {i d ks k} : k ∈ ks → Below (.tag i d ks) k
  | deeper {i d ks k x} : k ∈ ks → Below k x → Below (.tag i d ks) x

/-! ### pickling a document: `BeautifulSoup.__getstate__` / `__setstate__` (bs4/__init__.py:505-541)

    Generic in what a tree is (`T`), in the renderer `decode` and in the parser `feed` (C05 says what their composition is):
    what matters here is **which markup** travels in the pickle. -/

/-- the part of a `BeautifulSoup` object's `__dict__` that pickling reads and writes: the tree and the `markup` attribute
    (`None` after `__init__`, which clears it; left set by `__setstate__`, which does not) -/
structure PDoc (T : Type) where
  tree : T
  markup : Option PStr

/-- `__getstate__`: `d = dict(self.__dict__); d["contents"] = []; d["markup"] = self.decode()` — the markup in the pickle
    is always the rendering of the tree as it is now -/
def getState {T : Type} (decode : T → PStr) (d : PDoc T) : PStr := decode d.tree

/-- `__setstate__`: `self.__dict__ = state; …; self.reset(); self._feed()` — the tree is rebuilt from `state["markup"]`,
    and `self.markup` keeps that string -/
def setState {T : Type} (feed : PStr → T) (m : PStr) : PDoc T := ⟨feed m, some m⟩

/-- `pickle.loads(pickle.dumps(doc))` -/
def pickleRoundTrip {T : Type} (decode : T → PStr) (feed : PStr → T) (d : PDoc T) : PDoc T := setState feed (getState decode d)

/-- a step of a document's life: an in-place edit of its tree, or being replaced by its pickle round trip -/
inductive PStep (T : Type) where
  | edit (f : T → T)
  | pickle

def pRun {T : Type} (decode : T → PStr) (feed : PStr → T) : PDoc T → List (PStep T) → PDoc T
  | d, [] => d
  | d, .edit f :: r => pRun decode feed { d with tree := f d.tree } r
  | d, .pickle :: r => pRun decode feed (pickleRoundTrip decode feed d) r

/-- the seeded variant of `__getstate__` (`if not d.get("markup"): d["markup"] = self.decode()`): a left-over, non-empty
    `markup` is shipped instead of the rendering -/
def getStateStale {T : Type} (decode : T → PStr) (d : PDoc T) : PStr :=
  match d.markup with
  | some (c :: m) => c :: m
  | _ => decode d.tree

/-! ### `hash` -/

/-- the shape as a renderer that does not depend on the order of the attribute dict sees it (the default
    `Formatter.attributes` sorts `tag.attrs.items()`): attributes as a finite map from key text to key kind and value -/
inductive RShape where
  | str (cls : Nat) (val : PStr)
  | tag (d : SData) (attrs : PStr → Option (KMeta × SVal)) (kids : List RShape)

mutual
def rshapeOf : Shape → RShape
  | .str c v => .str c v
  | .tag d ks => .tag { d with attrs := [] } (fun k => d.attrs.lookup k) (rshapeOfL ks)
def rshapeOfL : List Shape → List RShape
  | [] => []
  | k :: ks => rshapeOf k :: rshapeOfL ks
end

/-- `Tag.__hash__`: `str(self).__hash__()` = `hash(self.decode())`, for any renderer that reads the tree through its
    identity-free, attribute-order-free shape and any string hash -/
def hashImpl (render : RShape → PStr) (h : PStr → Nat) (inh : Option Bool) (t : Node) : Nat :=
  h (render (rshapeOf (shape inh t)))

/-! #### what `==` does not look at -/

/-- the kind and class of an attribute value, without its content -/
inductive VDecor where
  | str (cls : Nat) | list (cls : Nat) | int | bool | none
deriving DecidableEq, Repr

def AVal.decor : AVal → VDecor
  | .str c _ => .str c
  | .list _ c _ => .list c
  | .int _ => .int
  | .bool _ => .bool
  | .none => .none

/-- everything of the shape that `==` ignores: string classes; per tag the prefix, namespace, dict class and settings
    (`SData` with name and attributes blanked), and per attribute key its key kind and the kind/class of its value -/
inductive Decor where
  | str (cls : Nat)
  | tag (d : SData) (attrs : PStr → Option (KMeta × VDecor)) (kids : List Decor)

mutual
def decor (inh : Option Bool) : Node → Decor
  | .str _ c _ => .str c
  | .tag _ d ks =>
    .tag { shapeData d (isXml inh d) with name := [], attrs := [] }
      (fun k => (d.attrs.lookup k).map fun e => (e.1, e.2.decor)) (decorL (isXml inh d) ks)
def decorL (inh : Option Bool) : List Node → List Decor
  | [] => []
  | k :: ks => decor inh k :: decorL inh ks
end

end BS.Copy
