import BSModel.Model.Search
/-! # The CSS proxy: how `Tag.select` / `Tag.select_one` / `Tag.css` reach soupsieve (bs4/css.py, element.py)

Code-mirror of the dispatch only: which soupsieve function is called, with which selector, start tag, namespace
mapping, limit, flags and extra keyword arguments, and whether the result is wrapped into a `ResultSet`. The
soupsieve engine itself is a **parameter** (`Engine`); the harness records the real one and validates the engine
hypothesis of `Props/C10.lean` (`EngineSpec`) on every case. Core Lean only. -/
namespace BS.Css
open BS.Search

/-- the `select` argument: a selector string, or a precompiled `soupsieve.SoupSieve` object (identified) -/
inductive Sel where
  | str (i : Nat)
  | compiled (i : Nat)
  deriving Repr, DecidableEq

/-- the `namespaces=` argument: `None` (default) or a mapping (identified) -/
inductive NsArg where
  | none
  | given (i : Nat)
  deriving Repr, DecidableEq

/-- what reaches soupsieve as namespaces: `None`, the caller's mapping, or `self.tag._namespaces` -/
inductive NsPassed where
  | none
  | given (i : Nat)
  | tagNamespaces
  deriving Repr, DecidableEq

/-- the `limit=` argument as the caller wrote it -/
inductive LimitArg where
  | unset            -- not passed: the default `0`
  | none             -- `limit=None`
  | n (k : Nat)
  deriving Repr, DecidableEq

/-- what reaches soupsieve as limit -/
inductive LimitPassed where
  | notTaken         -- the soupsieve function has no limit parameter
  | none             -- Python `None` (only `iselect` forwards it unchanged)
  | n (k : Nat)
  deriving Repr, DecidableEq

inductive Fn where
  | select | selectOne | iselect | closest | match_ | filter | compile
  deriving Repr, DecidableEq

/-- the public entry points -/
inductive Entry where
  | tagSelect        -- `Tag.select(selector, namespaces=None, limit=0, **kwargs)` (element.py)
  | tagSelectOne     -- `Tag.select_one(selector, namespaces=None, **kwargs)`
  | cssSelect        -- `tag.css.select(select, namespaces=None, limit=0, flags=0, **kwargs)`
  | cssSelectOne     -- `tag.css.select_one(select, namespaces=None, flags=0, **kwargs)`
  | cssIselect       -- `tag.css.iselect(select, namespaces=None, limit=0, flags=0, **kwargs)`
  | cssClosest | cssMatch | cssFilter     -- `(select, namespaces=None, flags=0, **kwargs)`
  | cssCompile       -- `tag.css.compile(select, namespaces=None, flags=0, **kwargs)`
  deriving Repr, DecidableEq

structure Args where
  sel : Sel
  ns : NsArg := .none
  limit : LimitArg := .unset      -- only for the entries that have the parameter
  flags : Option Nat := none      -- `flags=` (for `Tag.select*` it travels inside `**kwargs`)
  extra : Bool := false           -- some other keyword argument is present (forwarded untouched)
  deriving Repr, DecidableEq

/-- one call of a soupsieve function -/
structure EngineCall where
  fn : Fn
  sel : Sel
  tag : Option Nat                -- `self.tag` (absent for `compile`)
  ns : NsPassed
  limit : LimitPassed
  flags : Nat
  extra : Bool
  deriving Repr, DecidableEq

/-- `CSS._ns` (css.py): a precompiled selector has its namespaces compiled in, otherwise `None` means the prefixes
    the tag's document was parsed with -/
def nsOf (sel : Sel) (ns : NsArg) : NsPassed :=
  match ns, sel with
  | .given i, _ => .given i
  | .none, .compiled _ => .none
  | .none, .str _ => .tagNamespaces

/-- `if limit is None: limit = 0` (css.py `CSS.select`) -/
def selectLimit : LimitArg → Nat
  | .unset => 0
  | .none => 0
  | .n k => k

/-- the soupsieve call an entry point makes, and whether `_rs` wraps the result into a `ResultSet` -/
def dispatch (e : Entry) (t : Nat) (a : Args) : EngineCall × Bool :=
  let flags := a.flags.getD 0
  let ns := nsOf a.sel a.ns
  match e with
  | .tagSelect | .cssSelect =>       -- `Tag.select` = `self.css.select(selector, namespaces, limit, **kwargs)`
    (⟨.select, a.sel, some t, ns, .n (selectLimit a.limit), flags, a.extra⟩, true)
  | .tagSelectOne | .cssSelectOne => -- `Tag.select_one` = `self.css.select_one(selector, namespaces, **kwargs)`
    (⟨.selectOne, a.sel, some t, ns, .notTaken, flags, a.extra⟩, false)
  | .cssIselect =>
    (⟨.iselect, a.sel, some t, ns,
      (match a.limit with | .unset => .n 0 | .none => .none | .n k => .n k), flags, a.extra⟩, false)
  | .cssClosest => (⟨.closest, a.sel, some t, ns, .notTaken, flags, a.extra⟩, false)
  | .cssMatch => (⟨.match_, a.sel, some t, ns, .notTaken, flags, a.extra⟩, false)
  | .cssFilter => (⟨.filter, a.sel, some t, ns, .notTaken, flags, a.extra⟩, true)
  | .cssCompile => (⟨.compile, a.sel, none, ns, .notTaken, flags, a.extra⟩, false)

/-- the soupsieve engine: what a call returns, as element ids in result order (`select_one`/`closest`: at most one) -/
abbrev Engine := EngineCall → List Nat

/-- `tag.select(...)`: the `ResultSet` -/
def tagSelect (E : Engine) (t : Nat) (a : Args) : List Nat := E (dispatch .tagSelect t a).1

/-- `tag.select_one(...)` -/
def tagSelectOne (E : Engine) (t : Nat) (a : Args) : Option Nat := (E (dispatch .tagSelectOne t a).1).head?

end BS.Css
