import BSModel.Base.PStr
/-! C11 — an instrumented cost semantics ("call-depth accounting") of bs4's tree operations.

    For every operation the property lists there is a function computing the **maximum number of nested Python
    calls** the operation makes on a given tree, following the CALL STRUCTURE of the code:

    * a loop costs nothing by itself: its cost is the maximum of the cost of its iterations (`loopMax`);
    * a call costs one frame plus the cost of the callee (`call`);
    * a structural `==`/`!=` between two tags costs `eqDepth` (mirror of `Tag.__eq__`, element.py:2278-2302:
      identity → 1; different name / attributes / number of children → 1; otherwise it recurses into the children,
      pair by pair, stopping after the first unequal pair);
    * helpers that never receive a tree-navigating argument are leaf constants (`cFormatTag`, …): only their
      independence from the tree matters, absolute numbers are never compared with CPython.

    Where the code under test has (or had) a depth-dependent recursion the accounting has both forms, selected by a
    `Cfg`: `_event_stream`'s `c.parent != tag_stack[-1]` vs. `is not` (element.py:2488), the recursive `Tag.string`
    getter vs. a loop (:1853-1860), the recursive `smooth` vs. iteration over the descendants (:2113-2151), the
    recursive `_is_xml` vs. a loop (:468-488), and `BeautifulSoup.__getstate__` keeping vs. dropping the root's
    links into the element chain (bs4/__init__.py:505-519).

    THIS IS AN ACCOUNTING OF THE CALL GRAPH, NOT CPYTHON: that it matches the interpreter is *measured* by
    harness/c11.py (growth of the `sys.setprofile` call depth between nesting depths d and 2d). -/
namespace BS.Depth

/-- A parse tree as far as call depth can depend on it. `name`/`attrs` are opaque identities (two tags have equal
    names / equal attribute dicts iff the numbers agree); `kx` = `known_xml is not None` (the tag was made with a
    builder, or is a copy); `void` = `can_be_empty_element`; a string is an opaque text identity. -/
inductive Node where
  | str (v : Nat)
  | tag (name attrs : Nat) (kx void : Bool) (kids : List Node)
deriving Repr, Inhabited

/-- which variant of the code the accounting follows; `true` = the repaired (loop / identity) form -/
structure Cfg where
  neIdentity : Bool   -- `_event_stream`: `c.parent is not tag_stack[-1]`
  stringLoop : Bool   -- `Tag.string` getter is a loop
  smoothLoop : Bool   -- `smooth` iterates over the descendants
  isXmlLoop : Bool    -- `_is_xml` is a loop
  dropLinks : Bool    -- `__getstate__` drops next_element & co.
deriving Repr, DecidableEq

def repaired : Cfg := ⟨true, true, true, true, true⟩
def unrepaired : Cfg := ⟨false, false, false, false, false⟩

/-! ### the two combinators -/

/-- a call: one frame on top of whatever the callee needs -/
def call (callee : Nat) : Nat := callee + 1

/-- a loop: the deepest of its iterations -/
def loopMax {α : Type} (xs : List α) (body : α → Nat) : Nat :=
  match xs with
  | [] => 0
  | x :: rest => max (body x) (loopMax rest body)

/-- a loop whose body makes no calls at all (pointer chasing, `is` tests, list indexing) -/
def loop0 {α : Type} (xs : List α) : Nat := loopMax xs (fun _ => 0)

/-! ### leaf constants (helpers that never see a tree-navigating argument) -/

/-- `_format_tag` → `formatter.attributes` / `attribute_value` → `substitute` → `EntitySubstitution.substitute_*` -/
def cFormatTag : Nat := 4
/-- `output_ready` → `format_string` → `formatter.substitute` → `EntitySubstitution.substitute_*` -/
def cOutputReady : Nat := 4
/-- `Tag.__init__` → `setup` / builder callbacks -/
def cTagInit : Nat := 3
/-- `NavigableString.__new__` / `__deepcopy__` of a string -/
def cStrNew : Nat := 2
/-- `BeautifulSoup("", None, builder)` (the `copy_self` of a document: a whole constructor run on empty markup) -/
def cSoupInit : Nat := 12
/-- `SoupStrainer.__init__` → `_make_match_rules` → `MatchRule.__init__` -/
def cStrainerInit : Nat := 4
/-- `MatchRule.matches_string` / `matches_tag` → `_base_match` → user function / `re.search` -/
def cRuleMatch : Nat := 3
/-- html.parser between `TreeBuilder.feed` and bs4's `handle_*` callbacks:
    `feed → HTMLParser.feed → goahead → parse_starttag → handle_starttag → soup.handle_starttag` -/
def cTokenizer : Nat := 6

/-! ### tree plumbing -/

def kidsOf : Node → List Node
  | .str _ => []
  | .tag _ _ _ _ ks => ks

def kxOf : Node → Bool
  | .str _ => false                     -- `PageElement.known_xml = None` (class attribute) on strings
  | .tag _ _ kx _ _ => kx

def isTag : Node → Bool
  | .str _ => false
  | .tag .. => true

mutual
def sizeN : Node → Nat
  | .str _ => 1
  | .tag _ _ _ _ ks => 1 + sizeL ks
def sizeL : List Node → Nat
  | [] => 0
  | k :: ks => sizeN k + sizeL ks
end

/-- a place in a tree: the `known_xml is not None` flags of the proper ancestors (nearest first), the parent's
    `.contents`, and the subtree -/
structure Loc where
  anc : List Bool
  sibs : List Node
  node : Node
deriving Inhabited

mutual
/-- everything `Tag.descendants` (element.py:2770-2785) yields, in order, each with its place -/
def descs (anc : List Bool) : Node → List Loc
  | .str _ => []
  | .tag _ _ kx _ ks => descsL (kx :: anc) ks ks
def descsL (anc : List Bool) (sibs : List Node) : List Node → List Loc
  | [] => []
  | k :: ks => ⟨anc, sibs, k⟩ :: (descs anc k ++ descsL anc sibs ks)
end

/-- `self_and_descendants` -/
def selfAndDescs (l : Loc) : List Loc := l :: descs l.anc l.node

mutual
/-- the elements `_last_descendant`'s `while isinstance(last_child, Tag) and last_child.contents` loop visits -/
def rightPath : Node → List Node
  | .str _ => []
  | .tag _ _ _ _ ks => rightPathL ks
def rightPathL : List Node → List Node
  | [] => []
  | k :: ks => if ks.isEmpty then k :: rightPath k else rightPathL ks
end

/-- the children of a place, as places -/
def kidLocs (l : Loc) : List Loc := (kidsOf l.node).map (fun k => ⟨kxOf l.node :: l.anc, kidsOf l.node, k⟩)

/-! ### `Tag.__eq__` / `__ne__` (element.py:2278-2302) -/

mutual
/-- frames of `a == b` for two *different objects* `a`, `b` (the identity shortcut is handled by the callers, who
    know whether the two are the same object). A string on the left is compared in C (`str.__eq__`): 0 frames. -/
def eqDepth : Node → Node → Nat
  | .str _, _ => 0
  | .tag _ _ _ _ _, .str _ => 1                                   -- `not isinstance(other, Tag)`
  | .tag n a _ _ ks, .tag n' a' _ _ ks' =>
    if n ≠ n' ∨ a ≠ a' ∨ ks.length ≠ ks'.length then 1             -- name / attrs / len differ: no recursion
    else 1 + eqKids ks ks'
/-- `for i, my_child in enumerate(self.contents): if my_child != other.contents[i]: return False` -/
def eqKids : List Node → List Node → Nat
  | [], _ => 0
  | _ :: _, [] => 0
  | k :: ks, k' :: ks' =>
    -- `my_child != other…` on a Tag child is `Tag.__ne__` (one frame) calling `__eq__`
    let here := match k with
      | .str _ => 0
      | .tag .. => 1 + eqDepth k k'
    if beqN k k' then max here (eqKids ks ks') else here
/-- the *value* of the structural comparison -/
def beqN : Node → Node → Bool
  | .str v, .str v' => v == v'
  | .str _, .tag .. => false
  | .tag .., .str _ => false
  | .tag n a _ _ ks, .tag n' a' _ _ ks' => n == n' && a == a' && beqL ks ks'
def beqL : List Node → List Node → Bool
  | [], [] => true
  | [], _ :: _ => false
  | _ :: _, [] => false
  | k :: ks, k' :: ks' => beqN k k' && beqL ks ks'
end

/-- `a != b` between two different tag objects: `Tag.__ne__` then `Tag.__eq__` -/
def neDepth (a b : Node) : Nat := 1 + eqDepth a b

/-! ### `_event_stream` (element.py:2462-2504)

    For each element `c` of the iteration the generator runs `while tag_stack and c.parent <cmp> tag_stack[-1]: pop`.
    When `c` is the child after `k` in `P.contents`, the stack holds, above `P`, the *open right spine* of `k`: `k`
    itself if it was pushed (a tag that is not an empty-element tag), then its last child if that was pushed, and so
    on. Each of them is compared with `c.parent = P` (unequal: popped), then `P` with itself (same object). -/

mutual
/-- the tags below-or-equal `k` still on `tag_stack` when the element after `k`'s subtree arrives, in stack order
    (deepest first) -/
def spineD : Node → List Node
  | .str _ => []
  | .tag n a kx v ks => if v && ks.isEmpty then [] else spineDL ks ++ [.tag n a kx v ks]
def spineDL : List Node → List Node
  | [] => []
  | k :: ks => if ks.isEmpty then spineD k else spineDL ks
end

/-- one evaluation of `c.parent <cmp> X` for a different object `X` -/
def cmpCost (cfg : Cfg) (p x : Node) : Nat := if cfg.neIdentity then 0 else neDepth p x
/-- `c.parent <cmp> c.parent`: `is not` costs nothing; `!=` is `__ne__` → `__eq__` returning at `self is other` -/
def sameCost (cfg : Cfg) : Nat := if cfg.neIdentity then 0 else 2

mutual
/-- deepest comparison `_event_stream` makes anywhere below (and at) this element, when it is iterated over with its
    parent on the stack (or as the root of the iteration) -/
def evCmp (cfg : Cfg) : Node → Nat
  | .str _ => 0
  | .tag n a kx v ks => evKids cfg (.tag n a kx v ks) [] ks
/-- the comparisons made while the children `ks` of `p` arrive; `s` = what the previous child left on the stack above
    `p` (nothing before the first child): `p` is compared with each of those (different objects: popped), then with
    itself -/
def evKids (cfg : Cfg) (p : Node) (s : List Node) : List Node → Nat
  | [] => 0
  | k :: ks => max (max (loopMax s (cmpCost cfg p)) (sameCost cfg)) (max (evCmp cfg k) (evKids cfg p (spineD k) ks))
end

/-! #### code mirror of the generator (element.py:2480-2504), statement by statement

    Elements carry their object identity (`id` = position in document order below the root of the iteration, the root
    is 0) and the identity of `.parent`. `tag_stack` holds identities (with the subtree, for the structural `!=`). The
    TEST `c.parent <cmp> tag_stack[-1]` is decided by identity in both variants — for the two objects compared here
    (an element's parent and a tag still open below it, i.e. one contained in the other) structural inequality
    coincides with non-identity, their sizes differ (`beqN_sizeN`); the variants differ in what the test COSTS. -/

/-- an element as the loop sees it -/
structure Elem where
  id : Nat
  parent : Nat
  node : Node
  parentNode : Node

mutual
/-- `self_and_descendants` of a subtree whose root has identity `i` and parent `(pid, pn)`: document order -/
def flatN (pid : Nat) (pn : Node) (i : Nat) : Node → List Elem
  | .str v => [⟨i, pid, .str v, pn⟩]
  | .tag n a kx v ks => ⟨i, pid, .tag n a kx v ks, pn⟩ :: flatL i (.tag n a kx v ks) (i + 1) ks
def flatL (pid : Nat) (pn : Node) (j : Nat) : List Node → List Elem
  | [] => []
  | k :: ks => flatN pid pn j k ++ flatL pid pn (j + sizeN k) ks
end

/-- the events `_event_stream` yields (with the identity of the element) -/
inductive Evt where
  | start (id : Nat)
  | «end» (id : Nat)
  | empty (id : Nat)
  | string (id : Nat)
deriving Repr, DecidableEq

abbrev TagStack := List (Nat × Node)      -- top first

def ends (s : TagStack) : List Evt := s.map (fun x => Evt.end x.1)

/-- `while tag_stack and c.parent <cmp> tag_stack[-1]: now_closed_tag = tag_stack.pop(); yield END, now_closed_tag`
    → (stack afterwards, END events, deepest comparison) -/
def closeWhile (cfg : Cfg) (c : Elem) : TagStack → TagStack × List Evt × Nat
  | [] => ([], [], 0)                                         -- `tag_stack` empty: the test is not evaluated
  | (tid, tn) :: rest =>
    if c.parent = tid then ((tid, tn) :: rest, [], sameCost cfg)            -- same object: the loop ends
    else
      let (st, evs, cost) := closeWhile cfg c rest
      (st, Evt.end tid :: evs, max (cmpCost cfg c.parentNode tn) cost)

/-- the body of `for c in iterator:` -/
def evStep (cfg : Cfg) (st : TagStack) (c : Elem) : TagStack × List Evt × Nat :=
  let (st1, closed, cost) := closeWhile cfg c st
  match c.node with
  | .str _ => (st1, closed ++ [Evt.string c.id], cost)                       -- `yield STRING_ELEMENT_EVENT, c`
  | .tag _ _ _ v ks =>
    if v && ks.isEmpty then (st1, closed ++ [Evt.empty c.id], cost)          -- `if c.is_empty_element: yield EMPTY…`
    else ((c.id, c.node) :: st1, closed ++ [Evt.start c.id], cost)           -- `yield START…; tag_stack.append(c)`

def evRun (cfg : Cfg) : TagStack → List Elem → TagStack × List Evt × Nat
  | st, [] => (st, [], 0)
  | st, c :: cs =>
    let (st1, e1, c1) := evStep cfg st c
    let (st2, e2, c2) := evRun cfg st1 cs
    (st2, e1 ++ e2, max c1 c2)

/-- the whole generator on `self.self_and_descendants`, including the final `while tag_stack: pop; yield END` -/
def eventStreamImpl (cfg : Cfg) (t : Node) : List Evt × Nat :=
  let (st, evs, cost) := evRun cfg [] (flatN 0 t 0 t)        -- the root's own parent is never looked at (empty stack)
  (evs ++ ends st, cost)

/-- the comparisons made while the top-level elements `ks` arrive when the root of the iteration is NOT itself part of
    it (`decode_contents`: `iterator=self.descendants`; any hidden receiver — the BeautifulSoup object —, which
    `_self_and` leaves out, element.py:1236-1243): `p` is never on the stack, so everything the previous element left
    open is compared with it and popped, and there is no comparison of `p` with itself -/
def evKidsTop (cfg : Cfg) (p : Node) (s : List Node) : List Node → Nat
  | [] => 0
  | k :: ks => max (loopMax s (cmpCost cfg p)) (max (evCmp cfg k) (evKidsTop cfg p (spineD k) ks))

/-- deepest comparison of the contents form -/
def evCmpContents (cfg : Cfg) (t : Node) : Nat := evKidsTop cfg t [] (kidsOf t)

/-- the generator on `self.descendants` (the receiver itself is not iterated over) -/
def eventStreamContentsImpl (cfg : Cfg) (t : Node) : List Evt × Nat :=
  let (st, evs, cost) := evRun cfg [] (flatL 0 t 1 (kidsOf t))
  (evs ++ ends st, cost)

mutual
/-- what the stream means: the obvious recursive rendering skeleton -/
def evSpecN (i : Nat) : Node → List Evt
  | .str _ => [Evt.string i]
  | .tag _ _ _ v ks => if v && ks.isEmpty then [Evt.empty i] else Evt.start i :: (evSpecL (i + 1) ks ++ [Evt.end i])
def evSpecL (j : Nat) : List Node → List Evt
  | [] => []
  | k :: ks => evSpecN j k ++ evSpecL (j + sizeN k) ks
end

/-- `_last_descendant` (element.py:656-682): a loop down the last children -/
def lastDescDepth (t : Node) : Nat := call (loop0 (rightPath t))

/-- the `descendants` generator (element.py:2770-2785): one frame, calls `_last_descendant`, then a pointer loop -/
def descGenDepth (l : Loc) : Nat := call (max (lastDescDepth l.node) (loop0 (descs l.anc l.node)))

/-- the `_event_stream` generator: its own frame; below it `_self_and` → `descendants` → `_last_descendant`, or a
    comparison -/
def eventStreamDepth (cfg : Cfg) (l : Loc) : Nat :=
  call (max (call (descGenDepth l)) (evCmp cfg l.node))

/-- the generator on `self.descendants` (`decode_contents`, `__deepcopy__`, and every hidden receiver) -/
def eventStreamContentsDepth (cfg : Cfg) (l : Loc) : Nat :=
  call (max (descGenDepth l) (evCmpContents cfg l.node))

/-! ### `_is_xml` (element.py:468-488) and `formatter_for_name` (:439-465) -/

/-- the recursive form: `return self.parent._is_xml` -/
def isXmlRec : Bool → List Bool → Nat
  | true, _ => 1
  | false, [] => 1
  | false, p :: rest => 1 + isXmlRec p rest

def isXmlDepth (cfg : Cfg) (kx : Bool) (anc : List Bool) : Nat :=
  if cfg.isXmlLoop then call (loop0 anc) else isXmlRec kx anc

/-- `formatter_for_name(name)` → the `_is_xml` property → registry lookup -/
def formatterForNameDepth (cfg : Cfg) (l : Loc) : Nat := call (isXmlDepth cfg (kxOf l.node) l.anc)

/-! ### rendering (element.py:2310-2447, 2607-2671; bs4/__init__.py:1073-1143) -/

/-- per event: `_format_tag` for a tag (opening and closing), `output_ready` for a string, `_should_pretty_print`,
    `_indent_string` -/
def renderPiece (l : Loc) : Nat :=
  match l.node with
  | .str _ => max (call cOutputReady) (call 0)
  | .tag .. => max (call cFormatTag) (max (call 0) (call 0))

/-- `Tag.decode` -/
def decodeDepth (cfg : Cfg) (l : Loc) : Nat :=
  call (max (formatterForNameDepth cfg l) (max (eventStreamDepth cfg l) (loopMax (selfAndDescs l) renderPiece)))

/-- `Tag.decode(iterator=self.descendants)` and `decode` of a hidden receiver (the BeautifulSoup object) -/
def decodeBodyDepth (cfg : Cfg) (l : Loc) : Nat :=
  call (max (formatterForNameDepth cfg l) (max (eventStreamContentsDepth cfg l) (loopMax (descs l.anc l.node) renderPiece)))

/-- `encode` = `decode` then `str.encode` (C) -/
def encodeDepth (cfg : Cfg) (l : Loc) : Nat := call (decodeDepth cfg l)
/-- `prettify(encoding)` → `encode(indent_level=0)` → `decode`; `prettify()` → `decode` -/
def prettifyDepth (cfg : Cfg) (l : Loc) : Nat := call (max (decodeDepth cfg l) (encodeDepth cfg l))
/-- `__repr__ = __str__ = decode()` -/
def strDepth (cfg : Cfg) (l : Loc) : Nat := call (decodeDepth cfg l)
/-- `__hash__ = str(self).__hash__()` -/
def hashDepth (cfg : Cfg) (l : Loc) : Nat := call (strDepth cfg l)
/-- `decode_contents` → `decode(iterator=self.descendants)`; `encode_contents` one more -/
def decodeContentsDepth (cfg : Cfg) (l : Loc) : Nat := call (decodeBodyDepth cfg l)
def encodeContentsDepth (cfg : Cfg) (l : Loc) : Nat := call (decodeContentsDepth cfg l)
/-- `BeautifulSoup.decode` → `Tag.decode` -/
def docDecodeDepth (cfg : Cfg) (l : Loc) : Nat := call (decodeBodyDepth cfg l)

/-! ### copying (element.py:1760-1812, 493-500, 1309-1321; bs4/__init__.py:492-503) -/

/-- `copy_self`: `is_xml=self._is_xml`, then the constructor (a whole `BeautifulSoup("")` for a document) -/
def copySelfDepth (cfg : Cfg) (isDoc : Bool) (l : Loc) : Nat :=
  call (max (isXmlDepth cfg (kxOf l.node) l.anc) (call (if isDoc then cSoupInit else cTagInit)))

/-! ### the editing primitives (element.py:552-747, 1918-2164)

    Wherever the editing code tests whether two elements are THE SAME OBJECT (`child is element` in `index`,
    `args[0] is self` / `x is self.parent` in `replace_with`, `x is self` in `insert_before`/`insert_after`,
    `new_child is self` in `_insert`) the accounting charges `ts a b`, the cost of one such test: nothing for the
    identity test the code uses (`idTest`), a call into `Tag.__eq__` if it were written with `==` (`eqTest`). -/

/-- the cost of one "are these two elements the same?" test -/
abbrev Test := Node → Node → Nat

/-- `a is b` -/
def idTest : Test := fun _ _ => 0

/-- `a == b` on two different objects: `Tag.__eq__` (strings compare in C) -/
def eqTest : Test := fun a b => eqDepth a b

/-- `Tag.index`: a loop of tests over the parent's contents -/
def indexDepth (ts : Test) (sibs : List Node) (target : Node) : Nat := call (loopMax sibs (fun s => ts s target))

/-- `extract`: `parent.index(self)`, `_last_descendant()`, pointer writes -/
def extractDepth (ts : Test) (l : Loc) : Nat := call (max (indexDepth ts l.sibs l.node) (lastDescDepth l.node))

/-- `_insert(position, new_child)` of one element that is not a BeautifulSoup object: `new_child is self`,
    `NavigableString(...)`, `self.index(new_child)`, `new_child.extract()`, `previous_child._last_descendant(False)`,
    `new_child._last_descendant(…)`, and the `while parents_next_sibling is None and parent is not None` loop up the
    ancestors -/
def insertOneDepth (ts : Test) (l : Loc) (newChild : Loc) : Nat :=
  call (max (ts newChild.node l.node) (max (call cStrNew) (max (indexDepth ts (kidsOf l.node) newChild.node)
    (max (extractDepth ts newChild)
      (max (loopMax (kidsOf l.node) lastDescDepth) (max (lastDescDepth newChild.node) (loop0 l.anc)))))))

/-- `insert(position, *new_children)`: a loop of `_insert` + `index(just_inserted[-1])`; a BeautifulSoup argument makes
    `_insert` call `insert` once more with the document's children (which are not documents) -/
def insertDepth (ts : Test) (l : Loc) (args : List Loc) (argIsDoc : Bool) : Nat :=
  let plain := call (loopMax args (fun a => max (insertOneDepth ts l a) (indexDepth ts (a.node :: kidsOf l.node) a.node)))
  if argIsDoc then call (call plain) else plain

def appendDepth (ts : Test) (l : Loc) (arg : Loc) (argIsDoc : Bool) : Nat := call (insertDepth ts l [arg] argIsDoc)

/-- `extend`: list(...) then a loop of `append` -/
def extendDepth (ts : Test) (l : Loc) (args : List Loc) : Nat := call (loopMax args (fun a => appendDepth ts l a false))

/-- `replace_with`: `args[0] is self`, `any(x is self.parent for x in args)`, `parent.index`, `extract`,
    `old_parent.insert` -/
def replaceWithDepth (ts : Test) (parent l : Loc) (args : List Loc) : Nat :=
  call (max (loopMax (args.take 1) (fun a => ts a.node l.node))
    (max (loopMax args (fun a => ts a.node parent.node))
      (max (indexDepth ts l.sibs l.node) (max (extractDepth ts l) (insertDepth ts parent args false)))))

/-- `wrap`: `replace_with`, then `wrap_inside.append(me)` -/
def wrapDepth (ts : Test) (parent l wrapper : Loc) : Nat :=
  call (max (replaceWithDepth ts parent l [wrapper]) (appendDepth ts wrapper l false))

/-- `unwrap`: `index`, `extract`, a loop of `insert` over the (reversed) children -/
def unwrapDepth (ts : Test) (parent l : Loc) : Nat :=
  call (max (indexDepth ts l.sibs l.node) (max (extractDepth ts l)
    (loopMax (kidsOf l.node) (fun k => insertDepth ts parent [⟨parent.anc, [], k⟩] false))))

/-- `insert_before` / `insert_after`: `any(x is self for x in args)`, then per argument `extract`, `parent.index`,
    `parent.insert` -/
def insertBesideDepth (ts : Test) (parent l : Loc) (args : List Loc) : Nat :=
  call (max (loopMax args (fun a => ts a.node l.node))
    (loopMax args (fun a => max (extractDepth ts a) (max (indexDepth ts l.sibs l.node) (insertDepth ts parent [a] false)))))

/-- `decompose`: `extract`, then a pointer loop along `next_element` clearing every `__dict__` -/
def decomposeDepth (ts : Test) (l : Loc) : Nat := call (max (extractDepth ts l) (loop0 (selfAndDescs l)))

/-- `clear(decompose)`: a loop over a copy of the children -/
def clearDepth (ts : Test) (l : Loc) (dec : Bool) : Nat :=
  call (loopMax (kidLocs l) (fun k => if dec then decomposeDepth ts k else extractDepth ts k))

/-- the `string` setter: `clear()`, then `append(new_class(string))` -/
def stringSetDepth (ts : Test) (l : Loc) : Nat :=
  call (max (clearDepth ts l false) (max (call cStrNew) (appendDepth ts l ⟨[], [], .str 0⟩ false)))

/-! ### `Tag.__deepcopy__` / `__copy__` -/

/-- per event of the stream: `element.__deepcopy__(memo, recursive=False)` (a `copy_self` for a tag — with THAT
    tag's ancestors —, a constructor call for a string) and `tag_stack[-1].append(clone)` (the clone under
    construction is detached and its target is the last open clone: nothing above it, no siblings after it) -/
def deepcopyPiece (cfg : Cfg) (d : Loc) : Nat :=
  max (match d.node with
       | .str _ => call cStrNew
       | .tag .. => call (copySelfDepth cfg false d))
      (appendDepth idTest ⟨[], [], .tag 0 0 true false []⟩ ⟨[], [], .str 0⟩ false)

def deepcopyDepth (cfg : Cfg) (isDoc : Bool) (l : Loc) : Nat :=
  call (max (copySelfDepth cfg isDoc l) (max (eventStreamContentsDepth cfg l) (loopMax (descs l.anc l.node) (deepcopyPiece cfg))))

/-- `__copy__` → `__deepcopy__({})`; `copy.copy` itself adds one more -/
def copyDepth (cfg : Cfg) (isDoc : Bool) (l : Loc) : Nat := call (call (deepcopyDepth cfg isDoc l))

/-! ### text extraction (element.py:504-550, 1875-1916) and the `.string` getter (:1838-1860) -/

/-- `_all_strings`: a generator over `self.descendants`; per string an `isinstance`/`in` test and `str.strip` (C) -/
def allStringsDepth (l : Loc) : Nat := call (max (descGenDepth l) (loop0 (descs l.anc l.node)))
/-- `get_text` → list comprehension → `_all_strings`; `.text`, `.strings`, `.stripped_strings` the same shape -/
def getTextDepth (l : Loc) : Nat := call (call (allStringsDepth l))

/-- the recursive getter: `return child.string` when the only child is a tag -/
def stringRec : Node → Nat
  | .str _ => 1                                       -- `NavigableString.string`: returns self
  | .tag _ _ _ _ [] => 1
  | .tag _ _ _ _ [k] => 1 + (match k with | .str _ => 0 | .tag .. => stringRec k)
  | .tag _ _ _ _ (_ :: _ :: _) => 1

/-- the chain of only children the loop form follows -/
def soleChain : Node → List Node
  | .tag _ _ _ _ [k] => k :: soleChain k
  | _ => []

/-- the "polymorphic" form of the loop: it keeps going in the same frame through children whose class is exactly `Tag`
    but ASKS a child of a Tag subclass for its own `.string` (a new call). `Node.tag` stands for any instance of `Tag`
    — the library class or a user subclass made through `element_classes`, `isSub` tells which —; the getter bs4 has
    (`isinstance(child, Tag)`: stay in the loop) is the case `isSub = fun _ => false`. -/
def stringPoly (isSub : Node → Bool) : Node → Nat
  | .str _ => 1
  | .tag _ _ _ _ [] => 1
  | .tag _ _ _ _ [k] => (match k with
      | .str _ => 1
      | .tag .. => if isSub k then 1 + stringPoly isSub k else stringPoly isSub k)
  | .tag _ _ _ _ (_ :: _ :: _) => 1

def stringDepth (cfg : Cfg) (t : Node) : Nat :=
  if cfg.stringLoop then call (loop0 (soleChain t)) else stringRec t

/-! ### searching (element.py:1063-1145, 2690-2751; filter.py:97-156, 475-543, 650-668) -/

/-- the criteria as far as they steer calls: an exact name to compare with (`find_all("a")`), whether another kind
    of name rule is present (`True`, a regular expression, a function, a list) and its verdict, an attribute dict
    identity to match, whether a `string=` criterion is present -/
structure Query where
  name : Option Nat
  otherNameRule : Bool
  otherMatches : Bool
  attrs : Option Nat
  str : Bool
deriving Repr

/-- `SoupStrainer.matches_tag` (filter.py:475-543) with its early exits, in order -/
def matchesTagDepth (cfg : Cfg) (q : Query) : Node → Nat
  | .str _ => 0
  | .tag n a kx v ks =>
    if q.name.isNone && !q.otherNameRule && q.attrs.isNone then call 0   -- "String rules cannot match a Tag on their own"
    else if q.name.isSome && !q.otherNameRule && q.name != some n then call 0   -- the one-name fast exit
    else if q.name.isSome && q.name != some n && !(q.otherNameRule && q.otherMatches) then call (call cRuleMatch)
    else if q.name.isNone && q.otherNameRule && !q.otherMatches then call (call cRuleMatch)   -- no name rule matched
    else if q.attrs.isSome && q.attrs != some a then call (call cRuleMatch)   -- `_attribute_match` failed
    else if q.str then                                                 -- `_str = tag.string`, then the string rules
      call (max (call cRuleMatch) (max (stringDepth cfg (.tag n a kx v ks)) (call cRuleMatch)))
    else call (call cRuleMatch)

/-- does `matches_tag` get as far as `_str = tag.string` for this element? (the conjunction of "no early exit was
    taken" above — observable on the real code as a read of the `.string` property) -/
def reachesString (q : Query) : Node → Bool
  | .str _ => false
  | .tag n a _ _ _ =>
    !(q.name.isNone && !q.otherNameRule && q.attrs.isNone) &&
    !(q.name.isSome && !q.otherNameRule && q.name != some n) &&
    !(q.name.isSome && q.name != some n && !(q.otherNameRule && q.otherMatches)) &&
    !(q.name.isNone && q.otherNameRule && !q.otherMatches) &&
    !(q.attrs.isSome && q.attrs != some a) && q.str

/-- the elements of a subtree (document order, identities as in `flatN`) whose `.string` a search reads -/
def stringReads (q : Query) (t : Node) : List Nat :=
  ((flatL 0 t 1 (kidsOf t)).filter (fun e => reachesString q e.node)).map (·.id)

/-- `ElementFilter.match` on one element the generator yielded -/
def matchDepth (cfg : Cfg) (q : Query) (t : Node) : Nat :=
  match t with
  | .str _ => call (call cRuleMatch)
  | .tag .. => call (matchesTagDepth cfg q t)

/-- `_find_all` over whatever the navigation generator yields (`vis`): the strainer is built, then either the fast
    path (a loop of `isinstance`/name tests) or `matcher.find_all` → `filter` (generator) → `match` -/
def searchDepth (cfg : Cfg) (q : Query) (gen : Nat) (vis : List Node) : Nat :=
  call (max (call cStrainerInit) (max gen (call (call (max gen (loopMax vis (matchDepth cfg q)))))))

/-- `find_all` (→ `_find_all` over `self.descendants`); `find`, `__call__`, `__getattr__` add one or two frames -/
def findAllDepth (cfg : Cfg) (q : Query) (l : Loc) : Nat :=
  call (searchDepth cfg q (descGenDepth l) ((descs l.anc l.node).map (·.node)))
def findDepth (cfg : Cfg) (q : Query) (l : Loc) : Nat := call (findAllDepth cfg q l)
def getattrFindDepth (cfg : Cfg) (q : Query) (l : Loc) : Nat := call (findDepth cfg q l)

/-- every other axis (`find_parents`, `find_all_next`, `find_all_previous`, `find_next_siblings`,
    `find_previous_siblings` and their singular forms): the generator is a pointer loop in one frame, the elements
    visited are whatever lies on that axis -/
def findAxisDepth (cfg : Cfg) (q : Query) (vis : List Node) : Nat :=
  call (call (searchDepth cfg q (call (loop0 vis)) vis))

/-! ### `smooth` (element.py:2113-2151) -/

/-- the work on one tag's own children: `b.extract()`, `NavigableString(a + b)`, `a.replace_with(n)`; all three on
    strings (no subtree below them) -/
def smoothWork (l : Loc) : Nat :=
  let s : Loc := ⟨kxOf l.node :: l.anc, kidsOf l.node, .str 0⟩
  max (extractDepth idTest s) (max (call cStrNew) (replaceWithDepth idTest l s [s]))

mutual
/-- the recursive form: `if isinstance(a, Tag): a.smooth()` -/
def smoothRec (anc : List Bool) : Node → Nat
  | .str _ => 0
  | .tag n a kx v ks => call (max (smoothWork ⟨anc, [], .tag n a kx v ks⟩) (smoothRecL (kx :: anc) ks))
def smoothRecL (anc : List Bool) : List Node → Nat
  | [] => 0
  | k :: ks => max (smoothRec anc k) (smoothRecL anc ks)
end

def smoothDepth (cfg : Cfg) (l : Loc) : Nat :=
  if cfg.smoothLoop then
    -- `for tag in [self] + [d for d in self.descendants if isinstance(d, Tag)]: tag._smooth_children()`
    call (max (descGenDepth l) (loopMax ((selfAndDescs l).filter (fun d => isTag d.node)) (fun d => call (smoothWork d))))
  else smoothRec l.anc l.node

/-! ### parsing (bs4/__init__.py:650-664, 786-824, 950-1063) over the tokenizer's event sequence -/

inductive Ev where
  | open (name : Nat) (void : Bool)    -- start tag (`void`: html.parser's builder closes it at once)
  | close (name : Nat)                 -- end tag
  | text
deriving Repr, DecidableEq

/-- an open tag on `tagStack`: object identity and name -/
structure PTag where
  id : Nat
  name : Nat
deriving Repr, DecidableEq

/-- what the parser keeps: `tagStack` (top first, the root object is not in it), `preserve_whitespace_tag_stack`,
    `string_container_stack`, a counter for fresh identities -/
structure PState where
  stack : List PTag
  pre : List PTag
  sc : List PTag
  next : Nat
deriving Repr

/-- which names the builder lists in `preserve_whitespace_tags` / `string_containers`, and the push policy of
    `pushTag`: bs4 pushes EVERY such tag on its side stack (`outermostOnly = false`, bs4/__init__.py:821-824). The
    alternative "only the outermost whitespace-preserving tag matters" (`outermostOnly = true`) builds the same tree
    but breaks the invariant `popTag`'s `==` relies on — kept in the model to show that the bound depends on it. -/
structure Names where
  isPre : Nat → Bool
  isSc : Nat → Bool
  outermostOnly : Bool := false
  /-- `popTag` pops the string-container stack only when it did NOT pop the whitespace stack (`elif` instead of the
      second `if`, bs4/__init__.py:802): equivalent as long as no name is in both tables; kept in the model to show
      that the emptiness of the side stacks after a parse — hence what `__getstate__` hands to pickle — depends on the
      two tests being independent. -/
  scElif : Bool := false

/-- `tag == stack[-1]` in `popTag` (bs4/__init__.py:797-803): `Tag.__eq__` — same object: one frame; different name:
    one frame; otherwise it would recurse into the (still growing) contents: `deep` stands for whatever that costs -/
def popEqCost (deep : Nat) (t : PTag) : List PTag → Nat
  | [] => 0                                  -- `if self.preserve_whitespace_tag_stack and …`: not evaluated
  | p :: _ => if p = t then 1 else if p.name ≠ t.name then 1 else 1 + deep

def popEqPops (t : PTag) : List PTag → List PTag
  | [] => []
  | p :: rest => if p = t then rest else p :: rest

/-- `popTag`: pops `tagStack`, compares the popped tag with the top of both side stacks -/
def popTag (nm : Names) (deep : Nat) (s : PState) : PState × Nat :=
  match s.stack with
  | [] => (s, call 0)
  | t :: rest =>
    let prePopped := s.pre.head? == some t
    (⟨rest, popEqPops t s.pre, if nm.scElif && prePopped then s.sc else popEqPops t s.sc, s.next⟩,
     call (max (popEqCost deep t s.pre) (popEqCost deep t s.sc)))

/-- the `for i in range(stack_size - 1, 0, -1)` loop of `_popToTag` once the name is known to be open: pop until
    (and including) the most recent tag of that name -/
def popTo (nm : Names) (deep : Nat) (name : Nat) : Nat → PState → PState × Nat
  | 0, s => (s, 0)
  | fuel + 1, s =>
    match s.stack with
    | [] => (s, 0)
    | t :: _ =>
      let (s', c) := popTag nm deep s
      if t.name = name then (s', c)
      else
        let (s'', c') := popTo nm deep name fuel s'
        (s'', max c c')

/-- `_popToTag(name)`: nothing when no tag of that name is open (`open_tag_counter`) -/
def popToTag (nm : Names) (deep : Nat) (name : Nat) (s : PState) : PState × Nat :=
  if s.stack.any (fun t => t.name = name) then
    let (s', c) := popTo nm deep name s.stack.length s
    (s', call c)
  else (s, call 0)

/-- `pushTag` (bs4/__init__.py:809-824) -/
def pushTag (nm : Names) (name : Nat) (s : PState) : PState :=
  let t : PTag := ⟨s.next, name⟩
  ⟨t :: s.stack, if nm.isPre name && (!nm.outermostOnly || s.pre.isEmpty) then t :: s.pre else s.pre,
   if nm.isSc name then t :: s.sc else s.sc, s.next + 1⟩

/-- `endData` → `string_container` / `object_was_parsed` → `setup` / `_linkage_fixer` (a loop up the parents) -/
def endDataDepth (s : PState) : Nat := call (call (call (max (loop0 s.stack) (call (loop0 s.stack)))))

/-- one tokenizer event → (state, frames below `_feed`) -/
def step (nm : Names) (deep : Nat) (s : PState) : Ev → PState × Nat
  | .text => (s, cTokenizer + call 0)                             -- `handle_data`: `current_data.append`
  | .close name =>
    let (s', c) := popToTag nm deep name s
    (s', cTokenizer + call (max (endDataDepth s) c))              -- `handle_endtag`: `endData`, `_popToTag`
  | .open name void =>
    let s1 := pushTag nm name s
    let c1 := call (max (endDataDepth s) (max (call cTagInit) (call 0)))   -- `handle_starttag`
    if void then
      let (s2, c2) := popToTag nm deep name s1
      (s2, cTokenizer + max c1 (call (max (endDataDepth s1) c2)))
    else (s1, cTokenizer + c1)

def run (nm : Names) (deep : Nat) : PState → List Ev → PState × Nat
  | s, [] => (s, 0)
  | s, e :: es =>
    let (s', c) := step nm deep s e
    let (s'', c') := run nm deep s' es
    (s'', max c c')

/-- the closing `while self.currentTag.name != ROOT_TAG_NAME: self.popTag()` of `_feed` -/
def popAll (nm : Names) (deep : Nat) : Nat → PState → Nat
  | 0, _ => 0
  | fuel + 1, s =>
    match s.stack with
    | [] => 0
    | _ :: _ =>
      let (s', c) := popTag nm deep s
      max c (popAll nm deep fuel s')

def initState : PState := ⟨[], [], [], 0⟩

/-- the state the closing loop of `_feed` leaves -/
def closeAll (nm : Names) (deep : Nat) : Nat → PState → PState
  | 0, s => s
  | fuel + 1, s =>
    match s.stack with
    | [] => s
    | _ :: _ => closeAll nm deep fuel (popTag nm deep s).1

/-- the parser-side state of the document object after `_feed` -/
def feedState (nm : Names) (deep : Nat) (evs : List Ev) : PState :=
  let s := (run nm deep initState evs).1
  closeAll nm deep s.stack.length s

/-- the tree objects the document object's parser attributes still reference after a parse: what is left on
    `tagStack` above the document object itself, on `preserve_whitespace_tag_stack` and on `string_container_stack`
    (`_most_recent_element` is deleted by `__getstate__`, `currentTag` is `tagStack[-1]`) -/
def leftover (s : PState) : List PTag := s.stack ++ s.pre ++ s.sc

/-- `_feed`: `builder.feed(markup)` (every event), `endData`, then close what is still open -/
def feedDepth (nm : Names) (deep : Nat) (evs : List Ev) : Nat :=
  let (s, c) := run nm deep initState evs
  call (max c (max (endDataDepth s) (popAll nm deep s.stack.length s)))

/-- `BeautifulSoup(markup, "html.parser")`: constructor → `_feed` -/
def parseDepth (nm : Names) (deep : Nat) (evs : List Ev) : Nat := call (call (feedDepth nm deep evs))

mutual
/-- the tokenizer events of a tree's rendering (what `__setstate__` feeds back) -/
def toEvents : Node → List Ev
  | .str _ => [.text]
  | .tag n _ _ v ks => if v && ks.isEmpty then [.open n true] else .open n false :: (toEventsL ks ++ [.close n])
def toEventsL : List Node → List Ev
  | [] => []
  | k :: ks => toEvents k ++ toEventsL ks
end

/-! ### pickling a document (bs4/__init__.py:505-532) -/

/-- what an attribute of the document object holds, as far as pickling cares: only flat values (None, numbers,
    strings, classes, the builder, empty containers), the document object itself (possibly in a list: pickle's memo
    stops there), or tree objects (`k` of them, directly or inside a container) -/
inductive Val where
  | flat
  | self
  | tree (k : Nat)
deriving Repr, DecidableEq

/-- the attributes of the document object the mirror distinguishes -/
inductive Key where
  | contents | nextElement | nextSibling | previousElement | previousSibling | parent
  | tagStack | currentTag | preserveStack | containerStack | mostRecent
  | builder | markup | currentData | openTagCounter
deriving Repr, DecidableEq

def Key.name : Key → String
  | .contents => "contents" | .nextElement => "next_element" | .nextSibling => "next_sibling"
  | .previousElement => "previous_element" | .previousSibling => "previous_sibling" | .parent => "parent"
  | .tagStack => "tagStack" | .currentTag => "currentTag" | .preserveStack => "preserve_whitespace_tag_stack"
  | .containerStack => "string_container_stack" | .mostRecent => "_most_recent_element"
  | .builder => "builder" | .markup => "markup" | .currentData => "current_data" | .openTagCounter => "open_tag_counter"

structure Field where
  key : Key
  val : Val
deriving Repr, DecidableEq

def Val.ofRefs (k : Nat) (orElse : Val := .flat) : Val := if k = 0 then orElse else .tree k

/-- `self.__dict__` of a BeautifulSoup object: its parser-side attributes after a parse that left `parser`
    (bs4/__init__.py:666-680 `reset`, :786-824), the Tag attributes of the root (`contents`, the five links), and the
    rest (flat). `hasKids`: the document has children; `rootLinked`: `next_element` points into the tree (set by
    `_insert` at position 0 — `soup.insert(0, …)`, or the `append`s of `__deepcopy__` on a copy); `mostRecent`:
    `_most_recent_element` still names the last parsed element (any parse of non-empty markup). -/
def soupDict (parser : PState) (hasKids rootLinked mostRecent : Bool) : List Field :=
  [ ⟨.contents, if hasKids then .tree 1 else .flat⟩,
    ⟨.nextElement, if rootLinked then .tree 1 else .flat⟩,
    ⟨.nextSibling, .flat⟩, ⟨.previousElement, .flat⟩, ⟨.previousSibling, .flat⟩, ⟨.parent, .flat⟩,
    ⟨.tagStack, Val.ofRefs parser.stack.length .self⟩,                  -- `[self] + open tags`
    ⟨.currentTag, Val.ofRefs parser.stack.length .self⟩,                -- `tagStack[-1]`
    ⟨.preserveStack, Val.ofRefs parser.pre.length⟩,
    ⟨.containerStack, Val.ofRefs parser.sc.length⟩,
    ⟨.mostRecent, if mostRecent then .tree 1 else .flat⟩,
    ⟨.builder, .flat⟩, ⟨.markup, .flat⟩, ⟨.currentData, .flat⟩, ⟨.openTagCounter, .flat⟩ ]

/-- `BeautifulSoup.__getstate__` (bs4/__init__.py:505-526), statement by statement on the dict -/
def getstateImpl (cfg : Cfg) (d : List Field) : List Field :=
  -- d = dict(self.__dict__); the builder is replaced by its class when it is not picklable (flat either way)
  -- d["contents"] = []; d["markup"] = self.decode()
  let d1 := d.map (fun f => if f.key == .contents || f.key == .markup then ⟨f.key, .flat⟩ else f)
  -- for link in (…): d[link] = None              (the repair; absent in the unrepaired form)
  let d2 := if cfg.dropLinks then
      d1.map (fun f => if f.key == .nextElement || f.key == .nextSibling || f.key == .previousElement ||
                          f.key == .previousSibling then ⟨f.key, .flat⟩ else f)
    else d1
  -- if "_most_recent_element" in d: del d["_most_recent_element"]
  d2.filter (fun f => f.key != .mostRecent)

def Val.refs : Val → Nat
  | .tree k => k
  | _ => 0

/-- how many references to tree objects a dict holds -/
def dictRefs (d : List Field) : Nat := (d.map (fun f => f.val.refs)).sum

/-- how many references to tree objects the state dict `__getstate__` returns still holds -/
def stateRefs (cfg : Cfg) (rootLinked : Bool) (parser : PState) : Nat :=
  dictRefs (getstateImpl cfg (soupDict parser true rootLinked true))

/-- default pickling of the state dict: the pickler recurses into every object it can reach. From ONE tree object it
    reaches every other one through `next_element`/`contents`/`parent`: at least one nested `save` per element. With
    no tree object in the dict it sees only flat values. -/
def picklerWalk (cfg : Cfg) (rootLinked : Bool) (parser : PState) (l : Loc) : Nat :=
  if stateRefs cfg rootLinked parser = 0 then 0 else sizeN l.node

/-- `pickle.dumps(soup)`: `__getstate__` (→ `decode`), then the pickler over the dict; `pickle.loads`: `__setstate__`
    → `reset`, `_feed` on the stored markup. `parser` = the parser-side state the document object carries (for a
    parsed document: `feedState` of its markup). -/
def pickleDepth (cfg : Cfg) (nm : Names) (deep : Nat) (rootLinked : Bool) (parser : PState) (l : Loc) : Nat :=
  max (call (max (call (docDecodeDepth cfg l)) (picklerWalk cfg rootLinked parser l)))
      (call (call (feedDepth nm deep (toEventsL (kidsOf l.node)))))

/-! ### the shape families of the witnesses -/

/-- `<a><a>…<a></a>t…</a>t</a>` — n+1 nested tags, a trailing text after every level but the outermost one's own
    parent; every tag made with a builder -/
def chainWithTrailingText : Nat → Node
  | 0 => .tag 1 0 true false []
  | n + 1 => .tag 1 0 true false [chainWithTrailingText n, .str 2]

/-- `<a><a>…<a></a><b></b>…</a><b></b></a>` — a trailing sibling tag at every level -/
def chainWithTrailingSibling : Nat → Node
  | 0 => .tag 1 0 true false []
  | n + 1 => .tag 1 0 true false [chainWithTrailingSibling n, .tag 2 0 true false []]

/-- `<a><a>…<a>x</a>…</a></a>` — a pure chain of n+1 tags around one string -/
def pureChain : Nat → Node
  | 0 => .tag 1 0 true false [.str 1]
  | n + 1 => .tag 1 0 true false [pureChain n]

/-- a tag at the top of a tree -/
def atTop (t : Node) : Loc := ⟨[], [t], t⟩

end BS.Depth
