import BSModel.Base.PStr
import BSModel.Gen.Detwingle
/-! # Smart-quote substitution and `detwingle` (bs4/dammit.py)

Code-mirror of `UnicodeDammit._sub_ms_char` (dammit.py:876-908), the smart-quote hook of
`UnicodeDammit._convert_from` (dammit.py:930-967), the candidate loop of `UnicodeDammit.__init__`
(dammit.py:807-843) restricted to the detector's order `known…, utf-8, windows-1252`
(dammit.py:594-643; no BOM, no in-document declaration, no chardet), and of
`UnicodeDammit.detwingle` (dammit.py:1337-1408), plus the specification side: UTF-8 encoding /
strict decoding defined here, the reference un-escaper, and a structural formulation of the scan.

Bytes and code points are `Nat`s.  All tables come from `BSModel/Gen/Detwingle.lean`. -/
namespace BS.Detwingle
open BS

/-! ## UTF-8 (specification side; defined here, compared with CPython's codec by the harness) -/

/-- Unicode scalar value: a code point that is not a surrogate. -/
def IsScalar (c : Nat) : Prop := c < 0xD800 ∨ (0xE000 ≤ c ∧ c < 0x110000)

instance : DecidablePred IsScalar := fun c => by unfold IsScalar; exact inferInstance

/-- UTF-8 encoding of one code point (the standard bit layout). -/
def encodeUtf8 (c : Nat) : Bytes :=
  if c < 0x80 then [c]
  else if c < 0x800 then [0xC0 + c / 64, 0x80 + c % 64]
  else if c < 0x10000 then [0xE0 + c / 4096, 0x80 + c / 64 % 64, 0x80 + c % 64]
  else [0xF0 + c / 262144, 0x80 + c / 4096 % 64, 0x80 + c / 64 % 64, 0x80 + c % 64]

/-- `str.encode()` (UTF-8) of a string of scalar values. -/
def utf8 (s : PStr) : Bytes := s.flatMap encodeUtf8

/-- Well-formed UTF-8: the encoding of some sequence of Unicode scalar values. -/
def ValidUtf8 (bs : Bytes) : Prop := ∃ s : PStr, (∀ c ∈ s, IsScalar c) ∧ bs = utf8 s

def isCont (b : Nat) : Bool := 0x80 ≤ b && b ≤ 0xBF

/-- Strict UTF-8 decoder (Unicode Table 3-7: no overlong forms, no surrogates, nothing above
    U+10FFFF); `none` = `UnicodeDecodeError`. -/
def decodeUtf8 : Bytes → Option PStr
  | [] => some []
  | b0 :: rest =>
    if b0 < 0x80 then (decodeUtf8 rest).map (b0 :: ·)
    else if 0xC2 ≤ b0 && b0 ≤ 0xDF then
      match rest with
      | b1 :: r =>
        if isCont b1 then (decodeUtf8 r).map (((b0 - 0xC0) * 64 + (b1 - 0x80)) :: ·) else none
      | _ => none
    else if 0xE0 ≤ b0 && b0 ≤ 0xEF then
      match rest with
      | b1 :: b2 :: r =>
        if (if b0 = 0xE0 then 0xA0 else 0x80) ≤ b1 && b1 ≤ (if b0 = 0xED then 0x9F else 0xBF) && isCont b2 then
          (decodeUtf8 r).map (((b0 - 0xE0) * 4096 + (b1 - 0x80) * 64 + (b2 - 0x80)) :: ·)
        else none
      | _ => none
    else if 0xF0 ≤ b0 && b0 ≤ 0xF4 then
      match rest with
      | b1 :: b2 :: b3 :: r =>
        if (if b0 = 0xF0 then 0x90 else 0x80) ≤ b1 && b1 ≤ (if b0 = 0xF4 then 0x8F else 0xBF)
            && isCont b2 && isCont b3 then
          (decodeUtf8 r).map
            (((b0 - 0xF0) * 262144 + (b1 - 0x80) * 4096 + (b2 - 0x80) * 64 + (b3 - 0x80)) :: ·)
        else none
      | _ => none
    else none

/-! ## Smart quotes -/

/-- `smart_quotes_to`: `None`, `"xml"`, `"html"`, `"ascii"`. (Any other string behaves like `"html"`
    in `_sub_ms_char`: dammit.py:896-899 tests only for `"ascii"` and `"xml"`.) -/
inductive Mode | none | xml | html | ascii
  deriving DecidableEq, Repr

/-- An `MS_CHARS` value: a plain string or an `(entity name, hex digits)` pair. -/
abbrev MsEntry := PStr ⊕ (PStr × PStr)

/-- The tables `_sub_ms_char` reads. -/
structure MsTables where
  msChars : List (Nat × MsEntry)
  toAscii : List (Nat × PStr)

def liveTables : MsTables := ⟨Gen.Detwingle.msChars, Gen.Detwingle.msCharsToAscii⟩

/-- `_sub_ms_char` (dammit.py:876-908) for the matched byte `orig`, mode ≠ None. -/
def subMsCharWith (t : MsTables) (mode : Mode) (orig : Nat) : Bytes :=
  if mode = .ascii then                                   -- :885
    match t.toAscii.lookup orig with                     -- :886
    | some s => utf8 s                                    -- :887 `.encode()`
    | none => [orig]                                      -- :891
  else
    match t.msChars.lookup orig with                     -- :893
    | some (.inr (name, hex)) =>                          -- :895 `type(substitutions) is tuple`
      if mode = .xml then [38, 35, 120] ++ utf8 hex ++ [59]   -- :897  b"&#x" + … + b";"
      else [38] ++ utf8 name ++ [59]                      -- :899  b"&" + … + b";"
    | some (.inl s) => utf8 s                             -- :902
    | none => [orig]                                      -- :906

def subMsChar : Mode → Nat → Bytes := subMsCharWith liveTables

/-- `b"([\x80-\x9f])"` (dammit.py:952). -/
def isSmart (b : Nat) : Bool := 0x80 ≤ b && b ≤ 0x9F

/-- `smart_quotes_compiled.sub(self._sub_ms_char, markup)` (dammit.py:954). -/
def substituteWith (t : MsTables) (mode : Mode) (markup : Bytes) : Bytes :=
  markup.flatMap fun b => if isSmart b then subMsCharWith t mode b else [b]

def substitute : Mode → Bytes → Bytes := substituteWith liveTables

/-- Encoding names as code point lists (literals: `ofS` is slow to evaluate in the kernel). -/
def nUtf8 : PStr := [117, 116, 102, 45, 56]                                          -- "utf-8"
def nWindows1252 : PStr := [119, 105, 110, 100, 111, 119, 115, 45, 49, 50, 53, 50]    -- "windows-1252"
def nIso88591 : PStr := [105, 115, 111, 45, 56, 56, 53, 57, 45, 49]                  -- "iso-8859-1"
def nIso88592 : PStr := [105, 115, 111, 45, 56, 56, 53, 57, 45, 50]                  -- "iso-8859-2"
def nLatin1 : PStr := [108, 97, 116, 105, 110, 45, 49]                               -- "latin-1"
def nCp1252 : PStr := [99, 112, 49, 50, 53, 50]                                      -- "cp1252"
def nAscii : PStr := [97, 115, 99, 105, 105]                                         -- "ascii"

def nUtf16be : PStr := [117, 116, 102, 45, 49, 54, 98, 101]                          -- "utf-16be"
def nUtf16le : PStr := [117, 116, 102, 45, 49, 54, 108, 101]                         -- "utf-16le"
def nUtf32be : PStr := [117, 116, 102, 45, 51, 50, 98, 101]                          -- "utf-32be"
def nUtf32le : PStr := [117, 116, 102, 45, 51, 50, 108, 101]                         -- "utf-32le"

/-- What CPython's codec registry says about a spelling (generated for a finite universe of spellings;
    `unlisted` = the generated table has no row for it: the model does not know). -/
inductive CodecInfo
  | table (t : List (Option Nat))   -- a single-byte codec the model knows byte by byte
  | utf8
  | other                            -- some other codec (UTF-16, Shift-JIS, …): exists, not modelled
  | notACodec                        -- `codecs.lookup` raises LookupError
  | unlisted
  deriving DecidableEq

def codecInfo (name : PStr) : CodecInfo :=
  match Gen.Detwingle.codecNames.lookup name with
  | none => .unlisted
  | some 0 => .notACodec
  | some 1 => .utf8
  | some 2 => .other
  | some (i + 3) =>
    match Gen.Detwingle.codecTables[i]? with
    | some t => .table t
    | none => .unlisted

/-- A codec as the model sees it: a 256-entry single-byte table (from CPython), or UTF-8. -/
inductive Codec
  | table (t : List (Option Nat))
  | utf8
  deriving DecidableEq

/-- Codec of a spelling CPython accepts; `none` = not a codec, or one the model does not decode. -/
def codecOf (name : PStr) : Option Codec :=
  match codecInfo name with
  | .table t => some (.table t)
  | .utf8 => some .utf8
  | _ => none

def tableByte (t : List (Option Nat)) (b : Nat) : Option Nat := (t[b]?).join

/-- charmap decoding, strict: fails on the first byte the table leaves undefined. -/
def decodeTable (t : List (Option Nat)) : Bytes → Option PStr
  | [] => some []
  | b :: bs =>
    match tableByte t b with
    | none => none
    | some ch => (decodeTable t bs).map (ch :: ·)

/-- `str(data, encoding, "strict")`; `none` = `UnicodeDecodeError`. -/
def decodeStrict : Codec → Bytes → Option PStr
  | .table t, bs => decodeTable t bs
  | .utf8, bs => decodeUtf8 bs

/-- `str(data, encoding, "replace")` for a single-byte table codec (each undefined byte → U+FFFD).
    UTF-8 with `replace` is outside the model (see `attempt`). -/
def decodeReplace : Codec → Bytes → Option PStr
  | .table t, bs => some (bs.map fun b => (tableByte t b).getD 0xFFFD)
  | .utf8, _ => none

/-- `proposed in self.ENCODINGS_WITH_SMART_QUOTES` (dammit.py:949): a comparison of *names*. -/
def isCarrier (name : PStr) : Bool := Gen.Detwingle.encodingsWithSmartQuotes.contains name

/-- The conversion part of `_convert_from` (dammit.py:944-967) for an already looked-up codec name:
    substitute when a mode is set and the name is a smart-quote carrier, then decode. -/
def convertWith (t : MsTables) (name : PStr) (mode : Mode) (replace : Bool) (markup : Bytes) : Option PStr :=
  match codecOf name with
  | none => none
  | some c =>
    let markup := if mode ≠ .none && isCarrier name then substituteWith t mode markup else markup
    if replace then decodeReplace c markup else decodeStrict c markup

def convertFrom (name : PStr) (mode : Mode) (markup : Bytes) : Option PStr :=
  convertWith liveTables name mode false markup

/-! ### The whole constructor: BOM, candidate order, `find_codec`, `tried_encodings`, two passes -/

/-- `str.lower()` on ASCII names. -/
def asciiLower (s : PStr) : PStr := s.map fun c => if 65 ≤ c && c ≤ 90 then c + 32 else c

/-- `EncodingDetector.strip_byte_order_mark` (dammit.py:646-676). -/
def stripBom (data : Bytes) : Bytes × Option PStr :=
  if data.take 2 = [0xFE, 0xFF] ∧ (data.drop 2).take 2 ≠ [0, 0] then (data.drop 2, some nUtf16be)        -- :659
  else if data.take 2 = [0xFF, 0xFE] ∧ (data.drop 2).take 2 ≠ [0, 0] then (data.drop 2, some nUtf16le)   -- :662
  else if data.take 3 = [0xEF, 0xBB, 0xBF] then (data.drop 3, some nUtf8)                                 -- :665
  else if data.take 4 = [0, 0, 0xFE, 0xFF] then (data.drop 4, some nUtf32be)                              -- :668
  else if data.take 4 = [0xFF, 0xFE, 0, 0] then (data.drop 4, some nUtf32le)                              -- :671
  else (data, none)

/-- `EncodingDetector.encodings` (dammit.py:594-643) with `_usable` (dammit.py:574-589): the known
    encodings, the BOM's encoding, the declared encoding, then `utf-8`, `windows-1252`; a name is dropped
    when its lower-cased form was already yielded.  `known` already includes the deprecated
    `override_encodings` (appended at dammit.py:608, `+=`); `user` = `user_encodings` (dammit.py:616-618);
    `exclude_encodings` empty, no chardet.  `declared` is what `find_declared_encoding` returns — a
    parameter here; the theorems hold for every value of it. -/
def detectorEncodingsU (known : List PStr) (sniffed : Option PStr) (user : List PStr) (declared : Option PStr) : List PStr :=
  ((known ++ sniffed.toList ++ user ++ declared.toList ++ [nUtf8, nWindows1252]).foldl
    (fun (acc : List PStr × List PStr) e =>
      if acc.2.contains (asciiLower e) then acc else (acc.1 ++ [e], acc.2 ++ [asciiLower e])) ([], [])).1

def detectorEncodings (known : List PStr) (sniffed declared : Option PStr) : List PStr :=
  detectorEncodingsU known sniffed [] declared

def replaceDash (r : PStr) (s : PStr) : PStr := s.flatMap fun c => if c = 45 then r else [c]

/-- `codecs.lookup(name)` succeeds. -/
def codecKnown (name : PStr) : Bool :=
  match codecInfo name with
  | .notACodec | .unlisted => false
  | _ => true

/-- `UnicodeDammit._codec` (dammit.py:1005-1014); `none` also stands for the falsy `""`. -/
def pyCodec (charset : PStr) : Option PStr :=
  if charset = [] then none else if codecKnown charset then some charset else none

/-- `UnicodeDammit.find_codec` (dammit.py:988-1003). -/
def findCodec (charset : PStr) : Option PStr :=
  let value :=
    (pyCodec ((Gen.Detwingle.charsetAliases.lookup charset).getD charset)).orElse fun _ =>       -- :995
    (if charset = [] then none else pyCodec (replaceDash [] charset)).orElse fun _ =>              -- :996
    (if charset = [] then none else pyCodec (replaceDash [95] charset)).orElse fun _ =>            -- :997
    (if charset = [] then none else some (asciiLower charset))                                     -- :998
  value.map asciiLower                                                                             -- :1001-1002

/-- Every spelling `find_codec` and the decoder consult for `charset` has a row in the generated table
    (otherwise the model's answer for that name is a guess and the harness does not compare). -/
def namesListed (charset : PStr) : Bool :=
  let listed := fun n => n = [] || (Gen.Detwingle.codecNames.lookup n).isSome
  listed ((Gen.Detwingle.charsetAliases.lookup charset).getD charset) && listed (replaceDash [] charset) &&
  listed (replaceDash [95] charset) && listed (asciiLower charset) &&
  (match findCodec charset with | some r => listed r | none => true)

/-- Result of one `_convert_from` call. -/
inductive Att
  | ok (u : PStr)
  | fail            -- returned None
  | beyond          -- a codec the model does not decode (UTF-16/32, multi-byte codecs, UTF-8 with "replace")
  deriving DecidableEq, Repr

/-- `_convert_from` after the `tried_encodings` bookkeeping (dammit.py:937-959) for the looked-up name `r`. -/
def attempt (t : MsTables) (r : PStr) (mode : Mode) (replace : Bool) (data : Bytes) : Att :=
  -- CPython: `str(b"", anything, …)` is `""` without looking the codec up (BOM-only input); since 62e9858 `_to_unicode`
  -- asks the codec first for empty data (`"".encode(encoding)`): a name that is no codec fails like for any other data,
  -- a text codec (every listed `other` codec is one: the translator asserts it) decodes nothing to nothing
  if data = [] then (match codecInfo r with | .notACodec => .fail | .unlisted => .beyond | _ => .ok []) else
  match codecInfo r with
  | .notACodec => .fail                                   -- `str(data, r, …)` raises LookupError, caught :954
  | .other | .unlisted => .beyond
  | .utf8 => if replace then .beyond else
      match convertWith t r mode false data with | some u => .ok u | none => .fail
  | .table _ => match convertWith t r mode replace data with | some u => .ok u | none => .fail

abbrev Tried := List (PStr × Bool)

/-- `_convert_from(proposed, errors)` (dammit.py:922-959) on the state `tried_encodings`. -/
def convertFromSt (t : MsTables) (mode : Mode) (data : Bytes) (tried : Tried) (proposed : PStr) (replace : Bool) :
    Tried × Option PStr × Att :=
  match findCodec proposed with                                            -- :932
  | none => (tried, none, .fail)                                           -- :933-934
  | some r =>
    if tried.contains (r, replace) then (tried, none, .fail)               -- :933-934
    else (tried ++ [(r, replace)], some r, attempt t r mode replace data)  -- :936 ff.

/-- Outcome of the constructor. -/
inductive Outcome
  | ok (unicodeMarkup : PStr) (containsReplacement : Bool) (originalEncoding : Option PStr)
  | failed           -- unicode_markup is None
  | beyond           -- decided by a codec the model does not decode
  deriving DecidableEq, Repr

/-- First loop of `UnicodeDammit.__init__` (dammit.py:802-807). -/
def pass1 (t : MsTables) (mode : Mode) (data : Bytes) : List PStr → Tried → Tried × Option Outcome
  | [], tried => (tried, none)
  | e :: es, tried =>
    match convertFromSt t mode data tried e false with
    | (tried, r, .ok u) => (tried, some (.ok u false r))
    | (tried, _, .beyond) => (tried, some .beyond)
    | (tried, _, .fail) => pass1 t mode data es tried

/-- Second loop (dammit.py:809-825): `errors="replace"`, the literal name `"ascii"` skipped. -/
def pass2 (t : MsTables) (mode : Mode) (data : Bytes) : List PStr → Tried → Tried × Option Outcome
  | [], tried => (tried, none)
  | e :: es, tried =>
    if e = nAscii then pass2 t mode data es tried                                       -- :814
    else match convertFromSt t mode data tried e true with
      | (tried, r, .ok u) => (tried, some (.ok u true r))
      | (tried, _, .beyond) => (tried, some .beyond)
      | (tried, _, .fail) => pass2 t mode data es tried

/-- `UnicodeDammit(markup, known, smart_quotes_to=mode)` (dammit.py:766-838) for `bytes` markup:
    `unicode_markup`, `contains_replacement_characters`, `original_encoding`. -/
def unicodeDammitWithU (t : MsTables) (known user : List PStr) (declared : Option PStr) (mode : Mode) (markup : Bytes) : Outcome :=
  if markup = [] then .ok [] false none                                    -- :792-796
  else
    let (data, sniffed) := stripBom markup                                 -- :800 (detector.markup)
    let cs := detectorEncodingsU known sniffed user declared
    match pass1 t mode data cs [] with
    | (_, some o) => o
    | (tried, none) =>
      match pass2 t mode data cs tried with                                -- :809 `if u is None`
      | (_, some o) => o
      | (_, none) => .failed                                               -- :833-835

/-- without `user_encodings` -/
def unicodeDammitWith (t : MsTables) (known : List PStr) (declared : Option PStr) (mode : Mode) (markup : Bytes) : Outcome :=
  unicodeDammitWithU t known [] declared mode markup

def unicodeDammit : List PStr → Option PStr → Mode → Bytes → Outcome := unicodeDammitWith liveTables

/-- `UnicodeDammit(markup, known_definite_encodings=known, smart_quotes_to=mode, user_encodings=user,
    override_encodings=override)`: the constructor's keyword/positional binding is not modelled (every
    call form must bind the same parameters; the harness runs them all), its effect is. -/
def unicodeDammitFull (known override user : List PStr) (declared : Option PStr) (mode : Mode) (markup : Bytes) : Outcome :=
  unicodeDammitWithU liveTables (known ++ override) user declared mode markup

/-- One constructor call: `UnicodeDammit(markup, known, smart_quotes_to=mode)` on a document whose
    declaration (if any) names `declared`. -/
structure DammitCall where
  known : List PStr
  declared : Option PStr
  mode : Mode
  markup : Bytes
  override : List PStr := []
  user : List PStr := []

def runCall (c : DammitCall) : Outcome := unicodeDammitFull c.known c.override c.user c.declared c.mode c.markup

/-- State a sequence of calls in one process could share.  In bs4 4.13 there is none: `find_codec`,
    `_convert_from` and `detwingle` read class constants only and `tried_encodings` lives on the object. -/
structure ProcState where
  deriving DecidableEq

/-- one call in a process: new object (fresh `tried_encodings`), result, unchanged class state -/
def stepCall (st : ProcState) (c : DammitCall) : ProcState × Outcome := (st, runCall c)

/-- A history of calls in one process, threading the process state. -/
def runCallsFrom : ProcState → List DammitCall → List Outcome
  | _, [] => []
  | st, c :: cs => let (st', o) := stepCall st c; o :: runCallsFrom st' cs

def runCalls (cs : List DammitCall) : List Outcome := runCallsFrom {} cs

/-! ### Reference un-escaper (specification side) -/

def hexVal (c : Nat) : Option Nat :=
  if 48 ≤ c && c ≤ 57 then some (c - 48)
  else if 65 ≤ c && c ≤ 70 then some (c - 55)
  else if 97 ≤ c && c ≤ 102 then some (c - 87)
  else none

/-- Value of a non-empty string of hex digits. -/
def parseHex (s : PStr) : Option Nat :=
  if s.isEmpty then none else s.foldl (fun acc c => acc.bind fun a => (hexVal c).map fun d => a * 16 + d) (some 0)

/-- What a character reference denotes: `&#xH;` ↦ code point `H`; `&name;` ↦ the html5 entity table
    (the generated restriction to the names `MS_CHARS` mentions), single code point only.
    `none` = not a well-formed reference. -/
def unescapeRef (s : PStr) : Option Nat :=
  match s with
  | 38 :: rest =>                                   -- '&'
    match rest.getLast? with
    | some 59 =>                                    -- ';'
      let body := rest.dropLast
      match body with
      | 35 :: x :: hex =>                           -- '#x' / '#X'
        if x = 120 ∨ x = 88 then parseHex hex else none
      | _ =>
        match Gen.Detwingle.html5Subset.lookup body with
        | some [c] => some c
        | _ => none
    | _ => none
  | _ => none

/-- Un-escape every `&…;` reference in a string: a state machine whose `pending` holds the text since an
    open `&`; a `;` closes it (replaced by what `unescapeRef` says, kept literally if that is no reference),
    another `&` or the end of the string flushes it literally.  On the strings the smart-quote conversion
    produces from `&`-free input this is what `html.unescape` does (compared by the harness). -/
def unescapeGo : Option PStr → PStr → PStr
  | none, [] => []
  | some buf, [] => buf
  | none, c :: rest => if c = 38 then unescapeGo (some [38]) rest else c :: unescapeGo none rest
  | some buf, c :: rest =>
    if c = 59 then
      match unescapeRef (buf ++ [59]) with
      | some x => x :: unescapeGo none rest
      | none => buf ++ 59 :: unescapeGo none rest
    else if c = 38 then buf ++ unescapeGo (some [38]) rest
    else unescapeGo (some (buf ++ [c])) rest

def unescapeAll (s : PStr) : PStr := unescapeGo none s

/-! ## detwingle -/

/-- The class attributes `detwingle` reads. -/
structure Cfg where
  markers : List (Nat × Nat × Nat)      -- MULTIBYTE_MARKERS_AND_SIZES
  first : Nat                            -- FIRST_MULTIBYTE_MARKER
  last : Nat                             -- LAST_MULTIBYTE_MARKER
  table : List (Nat × Bytes)             -- WINDOWS_1252_TO_UTF8

def liveCfg : Cfg :=
  ⟨Gen.Detwingle.multibyteMarkersAndSizes, Gen.Detwingle.firstMultibyteMarker,
   Gen.Detwingle.lastMultibyteMarker, Gen.Detwingle.windows1252ToUtf8⟩

/-- dammit.py:1381 -/
def Cfg.isMarker (c : Cfg) (b : Nat) : Bool := c.first ≤ b && b ≤ c.last

/-- dammit.py:1384-1387: size of the first range containing `b`; `none` = the `for` falls through. -/
def Cfg.sizeOf? (c : Cfg) (b : Nat) : Option Nat :=
  (c.markers.find? fun m => m.1 ≤ b && b ≤ m.2.1).map (·.2.2)

/-- dammit.py:1388: `byte >= 0x80 and byte in cls.WINDOWS_1252_TO_UTF8` → its replacement. -/
def Cfg.conv? (c : Cfg) (b : Nat) : Option Bytes := if 0x80 ≤ b then c.table.lookup b else none

/-- `in_bytes[a:b]` for `a ≤ b`. -/
def slice (l : Bytes) (a b : Nat) : Bytes := (l.drop a).take (b - a)

/-- The `while pos < len(in_bytes)` loop of `detwingle` (dammit.py:1379-1400), statement by statement,
    on `(pos, chunk_start, byte_chunks)`.  `fuel` bounds the iterations; running out of it means the
    real loop does not advance (`none` = the call would hang: a lead byte inside FIRST..LAST that no
    range covers, or a size 0). -/
def loopImpl (c : Cfg) (inb : Bytes) : Nat → Nat → Nat → List Bytes → Option (Nat × List Bytes)
  | 0, pos, cs, chunks => if pos < inb.length then none else some (cs, chunks)
  | fuel + 1, pos, cs, chunks =>
    if pos < inb.length then                                       -- :1379
      let byte := inb.getD pos 0                                   -- :1380
      if c.isMarker byte then                                      -- :1381
        match c.sizeOf? byte with                                  -- :1384-1387
        | some size => loopImpl c inb fuel (pos + size) cs chunks
        | none => none                                             -- pos never advances
      else
        match c.conv? byte with                                    -- :1388
        | some rep =>
          loopImpl c inb fuel (pos + 1) (pos + 1) (chunks ++ [slice inb cs pos, rep])   -- :1391-1397
        | none => loopImpl c inb fuel (pos + 1) cs chunks          -- :1400
    else some (cs, chunks)

/-- `detwingle` with default encodings (dammit.py:1374-1408); `none` = the call does not terminate. -/
def detwingleImplWith (c : Cfg) (inb : Bytes) : Option Bytes :=
  match loopImpl c inb (inb.length + 1) 0 0 [] with
  | none => none
  | some (cs, chunks) =>
    if cs = 0 then some inb                                        -- :1401-1403
    else some (chunks ++ [inb.drop cs]).flatten                    -- :1406-1408

def detwingleImpl : Bytes → Option Bytes := detwingleImplWith liveCfg

/-- Specification of the scan as a structural recursion: `skip` = bytes still to be passed over
    because a lead byte announced them. -/
def scan (c : Cfg) : Nat → Bytes → Option Bytes
  | _, [] => some []
  | skip + 1, b :: rest => (scan c skip rest).map (b :: ·)
  | 0, b :: rest =>
    if c.isMarker b then
      match c.sizeOf? b with
      | some (size + 1) => (scan c size rest).map (b :: ·)
      | _ => none
    else
      match c.conv? b with
      | some rep => (scan c 0 rest).map (rep ++ ·)
      | none => (scan c 0 rest).map (b :: ·)

def detwingleWith (c : Cfg) (inb : Bytes) : Option Bytes := scan c 0 inb

def detwingle : Bytes → Option Bytes := detwingleWith liveCfg

/-- Outcome of a `detwingle(in_bytes, main_encoding, embedded_encoding)` call. -/
inductive DetwingleResult
  | ok (out : Bytes)
  | notImplemented        -- NotImplementedError (dammit.py:1359-1372)
  | hangs
  deriving DecidableEq, Repr

/-- The argument checks of `detwingle` (dammit.py:1359-1372), ASCII encoding names. -/
def detwingleCall (inb : Bytes) (mainEnc embEnc : PStr) : DetwingleResult :=
  let e := asciiLower (embEnc.map fun c => if c = 95 then 45 else c)      -- .replace("_","-").lower()
  if ¬ (e = ofS "windows-1252" ∨ e = ofS "windows_1252") then .notImplemented
  else if ¬ (asciiLower mainEnc = ofS "utf8" ∨ asciiLower mainEnc = ofS "utf-8") then .notImplemented
  else match detwingleImpl inb with
    | some out => .ok out
    | none => .hangs

end BS.Detwingle
