import BSModel.Base.PStr
import BSModel.Gen.EncodingIn
/-! # Encoding detection on input (property C07)

Code-mirror of `bs4/dammit.py` `EncodingDetector` / `UnicodeDammit` and of
`HTMLParserTreeBuilder.prepare_markup` (bs4/builder/_htmlparser.py:377-447), plus the documented
meaning (`candidates`, `dammitSpec`).  Core Lean only.

Everything Python's `codecs` machinery does is a *parameter* (`Codecs`): whether `codecs.lookup`
knows a name, and what `str(data, name, "strict"/"replace")` returns (`none` = it raised).  The
theorems hold for every such oracle; the harness tabulates the real one per case.

The model mirrors the REPAIRED code (fixes/C07-*.diff):
* `UnicodeDammit(b"")` has text `""` (unrepaired: `str(b"")` = `"b''"`, dammit.py:802);
* the `replace` pass runs only when no strict attempt returned a string (unrepaired: `if not u`
  also takes `""` for failure, dammit.py:817);
* `declared_html_encoding` looks for the declaration on demand (unrepaired: `None` unless the
  generator was driven as far as the declaration step, dammit.py:986);
* a document that is empty after its byte-order mark is decoded only by names that are text encodings
  (unrepaired: by any name, `str(b"", name)` never consults the codec — see `withEmptyFastPath`);
* a UTF-16 byte-order mark is recognised whatever follows it except `00 00` (unrepaired: only when
  at least four bytes are present, so `b"\xff\xfe"` alone decoded as windows-1252 "ÿþ").

`_chardet_dammit` is a parameter (`Codecs.chardet`; `fun _ => none` when no chardet-like module is
installed). Not modelled: the smart-quote hook of `_convert_from`
(inert for `smart_quotes_to=None`; property C19), `str.lower()` beyond ASCII (names are ASCII). -/
namespace BS.EncodingIn

abbrev Name := PStr

/-- `str.lower()` restricted to ASCII letters. -/
def lowerC (c : Nat) : Nat := if 65 ≤ c ∧ c ≤ 90 then c + 32 else c
def lower (s : Name) : Name := s.map lowerC

/-- literal encoding names of dammit.py:663-679 -/
def utf16be : Name := [117, 116, 102, 45, 49, 54, 98, 101]
def utf16le : Name := [117, 116, 102, 45, 49, 54, 108, 101]
def utf8 : Name := [117, 116, 102, 45, 56]
def utf32be : Name := [117, 116, 102, 45, 51, 50, 98, 101]
def utf32le : Name := [117, 116, 102, 45, 51, 50, 108, 101]
/-- `"ascii"`, dammit.py:822 -/
def ascii : Name := [97, 115, 99, 105, 105]
/-- `"windows-1252"`, dammit.py:641 -/
def windows1252 : Name := [119, 105, 110, 100, 111, 119, 115, 45, 49, 50, 53, 50]

/-- What the `codecs` module does, as parameters. -/
structure Codecs where
  /-- `codecs.lookup(name)` does not raise `LookupError`/`ValueError` -/
  codecExists : Name → Bool
  /-- `str(data, name, "strict")`; `none` = raised -/
  decodeStrict : Name → Bytes → Option PStr
  /-- `str(data, name, "replace")`; `none` = raised -/
  decodeReplace : Name → Bytes → Option PStr
  /-- `_chardet_dammit` (dammit.py:71-76): the guess of chardet / cchardet / charset_normalizer for the
      BOM-stripped bytes. With none of them installed (`chardet_module is None`, the situation of this
      repository's environment) it is `fun _ => none`. -/
  chardet : Bytes → Option Name := fun _ => none

/-- CPython's `str(b"", name, errors)` returns `""` WITHOUT looking `name` up. The unrepaired `_to_unicode`
    (dammit.py, `return str(data, encoding, errors)`) therefore "decoded" a document that is empty after its
    byte-order mark under ANY name — unknown, not a text encoding, always failing — and that name became
    `original_encoding`. The repaired `_to_unicode` asks the codec first (`"".encode(encoding)`), so
    `decodeStrict`/`decodeReplace` of the model mean for the empty byte string what they mean for every other:
    the name is a text encoding whose decoder accepts the bytes. `withEmptyFastPath C` is the oracle the
    UNREPAIRED code effectively saw; kept for the witness `Props.C07.old_empty_remainder_took_any_name`. -/
def withEmptyFastPath (C : Codecs) : Codecs :=
  { C with
    decodeStrict := fun n d => if d.isEmpty then some [] else C.decodeStrict n d
    decodeReplace := fun n d => if d.isEmpty then some [] else C.decodeReplace n d }

/-- Laws of CPython's codec machinery that the totality statements rest on. They are HYPOTHESES of those
    theorems (never axioms); the harness tests each of them on every case's data with the real codecs:
    `codecs.lookup` ignores case, utf-8 and windows-1252 exist, and decoding with `errors="replace"`
    under either of them cannot fail. -/
structure Lawful (C : Codecs) : Prop where
  lookup_ignores_case : ∀ n, C.codecExists n = C.codecExists (lower n)
  utf8_exists : C.codecExists utf8 = true
  cp1252_exists : C.codecExists windows1252 = true
  utf8_replace_total : ∀ d, (C.decodeReplace utf8 d).isSome = true
  cp1252_replace_total : ∀ d, (C.decodeReplace windows1252 d).isSome = true

/-! ## strip_byte_order_mark (dammit.py:645-673, repaired) -/

def stripBom (data : Bytes) : Bytes × Option Name :=
  if data.take 2 = [0xfe, 0xff] ∧ (data.drop 2).take 2 ≠ [0, 0] then
    (data.drop 2, some utf16be)                                   -- :658-660
  else if data.take 2 = [0xff, 0xfe] ∧ (data.drop 2).take 2 ≠ [0, 0] then
    (data.drop 2, some utf16le)                                   -- :661-663
  else if data.take 3 = [0xef, 0xbb, 0xbf] then (data.drop 3, some utf8)          -- :664
  else if data.take 4 = [0x00, 0x00, 0xfe, 0xff] then (data.drop 4, some utf32be) -- :667
  else if data.take 4 = [0xff, 0xfe, 0x00, 0x00] then (data.drop 4, some utf32le) -- :670
  else (data, none)

/-- the UNREPAIRED function (fixes/C07-utf16-bom-short-input.diff): both UTF-16 tests also demanded
    `len(data) >= 4`, so a UTF-16 mark followed by fewer than two bytes was not recognised. Kept for
    the witness theorem `Props.C07.old_length_test_missed_short_utf16`. -/
def stripBomOld (data : Bytes) : Bytes × Option Name :=
  if data.length ≥ 4 ∧ data.take 2 = [0xfe, 0xff] ∧ (data.drop 2).take 2 ≠ [0, 0] then
    (data.drop 2, some utf16be)
  else if data.length ≥ 4 ∧ data.take 2 = [0xff, 0xfe] ∧ (data.drop 2).take 2 ≠ [0, 0] then
    (data.drop 2, some utf16le)
  else if data.take 3 = [0xef, 0xbb, 0xbf] then (data.drop 3, some utf8)
  else if data.take 4 = [0x00, 0x00, 0xfe, 0xff] then (data.drop 4, some utf32be)
  else if data.take 4 = [0xff, 0xfe, 0x00, 0x00] then (data.drop 4, some utf32le)
  else (data, none)

/-! ## the declaration regexes (dammit.py:79-95) and find_declared_encoding (:683-731)

Hand-written matchers that follow Python's backtracking order for exactly these two patterns
(bytes versions, `re.I`):
`xml_encoding = ^\s*<\?.*encoding=['"](.*?)['"].*\?>` and
`html_meta = <\s*meta[^>]+charset\s*=\s*["']?([^>]*?)[ /;'">]`. -/

/-- `\s` of a bytes pattern: `[ \t\n\r\f\v]` -/
def isSpace (c : Nat) : Bool := c == 32 || (9 ≤ c && c ≤ 13)
def isQuote (c : Nat) : Bool := c == 39 || c == 34
/-- the closing class ``[ /;'">]`` of `html_meta` -/
def isTerm (c : Nat) : Bool := c == 32 || c == 47 || c == 59 || c == 39 || c == 34 || c == 62

/-- `l` starts with the (lower-case ASCII) literal `lit`, ignoring case (`re.I`) -/
def startsCI : (lit l : Bytes) → Bool
  | [], _ => true
  | _ :: _, [] => false
  | a :: as, b :: bs => lowerC b == a && startsCI as bs

def litEncodingEq : Bytes := [101, 110, 99, 111, 100, 105, 110, 103, 61]  -- "encoding="
def litCharset : Bytes := [99, 104, 97, 114, 115, 101, 116]               -- "charset"
def litMeta : Bytes := [109, 101, 116, 97]                                -- "meta"

/-- `?>` occurs in `l` -/
def containsQmGt : Bytes → Bool
  | [] => false
  | x :: t => (x == 63 && t.head? == some 62) || containsQmGt t

/-- lazy `(.*?)['"].*\?>`: the shortest prefix that is followed by a quote after which `?>` still
    occurs on the line. `acc` = the group so far, reversed. -/
def lazyQuote : Bytes → Bytes → Option Bytes
  | [], _ => none
  | c :: t, acc => if isQuote c && containsQmGt t then some acc.reverse else lazyQuote t (c :: acc)

/-- `encoding=['"](.*?)['"].*\?>` anchored at the head of `l` -/
def encHere (l : Bytes) : Option Bytes :=
  if startsCI litEncodingEq l then
    match l.drop 9 with
    | q :: r => if isQuote q then lazyQuote r [] else none
    | [] => none
  else none

/-- greedy `.*` before `encoding=`: the LAST position on the line at which `encHere` matches -/
def lastEncoding : Bytes → Option Bytes
  | [] => none
  | c :: t => match lastEncoding t with
    | some g => some g
    | none => encHere (c :: t)

/-- `xml_re.search(markup, endpos=1024)`: group 1 of the match, if any (`.` does not match `\n`) -/
def xmlMatch (s : Bytes) : Option Bytes :=
  match (s.take 1024).dropWhile isSpace with
  | 60 :: 63 :: rest => lastEncoding (rest.takeWhile (· != 10))
  | _ => none

/-- the prefix of `l` before its first closing-class character -/
def splitTerm : Bytes → Bytes → Option Bytes
  | [], _ => none
  | c :: t, acc => if isTerm c then some acc.reverse else splitTerm t (c :: acc)

/-- `\s*["']?([^>]*?)[ /;'">]` at `t` (the text after `=`), with the regex engine's fall-backs:
    a quote with no closing character after it is itself the closing character (empty group), and
    with nothing else a space among the skipped white space is (empty group). -/
def htmlValue (t : Bytes) : Option Bytes :=
  let ws := t.takeWhile isSpace
  match t.dropWhile isSpace with
  | q :: r =>
    if isQuote q then
      match splitTerm r [] with
      | some g => some g
      | none => some []
    else
      match splitTerm (q :: r) [] with
      | some g => some g
      | none => if ws.contains 32 then some [] else none
  | [] => if ws.contains 32 then some [] else none

/-- `charset\s*=\s*…` anchored at the head of `l` -/
def charsetHere (l : Bytes) : Option Bytes :=
  if startsCI litCharset l then
    match (l.drop 7).dropWhile isSpace with
    | 61 :: r => htmlValue r
    | _ => none
  else none

/-- greedy `[^>]+` before `charset`: the LAST position not beyond the first `>` at which
    `charsetHere` matches -/
def lastCharset : Bytes → Option Bytes
  | [] => none
  | c :: t =>
    match (if c == 62 then none else lastCharset t) with
    | some g => some g
    | none => charsetHere (c :: t)

/-- `\s*meta[^>]+charset…` at `t` (the text after a `<`) -/
def metaAt (t : Bytes) : Option Bytes :=
  let t' := t.dropWhile isSpace
  if startsCI litMeta t' then
    match t'.drop 4 with
    | x :: u => if x == 62 then none else lastCharset u
    | [] => none
  else none

/-- `html_re.search`: leftmost `<` at which the pattern matches -/
def htmlSearch : Bytes → Option Bytes
  | [] => none
  | c :: t =>
    if c == 60 then
      match metaAt t with
      | some g => some g
      | none => htmlSearch t
    else htmlSearch t

/-- `declared_encoding.decode("ascii", "replace")` -/
def asciiReplace (b : Bytes) : PStr := b.map fun c => if c < 128 then c else 0xFFFD

/-- find_declared_encoding (dammit.py:683-731) with `search_entire_document=False`.
    `int(len(markup) * 0.05)` is modelled as `len / 20`. -/
def findDeclared (markup : Bytes) (isHtml : Bool) : Option Name :=
  let htmlEndpos := max 2048 (markup.length / 20)                            -- :712
  let m := match xmlMatch markup with                                        -- :722
    | some g => some g
    | none => if isHtml then htmlSearch (markup.take htmlEndpos) else none   -- :723-724
  match m with
  | some g => if g.isEmpty then none else some (lower (asciiReplace g))      -- :727-730
  | none => none

/-! ## EncodingDetector.encodings (dammit.py:576-643) -/

/-- `_usable` (:576-591): `excl` is the already lower-cased exclusion set (:559); returns the
    verdict and the updated `tried` set. -/
def usable (excl : List Name) (e : Name) (tried : List Name) : Bool × List Name :=
  let e' := lower e
  if excl.contains e' then (false, tried)
  else if !tried.contains e' then (true, e' :: tried)
  else (false, tried)

/-- one `for e in …: if self._usable(e, tried): yield e` loop: (yielded, tried afterwards) -/
def yieldAll (excl : List Name) : List Name → List Name → List Name × List Name
  | [], tried => ([], tried)
  | e :: es, tried =>
    let r := usable excl e tried
    let rest := yieldAll excl es r.2
    (if r.1 then e :: rest.1 else rest.1, rest.2)

/-- the generator, run to exhaustion: known definite, BOM-sniffed, user, declared, chardet's guess, then
    the last-ditch names (`Gen.fallbackEncodings` = utf-8, windows-1252). -/
def encodingsImpl (known : List Name) (bom : Option Name) (user : List Name) (declared chardet : Option Name)
    (excl : List Name) : List Name :=
  let tried : List Name := []                                   -- :600
  let y1 := yieldAll excl known tried                           -- :603-605
  let y2 := yieldAll excl bom.toList y1.2                       -- :609-612
  let y3 := yieldAll excl user y2.2                             -- :616-618
  let y4 := yieldAll excl declared.toList y3.2                  -- :622-629
  let y5 := yieldAll excl chardet.toList y4.2                   -- :633-638
  let y6 := yieldAll excl Gen.fallbackEncodings y5.2            -- :641-643
  y1.1 ++ y2.1 ++ y3.1 ++ y4.1 ++ y5.1 ++ y6.1

/-! ### documented meaning of the candidate list -/

set_option wf.preprocess false in
/-- keep the first of every group of names that are equal ignoring case -/
def dedupLower : List Name → List Name
  | [] => []
  | e :: es => e :: dedupLower (es.filter fun x => lower x != lower e)
termination_by l => l.length
decreasing_by
  simp only [List.length_cons]
  exact Nat.lt_succ_of_le (List.length_filter_le _ _)

/-- all sources in the documented order -/
def sources (known : List Name) (bom : Option Name) (user : List Name) (declared chardet : Option Name) : List Name :=
  known ++ bom.toList ++ user ++ declared.toList ++ chardet.toList ++ Gen.fallbackEncodings

/-- the documented candidate list: sources in order, minus excluded, each (ignoring case) once -/
def candidates (known : List Name) (bom : Option Name) (user : List Name) (declared chardet : Option Name)
    (excl : List Name) : List Name :=
  dedupLower ((sources known bom user declared chardet).filter fun e => !excl.contains (lower e))

/-! ## find_codec / _codec (dammit.py:988-1014) -/

/-- `CHARSET_ALIASES.get(charset, charset)` over the generated table -/
def aliasOf (c : Name) : Name := (Gen.charsetAliases.lookup c).getD c

/-- `charset.replace("-", r)` -/
def replaceDash (r : List Nat) (c : Name) : Name := c.flatMap fun x => if x = 45 then r else [x]

/-- `_codec` (:1005-1014) as "a truthy result, or nothing" -/
def codec (C : Codecs) (n : Name) : Option Name :=
  if n.isEmpty then none else if C.codecExists n then some n else none

/-- `find_codec` (:988-1003): the first of alias / dashes removed / dashes to underscores that
    `codecs.lookup` knows, else the name itself; lower-cased. `none` only for the empty name. -/
def findCodec (C : Codecs) (c : Name) : Option Name :=
  match codec C (aliasOf c) with                                     -- :995
  | some v => some (lower v)
  | none =>
    if c.isEmpty then none else                                      -- `charset and …`, :996-999, 1001
    match codec C (replaceDash [] c) with                            -- :996
    | some v => some (lower v)
    | none =>
      match codec C (replaceDash [95] c) with                        -- :997
      | some v => some (lower v)
      | none => some (lower (lower c))                               -- :998, 1002

/-! ## UnicodeDammit (dammit.py:775-845, 930-977) -/

/-- the mutable fields `_convert_from` touches -/
structure St where
  /-- `tried_encodings`: (codec, errors == "replace") -/
  tried : List (Name × Bool) := []
  /-- `unicode_markup` -/
  text : Option PStr := none
  /-- `original_encoding` -/
  enc : Option Name := none
deriving Repr

/-- `_convert_from` (:930-967) with `smart_quotes_to=None`; second component = the return value -/
def convertFrom (C : Codecs) (data : Bytes) (st : St) (proposed : Name) (replace : Bool) : St × Option PStr :=
  match findCodec C proposed with                                          -- :940
  | none => (st, none)                                                     -- :941-942
  | some r =>
    if st.tried.contains (r, replace) then (st, none)                      -- :941-942
    else
      let st := { st with tried := st.tried ++ [(r, replace)] }            -- :944
      match (if replace then C.decodeReplace r data else C.decodeStrict r data) with   -- :959
      | some u => ({ st with text := some u, enc := some r }, some u)      -- :960-961, 967
      | none => (st, none)                                                 -- :962-965

/-- first loop of `__init__` (:810-815) -/
def pass1 (C : Codecs) (data : Bytes) : List Name → St → St × Option PStr
  | [], st => (st, none)
  | e :: es, st =>
    match convertFrom C data st e false with
    | (st', some u) => (st', some u)
    | (st', none) => pass1 C data es st'

/-- second loop (:821-831), entered with `u is None`; `"ascii"` is skipped (:822) -/
def pass2 (C : Codecs) (data : Bytes) : List Name → St → St × Option PStr
  | [], st => (st, none)
  | e :: es, st =>
    if e != ascii then
      match convertFrom C data st e true with
      | (st', some u) => (st', some u)
      | (st', none) => pass2 C data es st'
    else pass2 C data es st

inductive Markup where
  | str (s : PStr)
  | bytes (b : Bytes)
deriving Repr

/-- constructor arguments of `UnicodeDammit`/`EncodingDetector` (names as given, any case) -/
structure Args where
  known : List Name := []
  /-- deprecated `override_encodings`, appended to `known` (:550-556) -/
  override : List Name := []
  user : List Name := []
  exclude : List Name := []
  isHtml : Bool := false

/-- the attributes the property talks about -/
structure Result where
  /-- `unicode_markup` (`none` = `None`) -/
  text : Option PStr
  originalEncoding : Option Name
  /-- the `declared_html_encoding` property (:979-986, repaired) -/
  declaredHtml : Option Name
  containsReplacement : Bool
  /-- `tried_encodings` (not compared with the code; used by `each_tried_once`) -/
  tried : List (Name × Bool)
deriving Repr

/-- the exclusion set of the detector (:559) -/
def exclSet (a : Args) : List Name := a.exclude.map lower

/-- `EncodingDetector(...).encodings` given the BOM-sniffed and the declared encoding -/
def detectorEncodings (a : Args) (bom declared chardet : Option Name) : List Name :=
  encodingsImpl (a.known ++ a.override) bom a.user declared chardet (exclSet a)

/-- `UnicodeDammit.__init__` on a non-empty byte string whose BOM has been stripped, `declared` being
    what `find_declared_encoding` returns for it. -/
def dammitBytes (C : Codecs) (a : Args) (data : Bytes) (bom declared : Option Name) : Result :=
  let encs := detectorEncodings a bom declared (C.chardet data)                -- :633-634 (`_chardet_dammit(self.markup)`)
  let declHtml := if a.isHtml then declared else none                        -- :984-986
  match pass1 C data encs {} with                                            -- :810-815
  | (st, some u) => ⟨some u, st.enc, declHtml, false, st.tried⟩              -- :845
  | (st, none) =>
    match pass2 C data encs st with                                          -- :817-831
    | (st, some u) => ⟨some u, st.enc, declHtml, true, st.tried⟩
    | (st, none) => ⟨none, none, declHtml, false, st.tried⟩                  -- :841-843

/-- `UnicodeDammit(markup, …)` -/
def dammit (C : Codecs) (a : Args) : Markup → Result
  | .str s => ⟨some s, none, none, false, []⟩                                -- :800-804 (str)
  | .bytes b =>
    let sb := stripBom b                                                     -- :565
    let declared := findDeclared sb.1 a.isHtml
    if b.isEmpty then ⟨some [], none, if a.isHtml then declared else none, false, []⟩   -- :800-804 (b"")
    else dammitBytes C a sb.1 sb.2 declared

/-- the documented candidate list of `UnicodeDammit(markup=b, …)` -/
def candidatesOf (C : Codecs) (a : Args) (b : Bytes) : List Name :=
  candidates (a.known ++ a.override) (stripBom b).2 a.user (findDeclared (stripBom b).1 a.isHtml)
    (C.chardet (stripBom b).1) (exclSet a)

/-! ### documented meaning of the result -/

/-- decoding under candidate `c`: the codec name `find_codec` resolves it to and the text -/
def attempt (C : Codecs) (data : Bytes) (replace : Bool) (c : Name) : Option (Name × PStr) :=
  match findCodec C c with
  | none => none
  | some r =>
    match (if replace then C.decodeReplace r data else C.decodeStrict r data) with
    | some u => some (r, u)
    | none => none

/-- the property statement: the first candidate that decodes cleanly; failing that the first
    non-"ascii" candidate that decodes with replacement; failing that nothing. -/
def dammitSpec (C : Codecs) (data : Bytes) (cands : List Name) : Option PStr × Option Name × Bool :=
  match cands.findSome? (attempt C data false) with
  | some (r, u) => (some u, some r, false)
  | none =>
    match (cands.filter (· != ascii)).findSome? (attempt C data true) with
    | some (r, u) => (some u, some r, true)
    | none => (none, none, false)

/-! ## HTMLParserTreeBuilder.prepare_markup and the constructor's arguments -/

/-- what `prepare_markup` yields (exactly one strategy) or `ParserRejectedMarkup` -/
inductive Prepared where
  | ok (text : PStr) (originalEncoding declaredHtml : Option Name) (containsReplacement : Bool)
  | rejected
deriving Repr, DecidableEq

/-- `if user_specified_encoding: known_definite_encodings.append(…)` (_htmlparser.py:409-415) -/
def knownOfFromEncoding : Option Name → List Name
  | some e => if e.isEmpty then [] else [e]
  | none => []

/-- `prepare_markup(markup, user_specified_encoding, document_declared_encoding, exclude_encodings)`
    (_htmlparser.py:377-447). `BeautifulSoup(markup, "html.parser", from_encoding=…, exclude_encodings=…)`
    calls it with `document_declared_encoding=None` (bs4/__init__.py:467-469), after dropping
    `from_encoding` for str markup (:334-342 — the str branch below ignores it anyway). -/
def prepareMarkupFull (C : Codecs) (m : Markup) (fromEncoding documentDeclared : Option Name) (exclude : List Name) : Prepared :=
  match m with
  | .str s => .ok s none none false                                          -- :402-405
  | .bytes _ =>
    let known := knownOfFromEncoding fromEncoding                            -- :409-415
    let user := knownOfFromEncoding documentDeclared                         -- :417-421 (same truthiness test)
    let r := dammit C { known := known, user := user, exclude := exclude, isHtml := true } m   -- :423-429
    match r.text with
    | none => .rejected                                                      -- :431-440
    | some t => .ok t r.originalEncoding r.declaredHtml r.containsReplacement -- :442-447

/-- the constructor's call -/
def prepareMarkup (C : Codecs) (m : Markup) (fromEncoding : Option Name) (exclude : List Name) : Prepared :=
  prepareMarkupFull C m fromEncoding none exclude

/-- `from_encoding = from_encoding or deprecated_argument("fromEncoding", "from_encoding")`
    (bs4/__init__.py:334-336): the deprecated keyword is consulted only when `from_encoding` is falsy
    (None or ""). -/
def effectiveFromEncoding (fromEncoding fromEncodingOld : Option Name) : Option Name :=
  match fromEncoding with
  | some e => if e.isEmpty then fromEncodingOld else some e
  | none => fromEncodingOld

/-- the `markup` argument of the constructor: the text/bytes themselves, or a file-like object whose
    `.read()` returns them (open text/binary file, `io.StringIO`/`io.BytesIO`, any object with `read`) -/
inductive MarkupArg where
  | direct (m : Markup)
  | fileLike (m : Markup)
deriving Repr

def MarkupArg.content : MarkupArg → Markup
  | .direct m => m
  | .fileLike m => m

/-- `BeautifulSoup(markup, "html.parser", from_encoding=…, fromEncoding=…, exclude_encodings=…)` up to the
    feed, in the order of the code: (1) the deprecated keyword (bs4/__init__.py:334-336); (2) `from_encoding`
    is dropped when the ARGUMENT is a str (:338-342 — a file-like object is not a str at this point, so
    `from_encoding` survives); (3) a file-like argument is read (:439-440); (4) `prepare_markup` (:462-469). -/
def constructorPrepareArg (C : Codecs) (arg : MarkupArg) (fromEncoding fromEncodingOld : Option Name) (exclude : List Name) : Prepared :=
  let fe := effectiveFromEncoding fromEncoding fromEncodingOld                 -- (1)
  let fe := match arg with                                                     -- (2)
    | .direct (.str _) => none
    | _ => fe
  prepareMarkup C arg.content fe exclude                                       -- (3), (4)

/-- the constructor called with the text/bytes themselves -/
def constructorPrepare (C : Codecs) (m : Markup) (fromEncoding fromEncodingOld : Option Name) (exclude : List Name) : Prepared :=
  prepareMarkup C m (effectiveFromEncoding fromEncoding fromEncodingOld) exclude

end BS.EncodingIn
