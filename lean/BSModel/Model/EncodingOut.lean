import BSModel.Base.PStr
import BSModel.Gen.EncodingOut
/-! # Output in a target encoding (C08)

Executable, total, core-only model of

* `str.encode(codec, errors)` for the two error handlers bs4 uses (`"xmlcharrefreplace"`, and `"strict"` — what
  `encode_contents` of 4.13.0 used by omission), over an abstract `Codec` record whose laws are *hypotheses* of the
  theorems (tested on the characters of every case by the harness, never assumed as axioms);
* `Tag.encode` / `Tag.prettify(encoding)` / `Tag.encode_contents` / `Tag.decode` (bs4/element.py), `BeautifulSoup.decode`'s
  XML declaration (bs4/__init__.py), `_format_tag`'s charset substitution, `CharsetMetaAttributeValue` /
  `ContentMetaAttributeValue.substitute_encoding` (with `CHARSET_RE.sub`), `HTMLTreeBuilder.set_up_substitutions`;
* the part of the *reader* (html.parser + bs4's `handle_charref`/`handle_entityref` for text, `html.unescape` for attribute
  values) that the writer's output exercises: decimal `&#N;` and `&amp; &lt; &gt; &quot;`.

Tables come from `Gen/EncodingOut.lean`, generated on every run from the live objects. -/
namespace BS.EncodingOut
open BS
open BS.Gen.EncodingOut

/-! ## 1. codecs and `str.encode` -/

/-- A character encoding as Python's codec machinery presents it: which code points it can encode, the strict encoder on
    strings of encodable code points (its value on other strings is never used), the strict decoder. -/
structure Codec where
  canEnc : Nat → Bool
  enc : PStr → Bytes
  dec : Bytes → Option PStr

/-- every code point of `s` is encodable -/
def Codec.Encodable (C : Codec) (s : PStr) : Prop := ∀ c ∈ s, C.canEnc c = true

/-- the round-trip law: what the strict encoder writes, the strict decoder reads back -/
def Codec.RoundTrip (C : Codec) : Prop := ∀ s, C.Encodable s → C.dec (C.enc s) = some s

/-- ASCII is encodable (true of every real character encoding, EBCDIC included; the bytes may differ) -/
def Codec.AsciiOK (C : Codec) : Prop := ∀ c, c < 128 → C.canEnc c = true

/-- ASCII-compatible: an ASCII prefix of an encodable string is written as itself -/
def Codec.AsciiCompat (C : Codec) : Prop :=
  ∀ a s, (∀ c ∈ a, c < 128) → C.Encodable s → C.enc (a ++ s) = a ++ C.enc s

/-- decimal digits of `n`, most significant first (fuel `n+1` always suffices) -/
def toDecAux : Nat → Nat → PStr → PStr
  | 0, _, acc => acc
  | f + 1, n, acc => if n < 10 then (48 + n) :: acc else toDecAux f (n / 10) ((48 + n % 10) :: acc)

def toDec (n : Nat) : PStr := toDecAux (n + 1) n []

/-- `&#<decimal c>;` — what the `xmlcharrefreplace` error handler returns for one unencodable code point -/
def charref (c : Nat) : PStr := [38, 35] ++ toDec c ++ [59]

def xcrChar (C : Codec) (c : Nat) : PStr := if C.canEnc c then [c] else charref c

/-- the string Python actually encodes under `errors="xmlcharrefreplace"`: every unencodable code point replaced by its
    decimal reference -/
def xmlcharrefreplace (C : Codec) (s : PStr) : PStr := s.flatMap (xcrChar C)

/-- index and value of the first unencodable code point -/
def firstBad (C : Codec) : Nat → PStr → Option (Nat × Nat)
  | _, [] => none
  | i, c :: cs => if C.canEnc c then firstBad C (i + 1) cs else some (i, c)

/-- the `errors=` argument of `str.encode` / `Tag.encode` (the handlers whose result depends only on the code point;
    `namereplace` needs the Unicode name table, `surrogateescape`/`surrogatepass` are about lone surrogates only — not
    modelled, see the harness' `errors` stream for what is compared) -/
inductive Handler where
  | strict
  | ignore
  | replace
  | xmlcharrefreplace
  | backslashreplace
  deriving DecidableEq, Repr

/-- result of `str.encode`: bytes, or `UnicodeEncodeError(start, code point)` -/
inductive EncResult where
  | bytes (b : Bytes)
  | unicodeEncodeError (pos : Nat) (c : Nat)
  deriving DecidableEq, Repr

def hexDigit (d : Nat) : Nat := if d < 10 then 48 + d else 87 + d

/-- `width` lower-case hex digits of `n`, most significant first -/
def toHexFixed : Nat → Nat → PStr
  | 0, _ => []
  | w + 1, n => toHexFixed w (n / 16) ++ [hexDigit (n % 16)]

/-- `backslashreplace`: `\xhh`, `\uhhhh` or `\Uhhhhhhhh` (codecs.backslashreplace_errors) -/
def backslashEscape (c : Nat) : PStr :=
  if c < 0x100 then [92, 120] ++ toHexFixed 2 c
  else if c < 0x10000 then [92, 117] ++ toHexFixed 4 c
  else [92, 85] ++ toHexFixed 8 c

/-- what the handler substitutes for one unencodable code point (`none`: it raises) -/
def replacementFor (h : Handler) (c : Nat) : Option PStr :=
  match h with
  | .strict => none
  | .ignore => some []
  | .replace => some [63]
  | .xmlcharrefreplace => some (charref c)
  | .backslashreplace => some (backslashEscape c)

/-- the string the codec ends up encoding under a non-strict handler -/
def handled (C : Codec) (h : Handler) (s : PStr) : PStr :=
  s.flatMap (fun c => if C.canEnc c then [c] else (replacementFor h c).getD [])

/-- `s.encode(C, errors)`. The replacement text goes through the encoder too, so a codec that cannot write `&#0-9;`
    (resp. `?`, `\x…`) still raises (CPython: "character maps to <undefined>" on the replacement). -/
def pyEncode (C : Codec) (h : Handler) (s : PStr) : EncResult :=
  match h with
  | .strict =>
    match firstBad C 0 s with
    | some (i, c) => .unicodeEncodeError i c
    | none => .bytes (C.enc s)
  | h =>
    let r := handled C h s
    match firstBad C 0 r with
    | some (i, c) => .unicodeEncodeError i c
    | none => .bytes (C.enc r)

/-- `s.encode(C, "xmlcharrefreplace")` -/
abbrev encodeWith (C : Codec) (s : PStr) : EncResult := pyEncode C .xmlcharrefreplace s

/-! ### concrete codecs: single-byte charsets from a decode table -/

/-- first non-code-point; entries ≥ this mark undefined bytes of a decode table -/
def undef : Nat := 0x110000

/-- A single-byte codec given by its 256-entry decode table (generated from CPython). -/
def tableCodec (tbl : List Nat) : Codec where
  canEnc c := c < undef && tbl.contains c
  enc s := s.map (fun c => tbl.idxOf c)
  dec b := if b.all (fun x => x < tbl.length && tbl.getD x undef < undef) then some (b.map (fun x => tbl.getD x undef)) else none

def asciiCodec : Codec := tableCodec sb_ascii
def latin1Codec : Codec := tableCodec sb_latin_1

/-- a codec known only through its set of encodable code points (used by the driver for multi-byte codecs, where the
    comparison is made on the replaced *string*): identity "bytes" -/
def setCodec (encodable : List Nat) (asciiToo : Bool) : Codec where
  canEnc c := (asciiToo && c < 128) || encodable.contains c
  enc s := s
  dec b := some b

/-! ## 2. charset substitution in `<meta>` -/

def isPythonSpecific (e : PStr) : Bool := pythonSpecificEncodings.contains e

/-- `CharsetMetaAttributeValue.substitute_encoding` (element.py:207-214) -/
def substituteCharset (e : PStr) : PStr := if isPythonSpecific e then [] else e

/-- `\s` inside the live `CHARSET_RE` -/
def isReSpace (c : Nat) : Bool := charsetReSpace.contains c

/-- `str.isspace()` = what `str.strip()` removes -/
def isPySpace (c : Nat) : Bool := reWhitespace.contains c

/-- a sequence of one-character classes at the head of `s`; the rest after it -/
def matchClasses : List (List Nat) → PStr → Option PStr
  | [], s => some s
  | _ :: _, [] => none
  | cls :: more, c :: s => if cls.contains c then matchClasses more s else none

/-- `\s*charset=` resp. `\s*charset\s*=\s*` (which one: generated from the live pattern) at the head of `s` -/
def matchKey (s : PStr) : Option PStr :=
  let s1 := s.dropWhile isReSpace
  if charsetReSpaceTolerant then
    match matchClasses (charsetReLiteral.take 7) s1 with
    | none => none
    | some s2 =>
      match matchClasses (charsetReLiteral.drop 7) (s2.dropWhile isReSpace) with
      | none => none
      | some s3 => some (s3.dropWhile isReSpace)
  else matchClasses charsetReLiteral s1

/-- the rest after group 1 → lengths of group 1 and of the whole match, relative to `s` -/
def matchLens (s rest : PStr) : Nat × Nat :=
  let g1 := s.length - rest.length
  (g1, g1 + (rest.takeWhile (fun c => c != 59)).length)

/-- one match attempt of `CHARSET_RE` at the current position (`bol`: `^` holds here). Every `\s*` is followed by a
    non-space literal, and `[^;]*` by the end of the pattern, so greedy matching never backtracks. -/
def matchAt (bol : Bool) (s : PStr) : Option (Nat × Nat) :=
  let viaCaret := if bol then (matchKey s).map (matchLens s) else none
  match viaCaret with
  | some r => some r
  | none =>
    match s with
    | 59 :: t => (matchKey t).map (matchLens s)
    | _ => none

/-- `CHARSET_RE.sub(repl, s)`: leftmost non-overlapping matches; `skip` = characters of the current match still to drop -/
def subGo (repl : PStr → PStr) : Nat → Bool → PStr → PStr
  | _, _, [] => []
  | k + 1, _, c :: cs => subGo repl k (charsetReMultiline && c == 10) cs
  | 0, bol, c :: cs =>
    match matchAt bol (c :: cs) with
    | some (g1, m) => repl ((c :: cs).take g1) ++ subGo repl (m - 1) (charsetReMultiline && c == 10) cs
    | none => c :: subGo repl 0 (charsetReMultiline && c == 10) cs

def charsetReSub (repl : PStr → PStr) (s : PStr) : PStr := subGo repl 0 true s

/-- `CHARSET_RE.search(s) is not None` -/
def charsetReSearch : Bool → PStr → Bool
  | _, [] => false
  | bol, c :: cs => (matchAt bol (c :: cs)).isSome || charsetReSearch (charsetReMultiline && c == 10) cs

/-- `ContentMetaAttributeValue.substitute_encoding` (element.py:332-343) -/
def substituteContent (e : PStr) (orig : PStr) : PStr :=
  if isPythonSpecific e then charsetReSub (fun _ => []) orig
  else charsetReSub (fun g1 => g1 ++ e) orig

/-- an attribute value as `_format_tag` distinguishes them -/
inductive AttrVal where
  | plain (v : PStr)
  | charsetMeta (orig : PStr)
  | contentMeta (orig : PStr)
  /-- `None`: the attribute is written as its bare name -/
  | novalue
  /-- a list/tuple value (multi-valued attribute such as `class`): `" ".join(val)` -/
  | list (vs : List PStr)
  deriving DecidableEq, Repr

def AttrVal.str : AttrVal → PStr
  | .plain v => v
  | .charsetMeta o => o
  | .contentMeta o => o
  | .novalue => []
  | .list vs => [32].intercalate vs

/-- `_format_tag` (element.py:2566-2575), the value part: a list is joined first (`isinstance(val, list) or …tuple`), then —
    `elif` — a placeholder is substituted, and only when `eventual_encoding is not None` -/
def attrValue (ev : Option PStr) : AttrVal → PStr
  | .plain v => v
  | .charsetMeta o => match ev with
    | none => o
    | some e => substituteCharset e
  | .contentMeta o => match ev with
    | none => o
    | some e => substituteContent e o
  | .novalue => []
  | .list vs => [32].intercalate vs

def lookupAttr (k : PStr) : List (PStr × AttrVal) → Option AttrVal
  | [] => none
  | (k', v) :: rest => if k' = k then some v else lookupAttr k rest

def setAttr (k : PStr) (v : AttrVal) : List (PStr × AttrVal) → List (PStr × AttrVal)
  | [] => [(k, v)]
  | (k', v') :: rest => if k' = k then (k, v) :: rest else (k', v') :: setAttr k v rest

/-- ASCII `str.lower()` is enough here: the comparison is with the ASCII literal `content-type`. The only non-ASCII code
    points whose `lower()` contains an ASCII letter are U+212A KELVIN SIGN (→ `k`, which does not occur in `content-type`)
    and U+0130 (→ `i` + U+0307, two code points), so no non-ASCII spelling lower-cases to the literal. -/
def asciiLower (s : PStr) : PStr := s.map (fun c => if 65 ≤ c && c ≤ 90 then c + 32 else c)

/-- HTML5 style (builder/__init__.py:680-684): a `charset` attribute becomes a placeholder -/
def subCharsetStep (attrs : List (PStr × AttrVal)) : List (PStr × AttrVal) :=
  match lookupAttr (ofS "charset") attrs with
  | some .novalue => attrs     -- `charset is not None`
  | some cs => setAttr (ofS "charset") (.charsetMeta cs.str) attrs
  | none => attrs

/-- `tag.get_attribute_list(key)` (element.py:2179-2200): a list value as it is, a string as a one-element list, `None` as
    no element -/
def attributeList : AttrVal → List PStr
  | .list vs => vs
  | .novalue => []
  | v => [v.str]

/-- `any(x.lower() == "content-type" for x in http_equiv)` -/
def isContentType (he : AttrVal) : Bool := (attributeList he).any (fun x => asciiLower x = ofS "content-type")

/-- HTML4 style (builder/__init__.py:686-692): `content` becomes a placeholder when `http-equiv` is `content-type` in any
    letter case -/
def subContentStep (attrs : List (PStr × AttrVal)) : List (PStr × AttrVal) :=
  match lookupAttr (ofS "content") attrs, lookupAttr (ofS "http-equiv") attrs with
  | some .novalue, _ => attrs  -- `content is not None`
  | some ct, some he =>
    if isContentType he then setAttr (ofS "content") (.contentMeta ct.str) attrs else attrs
  | _, _ => attrs

/-- `HTMLTreeBuilder.set_up_substitutions` (builder/__init__.py:642-694) on a parsed tag's attributes, as repaired: the two
    styles are handled independently (`if … if …`), so a `<meta>` that carries both declarations gets both placeholders.
    (The values are read before either is replaced; the two steps touch different keys, so they commute.) -/
def setUpSubstitutions (name : PStr) (attrs : List (PStr × AttrVal)) : List (PStr × AttrVal) :=
  if name ≠ ofS "meta" then attrs else subContentStep (subCharsetStep attrs)

/-- 4.13.0's `if charset is not None: … elif content is not None and …:` — the HTML4 branch was skipped whenever a
    `charset` attribute was present, leaving a stale `charset=` inside `content` -/
def setUpSubstitutionsOld (name : PStr) (attrs : List (PStr × AttrVal)) : List (PStr × AttrVal) :=
  if name ≠ ofS "meta" then attrs
  else
    match lookupAttr (ofS "charset") attrs with
    | some _ => subCharsetStep attrs
    | none => subContentStep attrs

/-- `attr_container = attribute_dict_class(**kwattrs); attr_container.update(attrs)` (bs4/__init__.py, `new_tag`): the
    `attrs` dictionary is laid over the keyword attributes, later entries and `attrs` winning; `dict.update` bypasses
    `__setitem__`, so values (a `None` included) go in as they are -/
def mergeAttrs (kw attrs : List (PStr × AttrVal)) : List (PStr × AttrVal) :=
  attrs.foldl (fun acc a => setAttr a.1 a.2 acc) kw

/-- the attributes of `soup.new_tag(name, attrs=attrs, **kw)`: `Tag.__init__` runs `builder.set_up_substitutions` on the
    merged attributes — for every builder configuration (the call sits in the `builder is not None` block, outside the
    branch on `cdata_list_attributes`), so a `<meta>` made through the API declares rewritably exactly like a parsed one -/
def newTagAttrs (name : PStr) (kw attrs : List (PStr × AttrVal)) : List (PStr × AttrVal) :=
  setUpSubstitutions name (mergeAttrs kw attrs)

/-- `tag[key] = value` (element.py `Tag.__setitem__`: `self.attrs[key] = value`): the value goes into the attribute
    dictionary as it is. `HTMLTreeBuilder.set_up_substitutions` is called from `Tag.__init__` only (a `Tag` keeps no reference
    to its builder), so a string assigned later — to a fresh `<meta>` or over an existing placeholder — is a plain string -/
def setItem (k v : PStr) (attrs : List (PStr × AttrVal)) : List (PStr × AttrVal) := setAttr k (.plain v) attrs

/-! ## 3. rendering (minimal formatter) -/

def escXml (c : Nat) : PStr :=
  if c = 38 then [38, 97, 109, 112, 59]        -- &amp;
  else if c = 60 then [38, 108, 116, 59]       -- &lt;
  else if c = 62 then [38, 103, 116, 59]       -- &gt;
  else [c]

/-- `EntitySubstitution.substitute_xml` (dammit.py:356-378) -/
def substituteXml (s : PStr) : PStr := s.flatMap escXml

def escQuot (c : Nat) : PStr := if c = 34 then [38, 113, 117, 111, 116, 59] else [c]

/-- `EntitySubstitution.quoted_attribute_value` (dammit.py:316-353) -/
def quotedAttributeValue (v : PStr) : PStr :=
  if v.contains 34 then
    if v.contains 39 then [34] ++ v.flatMap escQuot ++ [34]
    else [39] ++ v ++ [39]
  else [34] ++ v ++ [34]

def lexLt : PStr → PStr → Bool
  | [], [] => false
  | [], _ :: _ => true
  | _ :: _, [] => false
  | a :: as, b :: bs => a < b || (a == b && lexLt as bs)

def insertAttr (a : PStr × AttrVal) : List (PStr × AttrVal) → List (PStr × AttrVal)
  | [] => [a]
  | b :: rest => if lexLt b.1 a.1 then b :: insertAttr a rest else a :: b :: rest

/-- `Formatter.attributes`: sorted by key (formatter.py:170-190) -/
def sortAttrs (l : List (PStr × AttrVal)) : List (PStr × AttrVal) := l.foldr insertAttr []

/-- one attribute: `key` alone when the value is `None`, else `key="value"` -/
def formatAttr (ev : Option PStr) (a : PStr × AttrVal) : PStr :=
  match a.2 with
  | .novalue => a.1
  | v => a.1 ++ [61] ++ quotedAttributeValue (substituteXml (attrValue ev v))

/-- `_format_tag(opening=True)` -/
def openTag (ev : Option PStr) (name : PStr) (attrs : List (PStr × AttrVal)) (isEmpty : Bool) : PStr :=
  [60] ++ name ++ (sortAttrs attrs).flatMap (fun a => 32 :: formatAttr ev a)
    ++ (if isEmpty then voidElementClosePrefix else []) ++ [62]

def closeTag (name : PStr) : PStr := [60, 47] ++ name ++ [62]

inductive Node where
  | text (s : PStr)
  | tag (name : PStr) (attrs : List (PStr × AttrVal)) (kids : List Node)
  deriving Repr

def isVoid (name : PStr) : Bool := emptyElementTags.contains name
def isCdataTag (name : PStr) : Bool := cdataContainingTags.contains name
def preservesWs (name : PStr) : Bool := preserveWhitespaceTags.contains name

/-- `NavigableString.output_ready`: text directly inside `script`/`style` is not entity-substituted -/
def textPiece (parent : PStr) (s : PStr) : PStr := if isCdataTag parent then s else substituteXml s

mutual
/-- `Tag.decode(indent_level=None, eventual_encoding=ev)` -/
def decodeNode (ev : Option PStr) (parent : PStr) : Node → PStr
  | .text s => textPiece parent s
  | .tag n as ks =>
    if isVoid n && ks.isEmpty then openTag ev n as true
    else openTag ev n as false ++ decodeKids ev n ks ++ closeTag n
def decodeKids (ev : Option PStr) (parent : PStr) : List Node → PStr
  | [] => []
  | k :: ks => decodeNode ev parent k ++ decodeKids ev parent ks
end

def pyStrip (s : PStr) : PStr := ((s.dropWhile isPySpace).reverse.dropWhile isPySpace).reverse

def indentOf (level : Nat) : PStr := (List.replicate level formatterIndent).flatten

mutual
/-- `Tag.decode(indent_level=level)` outside string-literal mode (element.py:2383-2457) -/
def prettyNode (ev : Option PStr) (parent : PStr) (level : Nat) : Node → PStr
  | .text s =>
    let p := pyStrip (textPiece parent s)
    if p.isEmpty then [] else indentOf level ++ p ++ [10]
  | .tag n as ks =>
    if isVoid n && ks.isEmpty then indentOf level ++ openTag ev n as true ++ [10]
    else if preservesWs n then
      indentOf level ++ openTag ev n as false ++ decodeKids ev n ks ++ closeTag n ++ [10]
    else indentOf level ++ openTag ev n as false ++ [10] ++ prettyKids ev n (level + 1) ks ++ indentOf level ++ closeTag n ++ [10]
def prettyKids (ev : Option PStr) (parent : PStr) (level : Nat) : List Node → PStr
  | [] => []
  | k :: ks => prettyNode ev parent level k ++ prettyKids ev parent level ks
end

/-- `Tag.decode(indent_level, eventual_encoding)` -/
def decodeImpl (indent : Option Nat) (ev : Option PStr) (t : Node) : PStr :=
  match indent with
  | none => decodeNode ev [] t
  | some l => prettyNode ev [] l t

/-- `Tag.decode_contents(indent_level, eventual_encoding)`; also what `BeautifulSoup.decode` renders after its prefix
    (the hidden `[document]` tag yields no events of its own) -/
def decodeContentsImpl (indent : Option Nat) (ev : Option PStr) : Node → PStr
  | .text _ => []
  | .tag n _ ks =>
    match indent with
    | none => decodeKids ev n ks
    | some l => prettyKids ev n l ks

/-- `str(tag)` / `repr(tag)` / `tag.decode()`: `eventual_encoding` defaults to `DEFAULT_OUTPUT_ENCODING`, so a declared
    charset IS rewritten (to `utf-8`) even though a str is produced; only `decode(eventual_encoding=None)` leaves it alone -/
def strImpl (t : Node) : PStr := decodeImpl none (some defaultOutputEncoding) t

/-- `tag.prettify()` without an encoding (element.py:2630-2631): `decode(indent_level=0)`, same default -/
def prettifyStrImpl (t : Node) : PStr := decodeImpl (some 0) (some defaultOutputEncoding) t

/-- `tag.decode_contents()` with its defaults -/
def decodeContentsDefault (t : Node) : PStr := decodeContentsImpl none (some defaultOutputEncoding) t

/-- `Tag.encode(encoding, indent_level, errors=…)` (element.py:2321-2348): `decode(indent_level, encoding)` then
    `u.encode(encoding, errors)` -/
def encodeImpl (name : PStr) (C : Codec) (indent : Option Nat) (t : Node) (errors : Handler := .xmlcharrefreplace) : EncResult :=
  pyEncode C errors (decodeImpl indent (some name) t)

/-- `Tag.prettify(encoding)` with an encoding (element.py:2620-2633) -/
def prettifyImpl (name : PStr) (C : Codec) (t : Node) : EncResult := encodeImpl name C (some 0) t

/-- `Tag.encode_contents(indent_level, encoding)` with the error handler it passes to `str.encode` as a parameter:
    4.13.0 passed none (= `strict`), the repaired code passes `"xmlcharrefreplace"` (element.py:2680-2681) -/
def encodeContentsWith (h : Handler) (name : PStr) (C : Codec) (indent : Option Nat) (t : Node) : EncResult :=
  pyEncode C h (decodeContentsImpl indent (some name) t)

/-- `Tag.encode_contents` as the property needs it (and as repaired) -/
def encodeContentsImpl (name : PStr) (C : Codec) (indent : Option Nat) (t : Node) : EncResult :=
  encodeContentsWith .xmlcharrefreplace name C indent t

/-- the XML declaration `BeautifulSoup.decode` prefixes when `is_xml` (bs4/__init__.py:1097-1110) -/
def xmlDeclaration (ev : Option PStr) : PStr :=
  let declared : Option PStr := match ev with
    | none => none
    | some e => if isPythonSpecific e then none else some e
  let part : PStr := match declared with
    | none => []
    | some e => ofS " encoding=\"" ++ e ++ [34]
  ofS "<?xml version=\"1.0\"" ++ part ++ ofS "?>\n"

/-! ## 4. the reader, as far as the writer's output exercises it -/

def isDigit (c : Nat) : Bool := 48 ≤ c && c ≤ 57

def ofDec (ds : PStr) : Nat := ds.foldl (fun a d => 10 * a + (d - 48)) 0

/-- bs4's `BeautifulSoupHTMLParser.handle_charref` (builder/_htmlparser.py): below 256 the number is read as a
    windows-1252 *byte* when that byte is defined, else as a byte of the document's `original_encoding` (`orig`, when it
    decodes), else — and from 256 on — as the code point; out of range → U+FFFD. -/
def textCharref (orig : Nat → Option Nat) (n : Nat) : PStr :=
  let data : Option Nat :=
    if n < 256 then
      (if cp1252Decode.getD n undef < undef then some (cp1252Decode.getD n undef) else orig n)
    else none
  match data with
  | some c => [c]
  | none => if n < undef then [n] else [0xFFFD]

def lookupCharref (n : Nat) : List (Nat × PStr) → Option PStr
  | [] => none
  | (k, v) :: rest => if k = n then some v else lookupCharref n rest

/-- `html.unescape`'s rule for a numeric reference (used by html.parser for attribute values) -/
def attrCharref (n : Nat) : PStr :=
  match lookupCharref n invalidCharrefs with
  | some v => v
  | none =>
    if (0xD800 ≤ n && n ≤ 0xDFFF) || n > 0x10FFFF then [0xFFFD]
    else if invalidCodepoints.contains n then []
    else [n]

/-- after an `&`: a reference the writer can have produced → (its text, how many characters it spans after the `&`) -/
def matchRef (rule : Nat → PStr) (s : PStr) : Option (PStr × Nat) :=
  match s with
  | 35 :: ds =>
    let digits := ds.takeWhile isDigit
    if digits.isEmpty then none
    else match ds.drop digits.length with
      | 59 :: _ => some (rule (ofDec digits), digits.length + 2)
      | _ => none
  | 97 :: 109 :: 112 :: 59 :: _ => some ([38], 4)
  | 108 :: 116 :: 59 :: _ => some ([60], 3)
  | 103 :: 116 :: 59 :: _ => some ([62], 3)
  | 113 :: 117 :: 111 :: 116 :: 59 :: _ => some ([34], 5)
  | _ => none

def readGo (rule : Nat → PStr) : Nat → PStr → PStr
  | _, [] => []
  | k + 1, _ :: cs => readGo rule k cs
  | 0, c :: cs =>
    if c = 38 then
      match matchRef rule cs with
      | some (out, len) => out ++ readGo rule len cs
      | none => 38 :: readGo rule 0 cs
    else c :: readGo rule 0 cs

/-- numeric (decimal, `;`-terminated) and the four named references → characters; everything else literal. Faithful to
    the real readers on the image of the writer (compared with a real re-parse on every case); not a model of their
    behaviour on arbitrary markup (that is C09). -/
def readCharrefs (rule : Nat → PStr) (s : PStr) : PStr := readGo rule 0 s

/-- what html.parser + bs4 make of a text node's source -/
def readText (orig : Nat → Option Nat) (s : PStr) : PStr := readCharrefs (textCharref orig) s

/-- what html.parser makes of a quoted attribute value: quotes off, `html.unescape` -/
def readAttr (s : PStr) : PStr :=
  match s with
  | [] => []
  | _ :: rest => readCharrefs attrCharref rest.dropLast

/-! ## 5. a declared-charset finder (simplification of dammit's `html_meta` regex: the `<meta …` context is not required) -/

def isTerminator (c : Nat) : Bool := c = 32 || c = 47 || c = 59 || c = 39 || c = 34 || c = 62

def lowerIs (lit : PStr) (s : PStr) : Option PStr :=
  if (asciiLower (s.take lit.length)) = lit then some (s.drop lit.length) else none

def isAsciiSpace (c : Nat) : Bool := c = 32 || (9 ≤ c && c ≤ 13)

/-- the lazy group `([^>]*?)` followed by a terminator `[ /;'">]`: up to the first terminator (`>` is one, so the group
    never crosses a `>`); there must be a terminator -/
def declValue (s : PStr) : Option PStr :=
  let v := s.takeWhile (fun c => !isTerminator c)
  if v.length < s.length then some v else none

/-- `["']?` -/
def stripQuote : PStr → PStr
  | 34 :: r => r
  | 39 :: r => r
  | r => r

/-- `\s*=\s*["']?([^>]*?)[ /;'">]` -/
def declAfterKey (s : PStr) : Option PStr :=
  match s.dropWhile isAsciiSpace with
  | 61 :: s2 => declValue (stripQuote (s2.dropWhile isAsciiSpace))
  | _ => none

/-- `charset\s*=\s*["']?([^>]*?)[ /;'">]` at the head (bytes pattern, `re.I`) -/
def declAt (s : PStr) : Option PStr :=
  match lowerIs (ofS "charset") s with
  | none => none
  | some s1 => declAfterKey s1

/-- first position where `declAt` succeeds -/
def findDeclared : PStr → Option PStr
  | [] => none
  | c :: cs => match declAt (c :: cs) with
    | some v => some v
    | none => findDeclared cs

end BS.EncodingOut
