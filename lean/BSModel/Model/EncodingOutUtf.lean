import BSModel.Model.EncodingOut
/-! # C08 — the Unicode transformation formats as concrete `Codec` records

CPython's `utf-8`, `utf-16-le`/`-be`, `utf-32-le`/`-be` and the BOM-writing `utf-16` / `utf-32` (little-endian on this
platform: the BOM is `FF FE` resp. `FF FE 00 00`), with strict decoders (overlong forms, surrogates, out-of-range values,
truncated input are rejected). Compared byte for byte with CPython by the harness; `utf8Codec`, `utf32leCodec` and
`utf32Codec` carry proofs of the codec laws (Proofs/EncodingOutUtf.lean). Also the byte-order-mark sniffing of
`EncodingDetector.strip_byte_order_mark` (bs4/dammit.py) as far as the re-detection clause needs it. -/
namespace BS.EncodingOut
open BS

def isSurr (c : Nat) : Bool := 0xD800 ≤ c && c ≤ 0xDFFF

/-- a Unicode scalar value: what every UTF can encode (lone surrogates are refused by the strict encoders) -/
def isScalar (c : Nat) : Bool := c < 0x110000 && !isSurr c

/-! ## UTF-8 -/

def utf8Char (c : Nat) : Bytes :=
  if c < 0x80 then [c]
  else if c < 0x800 then [0xC0 + c / 64, 0x80 + c % 64]
  else if c < 0x10000 then [0xE0 + c / 4096, 0x80 + c / 64 % 64, 0x80 + c % 64]
  else [0xF0 + c / 262144, 0x80 + c / 4096 % 64, 0x80 + c / 64 % 64, 0x80 + c % 64]

def utf8Enc (s : PStr) : Bytes := s.flatMap utf8Char

def isCont (b : Nat) : Bool := 0x80 ≤ b && b < 0xC0

/-- strict UTF-8 decoder as a byte-at-a-time automaton: `need` continuation bytes still expected, `acc` the value so
    far, `mn` the smallest value the current length may encode (overlong forms are errors) -/
def utf8Go : Nat → Nat → Nat → Bytes → Option PStr
  | 0, _, _, [] => some []
  | _ + 1, _, _, [] => none
  | 0, _, _, b :: bs =>
    if b < 0x80 then (utf8Go 0 0 0 bs).map (b :: ·)
    else if 0xC2 ≤ b && b < 0xE0 then utf8Go 1 (b - 0xC0) 0x80 bs
    else if 0xE0 ≤ b && b < 0xF0 then utf8Go 2 (b - 0xE0) 0x800 bs
    else if 0xF0 ≤ b && b < 0xF5 then utf8Go 3 (b - 0xF0) 0x10000 bs
    else none
  | k + 1, acc, mn, b :: bs =>
    if isCont b then
      if k = 0 then
        (if mn ≤ acc * 64 + (b - 0x80) && isScalar (acc * 64 + (b - 0x80))
         then (utf8Go 0 0 0 bs).map ((acc * 64 + (b - 0x80)) :: ·) else none)
      else utf8Go k (acc * 64 + (b - 0x80)) mn bs
    else none

def utf8Dec (b : Bytes) : Option PStr := utf8Go 0 0 0 b

def utf8Codec : Codec := ⟨isScalar, utf8Enc, utf8Dec⟩

/-! ## UTF-32 -/

def utf32leChar (c : Nat) : Bytes := [c % 256, c / 256 % 256, c / 65536 % 256, c / 16777216 % 256]
def utf32beChar (c : Nat) : Bytes := [c / 16777216 % 256, c / 65536 % 256, c / 256 % 256, c % 256]

def utf32leDec : Bytes → Option PStr
  | [] => some []
  | b0 :: b1 :: b2 :: b3 :: rest =>
    let c := b0 + 256 * b1 + 65536 * b2 + 16777216 * b3
    if b0 < 256 && b1 < 256 && b2 < 256 && b3 < 256 && isScalar c then (utf32leDec rest).map (c :: ·) else none
  | _ => none

def utf32beDec : Bytes → Option PStr
  | [] => some []
  | b3 :: b2 :: b1 :: b0 :: rest =>
    let c := b0 + 256 * b1 + 65536 * b2 + 16777216 * b3
    if b0 < 256 && b1 < 256 && b2 < 256 && b3 < 256 && isScalar c then (utf32beDec rest).map (c :: ·) else none
  | _ => none

def utf32leCodec : Codec := ⟨isScalar, fun s => s.flatMap utf32leChar, utf32leDec⟩
def utf32beCodec : Codec := ⟨isScalar, fun s => s.flatMap utf32beChar, utf32beDec⟩

def bom32le : Bytes := [0xFF, 0xFE, 0, 0]
def bom32be : Bytes := [0, 0, 0xFE, 0xFF]

/-- CPython's `utf-32`: writes the BOM and native (little-endian) order; reads either order by the BOM, little-endian
    without one -/
def utf32Codec : Codec where
  canEnc := isScalar
  enc s := bom32le ++ s.flatMap utf32leChar
  dec b := match b with
    | 0xFF :: 0xFE :: 0 :: 0 :: rest => utf32leDec rest
    | 0 :: 0 :: 0xFE :: 0xFF :: rest => utf32beDec rest
    | b => utf32leDec b

/-! ## UTF-16 -/

def utf16Units (c : Nat) : List Nat :=
  if c < 0x10000 then [c] else [0xD800 + (c - 0x10000) / 1024, 0xDC00 + (c - 0x10000) % 1024]

def utf16leChar (c : Nat) : Bytes := (utf16Units c).flatMap (fun u => [u % 256, u / 256])
def utf16beChar (c : Nat) : Bytes := (utf16Units c).flatMap (fun u => [u / 256, u % 256])

/-- code units → code points (strict: a high surrogate must be followed by a low one, a lone low one is an error) -/
def utf16FromUnits : List Nat → Option PStr
  | [] => some []
  | [u] => if isSurr u then none else some [u]
  | u :: v :: rest =>
    if 0xD800 ≤ u && u < 0xDC00 then
      (if 0xDC00 ≤ v && v < 0xE000 then (utf16FromUnits rest).map ((0x10000 + (u - 0xD800) * 1024 + (v - 0xDC00)) :: ·) else none)
    else if isSurr u then none
    else (utf16FromUnits (v :: rest)).map (u :: ·)

def unitsLE : Bytes → Option (List Nat)
  | [] => some []
  | lo :: hi :: rest => if lo < 256 && hi < 256 then (unitsLE rest).map ((lo + 256 * hi) :: ·) else none
  | _ => none

def unitsBE : Bytes → Option (List Nat)
  | [] => some []
  | hi :: lo :: rest => if lo < 256 && hi < 256 then (unitsBE rest).map ((lo + 256 * hi) :: ·) else none
  | _ => none

def utf16leDec (b : Bytes) : Option PStr := (unitsLE b).bind utf16FromUnits
def utf16beDec (b : Bytes) : Option PStr := (unitsBE b).bind utf16FromUnits

def utf16leCodec : Codec := ⟨isScalar, fun s => s.flatMap utf16leChar, utf16leDec⟩
def utf16beCodec : Codec := ⟨isScalar, fun s => s.flatMap utf16beChar, utf16beDec⟩

def bom16le : Bytes := [0xFF, 0xFE]
def bom16be : Bytes := [0xFE, 0xFF]

/-- CPython's `utf-16`: BOM + little-endian on output; either order by the BOM on input -/
def utf16Codec : Codec where
  canEnc := isScalar
  enc s := bom16le ++ s.flatMap utf16leChar
  dec b := match b with
    | 0xFF :: 0xFE :: rest => utf16leDec rest
    | 0xFE :: 0xFF :: rest => utf16beDec rest
    | b => utf16leDec b

/-- the codecs the driver knows by name -/
def utfCodecs : List (PStr × Codec) :=
  [(ofS "utf-8", utf8Codec), (ofS "utf-16", utf16Codec), (ofS "utf-16-le", utf16leCodec), (ofS "utf-16-be", utf16beCodec),
   (ofS "utf-32", utf32Codec), (ofS "utf-32-le", utf32leCodec), (ofS "utf-32-be", utf32beCodec)]

/-! ## byte-order-mark sniffing (`EncodingDetector.strip_byte_order_mark`, bs4/dammit.py) -/

inductive Sniffed where
  | utf16be | utf16le | utf8 | utf32be | utf32le
  deriving DecidableEq, Repr

/-- which encoding the detector takes from a leading BOM (the `if … elif …` chain of `strip_byte_order_mark`, in its
    order): a UTF-16 mark counts only when the two bytes after it are not both zero — `FF FE 00 00` is the UTF-32-LE mark. -/
def sniffBom (b : Bytes) : Option Sniffed :=
  if b.take 2 = [0xFE, 0xFF] ∧ (b.drop 2).take 2 ≠ [0, 0] then some .utf16be
  else if b.take 2 = [0xFF, 0xFE] ∧ (b.drop 2).take 2 ≠ [0, 0] then some .utf16le
  else if b.take 3 = [0xEF, 0xBB, 0xBF] then some .utf8
  else if b.take 4 = [0, 0, 0xFE, 0xFF] then some .utf32be
  else if b.take 4 = [0xFF, 0xFE, 0, 0] then some .utf32le
  else none

end BS.EncodingOut
