import BSModel.Model.EncodingIn
import BSModel.Model.EncodingRxSyntax
import BSModel.Gen.EncodingRx
/-! # The two declaration regexes as data, and a backtracking matcher for them (property C07)

`bs4/dammit.py:79-95` compiles `xml_encoding` and `html_meta` (bytes and str flavours, `re.I`) and
`find_declared_encoding` (:683-731) calls `.search(markup, endpos=…)` on them. This file models that
literally: the patterns are DATA (`Gen.c07XmlAtoms`, `Gen.c07HtmlAtoms`, produced by the translator from
the live pattern strings through Python's own `re._parser`), and `search` is a code-mirror of what
the `re` engine does on the fragment of the regex language these patterns use:

* a flat sequence of single-character items (literal, negated literal, `.`, `\s`, `[...]`), each
  optionally under `*`, `+`, `?` (greedy) or `*?`, `+?`, `??` (lazy), one capturing group, `^` in front;
* backtracking in `re`'s order (greedy: longest first; lazy: shortest first; leftmost start wins);
* `re.I` through a flavour (`Flavor.ci`): ASCII folding for bytes patterns; for str patterns the
  generated table of what each literal of the two patterns matches (`ſ` for `s`, `ı`/`İ` for `i`, …);
* `\s`: `[ \t\n\r\f\v]` for bytes; the generated Unicode list for str;
* `endpos` = the subject is cut there (`List.take`).

`findDeclaredRx` is `find_declared_encoding` on top of it (both flavours, `search_entire_document`).
`Proofs/EncodingRx.lean` proves that for the bytes flavour it EQUALS the hand-written matcher
`findDeclared` of `Model/EncodingIn.lean` on every input. Core Lean only. -/
namespace BS.EncodingIn.Rx
open BS BS.EncodingIn

/-- what depends on bytes vs str patterns -/
structure Flavor where
  /-- `\s` -/
  space : Nat → Bool
  /-- literal `l` of the pattern matches character `x` under `re.I` -/
  ci : Nat → Nat → Bool

/-- bytes patterns: ASCII white space, ASCII case folding -/
def bytesFlavor : Flavor := ⟨isSpace, fun l x => lowerC x == lowerC l⟩

/-- str patterns: the generated Unicode `\s` list; a literal matches itself and whatever the generated
    table lists for it (computed from the live `re` over all code points) -/
def strFlavor : Flavor :=
  ⟨fun x => Gen.c07UnicodeSpace.contains x,
   fun l x => x == l || ((Gen.c07CiTable.lookup l).getD []).contains x⟩

def Cls.test (F : Flavor) : Cls → Nat → Bool
  | .lit c, x => F.ci c x
  | .notLit c, x => !F.ci c x
  | .any, x => x != 10
  | .space, x => F.space x
  | .oneOf cs sp neg, x => (cs.any (F.ci · x) || (sp && F.space x)) != neg

/-- group bookkeeping: `cap` = characters consumed since the group opened (reversed), `res` = group 1 -/
structure St where
  cap : Option (List Nat) := none
  res : List Nat := []
deriving Repr, DecidableEq

def St.push (st : St) (x : Nat) : St := { st with cap := st.cap.map (x :: ·) }

/-- a continuation: the rest of the pattern, run on the rest of the subject -/
abbrev K := List Nat → St → Option (List Nat)

def one (p : Nat → Bool) (k : K) : K
  | [], _ => none
  | x :: t, st => if p x then k t (st.push x) else none

/-- greedy `*`: as many as possible, giving back one at a time -/
def starG (p : Nat → Bool) (k : K) : K
  | [], st => k [] st
  | x :: t, st =>
    if p x then
      match starG p k t (st.push x) with
      | some r => some r
      | none => k (x :: t) st
    else k (x :: t) st

/-- lazy `*?`: as few as possible, taking one more at a time -/
def starL (p : Nat → Bool) (k : K) : K
  | [], st => k [] st
  | x :: t, st =>
    match k (x :: t) st with
    | some r => some r
    | none => if p x then starL p k t (st.push x) else none

def optG (p : Nat → Bool) (k : K) : K
  | [], st => k [] st
  | x :: t, st =>
    if p x then
      match k t (st.push x) with
      | some r => some r
      | none => k (x :: t) st
    else k (x :: t) st

def optL (p : Nat → Bool) (k : K) : K
  | [], st => k [] st
  | x :: t, st =>
    match k (x :: t) st with
    | some r => some r
    | none => if p x then k t (st.push x) else none

def mAtom (F : Flavor) : Atom → K → K
  | .one c, k => one (c.test F) k
  | .rep c false true true, k => starG (c.test F) k
  | .rep c false true false, k => starL (c.test F) k
  | .rep c true true true, k => one (c.test F) (starG (c.test F) k)
  | .rep c true true false, k => one (c.test F) (starL (c.test F) k)
  | .rep c false false true, k => optG (c.test F) k
  | .rep c false false false, k => optL (c.test F) k
  | .rep c true false _, k => one (c.test F) k
  | .gopen, k => fun inp st => k inp { st with cap := some [] }
  | .gclose, k => fun inp st => k inp { cap := none, res := (st.cap.getD []).reverse }

def mSeq (F : Flavor) : List Atom → K → K
  | [], k => k
  | a :: r, k => mAtom F a (mSeq F r k)

/-- the whole pattern matched: report group 1 -/
def final : K := fun _ st => some st.res

/-- `pattern.match` at the head of `inp` -/
def matchHere (F : Flavor) (atoms : List Atom) (inp : List Nat) : Option (List Nat) :=
  mSeq F atoms final inp {}

/-- un-anchored `search`: leftmost start that matches (including the empty tail) -/
def searchFrom (F : Flavor) (atoms : List Atom) : List Nat → Option (List Nat)
  | [] => matchHere F atoms []
  | x :: t =>
    match matchHere F atoms (x :: t) with
    | some r => some r
    | none => searchFrom F atoms t

structure Pattern where
  /-- the pattern starts with `^` (no re.M): only position 0 can match -/
  anchored : Bool
  atoms : List Atom
deriving Repr, DecidableEq

/-- `pattern.search(subject, endpos=endpos)` → group 1 of the match -/
def search (F : Flavor) (p : Pattern) (subject : List Nat) (endpos : Nat) : Option (List Nat) :=
  let s := subject.take endpos
  if p.anchored then matchHere F p.atoms s else searchFrom F p.atoms s

/-! ## find_declared_encoding over the generated patterns -/

def xmlPattern : Pattern := ⟨Gen.c07XmlAnchored, Gen.c07XmlAtoms⟩
def htmlPattern : Pattern := ⟨Gen.c07HtmlAnchored, Gen.c07HtmlAtoms⟩

/-- `find_declared_encoding(markup, is_html, search_entire_document)` (dammit.py:683-731); `isStr` selects
    the flavour of `encoding_res` (:714-717). For bytes the group is decoded `ascii/replace` (:729).
    `.lower()` is ASCII lower-casing (see the header of `Model/EncodingIn.lean`). -/
def findDeclaredRx (isStr : Bool) (markup : List Nat) (isHtml : Bool) (searchEntire : Bool := false) : Option Name :=
  let F := if isStr then strFlavor else bytesFlavor
  let xmlEndpos := if searchEntire then markup.length else 1024                        -- :708-711
  let htmlEndpos := if searchEntire then markup.length else max 2048 (markup.length / 20)  -- :712
  let m := match search F xmlPattern markup xmlEndpos with                              -- :722
    | some g => some g
    | none => if isHtml then search F htmlPattern markup htmlEndpos else none           -- :723-724
  match m with
  | some g => if g.isEmpty then none else some (lower (if isStr then g else asciiReplace g))   -- :727-730
  | none => none

/-- `EncodingDetector(markup: str, …).encodings`: a str has no byte-order mark (dammit.py:655-657), the
    declaration is looked for with the str flavour of the patterns (:714-717), and `_chardet_dammit`
    returns None for str (:73). -/
def detectorEncodingsStr (a : Args) (s : PStr) : List Name :=
  detectorEncodings a none (findDeclaredRx true s a.isHtml) none

end BS.EncodingIn.Rx
