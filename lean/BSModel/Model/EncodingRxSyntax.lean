/-! Syntax of the regex fragment used by the two declaration patterns of bs4/dammit.py:81-84 (property C07).
    Kept apart from `Model/EncodingRx.lean` so that the generated patterns (`Gen/EncodingRx.lean`) can refer to it. -/
namespace BS.EncodingIn.Rx

/-- a single-character item of the pattern -/
inductive Cls where
  | lit (c : Nat)                                   -- LITERAL (under re.I)
  | notLit (c : Nat)                                -- NOT_LITERAL
  | any                                             -- ANY: everything but "\n" (no re.S)
  | space                                           -- IN [CATEGORY_SPACE]
  | oneOf (cs : List Nat) (sp : Bool) (neg : Bool)  -- IN [literals…, \s?], possibly negated
deriving Repr, DecidableEq

inductive Atom where
  | one (k : Cls)
  /-- `k{min,max}` with min ∈ {0,1} (`min1`), max ∈ {1,∞} (`many`), greedy or lazy -/
  | rep (k : Cls) (min1 many greedy : Bool)
  | gopen
  | gclose
deriving Repr, DecidableEq

end BS.EncodingIn.Rx
