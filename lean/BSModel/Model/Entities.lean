import BSModel.Base.PStr
/-! # Entity substitution (`bs4/dammit.py`, class `EntitySubstitution`; `bs4/formatter.py`)

Executable, total, core-only model. Strings are lists of code points. Every table is a parameter (`Tbl`, generated
from the live objects into `BSModel/Gen/Entities.lean`).

`re.sub(alternation, callback, s)` is modelled by `reSub`: scanning left to right, at each position the **first
alternative in the given order** that matches is replaced by the callback's result and the scan resumes after the
match; a position where nothing matches is copied. The alternation of `CHARACTER_TO_HTML_ENTITY_RE` is assembled from
a Python `set` (dammit.py:219-231), so its order is arbitrary — the model takes the order as data and
`BS.Props.C09.order_irrelevant` proves it does not matter for well-formed tables. -/
namespace BS.Entities

/-- three-way lexicographic comparison of code point lists (Python's `str` ordering); written with `cond`/`Nat.blt`
    because the kernel evaluates these much faster than `if a < b` -/
def cmpL : PStr → PStr → Ordering
  | [], [] => .eq
  | [], _ :: _ => .lt
  | _ :: _, [] => .gt
  | a :: as, b :: bs => cond (Nat.blt a b) .lt (cond (Nat.blt b a) .gt (cmpL as bs))

/-- A Python `dict[str, str]`, as a search tree over `cmpL` (the translator emits it balanced; only `get` is used). -/
inductive Dict where
  | leaf
  | node (l : Dict) (k v : PStr) (r : Dict)

def Dict.get : Dict → PStr → Option PStr
  | .leaf, _ => none
  | .node l k v r, x =>
    match cmpL x k with
    | .lt => l.get x
    | .eq => some v
    | .gt => r.get x

/-- One alternative of the generated regex (dammit.py:219-231): a literal `key`, optionally followed by a negative
    look-ahead character class `(?![…])` (`notNext = []` when there is none). -/
structure Particle where
  key : PStr
  notNext : List Nat
deriving DecidableEq, Repr

/-- An entry of a formatter registry (formatter.py:236-262). -/
structure RegEntry where
  name : PStr
  named : Bool
  fn : Nat
  cdata : List PStr
deriving DecidableEq, Repr

/-- All data the substitutions and the readers depend on. -/
structure Tbl where
  /-- alternatives of `CHARACTER_TO_HTML_ENTITY_RE` -/
  particles : List Particle
  /-- alternatives of `CHARACTER_TO_HTML_ENTITY_WITH_AMPERSAND_RE` -/
  particlesAmp : List Particle
  /-- `CHARACTER_TO_HTML_ENTITY` -/
  toName : Dict
  /-- `HTML_ENTITY_TO_CHARACTER` (what bs4's `handle_entityref` consults) -/
  toChar : Dict
  /-- `html.entities.html5` (what `html.unescape` consults; names carry their `;`) -/
  html5 : Dict
  cp1252 : List (Nat × Nat)
  invalidCharrefs : List (Nat × PStr)
  invalidCodepoints : List Nat
  /-- `\w` and `\d` of `re` (str patterns), as code point ranges -/
  word : List (Nat × Nat)
  digit : List (Nat × Nat)
  /-- alternatives of `SEMICOLON_OPTIONAL_ENTITY_RE`: the entity names `html.entities.html5` also lists without `;` -/
  legacy : List PStr

def inRanges (rs : List (Nat × Nat)) (c : Nat) : Bool := rs.any fun r => r.1 ≤ c && c ≤ r.2

def isAlpha (c : Nat) : Bool := (65 ≤ c && c ≤ 90) || (97 ≤ c && c ≤ 122)
def isDigit (c : Nat) : Bool := 48 ≤ c && c ≤ 57
def isAlnum (c : Nat) : Bool := isAlpha c || isDigit c
def isHex (c : Nat) : Bool := isDigit c || (65 ≤ c && c ≤ 70) || (97 ≤ c && c ≤ 102)
/-- `[-.a-zA-Z0-9]` — the tail of html.parser's `entityref = '&([a-zA-Z][-.a-zA-Z0-9]*)[^a-zA-Z0-9]'` (html/parser.py:22)
    and of `ENTITY_NAME_RE` -/
def isNameChar (c : Nat) : Bool := isAlnum c || c = 45 || c = 46

/-- `key(?![notNext])` matches at the head of `l`. (An empty key is not a particle.) -/
def Particle.matchesAt (p : Particle) (l : PStr) : Bool :=
  !p.key.isEmpty && p.key.isPrefixOf l &&
    (match l.drop p.key.length with
     | [] => true
     | d :: _ => !p.notNext.contains d)

/-- the alternative the regex engine takes at this position: the first one in pattern order that matches -/
def firstMatch (ps : List Particle) (l : PStr) : Option Particle := ps.find? (·.matchesAt l)

/-- `re.sub("(p1|p2|…)", callback, s)`; `rep` is the callback on the matched text. The first argument counts the
    code points still to be skipped because they belong to the previous match. -/
def reSub (ps : List Particle) (rep : PStr → PStr) : Nat → PStr → PStr
  | _, [] => []
  | skip + 1, _ :: cs => reSub ps rep skip cs
  | 0, c :: cs =>
    match firstMatch ps (c :: cs) with
    | some p => rep p.key ++ reSub ps rep (p.key.length - 1) cs
    | none => c :: reSub ps rep 0 cs

def amp : PStr := [38, 97, 109, 112, 59]  -- "&amp;"

/-- `"&%s;" % name` -/
def ref (name : PStr) : PStr := 38 :: name ++ [59]

/-! ## substitute_xml (dammit.py:356-379) -/

/-- `AMPERSAND_OR_BRACKET = "([<>&])"` (dammit.py:271) -/
def xmlParticles : List Particle := [⟨[60], []⟩, ⟨[62], []⟩, ⟨[38], []⟩]

/-- `_substitute_xml_entity` (dammit.py:283-288): `"&%s;" % CHARACTER_TO_XML_ENTITY[match]`. The `KeyError` of a
    missing key is reported by `xmlKeyError`; this total version then yields `&;`. -/
def xmlRep (X : List (Nat × PStr)) (m : PStr) : PStr :=
  match m with
  | [c] => ref ((X.lookup c).getD [])
  | _ => ref []

def substXml (X : List (Nat × PStr)) (s : PStr) : PStr := reSub xmlParticles (xmlRep X) 0 s

/-- the first character on which `substitute_xml` raises `KeyError` (none for a table that has `&`, `<`, `>`) -/
def xmlKeyError (X : List (Nat × PStr)) (s : PStr) : Option Nat :=
  s.find? fun c => (c = 38 || c = 60 || c = 62) && (X.lookup c).isNone

/-! ## the "looks like an entity" tests (`ANY_ENTITY_RE`, dammit.py:262, and the look-ahead of
    `BARE_AMPERSAND_OR_BRACKET`, dammit.py:268) -/

/-- length of the longest prefix whose members satisfy `p` -/
def spanLen (p : Nat → Bool) (l : PStr) : Nat := (l.takeWhile p).length

/-- a non-empty greedy run of `p` followed by `;`: the length `pre + run + 1` of the whole match. Greedy runs followed
    by `;` need no backtracking: a shorter run is followed by a run member, never by `;`. -/
def runSemi (pre : Nat) (p : Nat → Bool) (l : PStr) : Option Nat :=
  if spanLen p l = 0 then none else
  match l.drop (spanLen p l) with
  | 59 :: _ => some (pre + spanLen p l + 1)
  | _ => none

/-- After an `&`: does `(#\d+|#x[0-9a-fA-F]+|\w+);` match here, and how many code points (including the `;`)?
    `ci` = the pattern is compiled with `re.I` (then `#X` is accepted as well). `\d`, `\w` are Unicode-aware. -/
def entityLen (T : Tbl) (ci : Bool) (l : PStr) : Option Nat :=
  match l with
  | 35 :: r =>
    match runSemi 1 (inRanges T.digit) r with
    | some n => some n
    | none =>
      match r with
      | x :: r' => if x = 120 || (ci && x = 88) then runSemi 2 isHex r' else none
      | [] => none
  | _ => runSemi 0 (inRanges T.word) l

/-! ## substitute_xml_containing_entities (dammit.py:381-401) -/

/-- `BARE_AMPERSAND_OR_BRACKET.sub(_substitute_xml_entity, value)`: `<`, `>` always; `&` only when it is not the start
    of something that looks like an entity. -/
def substXmlCE (T : Tbl) (X : List (Nat × PStr)) : PStr → PStr
  | [] => []
  | c :: cs =>
    if c = 60 || c = 62 then xmlRep X [c] ++ substXmlCE T X cs
    else if c = 38 && (entityLen T false cs).isNone then xmlRep X [c] ++ substXmlCE T X cs
    else c :: substXmlCE T X cs

/-! ## substitute_html (dammit.py:403-423) -/

/-- `_substitute_html_entity` (dammit.py:273-281) -/
def htmlRep (T : Tbl) (m : PStr) : PStr :=
  match T.toName.get m with
  | none => amp ++ m ++ [59]
  | some name => ref name

def substHtmlWith (T : Tbl) (ps : List Particle) (s : PStr) : PStr := reSub ps (htmlRep T) 0 s

def substHtml (T : Tbl) (s : PStr) : PStr := substHtmlWith T T.particlesAmp s

/-! ## substitute_html5

Two versions. `substHtml5Old` is bs4 4.13.0 as shipped (`ANY_ENTITY_RE.sub(_escape_entity_name, s)` first): it is **not**
reversible (`BS.Props.C09.html5_old_not_reversible_*`). `substHtml5` is the repaired function
(fixes/C09-html5-ampersand.diff): the first pass visits every `&` and escapes it exactly when a parser would read it as the
start of a character reference. -/

/-- first pass of 4.13.0: `ANY_ENTITY_RE.sub(_escape_entity_name, s)` — `&X;` ↦ `&amp;X;` wherever `X` looks like an entity
    body. The matched body is copied (it holds no `&`), so the scan skips it. -/
def escapeEntities (T : Tbl) : Nat → PStr → PStr
  | _, [] => []
  | k + 1, c :: cs => c :: escapeEntities T k cs
  | 0, c :: cs =>
    if c = 38 then
      match entityLen T true cs with
      | some n => amp ++ escapeEntities T n cs
      | none => c :: escapeEntities T 0 cs
    else c :: escapeEntities T 0 cs

def substHtml5Old (T : Tbl) (s : PStr) : PStr := reSub T.particles (htmlRep T) 0 (escapeEntities T 0 s)

/-- `SEMICOLON_OPTIONAL_ENTITY_RE.match(s, after)`: some alternative is a prefix of what follows -/
def legacyPrefix (T : Tbl) (l : PStr) : Bool := T.legacy.any (·.isPrefixOf l)

/-- `_escape_ampersand_a_parser_would_interpret` up to its first `return "&amp;"`s, on what follows the `&`: `#`; or
    `ANY_ENTITY_RE` matches; or a name (`ENTITY_NAME_RE`: `[a-zA-Z][-.a-zA-Z0-9]*`, greedy) that is followed by `;`, or is a
    key of `HTML_ENTITY_TO_CHARACTER`, or begins with a name that needs no semicolon. (This was the whole decision of the
    first repair, /repo 3ee7146: `substHtml5Mid`.) -/
def ampNeedsEscapeMid (T : Tbl) (cs : PStr) : Bool :=
  match cs with
  | [] => false
  | d :: _ =>
    d = 35 || (entityLen T true cs).isSome ||
      (isAlpha d &&
        ((match cs.drop (spanLen isNameChar cs) with
          | 59 :: _ => true
          | _ => false) ||
         (T.toChar.get (cs.take (spanLen isNameChar cs))).isSome || legacyPrefix T cs))

/-- `max(run.rfind("-"), run.rfind("."))`: index of the last `-` or `.` -/
def lastDashDot : PStr → Option Nat
  | [] => none
  | c :: t =>
    match lastDashDot t with
    | some q => some (q + 1)
    | none => if c = 45 || c = 46 then some 0 else none

/-- the second part of the callback: the name runs to the end of the string (which may be the end of the document) and
    html.parser would give part of it back there — a lone letter (the `&` is swallowed), or a known name before the last
    `-`/`.` of the run -/
def eofDanger (T : Tbl) (cs : PStr) : Bool :=
  match cs with
  | [] => false
  | d :: ds =>
    isAlpha d && (cs.drop (spanLen isNameChar cs)).isEmpty &&
      (match lastDashDot cs with
       | none => ds.isEmpty
       | some q => (T.toChar.get (cs.take q)).isSome)

/-- `_escape_ampersand_a_parser_would_interpret`: should this `&` become `&amp;`? -/
def ampNeedsEscape (T : Tbl) (cs : PStr) : Bool := ampNeedsEscapeMid T cs || eofDanger T cs

/-- first pass of the first repair -/
def escapeAmpersandsMid (T : Tbl) : PStr → PStr
  | [] => []
  | c :: cs =>
    if c = 38 && ampNeedsEscapeMid T cs then amp ++ escapeAmpersandsMid T cs else c :: escapeAmpersandsMid T cs

/-- `substitute_html5` after the first repair (/repo 3ee7146), before the end-of-document one -/
def substHtml5Mid (T : Tbl) (s : PStr) : PStr := reSub T.particles (htmlRep T) 0 (escapeAmpersandsMid T s)

/-- first pass: `AMPERSAND_RE.sub(_escape_ampersand_a_parser_would_interpret, s)` -/
def escapeAmpersands (T : Tbl) : PStr → PStr
  | [] => []
  | c :: cs =>
    if c = 38 && ampNeedsEscape T cs then amp ++ escapeAmpersands T cs else c :: escapeAmpersands T cs

def substHtml5With (T : Tbl) (ps : List Particle) (s : PStr) : PStr :=
  reSub ps (htmlRep T) 0 (escapeAmpersands T s)

def substHtml5 (T : Tbl) (s : PStr) : PStr := substHtml5With T T.particles s

/-- `_escape_unrecognized_entity_name` pass of `substitute_html5_raw` (dammit.py:460-479): a known name keeps its
    ampersand. -/
def escapeUnrecognized (T : Tbl) : Nat → PStr → PStr
  | _, [] => []
  | k + 1, c :: cs => c :: escapeUnrecognized T k cs
  | 0, c :: cs =>
    if c = 38 then
      match entityLen T true cs with
      | some n =>
        if (T.toChar.get (cs.take (n - 1))).isSome then c :: escapeUnrecognized T n cs
        else amp ++ escapeUnrecognized T n cs
      | none => c :: escapeUnrecognized T 0 cs
    else c :: escapeUnrecognized T 0 cs

def substHtml5Raw (T : Tbl) (s : PStr) : PStr := reSub T.particles (htmlRep T) 0 (escapeUnrecognized T 0 s)

/-! ## quoted_attribute_value (dammit.py:300-335) -/

def quotEnt : PStr := [38, 113, 117, 111, 116, 59]  -- "&quot;"

/-- `value.replace('"', "&quot;")` -/
def replaceDq : PStr → PStr
  | [] => []
  | c :: cs => if c = 34 then quotEnt ++ replaceDq cs else c :: replaceDq cs

def quoteAttr (v : PStr) : PStr :=
  if v.contains 34 then
    if v.contains 39 then 34 :: replaceDq v ++ [34]
    else 39 :: v ++ [39]
  else 34 :: v ++ [34]

/-! ## Formatter.substitute / attribute_value (formatter.py:138-168) and the registries -/

/-- the registered `entity_substitution` functions by the translator's code -/
def applyFn (T : Tbl) (X : List (Nat × PStr)) (fn : Nat) (s : PStr) : PStr :=
  match fn with
  | 1 => substXml X s
  | 2 => substHtml T s
  | 3 => substHtml5 T s
  | 4 => substXmlCE T X s
  | 5 => substHtml5Raw T s
  | _ => s

/-- `Formatter.substitute(ns)`: no function → unchanged; a NavigableString whose parent is one of
    `cdata_containing_tags` → unchanged (`parentTag = some name`); else the function. `attribute_value` is the same
    call with a plain `str` (`parentTag = none`). -/
def formatterSubstitute (T : Tbl) (X : List (Nat × PStr)) (e : RegEntry) (parentTag : Option PStr) (s : PStr) : PStr :=
  if e.fn = 0 then s
  else match parentTag with
    | some t => if e.cdata.contains t then s else applyFn T X e.fn s
    | none => applyFn T X e.fn s

/-- `Formatter._default(language, value, "cdata_containing_tags")` (formatter.py:66-77): an explicit value — an empty
    collection included — is kept (`is not None`, not truthiness); `None` means no tag at all for XML and
    `HTML_DEFAULTS["cdata_containing_tags"]` otherwise. -/
def defaultCdata (htmlDefaults : List PStr) (xml : Bool) (value : Option (List PStr)) : List PStr :=
  match value with
  | some v => v
  | none => if xml then [] else htmlDefaults

/-- `Formatter(language, entity_substitution=fn, cdata_containing_tags=arg)` (formatter.py:79-136), as far as
    `substitute` looks at it. -/
def mkFormatter (htmlDefaults : List PStr) (xml : Bool) (fn : Nat) (cdataArg : Option (List PStr)) : RegEntry :=
  { name := [], named := false, fn := fn, cdata := defaultCdata htmlDefaults xml cdataArg }

def findFormatter (reg : List RegEntry) (named : Bool) (name : PStr) : Option RegEntry :=
  reg.find? fun e => e.named == named && e.name == name

end BS.Entities
