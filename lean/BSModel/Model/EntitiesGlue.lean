import BSModel.Model.Entities
/-! # From `decode(formatter=…)` to `Formatter.substitute`: `format_string`, `formatter_for_name` (bs4/element.py:426-463),
    and the attribute part of `Tag._format_tag` (element.py:2587-2606). Core Lean only. -/
namespace BS.Entities

/-- the `formatter` argument of `decode` / `output_ready` / `format_string` -/
inductive FormatterArg where
  /-- a `Formatter` object: used as it is -/
  | object (e : RegEntry)
  /-- a registry key: a name, or `None` (`named = false`) -/
  | key (named : Bool) (name : PStr)
  /-- a function: becomes the `entity_substitution` of a fresh `HTMLFormatter` / `XMLFormatter` with default options -/
  | callable (fn : Nat)

/-- `formatter_for_name` (element.py:439-463); `none` = `KeyError` (no such registry key). Which registry and which class
    depends on `_is_xml` of the element. -/
def formatterForName (hreg xreg : List RegEntry) (htmlDefaults : List PStr) (isXml : Bool) : FormatterArg → Option RegEntry
  | .object e => some e
  | .callable fn => some (mkFormatter htmlDefaults isXml fn none)
  | .key named name => findFormatter (if isXml then xreg else hreg) named name

/-- `NavigableString.output_ready(formatter)` = `format_string(self, formatter)` (PREFIX/SUFFIX are empty for plain strings):
    the formatter is looked up for every string, then `substitute` decides from the parent. -/
def formatString (T : Tbl) (X : List (Nat × PStr)) (hreg xreg : List RegEntry) (htmlDefaults : List PStr) (isXml : Bool)
    (arg : FormatterArg) (parent : Option PStr) (s : PStr) : Option PStr :=
  (formatterForName hreg xreg htmlDefaults isXml arg).map fun e => formatterSubstitute T X e parent s

/-- `self.language = language or self.HTML` (formatter.py:119): `None` and the empty string mean HTML -/
def formatterLanguage (arg : Option PStr) : PStr :=
  match arg with
  | none => [104, 116, 109, 108]
  | some [] => [104, 116, 109, 108]
  | some l => l

/-- `Formatter(language, entity_substitution=fn, cdata_containing_tags=arg)` for an arbitrary `language` argument: the
    XML defaults apply exactly when the language **equals** `"xml"` (`language == self.XML`, formatter.py:71 — a comparison
    of values: any string with these code points, however it was produced) -/
def mkFormatterLang (htmlDefaults : List PStr) (language : Option PStr) (fn : Nat) (cdataArg : Option (List PStr)) :
    RegEntry :=
  mkFormatter htmlDefaults (formatterLanguage language == [120, 109, 108]) fn cdataArg

/-- `Formatter.attribute_value(value)` (formatter.py:161-172, repaired): the substitution function, whatever object carries
    the value — an attribute value is never CDATA -/
def attributeValue (T : Tbl) (X : List (Nat × PStr)) (e : RegEntry) (s : PStr) : PStr :=
  formatterSubstitute T X e none s

/-- 4.13.0: `return self.substitute(value)` — when the value is a `NavigableString` object, `substitute` looks at *its*
    parent (`valueParent`), so a string taken from a `<script>` stayed raw as an attribute value -/
def attributeValueOld (T : Tbl) (X : List (Nat × PStr)) (e : RegEntry) (valueParent : Option PStr) (s : PStr) : PStr :=
  formatterSubstitute T X e valueParent s

/-- an attribute value as `_format_tag` meets it -/
inductive AttrVal where
  /-- `None`: rendered as the bare key -/
  | absent
  | str (s : PStr)
  /-- a list or tuple of strings (multi-valued attribute): joined with one space -/
  | list (l : List PStr)
  /-- an `AttributeValueWithCharsetSubstitution` (the `content` / `charset` value of a parsed `<meta>`) rendered with an
      `eventual_encoding`: `val.substitute_encoding(eventual_encoding)` (element.py:2613-2617) gives the text — `rewritten`,
      recorded from the real method (C08's) — which then goes through the formatter like any other value -/
  | charset (rewritten : PStr)

def joinSp : List PStr → PStr
  | [] => []
  | [x] => x
  | x :: xs => x ++ 32 :: joinSp xs

/-- the text that goes through the formatter (element.py:2591-2603, for `str` and list/tuple values) -/
def AttrVal.text : AttrVal → Option PStr
  | .absent => none
  | .str s => some s
  | .list l => some (joinSp l)
  | .charset r => some r

/-- `key` or `key="value"` (element.py:2588-2606) for a formatter `e` -/
def formatAttribute (T : Tbl) (X : List (Nat × PStr)) (e : RegEntry) (key : PStr) (v : AttrVal) : PStr :=
  match v.text with
  | none => key
  | some s => key ++ 61 :: quoteAttr (formatterSubstitute T X e none s)

end BS.Entities
