import BSModel.Model.Entities
/-! # `EntitySubstitution._populate_class_variables` (bs4/dammit.py:128-258)

How the tables and the two alternations are computed from `html.entities.html5` and `html.entities.codepoint2name`.
Inputs: `items` = `sorted(html5.items())` (name, possibly with its `;`, and character sequence), `cp2name` =
`codepoint2name.items()`. Python `set`s are lists here (the order of a set is arbitrary: theorems are about membership;
the correspondence compares canonical forms). Core Lean only. -/
namespace BS.Entities

abbrev Items := List (PStr × PStr)

/-- `name_with_semicolon[:-1] if name_with_semicolon.endswith(";")` (dammit.py:157-160) and whether there was a `;` -/
def stripSemi (n : PStr) : PStr × Bool :=
  match n.reverse with
  | 59 :: r => (r.reverse, true)
  | _ => (n, false)

/-- not skipped by the two `continue`s (dammit.py:176-186): a single ASCII character other than `<` `>` is skipped, and so
    is a combination of ASCII characters. (An empty character sequence would raise IndexError at dammit.py:203; html5 has
    none — `ItemsOK`.) -/
def inRegex (ch : PStr) : Bool :=
  match ch with
  | [] => false
  | [c] => !(c < 128 && c != 60 && c != 62)
  | _ => !ch.all (· < 128)

/-- a Python `set` built by repeated `add`: later duplicates make no difference -/
def dedup [BEq α] : List α → List α
  | [] => []
  | x :: xs => if xs.contains x then dedup xs else x :: dedup xs

/-- `short_entities` (dammit.py:200-201) -/
def shortEntities (items : Items) : List Nat :=
  dedup (items.filterMap fun it =>
    match it.2 with
    | [c] => if inRegex [c] && c != 38 then some c else none
    | _ => none)

/-- all members of `long_entities_by_first_character` (dammit.py:202-203) -/
def longEntities (items : Items) : List PStr :=
  dedup (items.filterMap fun it =>
    match it.2 with
    | [_] => none  -- a single character is short, or "&", which never gets here (ASCII: skipped)
    | ch => if inRegex ch then some ch else none)

/-- `"".join([x[1] for x in long_versions])` for the long entities that start with `c` (dammit.py:213-216) -/
def lookaheadFor (longs : List PStr) (c : Nat) : List Nat :=
  longs.filterMap fun l =>
    match l with
    | a :: b :: _ => if a = c then some b else none
    | _ => none

def mkShort (longs : List PStr) (c : Nat) : Particle := ⟨[c], lookaheadFor longs c⟩

/-- the `particles` set before `"&"` is added (dammit.py:208-223): `short` or `short(?![…])`, and every long entity -/
def populateParticles (items : Items) : List Particle :=
  (shortEntities items).map (mkShort (longEntities items)) ++ (longEntities items).map fun l => ⟨l, []⟩

/-- … and after (dammit.py:227) -/
def populateParticlesAmp (items : Items) : List Particle := populateParticles items ++ [⟨[38], []⟩]

/-- `name_to_unicode` (dammit.py:165-166): the first of `name`, `name;` in sorted order wins -/
def nameToUnicode (items : Items) (name : PStr) : Option PStr :=
  (items.find? fun it => (stripSemi it.1).1 == name).map (·.2)

/-- `unicode_to_name` (dammit.py:171, 236-238): the last name in sorted order, overridden by `codepoint2name` -/
def unicodeToName (items : Items) (cp2name : List (Nat × PStr)) (ch : PStr) : Option PStr :=
  let fromItems := (items.reverse.find? fun it => it.2 == ch).map fun it => (stripSemi it.1).1
  match ch with
  | [c] =>
    match cp2name.lookup c with
    | some n => some n
    | none => fromItems
  | _ => fromItems

/-- the alternatives of `SEMICOLON_OPTIONAL_ENTITY_RE` (repair): the names html5 lists without `;` -/
def legacyNames (items : Items) : List PStr :=
  dedup (items.filterMap fun it => if (stripSemi it.1).2 then none else some it.1)

/-- every character sequence is non-empty, and the ones that enter the regex have one or two code points (the look-ahead
    only inspects the second) -/
def itemsOK (items : Items) : Bool :=
  items.all fun it => !it.2.isEmpty && (!inRegex it.2 || it.2.length ≤ 2)

end BS.Entities
