import BSModel.Model.Construct
/-! C06 — the error-conversion envelope: every call path from `BeautifulSoup.__init__` (markup checks on) down to
    CPython, with each operation that can raise made a *primitive* that may raise any class, and each `try/except` of
    the repository made an explicit clause.

    Layers and their clauses (file:line of /repo at the time of writing):
    * `UnicodeDammit._codec`              `except (LookupError, ValueError)`      bs4/dammit.py:1009-1013  (absorbs)
    * `UnicodeDammit._convert_from`       `except Exception`                      bs4/dammit.py:948-957    (absorbs)
      — `find_codec` is called *before* that `try` (:932), so what `_codec` lets through leaves `_convert_from`
    * `handle_charref` `int(...)`         `except ValueError`                     bs4/builder/_htmlparser.py:241-251 (absorbs)
    * `handle_charref` one-byte decode    `except UnicodeError`                   :262-268 (absorbs)
    * `handle_charref` `chr(...)`         `except (ValueError, OverflowError)`    :270-273 (absorbs)
    * `HTMLParserTreeBuilder.feed`        `except (AssertionError, ValueError)` → `ParserRejectedMarkup`   :477-487
      around `parser.feed(markup); parser.close()` — hence around every `handle_*` callback; the parser object is
      built *outside* it (:475)
    * `BeautifulSoup.__init__`            `except ParserRejectedMarkup` (collect, try next strategy)  bs4/__init__.py:472-478
      around `_feed()` only: `reset()`, `initialize_soup` and the `for` header that drives the `prepare_markup`
      generator are outside
    * `prepare_markup` is a generator, `EncodingDetector.encodings` too: a `StopIteration` leaving their bodies
      becomes `RuntimeError` (PEP 479)
    Nothing else on the path has a handler: `warnings.warn`, `find_declared_encoding`, `Logger.warning`, the
    `declared_html_encoding` property, `endData`/`popTag` at the end of `_feed`.

    `Code` = the clauses (so the unrepaired 4.13.0 snapshot is another value of the same record), `Prims` = the
    behaviours of everything outside the repository, `Recorded` = the exact exception classes each primitive has
    been observed to raise (the trusted residue; measured by the harness on every run). -/
namespace BS.Construct

/-- the `except` clauses and the two structural choices of the call path -/
structure Code where
  codecLookup : List Err
  convertFrom : List Err
  charrefInt : List Err        -- `[]` = no `try` around `int()`
  charrefDecode : List Err
  charrefChr : List Err
  feed : List Err
  ctor : List Err
  /-- `parser.close()` inside the `try` of `feed` -/
  closeGuarded : Bool
  /-- `_markup_resembles_filename` encodes with `errors="replace"` -/
  encodeReplace : Bool
deriving Repr, DecidableEq

/-- /repo as repaired (the four C06 fix commits) -/
def Code.live : Code :=
  { codecLookup := [.lookupError, .valueError], convertFrom := [.exception], charrefInt := [.valueError],
    charrefDecode := [.unicodeError], charrefChr := [.valueError, .overflowError],
    feed := [.assertionError, .valueError], ctor := [.parserRejectedMarkup], closeGuarded := true,
    encodeReplace := true }

/-- Beautiful Soup 4.13.0 as shipped -/
def Code.v4130 : Code :=
  { Code.live with charrefInt := [], charrefDecode := [.unicodeDecodeError], feed := [.assertionError],
                   encodeReplace := false }

/-- tokenizer events as far as this property needs them -/
abbrev Phase := List Event × Option Err

/-- everything outside the repository (and the tree-building handlers, which are C04's), as behaviours that may
    raise any class -/
structure Prims (V : Type) where
  /-- `warnings.warn(MarkupResemblesLocatorWarning…)` (bs4/__init__.py:583, 650) -/
  warn : Warning → Except Err Unit
  /-- `detector.encodings`, lazily: `.error c` = the generator's body (`_usable`, `find_declared_encoding`, chardet)
      raises `c` at that point -/
  cands : List (Except Err Nat)
  /-- the spellings `find_codec` (dammit.py:988-1003) passes to `_codec`, in order (alias, without `-`, `-`→`_`);
      none for an empty name -/
  spellings : Nat → List Nat
  /-- `codecs.lookup(spelling)` -/
  lookup : Nat → Except Err Unit
  /-- codec id of a found spelling, lower-cased -/
  canon : Nat → Nat
  /-- `charset.lower()` when no spelling is a codec (`none` for the empty name) -/
  lowered : Nat → Option Nat
  /-- `str(markup, codec, errors)` (dammit.py:969) -/
  decode : Nat → Bool → Except Err PStr
  isAscii : Nat → Bool
  /-- `self.log.warning(...)` (dammit.py:817) -/
  logWarning : Except Err Unit
  /-- the `declared_html_encoding` property read in `prepare_markup`'s `yield` (looks for a declaration on demand) -/
  declaredProp : Except Err (Option Nat)
  /-- `reset()` and `builder.initialize_soup(self)` (bs4/__init__.py:470-471) -/
  resetAll : Except Err Unit
  /-- `BeautifulSoupHTMLParser(self.soup, *args, **kwargs)` (bs4/builder/_htmlparser.py:475) -/
  newParser : Except Err Unit
  /-- `parser.feed(markup)` = `goahead(0)`: events delivered, then possibly an exception of the tokenizer's own -/
  tokFeed : PStr → Phase
  /-- `parser.close()` = `goahead(1)` on what `feed` left unparsed -/
  tokClose : PStr → Phase
  /-- `int(name)` / `int(name, 16)` -/
  intDec : PStr → Except Err Nat
  intHex : PStr → Except Err Nat
  /-- `bytearray([n]).decode(original_encoding)` -/
  dec1 : Nat → Nat → Except Err PStr
  /-- `bytearray([n]).decode("windows-1252")` -/
  dec1252 : Nat → Except Err PStr
  /-- `chr(n)` -/
  chrOf : Nat → Except Err PStr
  /-- `soup.handle_data` -/
  applyData : PStr → Obj V → Obj V × Option Err
  /-- every other `handle_*` callback -/
  applyOther : Nat → Obj V → Obj V × Option Err
  /-- `endData()` and the `popTag` loop at the end of `_feed` (bs4/__init__.py:667-671) -/
  endOfInput : Obj V → Obj V × Option Err
  markupOf : Obj V → PStr
  /-- `soup.original_encoding` as a codec id -/
  origOf : Obj V → Option Nat

/-! ### UnicodeDammit -/

/-- `_codec` (dammit.py:1005-1014): `true` = the spelling is a codec -/
def tryLookup {V : Type} (code : Code) (P : Prims V) (s : Nat) : Except Err Bool :=
  match P.lookup s with
  | .ok () => .ok true
  | .error c => if catches code.codecLookup c then .ok false else .error c

def findCodecGo {V : Type} (code : Code) (P : Prims V) (fallback : Option Nat) : List Nat → Except Err (Option Nat)
  | [] => .ok fallback
  | s :: ss =>
    match tryLookup code P s with
    | .error c => .error c
    | .ok true => .ok (some (P.canon s))
    | .ok false => findCodecGo code P fallback ss

/-- `find_codec` (dammit.py:988-1003): the `or` chain stops at the first spelling that is a codec -/
def findCodecE {V : Type} (code : Code) (P : Prims V) (e : Nat) : Except Err (Option Nat) :=
  findCodecGo code P (P.lowered e) (P.spellings e)

/-- `_convert_from` (dammit.py:922-959) -/
def convertFromE {V : Type} (code : Code) (P : Prims V) (st : DammitState) (proposed : Nat) (replace : Bool) :
    Except Err (Option PStr × DammitState) :=
  match findCodecE code P proposed with
  | .error c => .error c                                   -- :932, outside the `try`
  | .ok none => .ok (none, st)
  | .ok (some c) =>
    if st.tried.contains (c, replace) then .ok (none, st)
    else
      let st := { st with tried := st.tried ++ [(c, replace)] }
      match P.decode c replace with
      | .ok u => .ok (some u, { st with unicodeMarkup := some u, originalEncoding := some c })
      | .error x => if catches code.convertFrom x then .ok (none, st) else .error x

/-- PEP 479 at a generator boundary -/
def pep479 (e : Err) : Err := if e.isSub .stopIteration then .runtimeError else e

/-- dammit.py:803-807 -/
def pass1E {V : Type} (code : Code) (P : Prims V) : List (Except Err Nat) → DammitState →
    Except Err (Option PStr × DammitState)
  | [], st => .ok (none, st)
  | .error c :: _, _ => .error (pep479 c)
  | .ok e :: es, st =>
    match convertFromE code P st e false with
    | .error c => .error c
    | .ok (some u, st') => .ok (some u, st')
    | .ok (none, st') => pass1E code P es st'

/-- dammit.py:813-823 -/
def pass2E {V : Type} (code : Code) (P : Prims V) : List (Except Err Nat) → Option PStr → DammitState →
    Except Err (Option PStr × Bool × DammitState)
  | [], u, st => .ok (u, false, st)
  | .error c :: _, _, _ => .error (pep479 c)
  | .ok e :: es, u, st =>
    match (if P.isAscii e then .ok (u, st) else convertFromE code P st e true) with
    | .error c => .error c
    | .ok r =>
      if r.1.isSome then
        match P.logWarning with
        | .error c => .error c
        | .ok () => .ok (r.1, true, r.2)
      else pass2E code P es r.1 r.2

/-- `UnicodeDammit.__init__` for non-empty bytes (dammit.py:798-838) -/
def dammitE {V : Type} (code : Code) (P : Prims V) : Except Err DammitResult :=
  match pass1E code P P.cands {} with
  | .error c => .error c
  | .ok p1 =>
    match (if firstPassEnough p1.1 then .ok (p1.1, false, p1.2) else pass2E code P P.cands p1.1 p1.2) with
    | .error c => .error c
    | .ok p2 =>
      match p2.1 with
      | none => .ok ⟨none, none, p2.2.1⟩
      | some t => .ok ⟨some t, p2.2.2.originalEncoding, p2.2.1⟩

/-- `HTMLParserTreeBuilder.prepare_markup` (bs4/builder/_htmlparser.py:388-458), a generator driven by the
    constructor's `for` header -/
def prepareMarkupE {V : Type} (code : Code) (P : Prims V) : Markup → Except Err (List Strategy)
  | .str s => .ok [{ markup := s }]
  | .bytes b =>
    match (if b.isEmpty then .ok ⟨some [], none, false⟩ else dammitE code P) with     -- dammit.py:792-796
    | .error c => .error (pep479 c)
    | .ok d =>
      match d.unicodeMarkup with
      | none => .error .parserRejectedMarkup                                             -- :442-451
      | some u =>
        match P.declaredProp with
        | .error c => .error (pep479 c)
        | .ok de => .ok [⟨u, d.originalEncoding, de, d.containsReplacement⟩]

/-- the non-raising view of the UnicodeDammit primitives -/
def Prims.env {V : Type} (code : Code) (P : Prims V) : DammitEnv where
  codecOf e := match findCodecE code P e with
    | .ok c => c
    | .error _ => none
  decode c b := match P.decode c b with
    | .ok u => some u
    | .error _ => none
  isAscii := P.isAscii

/-- nothing on the UnicodeDammit path raises beyond what the two clauses absorb -/
structure Prims.DammitQuiet {V : Type} (code : Code) (P : Prims V) (encs : List Nat) : Prop where
  cands : P.cands = encs.map .ok
  find : ∀ e, ∃ c, findCodecE code P e = .ok c
  decode : ∀ c b x, P.decode c b = .error x → catches code.convertFrom x = true
  log : P.logWarning = .ok ()

/-- `UnicodeDammit._to_unicode` (dammit.py:1013-1030) as repaired: CPython's `str(b"", codec, errors)` returns `""` WITHOUT
    looking the codec up, so for data that is empty (a document that is only a byte-order mark) the name is first checked
    with `"".encode(codec)` (`encodeEmpty`: `LookupError` for a name that is no text codec). `P.decode` stays CPython's
    `str(data, codec, errors)`. -/
def guardedDecode (encodeEmpty : Nat → Except Err Unit) (decode : Nat → Bool → Except Err PStr) (empty : Bool)
    (c : Nat) (b : Bool) : Except Err PStr :=
  if empty then
    match encodeEmpty c with
    | .error x => .error x
    | .ok () => decode c b
  else decode c b

/-- the primitives as `_convert_from` sees them through the repaired `_to_unicode`; `empty` = the data is empty once the
    byte-order mark is stripped -/
def Prims.withEmptyGuard {V : Type} (P : Prims V) (encodeEmpty : Nat → Except Err Unit) (empty : Bool) : Prims V :=
  { P with decode := guardedDecode encodeEmpty P.decode empty }

/-! ### the beginner heuristics with the warning call -/

def heuristicsE {V : Type} (code : Code) (P : Prims V) (m : Markup) : Except Err Warning :=
  match (if code.encodeReplace then heuristics m else heuristicsOld m) with
  | .error e => .error e
  | .ok .none => .ok .none
  | .ok w =>
    match P.warn w with
    | .ok () => .ok w
    | .error c => .error c

/-! ### `handle_charref` over raising primitives -/

/-- an `except` clause that absorbs: the exception is dropped and `dflt` used -/
def absorb {α : Type} (clause : List Err) (dflt : α) : Except Err α → Except Err α
  | .ok a => .ok a
  | .error c => if catches clause c then .ok dflt else .error c

def charrefNumberE {V : Type} (P : Prims V) (name : PStr) : Except Err Nat :=
  match name with
  | 120 :: _ => P.intHex (name.dropWhile (· == 120))
  | 88 :: _ => P.intHex (name.dropWhile (· == 88))
  | _ => P.intDec name

def someOf (r : Except Err PStr) : Except Err (Option PStr) :=
  match r with
  | .ok s => .ok (some s)
  | .error c => .error c

/-- one round of the `for encoding in (original_encoding, "windows-1252")` loop -/
def tryDecodeE (clause : List Err) (d : Option (Except Err PStr)) (data : Option PStr) : Except Err (Option PStr) :=
  match d with
  | none => .ok data                               -- `if not encoding: continue`
  | some r => absorb clause data (someOf r)

/-- :253-268 -/
def charrefDecodeE {V : Type} (code : Code) (P : Prims V) (orig : Option Nat) (n : Nat) : Except Err (Option PStr) :=
  if n < 256 then
    match tryDecodeE code.charrefDecode (orig.map fun e => P.dec1 e n) none with
    | .error c => .error c
    | .ok d1 => tryDecodeE code.charrefDecode (some (P.dec1252 n)) d1
  else .ok none

/-- :269-273 -/
def charrefChrE {V : Type} (code : Code) (P : Prims V) (n : Nat) (data : Option PStr) : Except Err (Option PStr) :=
  if truthy data then .ok data else absorb code.charrefChr data (someOf (P.chrOf n))

/-- :253-276, once the number is known -/
def charrefTailE {V : Type} (code : Code) (P : Prims V) (orig : Option Nat) (n : Nat) : Except Err PStr :=
  match charrefDecodeE code P orig n with
  | .error c => .error c
  | .ok data =>
    match charrefChrE code P n data with
    | .error c => .error c
    | .ok data => .ok (if truthy data then data.getD [] else [0xFFFD])

/-- bs4/builder/_htmlparser.py:230-276 -/
def handleCharrefE {V : Type} (code : Code) (P : Prims V) (orig : Option Nat) (name : PStr) : Except Err PStr :=
  match absorb code.charrefInt (Gen.C06.maxUnicode + 1) (charrefNumberE P name) with
  | .error c => .error c
  | .ok n => charrefTailE code P orig n

/-- the three outcomes of a one-byte decode as exceptions -/
def Dec1.toExcept : Dec1 → Except Err PStr
  | .ok s => .ok s
  | .decodeError => .error .unicodeDecodeError
  | .otherError => .error .unicodeError

/-- CPython's `int`/`chr`/Windows-1252 as modelled concretely in `Construct.lean`, and a document codec `f` -/
structure Prims.CharrefConcrete {V : Type} (P : Prims V) (f : Nat → Nat → Dec1) : Prop where
  intDec : P.intDec = pyIntDec
  intHex : P.intHex = pyIntHex
  dec1 : ∀ e n, P.dec1 e n = (f e n).toExcept
  dec1252 : ∀ n, P.dec1252 n = (cp1252 n).toExcept
  chrOf : ∀ n, P.chrOf n = if n ≤ Gen.C06.maxUnicode then .ok [n] else .error .valueError

/-! ### feed, close, the callbacks -/

def handleEventsE {V : Type} (code : Code) (P : Prims V) (orig : Option Nat) : List Event → Obj V → Obj V × Option Err
  | [], o => (o, none)
  | .charref n :: es, o =>
    match handleCharrefE code P orig n with
    | .error e => (o, some e)
    | .ok d =>
      match P.applyData d o with
      | (o', none) => handleEventsE code P orig es o'
      | (o', some e) => (o', some e)
  | .other k :: es, o =>
    match P.applyOther k o with
    | (o', none) => handleEventsE code P orig es o'
    | (o', some e) => (o', some e)

/-- one `goahead`: callbacks for the events, then the tokenizer's own exception if any -/
def runPhase {V : Type} (code : Code) (P : Prims V) (t : Phase) (o : Obj V) : Obj V × Option Err :=
  match handleEventsE code P (P.origOf o) t.1 o with
  | (o', some e) => (o', some e)
  | (o', none) => (o', t.2)

/-- the `except (…) as e: raise ParserRejectedMarkup(e)` of `feed` -/
def wrapFeed {V : Type} (code : Code) : Obj V × Option Err → Obj V × Option Err
  | (o, some e) => if catches code.feed e then (o, some .parserRejectedMarkup) else (o, some e)
  | r => r

/-- `HTMLParserTreeBuilder.feed` (bs4/builder/_htmlparser.py:460-488) -/
def builderFeedE {V : Type} (code : Code) (P : Prims V) (o : Obj V) : Obj V × Option Err :=
  match P.newParser with
  | .error c => (o, some c)
  | .ok () =>
    match wrapFeed code (runPhase code P (P.tokFeed (P.markupOf o)) o) with
    | (o1, some e) => (o1, some e)
    | (o1, none) =>
      if code.closeGuarded then wrapFeed code (runPhase code P (P.tokClose (P.markupOf o)) o1)
      else runPhase code P (P.tokClose (P.markupOf o)) o1

/-- `reset(); initialize_soup(); try: _feed() except ParserRejectedMarkup` (bs4/__init__.py:470-478, 657-671) -/
def soupFeedE {V : Type} (code : Code) (P : Prims V) (o : Obj V) : Obj V × Outcome :=
  match P.resetAll with
  | .error c => (o, .raise c)                                    -- outside the `try`
  | .ok () =>
    match (match builderFeedE code P o with
           | (o', none) => P.endOfInput o'
           | r => r) with
    | (o', none) => (o', .accept)
    | (o', some e) => if catches code.ctor e then (o', .reject) else (o', .raise e)

/-- the object-level part that does not depend on exceptions: loop targets, what `reset()` computes, the final
    clearing -/
structure Frame (V : Type) where
  header : Strategy → List (Field × V)
  fresh : Obj V → List (Field × V)
  finish : List (Field × V)

def machineE {V : Type} (code : Code) (P : Prims V) (F : Frame V) : Machine V :=
  ⟨F.header, F.fresh, soupFeedE code P, F.finish⟩

/-- `BeautifulSoup.__init__` from the markup checks on (bs4/__init__.py:439-490), every call path -/
def constructE {V : Type} (code : Code) (P : Prims V) (F : Frame V) (o0 : Obj V) (mk : Markup) :
    Obj V × Except Err Unit :=
  construct (machineE code P F) (heuristicsE code P) (prepareMarkupE code P) o0 mk

/-! ### the recorded kinds: the trusted residue -/

/-- for each primitive, the exact classes it has been observed to raise -/
structure Recorded where
  warn : List Err
  cands : List Err
  lookup : List Err
  decode : List Err
  logWarning : List Err
  declaredProp : List Err
  resetAll : List Err
  newParser : List Err
  tokenizer : List Err       -- `goahead`, both phases
  intOf : List Err
  dec1 : List Err            -- one-byte decode, any codec
  chrOf : List Err
  callbacks : List Err       -- `handle_data`, the other `handle_*`, `endData`/`popTag`
deriving Repr, DecidableEq

def raisesOnly {α : Type} (kinds : List Err) (x : Except Err α) : Prop := ∀ c, x = .error c → c ∈ kinds

def raisesOnlyO (kinds : List Err) (x : Option Err) : Prop := ∀ c, x = some c → c ∈ kinds

/-- every primitive of `P` stays within the recorded kinds -/
structure Prims.Within {V : Type} (P : Prims V) (r : Recorded) : Prop where
  warn : ∀ w, raisesOnly r.warn (P.warn w)
  cands : ∀ x ∈ P.cands, raisesOnly r.cands x
  lookup : ∀ s, raisesOnly r.lookup (P.lookup s)
  decode : ∀ c b, raisesOnly r.decode (P.decode c b)
  logWarning : raisesOnly r.logWarning P.logWarning
  declaredProp : raisesOnly r.declaredProp P.declaredProp
  resetAll : raisesOnly r.resetAll P.resetAll
  newParser : raisesOnly r.newParser P.newParser
  tokFeed : ∀ s, raisesOnlyO r.tokenizer (P.tokFeed s).2
  tokClose : ∀ s, raisesOnlyO r.tokenizer (P.tokClose s).2
  intDec : ∀ s, raisesOnly r.intOf (P.intDec s)
  intHex : ∀ s, raisesOnly r.intOf (P.intHex s)
  dec1 : ∀ e n, raisesOnly r.dec1 (P.dec1 e n)
  dec1252 : ∀ n, raisesOnly r.dec1 (P.dec1252 n)
  chrOf : ∀ n, raisesOnly r.chrOf (P.chrOf n)
  applyData : ∀ d o, raisesOnlyO r.callbacks (P.applyData d o).2
  applyOther : ∀ k o, raisesOnlyO r.callbacks (P.applyOther k o).2
  endOfInput : ∀ o, raisesOnlyO r.callbacks (P.endOfInput o).2

def isPRM (c : Err) : Bool := c == .parserRejectedMarkup

/-- acceptable where only the constructor's `try` is around: collected as a rejection, or already the right class -/
def okAtCtor (code : Code) (c : Err) : Bool := catches code.ctor c || isPRM c

/-- acceptable inside `feed`'s `try`: converted there, or acceptable one level up -/
def okAtFeed (code : Code) (c : Err) : Bool := catches code.feed c || okAtCtor code c

/-- acceptable inside the `prepare_markup` generator with no handler around: must already be `ParserRejectedMarkup` -/
def okInGenerator (c : Err) : Bool := isPRM (pep479 c)

/-- Do the clauses of `code` absorb or convert every recorded kind, at the place where it can be raised?
    (decidable: finite lists of classes)
    * no handler at all on the path (`warnings.warn`, `reset()`): only `ParserRejectedMarkup` itself may pass;
    * inside the generator (`encodings`, `find_declared_encoding`, `Logger.warning`, the property): the same after PEP 479;
    * `lookup`: `_codec`'s clause, else it leaves through the generator;
    * `decode`: `_convert_from`'s clause, else the same;
    * inside `feed`'s `try` (tokenizer, what the charref clauses let through): `feed`'s clause, or the constructor's;
    * inside the constructor's `try` only (`newParser`, the callbacks at end of input): the constructor's clause;
    * `close()` must be inside `feed`'s `try` and the filename heuristic must encode with `replace`. -/
def Covers (code : Code) (r : Recorded) : Bool :=
  r.warn.all isPRM && r.cands.all okInGenerator &&
  r.lookup.all (fun c => catches code.codecLookup c || okInGenerator c) &&
  r.decode.all (fun c => catches code.convertFrom c || okInGenerator c) &&
  r.logWarning.all okInGenerator && r.declaredProp.all okInGenerator &&
  r.resetAll.all isPRM &&
  r.newParser.all (okAtCtor code) &&
  r.tokenizer.all (okAtFeed code) &&
  r.intOf.all (fun c => catches code.charrefInt c || okAtFeed code c) &&
  r.dec1.all (fun c => catches code.charrefDecode c || okAtFeed code c) &&
  r.chrOf.all (fun c => catches code.charrefChr c || okAtFeed code c) &&
  r.callbacks.all (okAtCtor code) &&
  code.closeGuarded && code.encodeReplace

/-- the tree-building callbacks write only fields in `X` (for the real code: `Gen.C06.feedTouches`, instrumented) -/
structure Prims.Frames {V : Type} (P : Prims V) (X : List Field) : Prop where
  applyData : ∀ d o, AgreeOff X (P.applyData d o).1 o
  applyOther : ∀ k o, AgreeOff X (P.applyOther k o).1 o
  endOfInput : ∀ o, AgreeOff X (P.endOfInput o).1 o

/-- the loop targets and `reset()` assign fixed sets of fields, and what `reset()` computes does not depend on what it
    assigns -/
structure Frame.WF {V : Type} (F : Frame V) (R H : List Field) : Prop where
  headerKeys : ∀ s, (F.header s).map Prod.fst = H
  freshKeys : ∀ o, (F.fresh o).map Prod.fst = R
  freshFrame : ∀ o o', AgreeOff R o o' → F.fresh o = F.fresh o'

/-! ### injection at the primitives: the executable form of "all call paths" -/

/-- the primitives by name (the same names as `harness/c06_envelope.py` POINTS) -/
inductive Point where
  | warn | cands | lookup | decode | logWarning | declaredProp | resetAll | newParser | tokFeed | tokClose
  | intOf | dec1 | chrOf | applyData | applyOther | endOfInput
deriving DecidableEq, Repr

def Point.all : List Point :=
  [.warn, .cands, .lookup, .decode, .logWarning, .declaredProp, .resetAll, .newParser, .tokFeed, .tokClose,
   .intOf, .dec1, .chrOf, .applyData, .applyOther, .endOfInput]

/-- nothing raises beyond what CPython does on a well-formed document: two candidates (`utf-8`, `windows-1252`), a
    tokenizer that delivers a start tag, the references `&#65; &#x42; &#150; &#300;` and text -/
def Prims.quiet : Prims Unit where
  warn _ := .ok ()
  cands := [.ok 1, .ok 2]
  spellings e := [e]
  lookup _ := .ok ()
  canon s := s
  lowered e := some e
  decode _ _ := .ok [120]
  isAscii _ := false
  logWarning := .ok ()
  declaredProp := .ok none
  resetAll := .ok ()
  newParser := .ok ()
  tokFeed _ := ([.other 1, .charref [54, 53], .charref [120, 52, 50], .charref [49, 53, 48], .charref [51, 48, 48], .other 2], none)
  tokClose _ := ([.other 3], none)
  intDec := pyIntDec
  intHex := pyIntHex
  dec1 _ n := .ok [n]
  dec1252 n := (cp1252 n).toExcept
  chrOf n := if n ≤ Gen.C06.maxUnicode then .ok [n] else .error .valueError
  applyData _ o := (o, none)
  applyOther _ o := (o, none)
  endOfInput o := (o, none)
  markupOf _ := []
  origOf _ := none

/-- nothing raises, nothing is delivered: the smallest behaviour, within every list of recorded kinds -/
def Prims.silent : Prims Unit :=
  { Prims.quiet with tokFeed := fun _ => ([], none), tokClose := fun _ => ([], none), intDec := fun _ => .ok 0,
                     intHex := fun _ => .ok 0, dec1252 := fun _ => .ok [63], chrOf := fun _ => .ok [63],
                     cands := [.ok 1], decode := fun _ _ => .ok [120] }

/-- every call of the primitive `pt` raises `c` (the tokenizer phases: after delivering their events) -/
def Prims.inject (P : Prims Unit) (pt : Point) (c : Err) : Prims Unit :=
  match pt with
  | .warn => { P with warn := fun _ => .error c }
  | .cands => { P with cands := [.error c] }
  | .lookup => { P with lookup := fun _ => .error c }
  | .decode => { P with decode := fun _ _ => .error c }
  | .logWarning => { P with logWarning := .error c }
  | .declaredProp => { P with declaredProp := .error c }
  | .resetAll => { P with resetAll := .error c }
  | .newParser => { P with newParser := .error c }
  | .tokFeed => { P with tokFeed := fun s => ((P.tokFeed s).1, some c) }
  | .tokClose => { P with tokClose := fun s => ((P.tokClose s).1, some c) }
  | .intOf => { P with intDec := fun _ => .error c, intHex := fun _ => .error c }
  | .dec1 => { P with dec1 := fun _ _ => .error c, dec1252 := fun _ => .error c }
  | .chrOf => { P with chrOf := fun _ => .error c }
  | .applyData => { P with applyData := fun _ o => (o, some c) }
  | .applyOther => { P with applyOther := fun _ o => (o, some c) }
  | .endOfInput => { P with endOfInput := fun o => (o, some c) }

/-- the scenario in which `pt` is reached: the markup, and the undisturbed behaviour of the other primitives -/
def scenarioMarkup : Point → Markup
  | .warn => .str (BS.ofS "http://example.com/")
  | .cands | .lookup | .decode | .declaredProp | .dec1 | .logWarning => .bytes [60, 112, 62]
  | _ => .str [60, 112, 62]

def scenarioPrims : Point → Prims Unit
  | .logWarning => { Prims.quiet with decode := fun _ repl => if repl then .ok [120, 0xFFFD] else .error .unicodeDecodeError }
  | .dec1 => { Prims.quiet with origOf := fun _ => some 1 }
  | _ => Prims.quiet

/-- what the caller of the constructor sees -/
inductive Verdict where
  | tree
  | prm
  | escapes (e : Err)
deriving DecidableEq, Repr

def verdictOf : Except Err Unit → Verdict
  | .ok () => .tree
  | .error .parserRejectedMarkup => .prm
  | .error e => .escapes e

def Frame.unit : Frame Unit := ⟨fun _ => [], fun _ => [], []⟩

/-- the model's prediction for "every call of `pt` raises `c`" on the scenario of `pt` -/
def predict (code : Code) (pt : Point) (c : Err) : Verdict :=
  verdictOf (constructE code ((scenarioPrims pt).inject pt c) Frame.unit (fun _ => ()) (scenarioMarkup pt)).2

end BS.Construct
