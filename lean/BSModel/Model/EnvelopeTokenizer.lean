import BSModel.Model.Tokenizer
import BSModel.Model.Envelope
/-! C06 over the tokenizer MODEL: `HTMLParserTreeBuilder.feed` = `parser.feed(text); parser.close()` as the composition

      text ──`Tokenizer.run`──▶ callback stream ──`Adapter.toEvents`──▶ builder events ──`Builder.build`──▶ tree

    (bs4/builder/_htmlparser.py:460-488 around CPython's `html/parser.py`, mirrored in `Model/Tokenizer.lean`). The
    tokenizer is no longer a recorded stream here: the outcome class of every text is a function of the text, of the two
    standard-library parameters of the tokenizer (`html.unescape`, `str.lower`) and of the adapter/builder configuration.

    `feedClose` is the pipeline; `tokPhases` packs the same tokenizer run into the two `Phase`s the envelope model
    (`Model/Envelope.lean`) takes as the primitives `tokFeed`/`tokClose`; `RaisesAt` is the declarative description of the
    suffixes on which `_markupbase.parse_marked_section` raises. Core Lean only. -/
namespace BS.EnvelopeTokenizer
open BS.Tokenizer BS.Adapter BS.Builder

/-- everything the pipeline depends on besides the text -/
structure PCfg where
  tp : Params          -- `html.unescape`, `str.lower`
  acfg : ACfg          -- bs4's handlers (`BeautifulSoupHTMLParser`)
  bcfg : Cfg           -- the construction machine (`BeautifulSoup` object + builder tables)

/-- how `feed(text); close()` under `HTMLParserTreeBuilder.feed`'s `try` ends -/
inductive Result where
  | tree (docs : List Doc) (infos : List StartInfo)      -- `_feed` returns; the finished document
  | rejected                                              -- `AssertionError` → `ParserRejectedMarkup` (_htmlparser.py:480-487)
  | outOfFuel                                             -- the model's loops ran dry (never: `pipeline_total`)
deriving Repr

/-- the builder events of a text: what the handlers send to the `BeautifulSoup` object while the tokenizer runs (on a
    rejected text: up to the point where it raised) -/
def eventsOf (c : PCfg) (text : PStr) : List Builder.Ev := (toEvents c.acfg (callbacks (run c.tp text))).1

/-- text → tokenizer model → handlers → construction machine -/
def feedClose (c : PCfg) (text : PStr) : Result :=
  let r := run c.tp text
  match r.flag with
  | .ok => let b := adapterBuild c.bcfg c.acfg (callbacks r); .tree b.1 b.2
  | .err => .rejected
  | .stuck => .outOfFuel

/-- one parsing strategy in the vocabulary of the constructor's retry loop (`Builder.parseLoop`): the events the text
    makes the handlers send, and whether the tokenizer then gave up -/
def attemptOf (c : PCfg) (text : PStr) : Attempt := ⟨eventsOf c text, (run c.tp text).flag == .err⟩

/-! ### the marked-section assertions, declaratively -/

/-- the eight status keywords `parse_marked_section` knows (`_markupbase.py:147-152`, CPython 3.12) -/
def knownKeywords : List PStr := sectStd ++ sectMs

/-- `s` begins with `<![` and what follows makes `parse_marked_section` raise:
    * "expected name token" (`_scan_name`, _markupbase.py:389-392): a further character exists and is no ASCII letter; or
    * "unknown status keyword" (153-156): a name `[a-zA-Z][-_.a-zA-Z0-9]*` (`nm`, taken greedily), whitespace (`ws`, taken
      greedily), at least one further character `c` — so that `_scan_name` does not report "end of buffer" — and the
      ASCII-lowered name is none of the eight keywords. No closing delimiter is needed for either. -/
def RaisesAt (s : PStr) : Prop :=
  s.take 3 = [60, 33, 91] ∧
  ((∃ c, (s.drop 3).head? = some c ∧ isAlpha c = false) ∨
   (∃ a tl ws c rest, s.drop 3 = (a :: tl) ++ ws ++ c :: rest ∧ isAlpha a = true ∧ (∀ x ∈ tl, isDeclNameCh x = true) ∧
      (∀ x ∈ ws, isWs x = true) ∧ isWs c = false ∧ (ws = [] → isDeclNameCh c = false) ∧
      asciiLower (a :: tl) ∉ knownKeywords))

/-! ### the tokenizer model as the two tokenizer primitives of the envelope model -/

/-- the envelope model's view of a callback: `handle_charref` (whose conversion it models) or any other handler -/
def toEvent (e : Tokenizer.Ev) : Option Construct.Event :=
  match e.tok with
  | .cr s => some (.charref s)
  | .skip => none
  | .st .. => some (.other 1) | .se .. => some (.other 2) | .et .. => some (.other 3) | .data .. => some (.other 4)
  | .er .. => some (.other 5) | .cm .. => some (.other 6) | .dl .. => some (.other 7) | .ud .. => some (.other 8)
  | .pi .. => some (.other 9)

/-- one `goahead` as a `Phase`: the callbacks it made, then `AssertionError` if it raised (`stuck`, proved unreachable, is
    mapped to a class no clause catches so that nothing is hidden) -/
def phaseOf (o : Out) : Construct.Phase :=
  (o.evs.filterMap toEvent, match o.flag with | .ok => none | .err => some .assertionError | .stuck => some (.other 0))

/-- `parser.feed(text)` = `goahead(0)` from `reset()` -/
def tokFeedModel (tp : Params) (text : PStr) : Construct.Phase := phaseOf (goahead tp false (init text))

/-- `parser.close()` = `goahead(1)` on what `feed` left -/
def tokCloseModel (tp : Params) (text : PStr) : Construct.Phase :=
  phaseOf (goahead tp true (goahead tp false (init text)).st)

/-- the primitives `P` with both tokenizer phases replaced by the tokenizer model -/
def withTokenizer {V : Type} (P : Construct.Prims V) (tp : Params) : Construct.Prims V :=
  { P with tokFeed := tokFeedModel tp, tokClose := tokCloseModel tp }

end BS.EnvelopeTokenizer
