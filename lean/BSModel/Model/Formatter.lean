import BSModel.Base.PStr
import BSModel.Gen.TextWs
import BSModel.Gen.FormatterConsts
/-! C15 — formatters: `Formatter.__init__`/`_default`/`substitute`/`attribute_value`/`attributes`
    (bs4/formatter.py:66-190), `HTMLFormatter.__init__` (:198-212), `XMLFormatter.__init__` (:220-234), the registries
    (:238-263), `PageElement.format_string`/`formatter_for_name` (bs4/element.py:426-465),
    `NavigableString.output_ready` (:1333-1341), `PreformattedString.output_ready` (:1436-1450), `Tag._format_tag`
    (:2534-2594), `Tag.decode`/`_indent_string`/`prettify`/`decode_contents` (:2340-2532, :2607-2651),
    `EntitySubstitution.quoted_attribute_value`/`substitute_xml`/`substitute_html` and the assembly of the entity regex from
    a `set` (bs4/dammit.py:221-258, :320-420).

    The two constructors `mkHTMLFormatter`/`mkXMLFormatter` mirror the REPAIRED code (they forward `indent`);
    `mkHTMLFormatterOld`/`mkXMLFormatterOld` mirror 4.13.0 as shipped (formatter.py:206-212, :228-234 do not pass `indent`).

    Trees are a plain inductive type and rendering is the recursive evaluator: that `_event_stream` over the
    `next_element` chain is this recursion is C01/C05/C14's business, not this property's. -/
namespace BS.Formatter

/-! ### options -/

/-- `Formatter.language` after `language or self.HTML`; `other` = any other non-empty string -/
inductive Lang where
  | html | xml | other (k : Nat)
deriving DecidableEq, Repr

/-- the *identity* of an `entity_substitution` value: `None`, one of the three `EntitySubstitution` class methods, or the
    `k`-th user function. What the function computes is a parameter of rendering (`Subst → PStr → PStr`). -/
inductive Subst where
  | none | xml | html | html5 | custom (k : Nat)
deriving DecidableEq, Repr

/-- the `indent` argument as a caller can pass it: an `int` (`bool` included), a `str`, `None`, anything else -/
inductive IndentArg where
  | int (i : Int) | str (s : PStr) | none | other
deriving DecidableEq, Repr

/-- the five option parameters shared by the three constructors, with the defaults of the signatures
    (formatter.py:82-86, :200-204, :222-226; compared with `inspect.signature` of the live classes in `Props.C15`) -/
structure Args where
  entity_substitution : Subst := .none
  void_element_close_prefix : Option PStr := some [47]
  cdata_containing_tags : Option (List PStr) := none
  empty_attributes_are_booleans : Bool := false
  indent : IndentArg := .int 1
deriving DecidableEq, Repr

/-- the attributes of a constructed `Formatter` object -/
structure Cfg where
  language : Lang
  entity_substitution : Subst
  void_element_close_prefix : Option PStr
  cdata_containing_tags : List PStr
  empty_attributes_are_booleans : Bool
  indent : PStr
deriving DecidableEq, Repr

/-- `Formatter._default` (formatter.py:66-77) for `kwarg = "cdata_containing_tags"`. `htmlDefaults` is
    `self.HTML_DEFAULTS[kwarg]`: the table of the class **in use** — a user subclass may declare its own `HTML_DEFAULTS`. -/
def defaultCls (htmlDefaults : List PStr) (language : Lang) (value : Option (List PStr)) : List PStr :=
  match value with
  | some v => v
  | none => if language = .xml then [] else htmlDefaults

/-- the three stock classes share `Formatter.HTML_DEFAULTS` -/
def default_ (language : Lang) (value : Option (List PStr)) : List PStr :=
  defaultCls BS.Gen.fmtHtmlDefaultCdata language value

/-- formatter.py:125-136: `None → 0`; an int: negative `→ 0`, then `" " * indent`; a str: itself; anything else: `" "` -/
def normIndent : IndentArg → PStr
  | .none => []
  | .int i => List.replicate i.toNat 32
  | .str s => s
  | .other => [32]

/-- `Formatter.__init__` (formatter.py:79-136) run on an instance of a class whose `HTML_DEFAULTS['cdata_containing_tags']`
    is `htmlDefaults`; `language = none` is `None` (or `""`) -/
def mkFormatterCls (htmlDefaults : List PStr) (language : Option Lang) (a : Args) : Cfg :=
  let lang := language.getD .html
  { language := lang
    entity_substitution := a.entity_substitution
    void_element_close_prefix := a.void_element_close_prefix
    cdata_containing_tags := defaultCls htmlDefaults lang a.cdata_containing_tags
    empty_attributes_are_booleans := a.empty_attributes_are_booleans
    indent := normIndent a.indent }

/-- `Formatter(language, …)` itself -/
def mkFormatter (language : Option Lang) (a : Args) : Cfg := mkFormatterCls BS.Gen.fmtHtmlDefaultCdata language a

/-- `HTMLFormatter.__init__` with the repair: every option is passed on, `indent` included -/
def mkHTMLFormatter (a : Args) : Cfg := mkFormatter (some .html) a
/-- `XMLFormatter.__init__` with the repair -/
def mkXMLFormatter (a : Args) : Cfg := mkFormatter (some .xml) a

/-- `HTMLFormatter.__init__` of 4.13.0 as shipped (formatter.py:206-212): five positional arguments, `indent` is not among
    them, so `Formatter.__init__` sees its own default -/
def mkHTMLFormatterOld (a : Args) : Cfg := mkFormatter (some .html) { a with indent := .int 1 }
/-- `XMLFormatter.__init__` of 4.13.0 as shipped (formatter.py:228-234) -/
def mkXMLFormatterOld (a : Args) : Cfg := mkFormatter (some .xml) { a with indent := .int 1 }

/-! ### `formatter_for_name` -/

/-- what a caller can pass as `formatter=` -/
inductive FmtArg where
  | obj (c : Cfg)              -- a `Formatter` instance
  | fn (s : Subst)             -- a callable
  | name (n : Option PStr)     -- a registry key (a str or `None`)
deriving DecidableEq, Repr

inductive Resolved where
  | ok (c : Cfg)
  | keyError                   -- `registry[formatter_name]` raised
deriving DecidableEq, Repr

def lookup (reg : List (Option PStr × Cfg)) (n : Option PStr) : Resolved :=
  match reg.find? (fun e => e.1 == n) with
  | some e => .ok e.2
  | none => .keyError

/-- `PageElement.formatter_for_name` (element.py:439-465). `isXml` = `self._is_xml`; `regH`/`regX` the two registries. -/
def formatterForName (regH regX : List (Option PStr × Cfg)) (isXml : Bool) : FmtArg → Resolved
  | .obj c => .ok c
  | .fn s => .ok (if isXml then mkXMLFormatter { entity_substitution := s } else mkHTMLFormatter { entity_substitution := s })
  | .name n => lookup (if isXml then regX else regH) n

/-! ### trees -/

/-- `NavigableString` classes as far as output is concerned: `text` = `NavigableString` itself and every subclass that
    inherits its `output_ready` (Script, Stylesheet, TemplateString, …) -/
inductive StrKind where
  | text | preformatted | cdata | pi | xmlpi | comment | declaration | doctype
deriving DecidableEq, Repr

def StrKind.code : StrKind → Nat
  | .text => 0 | .preformatted => 1 | .cdata => 2 | .pi => 3 | .xmlpi => 4 | .comment => 5 | .declaration => 6 | .doctype => 7

def StrKind.prefix (k : StrKind) : PStr := BS.Gen.fmtStrPrefix.getD k.code []
def StrKind.suffix (k : StrKind) : PStr := BS.Gen.fmtStrSuffix.getD k.code []
/-- inherits `PreformattedString.output_ready` -/
def StrKind.verbatim (k : StrKind) : Bool := BS.Gen.fmtPreformatted.contains k.code

inductive AttrVal where
  | none                    -- `None`
  | str (s : PStr)
  | list (l : List PStr)    -- a multi-valued attribute (list or tuple of str)
  | other (s : PStr)        -- any other object (int, float, bool, a path/URL object …); `s` is its `str()`
deriving DecidableEq, Repr

/-- `pfx = []` stands for a `prefix` of `None` or `""`; `canBeEmpty` = `can_be_empty_element is True`; `pre` = the name is
    in the tag's `preserve_whitespace_tags` (only pretty-printing looks at it) -/
inductive Node where
  | str (kind : StrKind) (val : PStr)
  | tag (name pfx : PStr) (attrs : List (PStr × AttrVal)) (canBeEmpty pre : Bool) (kids : List Node)
deriving Repr

/-! ### strings -/

/-- `Formatter.substitute` (formatter.py:138-159). `interp` = what each function computes; `isNS` = the argument is a
    `NavigableString` (attribute values are plain `str`); `parent` = `ns.parent.name` if there is a parent. -/
def substitute (c : Cfg) (interp : Subst → PStr → PStr) (parent : Option PStr) (isNS : Bool) (s : PStr) : PStr :=
  if c.entity_substitution = .none then s
  else if isNS && (match parent with | some p => c.cdata_containing_tags.contains p | none => false) then s
  else interp c.entity_substitution s

/-- `NavigableString.output_ready` / `PreformattedString.output_ready` with an already resolved formatter -/
def outputReady (c : Cfg) (interp : Subst → PStr → PStr) (parent : Option PStr) (k : StrKind) (v : PStr) : PStr :=
  if k.verbatim then k.prefix ++ v ++ k.suffix
  else k.prefix ++ substitute c interp parent true v ++ k.suffix

/-- `value.replace('"', "&quot;")` -/
def replaceQuot (v : PStr) : PStr := v.flatMap fun ch => if ch = 34 then [38, 113, 117, 111, 116, 59] else [ch]

/-- `EntitySubstitution.quoted_attribute_value` (dammit.py:320-352) -/
def quoteAttr (v : PStr) : PStr :=
  if v.contains 34 then
    if v.contains 39 then [34] ++ replaceQuot v ++ [34]
    else [39] ++ v ++ [39]
  else [34] ++ v ++ [34]

/-! ### attributes -/

/-- Python's `str` ordering: lexicographic by code point -/
def keyLe : PStr → PStr → Bool
  | [], _ => true
  | _ :: _, [] => false
  | a :: as, b :: bs => a < b || (a == b && keyLe as bs)

def attrLe (a b : PStr × AttrVal) : Bool := keyLe a.1 b.1

def insertAttr (x : PStr × AttrVal) : List (PStr × AttrVal) → List (PStr × AttrVal)
  | [] => [x]
  | y :: ys => if attrLe x y then x :: y :: ys else y :: insertAttr x ys

/-- `sorted(...)` on `(key, value)` tuples with distinct keys (insertion sort; any correct sort gives the same list) -/
def sortAttrs : List (PStr × AttrVal) → List (PStr × AttrVal)
  | [] => []
  | x :: xs => insertAttr x (sortAttrs xs)

/-- `Formatter.attributes` (formatter.py:170-190): map `""` to `None` under `empty_attributes_are_booleans`, then `sorted`
    (keys of a dict are distinct, so the tuples are ordered by key alone) -/
def attributes (c : Cfg) (attrs : List (PStr × AttrVal)) : List (PStr × AttrVal) :=
  sortAttrs (attrs.map fun kv => (kv.1, if c.empty_attributes_are_booleans && kv.2 == .str [] then AttrVal.none else kv.2))

/-- one `decoded` of `_format_tag` (element.py:2558-2575) -/
def attrPiece (c : Cfg) (interp : Subst → PStr → PStr) (kv : PStr × AttrVal) : PStr :=
  match kv.2 with
  | .none => kv.1
  | .str s => kv.1 ++ [61] ++ quoteAttr (substitute c interp none false s)
  | .list l => kv.1 ++ [61] ++ quoteAttr (substitute c interp none false ([32].intercalate l))
  -- `elif not isinstance(val, str): val = str(val)` (element.py:2603-2604) comes BEFORE `formatter.attribute_value(val)`
  | .other s => kv.1 ++ [61] ++ quoteAttr (substitute c interp none false s)

/-- `attribute_string` of `_format_tag`: `" " + " ".join(attrs)` if there are any -/
def attrString (c : Cfg) (interp : Subst → PStr → PStr) (attrs : List (PStr × AttrVal)) : PStr :=
  let ps := (attributes c attrs).map (attrPiece c interp)
  if ps.isEmpty then [] else [32] ++ [32].intercalate ps

/-- `formatter.void_element_close_prefix or ""` followed by the `>` -/
def voidClose (c : Cfg) : PStr := c.void_element_close_prefix.getD []

/-- `Tag._format_tag` (element.py:2534-2594) for a tag that is not hidden -/
def formatTag (c : Cfg) (interp : Subst → PStr → PStr) (name pfx : PStr) (attrs : List (PStr × AttrVal))
    (isEmptyElement opening : Bool) : PStr :=
  [60] ++ (if opening then [] else [47]) ++ (if pfx.isEmpty then [] else pfx ++ [58]) ++ name
    ++ (if opening then attrString c interp attrs else [])
    ++ (if isEmptyElement then voidClose c else []) ++ [62]

/-! ### `decode()` without pretty-printing -/

mutual
/-- `Tag.decode(formatter=c)` / `NavigableString.output_ready(c)` for a node whose parent's name is `parent` -/
def render (c : Cfg) (interp : Subst → PStr → PStr) (parent : Option PStr) : Node → PStr
  | .str k v => outputReady c interp parent k v
  | .tag n p as cbe _ ks =>
    if ks.isEmpty && cbe then formatTag c interp n p as true true
    else formatTag c interp n p as false true ++ renderL c interp (some n) ks ++ formatTag c interp n p as false false
/-- `Tag.decode_contents(formatter=c)` of a tag named `parent` -/
def renderL (c : Cfg) (interp : Subst → PStr → PStr) (parent : Option PStr) : List Node → PStr
  | [] => []
  | k :: ks => render c interp parent k ++ renderL c interp parent ks
end

/-! ### pretty-printing (`indent_level` not `None`)

    The output is first produced as a list of items: literal text, or "the indentation of depth `n`". `fillInd` then
    writes `formatter.indent * n` for the latter (`_indent_string`, element.py:2524-2526). -/

def isSpace (c : Nat) : Bool := BS.Gen.pyWhitespace.contains c
/-- `str.strip()` -/
def strip (s : PStr) : PStr := ((s.dropWhile isSpace).reverse.dropWhile isSpace).reverse

inductive Item where
  | lit (s : PStr)
  | ind (depth : Nat)
deriving DecidableEq, Repr

mutual
/-- the pieces of `decode(indent_level=level)`; `lit = true` inside a whitespace-preserving element
    (`string_literal_tag` set, element.py:2383-2447) -/
def prettyItems (c : Cfg) (interp : Subst → PStr → PStr) (level : Nat) (literal : Bool) (parent : Option PStr) :
    Node → List Item
  | .str k v =>
    let piece := outputReady c interp parent k v
    if literal then [.lit piece]
    else
      let p := strip piece
      if p.isEmpty then [] else [.ind level, .lit p, .lit [10]]
  | .tag n p as cbe pre ks =>
    if ks.isEmpty && cbe then
      let piece := formatTag c interp n p as true true
      if literal then [.lit piece] else [.ind level, .lit piece, .lit [10]]
    else
      let op := formatTag c interp n p as false true
      let cl := formatTag c interp n p as false false
      if literal then [.lit op] ++ prettyItemsL c interp (level + 1) true (some n) ks ++ [.lit cl]
      else if pre then [.ind level, .lit op] ++ prettyItemsL c interp (level + 1) true (some n) ks ++ [.lit cl, .lit [10]]
      else [.ind level, .lit op, .lit [10]] ++ prettyItemsL c interp (level + 1) false (some n) ks
             ++ [.ind level, .lit cl, .lit [10]]
def prettyItemsL (c : Cfg) (interp : Subst → PStr → PStr) (level : Nat) (literal : Bool) (parent : Option PStr) :
    List Node → List Item
  | [] => []
  | k :: ks => prettyItems c interp level literal parent k ++ prettyItemsL c interp level literal parent ks
end

def fillInd (unit : PStr) (items : List Item) : PStr :=
  items.flatMap fun
    | .lit s => s
    | .ind n => (List.replicate n unit).flatten

/-- `decode(indent_level=level, formatter=c)`; `prettify(formatter=c)` is `level = 0` -/
def pretty (c : Cfg) (interp : Subst → PStr → PStr) (level : Nat) (parent : Option PStr) (n : Node) : PStr :=
  fillInd c.indent (prettyItems c interp level false parent n)
/-- `decode_contents(indent_level=level, formatter=c)` -/
def prettyL (c : Cfg) (interp : Subst → PStr → PStr) (level : Nat) (parent : Option PStr) (l : List Node) : PStr :=
  fillInd c.indent (prettyItemsL c interp level false parent l)

/-! ### calls of the substitution function (what an instrumented custom function sees) -/

mutual
/-- the arguments with which `entity_substitution` is called while a node is rendered, in call order. Preformatted
    strings are passed too (`PreformattedString.output_ready`: "only to trigger any side effects: the return value is
    ignored") unless their parent is a cdata-containing tag. -/
def calls (c : Cfg) (parent : Option PStr) : Node → List PStr
  | .str _ v =>
    if c.entity_substitution = .none then []
    else if (match parent with | some p => c.cdata_containing_tags.contains p | none => false) then [] else [v]
  | .tag n _ as _ _ ks =>
    (if c.entity_substitution = .none then [] else
      (attributes c as).filterMap fun kv => match kv.2 with
        | .none => none
        | .str s => some s
        | .list l => some ([32].intercalate l)
        | .other s => some s)
    ++ callsL c (some n) ks
def callsL (c : Cfg) (parent : Option PStr) : List Node → List PStr
  | [] => []
  | k :: ks => calls c parent k ++ callsL c parent ks
end

/-! ### `re.sub` over an alternation built from a `set` -/

/-- one alternative of the entity regex: a literal `key`, optionally followed by `(?![notNext])`, and what the
    substitution callback returns for it -/
structure Alt where
  key : PStr
  notNext : List Nat
  repl : PStr
deriving DecidableEq, Repr

/-- does the alternative match at the start of `s`? -/
def Alt.matchAt (a : Alt) (s : PStr) : Bool :=
  a.key.isPrefixOf s && match (s.drop a.key.length).head? with
    | none => true
    | some c => !a.notNext.contains c

/-- `re.compile("(" + "|".join(alts) + ")").sub(callback, s)`: leftmost match, at each position the first alternative
    **in the order of the pattern** that matches; a match consumes at least one code point, so `fuel = len(s)` suffices -/
def reSubF (alts : List Alt) : Nat → PStr → PStr
  | 0, s => s
  | _ + 1, [] => []
  | fuel + 1, c :: s =>
    match alts.find? (·.matchAt (c :: s)) with
    | some a => a.repl ++ reSubF alts fuel (s.drop (a.key.length - 1))
    | none => c :: reSubF alts fuel s

def reSub (alts : List Alt) (s : PStr) : PStr := reSubF alts s.length s

/-- `EntitySubstitution.substitute_xml` (dammit.py:354-377): `AMPERSAND_OR_BRACKET.sub(_substitute_xml_entity, value)` -/
def substXml (s : PStr) : PStr :=
  s.flatMap fun ch => match BS.Gen.fmtXmlSubst.find? (·.1 == ch) with
    | some e => e.2
    | none => [ch]

/-! ### entry points: resolve the `formatter=` argument, then render -/

/-- which output method was called -/
inductive Mode where
  | decode                      -- `decode()`, `encode()`, `str()`, `output_ready()`
  | contents                    -- `decode_contents()`, `encode_contents()`
  | pretty (level : Nat)        -- `prettify()` = level 0, `decode(indent_level=level)`
  | prettyContents (level : Nat) -- `decode_contents(indent_level=level)`
deriving DecidableEq, Repr

inductive Out where
  | ok (s : PStr)
  | keyError                    -- `formatter_for_name` raised
  | badReceiver                 -- a contents method on a string (no such method)
deriving DecidableEq, Repr

def kidsOf : Node → Option (PStr × List Node)
  | .tag nm _ _ _ _ ks => some (nm, ks)
  | .str _ _ => none

/-- an output method with an already resolved formatter -/
def renderMode (c : Cfg) (interp : Subst → PStr → PStr) (mode : Mode) (parent : Option PStr) (n : Node) : Out :=
  match mode with
  | .decode => .ok (render c interp parent n)
  | .pretty lv => .ok (pretty c interp lv parent n)
  | .contents => match kidsOf n with
    | some (nm, ks) => .ok (renderL c interp (some nm) ks)
    | none => .badReceiver
  | .prettyContents lv => match kidsOf n with
    | some (nm, ks) => .ok (prettyL c interp lv (some nm) ks)
    | none => .badReceiver

/-- `Tag.decode(formatter=arg)` and friends (element.py:2370-2371 `if not isinstance(formatter, Formatter): formatter =
    self.formatter_for_name(formatter)`), on an element of a tree of flavour `isXml` -/
def entry (regH regX : List (Option PStr × Cfg)) (isXml : Bool) (arg : FmtArg) (interp : Subst → PStr → PStr) (mode : Mode)
    (parent : Option PStr) (n : Node) : Out :=
  match formatterForName regH regX isXml arg with
  | .keyError => .keyError
  | .ok c => renderMode c interp mode parent n

/-! ### the flavour of an element: `PageElement._is_xml` (element.py:467-492)

    `known_xml` is fixed when an element is constructed (`Some` when a builder made it or `is_xml=` was passed, `None` for
    a hand-made `Tag(name=…)` / `NavigableString(…)`); `_is_xml` is a read-only walk from the element towards the root. -/

/-- `chain` = `known_xml` of the element, of its parent, … up to the root; `rootAttr` = `getattr(root, "is_xml", False)`
    (the `is_xml` of a `BeautifulSoup` root; `False` for a root that is a plain `Tag` or string) -/
def isXmlOf : List (Option Bool) → Bool → Bool
  | [], rootAttr => rootAttr
  | some b :: _, _ => b
  | none :: rest, rootAttr => isXmlOf rest rootAttr

/-- a tree in which every element carries its `known_xml` -/
inductive XNode where
  | str (known : Option Bool) (kind : StrKind) (val : PStr)
  | tag (known : Option Bool) (name pfx : PStr) (attrs : List (PStr × AttrVal)) (canBeEmpty pre : Bool) (kids : List XNode)
deriving Repr

mutual
/-- forget the flags: what rendering looks at once the formatter is resolved -/
def XNode.erase : XNode → Node
  | .str _ k v => .str k v
  | .tag _ n p as cbe pre ks => .tag n p as cbe pre (eraseL ks)
def eraseL : List XNode → List Node
  | [] => []
  | k :: ks => k.erase :: eraseL ks
end

def XNode.known : XNode → Option Bool
  | .str k _ _ => k
  | .tag k _ _ _ _ _ _ => k

def XNode.name? : XNode → Option PStr
  | .str _ _ _ => none
  | .tag _ n _ _ _ _ _ => some n

def XNode.kids : XNode → List XNode
  | .str _ _ _ => []
  | .tag _ _ _ _ _ _ ks => ks

/-- follow child indices from `n`; the result is the element reached, its parent's name, and the `known_xml` values from
    that element up to `n` (innermost first); `acc`/`par` are the values for `n` itself -/
def descend : XNode → List Nat → List (Option Bool) → Option PStr → Option (XNode × Option PStr × List (Option Bool))
  | n, [], acc, par => some (n, par, n.known :: acc)
  | n, i :: rest, acc, _ =>
    match n.kids[i]? with
    | some k => descend k rest (n.known :: acc) n.name?
    | none => none

/-- a tree together with what `getattr(root, "is_xml", False)` gives -/
structure Doc where
  root : XNode
  rootAttr : Bool

/-- an output method called on the element at `path` of `d` with `formatter=arg`: the flavour is found by the walk from
    that element, at the time of the call -/
def Doc.renderAt (regH regX : List (Option PStr × Cfg)) (d : Doc) (path : List Nat) (arg : FmtArg)
    (interp : Subst → PStr → PStr) (mode : Mode) : Out :=
  match descend d.root path [] none with
  | none => .badReceiver
  | some (n, par, chain) => entry regH regX (isXmlOf chain d.rootAttr) arg interp mode par n.erase

/-- one step of a session: an output call (observed, changes nothing) or any edit of the documents -/
inductive HOp where
  | render (doc : Nat) (path : List Nat) (arg : FmtArg) (mode : Mode)
  | edit (f : List Doc → List Doc)

def HOp.isEdit : HOp → Bool
  | .edit _ => true
  | .render .. => false

/-- run a session: the documents afterwards and the outputs of the output calls, in order -/
def runSession (regH regX : List (Option PStr × Cfg)) (interp : Subst → PStr → PStr) : List Doc → List HOp → List Doc × List Out
  | docs, [] => (docs, [])
  | docs, .edit f :: ops => runSession regH regX interp (f docs) ops
  | docs, .render d path arg mode :: ops =>
    let r := runSession regH regX interp docs ops
    (r.1, (match docs[d]? with
            | some doc => doc.renderAt regH regX path arg interp mode
            | none => .badReceiver) :: r.2)

/-! ### copies: `Tag.copy_self` / `__deepcopy__` / `__copy__` (element.py:1805-1840, :1770-1803)

    `copy_self` builds the clone with `is_xml=self._is_xml`: every copied tag records, explicitly, the flavour its original
    had where it stood when the copy was made; a copied string is `type(self)(self)` and has no flavour of its own. -/

mutual
/-- the copy of `n`, `inherited` being what the walk from `n`'s parent gives (`_is_xml` of the parent) -/
def XNode.copyWith (inherited : Bool) : XNode → XNode
  | .str _ k v => .str none k v
  | .tag kn n p as cbe pre ks => .tag (some (kn.getD inherited)) n p as cbe pre (copyWithL (kn.getD inherited) ks)
def copyWithL (inherited : Bool) : List XNode → List XNode
  | [] => []
  | k :: ks => k.copyWith inherited :: copyWithL inherited ks
end

/-- the flavour `_is_xml` finds for the element at `path` below `n`, when the walk above `n` gives `inherited` -/
def flavAt (inherited : Bool) : XNode → List Nat → Bool
  | n, [] => n.known.getD inherited
  | n, i :: rest =>
    match n.kids[i]? with
    | some k => flavAt (n.known.getD inherited) k rest
    | none => n.known.getD inherited      -- (no such child: the flavour of the last element on the path)

mutual
/-- no string carries a flavour of its own (`NavigableString` never sets `known_xml`) -/
def XNode.stringsPlain : XNode → Bool
  | .str kn _ _ => kn.isNone
  | .tag _ _ _ _ _ _ ks => stringsPlainL ks
def stringsPlainL : List XNode → Bool
  | [] => true
  | k :: ks => k.stringsPlain && stringsPlainL ks
end

end BS.Formatter
