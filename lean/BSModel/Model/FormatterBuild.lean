import BSModel.Model.Formatter
/-! C15 — from what the parser saw to the tree that is rendered: the set- and dict-typed configuration of a tree builder
    that reaches output, and the attribute dictionary of a start tag.

    `BeautifulSoupHTMLParser.handle_starttag` (bs4/builder/_htmlparser.py:146-188: the attribute dict, duplicates),
    `TreeBuilder._replace_cdata_list_attribute_values` (bs4/builder/__init__.py:388-445: `class="a b"` → list),
    `TreeBuilder.can_be_empty_element` (:296-317), `Tag.__init__` (bs4/element.py:1700-1735: `can_be_empty_element`,
    `preserve_whitespace_tags` taken from the builder), `Tag._should_pretty_print` (:2596-2605).

    Sets are lists here and dicts are association lists with distinct keys; the code only ever tests membership / looks a key
    up, which is what the theorems in `Props/C15.lean` exploit: the listing order of none of them reaches the output. -/
namespace BS.Formatter

/-- `on_duplicate_attribute`: `None`/`"replace"` (the last value wins, at the first occurrence's position) or `"ignore"`
    (the first value stays). A callable is outside the model. -/
inductive OnDup where
  | replace | ignore
deriving DecidableEq, Repr

/-- the configuration of a tree builder as far as output can depend on it -/
structure BuilderCfg where
  /-- `empty_element_tags`: `None` (every tag without contents is an empty-element tag) or a set of names -/
  emptyElementTags : Option (List PStr)
  /-- `preserve_whitespace_tags` (a set) -/
  preserveWhitespaceTags : List PStr
  /-- `cdata_list_attributes`: dict from a tag name or `"*"` to a set of attribute names -/
  cdataListAttributes : List (PStr × List PStr)
  onDuplicate : OnDup
deriving Repr

/-- what html.parser hands to `handle_starttag`/`handle_data`/…: names, `(key, value-or-None)` pairs in source order, and
    strings with the class the builder chose for them (`string_container`, C13) -/
inductive RawNode where
  | str (kind : StrKind) (val : PStr)
  | tag (name : PStr) (attrs : List (PStr × Option PStr)) (kids : List RawNode)
deriving Repr

/-! ### the attribute dict of a start tag -/

/-- `attr_dict[key] = value` on an insertion-ordered dict: an existing key keeps its position -/
def dictSet (d : List (PStr × PStr)) (k v : PStr) : List (PStr × PStr) :=
  match d with
  | [] => [(k, v)]
  | (k', v') :: rest => if k' = k then (k', v) :: rest else (k', v') :: dictSet rest k v

/-- the loop of `handle_starttag` (_htmlparser.py:159-178), `acc` = `attr_dict` so far -/
def attrDictLoop (od : OnDup) (acc : List (PStr × PStr)) : List (PStr × Option PStr) → List (PStr × PStr)
  | [] => acc
  | (k, v) :: rest =>
    let value := v.getD []                      -- `if value is None: value = ""`
    if acc.any (fun e => e.1 = k) then
      match od with
      | .ignore => attrDictLoop od acc rest
      | .replace => attrDictLoop od (dictSet acc k value) rest
    else attrDictLoop od (acc ++ [(k, value)]) rest

def attrDict (od : OnDup) (attrs : List (PStr × Option PStr)) : List (PStr × PStr) := attrDictLoop od [] attrs

/-! ### multi-valued attributes -/

def dictGet (d : List (PStr × List PStr)) (k : PStr) : Option (List PStr) :=
  (d.find? (fun e => e.1 = k)).map (·.2)

/-- `nonwhitespace_re.findall(value)` (`\S+`): the maximal runs of non-whitespace; `cur` is the current run, reversed -/
def splitWsAux (cur : PStr) : PStr → List PStr
  | [] => if cur.isEmpty then [] else [cur.reverse]
  | c :: s =>
    if isSpace c then (if cur.isEmpty then splitWsAux [] s else cur.reverse :: splitWsAux [] s)
    else splitWsAux (c :: cur) s

def splitWs (s : PStr) : List PStr := splitWsAux [] s

/-- the test `attr in universal or (tag_specific and attr in tag_specific)` (builder/__init__.py:415-419); the tag name is
    the one html.parser reports (already lower case) -/
def isListAttr (cla : List (PStr × List PStr)) (tagName attr : PStr) : Bool :=
  ((dictGet cla [42]).getD []).contains attr ||
  (match dictGet cla tagName with
   | some ts => !ts.isEmpty && ts.contains attr
   | none => false)

/-- `_replace_cdata_list_attribute_values` (builder/__init__.py:388-445) on the dict of a parsed start tag -/
def replaceCdataList (cla : List (PStr × List PStr)) (tagName : PStr) (d : List (PStr × PStr)) : List (PStr × AttrVal) :=
  if d.isEmpty || cla.isEmpty then d.map fun e => (e.1, AttrVal.str e.2)
  else d.map fun e => (e.1, if isListAttr cla tagName e.1 then AttrVal.list (splitWs e.2) else AttrVal.str e.2)

/-! ### the element -/

/-- `TreeBuilder.can_be_empty_element` -/
def canBeEmpty (b : BuilderCfg) (name : PStr) : Bool :=
  match b.emptyElementTags with
  | none => true
  | some s => s.contains name

/-- `preserve_whitespace_tags and name in preserve_whitespace_tags` (the negation of `_should_pretty_print`) -/
def preserves (b : BuilderCfg) (name : PStr) : Bool :=
  !b.preserveWhitespaceTags.isEmpty && b.preserveWhitespaceTags.contains name

mutual
/-- the element `handle_starttag` + `Tag.__init__` make (no namespace prefix: html.parser has none) -/
def build (b : BuilderCfg) : RawNode → Node
  | .str k v => .str k v
  | .tag n as ks =>
    .tag n [] (replaceCdataList b.cdataListAttributes n (attrDict b.onDuplicate as)) (canBeEmpty b n) (preserves b n) (buildL b ks)
def buildL (b : BuilderCfg) : List RawNode → List Node
  | [] => []
  | k :: ks => build b k :: buildL b ks
end

/-! ### a `Formatter` subclass that overrides `attributes()`

    `_format_tag` (element.py:2556-2557) iterates over whatever `formatter.attributes(self)` returns; the base implementation
    (`attributes` above) sorts and applies `empty_attributes_are_booleans`, a subclass may do anything with the dict's items
    (the documentation's example yields them in insertion order). -/

abbrev AttrHook := List (PStr × AttrVal) → List (PStr × AttrVal)

def attrStringHook (h : AttrHook) (c : Cfg) (interp : Subst → PStr → PStr) (attrs : List (PStr × AttrVal)) : PStr :=
  let ps := (h attrs).map (attrPiece c interp)
  if ps.isEmpty then [] else [32] ++ [32].intercalate ps

def formatTagHook (h : AttrHook) (c : Cfg) (interp : Subst → PStr → PStr) (name pfx : PStr) (attrs : List (PStr × AttrVal))
    (isEmptyElement opening : Bool) : PStr :=
  [60] ++ (if opening then [] else [47]) ++ (if pfx.isEmpty then [] else pfx ++ [58]) ++ name
    ++ (if opening then attrStringHook h c interp attrs else [])
    ++ (if isEmptyElement then voidClose c else []) ++ [62]

mutual
/-- `decode(formatter=f)` for an `f` whose `attributes()` is `h` (applied to the dict's items in insertion order) -/
def renderHook (h : AttrHook) (c : Cfg) (interp : Subst → PStr → PStr) (parent : Option PStr) : Node → PStr
  | .str k v => outputReady c interp parent k v
  | .tag n p as cbe _ ks =>
    if ks.isEmpty && cbe then formatTagHook h c interp n p as true true
    else formatTagHook h c interp n p as false true ++ renderHookL h c interp (some n) ks ++ formatTagHook h c interp n p as false false
def renderHookL (h : AttrHook) (c : Cfg) (interp : Subst → PStr → PStr) (parent : Option PStr) : List Node → PStr
  | [] => []
  | k :: ks => renderHook h c interp parent k ++ renderHookL h c interp parent ks
end

end BS.Formatter
