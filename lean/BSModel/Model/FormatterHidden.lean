import BSModel.Model.Formatter
/-! C15 — trees that contain user-hidden tags (`tag.hidden = True`): `Tag._format_tag` returns `""` for them
    (element.py:2575-2578), `Tag.decode` still walks their contents and still counts them as a level of indentation
    (:2440-2490: `if piece:` guards the indentation only, `indent_level += 1` / `-= 1` are unconditional). A hidden
    *receiver* is skipped by `_self_and` (:1236-1243), i.e. its output methods are those of its contents. -/
namespace BS.Formatter

inductive HNode where
  | str (kind : StrKind) (val : PStr)
  | tag (hidden : Bool) (name pfx : PStr) (attrs : List (PStr × AttrVal)) (canBeEmpty pre : Bool) (kids : List HNode)
deriving Repr

mutual
/-- the embedding of a tree without hidden tags -/
def HNode.ofNode : Node → HNode
  | .str k v => .str k v
  | .tag n p as cbe pre ks => .tag false n p as cbe pre (ofNodeL ks)
def ofNodeL : List Node → List HNode
  | [] => []
  | k :: ks => HNode.ofNode k :: ofNodeL ks
end

mutual
/-- `decode(formatter=c)` of a node of a tree with hidden tags -/
def renderH (c : Cfg) (interp : Subst → PStr → PStr) (parent : Option PStr) : HNode → PStr
  | .str k v => outputReady c interp parent k v
  | .tag h n p as cbe _ ks =>
    if h then (if ks.isEmpty && cbe then [] else renderHL c interp (some n) ks)
    else if ks.isEmpty && cbe then formatTag c interp n p as true true
    else formatTag c interp n p as false true ++ renderHL c interp (some n) ks ++ formatTag c interp n p as false false
def renderHL (c : Cfg) (interp : Subst → PStr → PStr) (parent : Option PStr) : List HNode → PStr
  | [] => []
  | k :: ks => renderH c interp parent k ++ renderHL c interp parent ks
end

mutual
/-- the pieces of `decode(indent_level=level)`: a hidden tag contributes no piece of its own (`if piece:` fails, so neither
    indentation nor newline), its contents stand one level deeper, and a hidden whitespace-preserving tag still switches
    string-literal mode on for its contents -/
def prettyItemsH (c : Cfg) (interp : Subst → PStr → PStr) (level : Nat) (literal : Bool) (parent : Option PStr) :
    HNode → List Item
  | .str k v =>
    let piece := outputReady c interp parent k v
    if literal then [.lit piece]
    else
      let p := strip piece
      if p.isEmpty then [] else [.ind level, .lit p, .lit [10]]
  | .tag h n p as cbe pre ks =>
    if h then
      if ks.isEmpty && cbe then [] else prettyItemsHL c interp (level + 1) (literal || pre) (some n) ks
    else if ks.isEmpty && cbe then
      let piece := formatTag c interp n p as true true
      if literal then [.lit piece] else [.ind level, .lit piece, .lit [10]]
    else
      let op := formatTag c interp n p as false true
      let cl := formatTag c interp n p as false false
      if literal then [.lit op] ++ prettyItemsHL c interp (level + 1) true (some n) ks ++ [.lit cl]
      else if pre then [.ind level, .lit op] ++ prettyItemsHL c interp (level + 1) true (some n) ks ++ [.lit cl, .lit [10]]
      else [.ind level, .lit op, .lit [10]] ++ prettyItemsHL c interp (level + 1) false (some n) ks
             ++ [.ind level, .lit cl, .lit [10]]
def prettyItemsHL (c : Cfg) (interp : Subst → PStr → PStr) (level : Nat) (literal : Bool) (parent : Option PStr) :
    List HNode → List Item
  | [] => []
  | k :: ks => prettyItemsH c interp level literal parent k ++ prettyItemsHL c interp level literal parent ks
end

def hkidsOf : HNode → Option (PStr × List HNode)
  | .tag _ nm _ _ _ _ ks => some (nm, ks)
  | .str _ _ => none

/-- an output method on a receiver of such a tree (the receiver itself visible; a hidden receiver is its contents) -/
def renderModeH (c : Cfg) (interp : Subst → PStr → PStr) (mode : Mode) (parent : Option PStr) (n : HNode) : Out :=
  match mode with
  | .decode => .ok (renderH c interp parent n)
  | .pretty lv => .ok (fillInd c.indent (prettyItemsH c interp lv false parent n))
  | .contents => match hkidsOf n with
    | some (nm, ks) => .ok (renderHL c interp (some nm) ks)
    | none => .badReceiver
  | .prettyContents lv => match hkidsOf n with
    | some (nm, ks) => .ok (fillInd c.indent (prettyItemsHL c interp lv false (some nm) ks))
    | none => .badReceiver

end BS.Formatter
