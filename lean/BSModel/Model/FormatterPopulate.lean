import BSModel.Model.Formatter
import BSModel.Model.FormatterBuild
/-! C15 — `EntitySubstitution._populate_class_variables` (bs4/dammit.py:131-258): how the alternatives of the entity regex
    and `CHARACTER_TO_HTML_ENTITY` are assembled from the stdlib's `html.entities.html5` and `codepoint2name`.

    The code collects `short_entities` and the values of `long_entities_by_first_character` in Python `set`s and writes the
    pattern as `"|".join(particles)` over a `set` of strings: the listing order of the alternatives (and of the code points
    inside a `(?![…])` class) is whatever the hash seed makes it. The mirror keeps every set as a list in insertion order;
    `Props/C15.lean` proves that no other listing changes `substitute_html`. -/
namespace BS.Formatter

/-- what the loop does with one `character` (dammit.py:186-215) -/
inductive CharClass where
  | skip                 -- `continue`: no alternative for it
  | short (c : Nat)      -- `short_entities.add(character)`
  | long (l : PStr)      -- `long_entities_by_first_character[character[0]].add(character)`
deriving DecidableEq, Repr

def classify : PStr → CharClass
  | [] => .skip          -- (no value of html5 is empty; `character[0]` would raise)
  | [c] => if c < 128 && c != 60 && c != 62 then .skip else .short c
  | l => if l.all (· < 128) then .skip else .long l

/-- `s.add(x)` on a set kept in insertion order -/
def setAdd {α} [BEq α] (s : List α) (x : α) : List α := if s.contains x then s else s ++ [x]

/-- `d[c].add(l)` on a `defaultdict(set)` -/
def multiAdd (m : List (Nat × List PStr)) (c : Nat) (l : PStr) : List (Nat × List PStr) :=
  match m with
  | [] => [(c, [l])]
  | (c', s) :: rest => if c' = c then (c', setAdd s l) :: rest else (c', s) :: multiAdd rest c l

def multiGet (m : List (Nat × List PStr)) (c : Nat) : List PStr :=
  match m.find? (fun e => e.1 = c) with
  | some e => e.2
  | none => []

structure PopState where
  unicodeToName : List (PStr × PStr) := []
  nameToUnicode : List (PStr × PStr) := []
  shortEntities : List Nat := []
  longByFirst : List (Nat × List PStr) := []
deriving Repr

/-- `name_with_semicolon[:-1]` if it ends in `;` -/
def stripSemicolon (n : PStr) : PStr := if n.getLast? = some 59 then n.dropLast else n

/-- one iteration of `for name_with_semicolon, character in sorted(html5.items())` (dammit.py:161-215) -/
def popStep (st : PopState) (item : PStr × PStr) : PopState :=
  let name := stripSemicolon item.1
  let character := item.2
  let st := { st with
    nameToUnicode := if st.nameToUnicode.any (fun e => e.1 = name) then st.nameToUnicode else st.nameToUnicode ++ [(name, character)]
    unicodeToName := dictSet st.unicodeToName character name }
  match classify character with
  | .skip => st
  | .short c => { st with shortEntities := setAdd st.shortEntities c }
  | .long l => { st with longByFirst := multiAdd st.longByFirst (l.headD 0) l }

def popLoop (items : List (PStr × PStr)) : PopState := items.foldl popStep {}

/-- `CHARACTER_TO_HTML_ENTITY`: `unicode_to_name` after `codepoint2name` has had the last word (dammit.py:244-249) -/
def charToEntity (items : List (PStr × PStr)) (codepoint2name : List (Nat × PStr)) : List (PStr × PStr) :=
  codepoint2name.foldl (fun d e => dictSet d [e.1] e.2) (popLoop items).unicodeToName

/-- `_substitute_html_entity` (dammit.py:289-297) for a matched key -/
def replFor (c2e : List (PStr × PStr)) (key : PStr) : PStr :=
  match c2e.find? (fun e => e.1 = key) with
  | some e => [38] ++ e.2 ++ [59]
  | none => [38, 97, 109, 112, 59] ++ key ++ [59]

/-- the particles of `CHARACTER_TO_HTML_ENTITY_WITH_AMPERSAND_RE` (dammit.py:219-238), in the mirror's listing order:
    one per short entity (with a negative look-ahead for the second code point of every longer entity it starts), one per
    long entity, and `&` -/
def particles (st : PopState) : List (PStr × List Nat) :=
  st.shortEntities.map (fun c => ([c], (multiGet st.longByFirst c).map (fun l => (l.drop 1).headD 0)))
    ++ st.longByFirst.flatMap (fun e => e.2.map (fun l => (l, [])))
    ++ [([38], [])]

/-- the alternatives with what the substitution callback returns for each -/
def populateAlts (items : List (PStr × PStr)) (codepoint2name : List (Nat × PStr)) : List Alt :=
  let c2e := charToEntity items codepoint2name
  (particles (popLoop items)).map fun p => { key := p.1, notNext := p.2, repl := replFor c2e p.1 }

end BS.Formatter
