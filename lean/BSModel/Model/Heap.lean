import BSModel.Base.PStr
/-! # The pointer heap of a Beautiful Soup forest and the tree-editing procedures (code-mirror)

Mirrors `bs4/element.py`: `PageElement.extract` (587-633), `_last_descendant` (657-683), `Tag._insert`
(1935-2020), `Tag.insert/append/extend/unwrap/clear/smooth/index`, `replace_with/wrap/insert_before/
insert_after/decompose`, the `.string` setter — statement by statement, pointer write by pointer write.

A heap is a structure of per-field functions over node ids (`Nat`): the six redundant link fields of every
`PageElement` plus `contents`. Every natural number is a node; a node nobody uses is an isolated one-node tree
(all links `none`, no children), which is exactly the state of a freshly constructed `Tag`/`NavigableString`.
`next` is the allocation counter for the objects the library itself creates (`NavigableString(str)` in
`_insert`, the merged string of `smooth`, the string of `.string=`). `cap` is ghost fuel for the two loops that
walk a tree (`_last_descendant`'s down-walk, `_insert`'s up-walk, the iterators): it is doubled by every
insertion so that "cap ≥ size of every tree" is an invariant; the theorems show the walks stop before it
runs out. Core Lean only. -/
namespace BS.Heap

inductive Kind where
  | tag    -- Tag
  | soup   -- BeautifulSoup (a Tag that is never a child)
  | str    -- NavigableString and its non-Preformatted subclasses
  | pre    -- PreformattedString subclasses (Comment, CData, Doctype, …): never merged by smooth
deriving DecidableEq, Repr

def Kind.isTag : Kind → Bool
  | .tag => true | .soup => true | _ => false

structure Heap where
  parent : Nat → Option Nat
  ps : Nat → Option Nat        -- previous_sibling
  ns : Nat → Option Nat        -- next_sibling
  pe : Nat → Option Nat        -- previous_element
  ne : Nat → Option Nat        -- next_element
  kids : Nat → List Nat        -- contents
  kind : Nat → Kind
  val : Nat → PStr             -- text of a string node
  next : Nat                   -- ids ≥ next have never been used
  cap : Nat                    -- ghost fuel, ≥ the size of every tree

def Heap.empty : Heap :=
  { parent := fun _ => none, ps := fun _ => none, ns := fun _ => none, pe := fun _ => none, ne := fun _ => none,
    kids := fun _ => [], kind := fun _ => .str, val := fun _ => [], next := 0, cap := 1 }

/-- the start of every history: `n` freshly constructed objects of the given kinds, nothing linked -/
def Heap.init (kinds : List Kind) : Heap :=
  { Heap.empty with
    kind := fun i => match kinds[i]? with | some k => k | none => .str,
    val := fun i => [i], next := kinds.length, cap := kinds.length + 1 }

/-! ## field writes -/
def setParent (h : Heap) (i : Nat) (v : Option Nat) : Heap := { h with parent := fun j => if j = i then v else h.parent j }
def setPs (h : Heap) (i : Nat) (v : Option Nat) : Heap := { h with ps := fun j => if j = i then v else h.ps j }
def setNs (h : Heap) (i : Nat) (v : Option Nat) : Heap := { h with ns := fun j => if j = i then v else h.ns j }
def setPe (h : Heap) (i : Nat) (v : Option Nat) : Heap := { h with pe := fun j => if j = i then v else h.pe j }
def setNe (h : Heap) (i : Nat) (v : Option Nat) : Heap := { h with ne := fun j => if j = i then v else h.ne j }
def setKids (h : Heap) (i : Nat) (v : List Nat) : Heap := { h with kids := fun j => if j = i then v else h.kids j }
/-- `o.field = v` where `o` may be `None` (the write is guarded by `if o is not None`) -/
def setPsO (h : Heap) (i : Option Nat) (v : Option Nat) : Heap := match i with | none => h | some i => setPs h i v
def setNsO (h : Heap) (i : Option Nat) (v : Option Nat) : Heap := match i with | none => h | some i => setNs h i v
def setPeO (h : Heap) (i : Option Nat) (v : Option Nat) : Heap := match i with | none => h | some i => setPe h i v
def setNeO (h : Heap) (i : Option Nat) (v : Option Nat) : Heap := match i with | none => h | some i => setNe h i v

inductive Err where
  | valueError       -- a documented `ValueError` guard
  | crash            -- any other exception (AttributeError on `None`, IndexError, …)
  | notImplemented   -- BeautifulSoup.insert_before/insert_after
  | excluded         -- not a Python outcome: the call would put an element beneath itself, which the
                     -- properties' quantifier excludes ("excluding an element's own ancestors")
deriving DecidableEq, Repr

/-- `Tag.index` (element.py:2146-2158): position by identity, `ValueError` if absent -/
def indexOf (h : Heap) (p x : Nat) : Option Nat := (h.kids p).idxOf? x

/-- the `while isinstance(last_child, Tag) and last_child.contents: last_child = last_child.contents[-1]` loop -/
def lastDown (h : Heap) : Nat → Nat → Nat
  | 0, n => n
  | f + 1, n =>
    if (h.kind n).isTag then
      match (h.kids n).getLast? with
      | none => n
      | some k => lastDown h f k
    else n

/-- `_last_descendant(is_initialized, accept_self=True)` (element.py:657-683) -/
def lastDescendant (h : Heap) (n : Nat) (isInit : Bool) : Except Err Nat :=
  match (if isInit then h.ns n else none) with
  | some s =>
    match h.pe s with
    | some l => .ok l
    | none => .error .crash            -- `None.next_element` at the caller
  | none => .ok (lastDown h h.cap n)

/-- the element-chain part of `extract` (element.py:604-619) -/
def relinkElems (h : Heap) (x last : Nat) : Heap :=
  let nxt := h.ne last
  let prev := h.pe x
  let h1 := if prev ≠ none ∧ prev ≠ nxt then setNeO h prev nxt else h
  let h2 := if nxt ≠ none ∧ nxt ≠ prev then setPeO h1 nxt prev else h1
  setNe (setPe h2 x none) last none

/-- the sibling part of `extract` (element.py:621-633) -/
def relinkSibs (h : Heap) (x : Nat) : Heap :=
  let p := h.ps x
  let n := h.ns x
  let h1 := if p ≠ none ∧ p ≠ n then setNsO h p n else h
  let h2 := if n ≠ none ∧ n ≠ p then setPsO h1 n p else h1
  setNs (setPs h2 x none) x none

/-- `PageElement.extract(_self_index)` (element.py:587-633) -/
def extract (h : Heap) (x : Nat) : Except Err Heap :=
  let h1 : Except Err Heap :=
    match h.parent x with
    | none => .ok h
    | some p =>
      match indexOf h p x with
      | none => .error .valueError
      | some i => .ok (setKids h p ((h.kids p).eraseIdx i))
  match h1 with
  | .error e => .error e
  | .ok h1 =>
    match lastDescendant h1 x true with
    | .error e => .error e
    | .ok last => .ok (relinkSibs (setParent (relinkElems h1 x last) x none) x)

/-- the `while parents_next_sibling is None and parent is not None` up-walk of `_insert` (element.py:1990-1997) -/
def nextAfter (h : Heap) : Nat → Nat → Option Nat
  | 0, _ => none
  | f + 1, p =>
    match h.ns p with
    | some s => some s
    | none =>
      match h.parent p with
      | none => none
      | some q => nextAfter h f q

/-- the linking part of `Tag._insert` for an element `x` that is now detached, at clamped position `pos`
    (element.py:1964-2020) -/
def linkChild (h : Heap) (p pos x : Nat) : Except Err Heap :=
  let h0 := setParent h x (some p)
  -- previous side
  let r : Except Err (Heap × Option Nat) :=
    if pos = 0 then
      .ok (setPe (setPs h0 x none) x (some p), some p)
    else
      match (h0.kids p)[pos - 1]? with
      | none => .error .crash                                  -- IndexError
      | some pc =>
        let h1 := setNs (setPs h0 x (some pc)) pc (some x)
        let l := lastDown h1 h1.cap pc                          -- previous_child._last_descendant(False)
        .ok (setPe h1 x (some l), some l)
  match r with
  | .error e => .error e
  | .ok (h2, prevEl) =>
    let h3 := setNeO h2 prevEl (some x)                         -- if new_child.previous_element is not None: …
    let lastx := lastDown h3 h3.cap x                           -- new_child._last_descendant(False, True)
    let h5 : Heap :=
      if pos ≥ (h3.kids p).length then
        let h4 := setNs h3 x none
        setNe h4 lastx (nextAfter h4 h4.cap p)
      else
        match (h3.kids p)[pos]? with
        | none => h3                                            -- unreachable
        | some nc => setNe (setPs (setNs h3 x (some nc)) nc (some x)) lastx (some nc)
    let h6 := setPeO h5 (h5.ne lastx) (some lastx)
    .ok { setKids h6 p ((h6.kids p).insertIdx pos x) with cap := h6.cap + h6.cap }

/-- is `a` an ancestor-or-self of `x`? (walk along `.parent`, at most `f` steps) -/
def isAnc (h : Heap) (a : Nat) : Nat → Nat → Bool
  | 0, x => x = a
  | f + 1, x =>
    if x = a then true
    else match h.parent x with
      | none => false
      | some q => isAnc h a f q

/-- `Tag._insert(position, new_child)` for a `PageElement` that is not a `BeautifulSoup` (element.py:1935-2020).
    Returns the new heap (the inserted list is always `[x]`). The `excluded` guard is not in the Python: it marks
    the calls outside the properties' quantifier (inserting an element beneath itself silently corrupts the tree). -/
def insertCore (h : Heap) (p position x : Nat) : Except Err Heap :=
  if x = p then .error .valueError
  else if isAnc h x h.cap p ∨ h.next ≤ x ∨ h.next ≤ p then .error .excluded
  else
    let pos := min position (h.kids p).length
    match h.parent x with
    | none => linkChild h p pos x
    | some q =>
      if q = p then
        match indexOf h p x with
        | none => .error .valueError
        | some cur =>
          if cur < pos then
            match extract h x with
            | .error e => .error e
            | .ok h1 => linkChild h1 p (pos - 1) x
          else if cur = pos then .ok h
          else
            match extract h x with
            | .error e => .error e
            | .ok h1 => linkChild h1 p pos x
      else
        match extract h x with
        | .error e => .error e
        | .ok h1 => linkChild h1 p pos x

/-- an argument of an editing call -/
inductive Arg where
  | node (x : Nat)            -- a PageElement (possibly a BeautifulSoup object)
  | plain (v : PStr)          -- a plain `str`: `_insert` wraps it in a new NavigableString
deriving DecidableEq, Repr

/-- allocate the object the library creates itself -/
def alloc (h : Heap) (k : Kind) (v : PStr) : Heap × Nat :=
  ({ h with kind := fun j => if j = h.next then k else h.kind j,
            val := fun j => if j = h.next then v else h.val j,
            next := h.next + 1 }, h.next)

/-- `for new_child in new_children: just = self._insert(position, new_child); if just: position =
    self.index(just[-1]) + 1` over concrete (non-soup) elements; returns the heap and the running position -/
def insertElems (h : Heap) (p : Nat) : Nat → List Nat → Except Err (Heap × Nat)
  | position, [] => .ok (h, position)
  | position, x :: xs =>
    match insertCore h p position x with
    | .error e => .error e
    | .ok h1 =>
      match indexOf h1 p x with
      | none => .error .valueError
      | some i => insertElems h1 p (i + 1) xs

/-- the slot arithmetic of `Tag.insert` BEFORE the repair (`position += 1` after every argument); kept only for
    the witness theorem `old_insert_not_contiguous` in Props/C02.lean -/
def insertElemsOld (h : Heap) (p : Nat) : Nat → List Nat → Except Err Heap
  | _, [] => .ok h
  | position, x :: xs =>
    match insertCore h p position x with
    | .error e => .error e
    | .ok h1 => insertElemsOld h1 p (position + 1) xs

/-- `Tag.insert(position, *new_children)` (element.py:1916-1933, with the slot arithmetic "next slot = index of
    the last inserted element + 1"); a `BeautifulSoup` argument stands for its children (element.py:1943-1948);
    returns heap, running position and the inserted elements -/
def insertArg1 (h : Heap) (p position : Nat) (a : Arg) : Except Err (Heap × Nat × List Nat) :=
  match a with
  | .plain v =>
    match insertElems (alloc h .str v).1 p position [(alloc h .str v).2] with
    | .error e => .error e
    | .ok (h2, pos2) => .ok (h2, pos2, [(alloc h .str v).2])
  | .node x =>
    if h.kind x = .soup then
      if x = p then .error .valueError else
      match insertElems h p position (h.kids x) with
      | .error e => .error e
      | .ok (h2, pos2) => .ok (h2, pos2, h.kids x)
    else
      match insertElems h p position [x] with
      | .error e => .error e
      | .ok (h2, pos2) => .ok (h2, pos2, [x])

def insertArgs (h : Heap) (p : Nat) : Nat → List Arg → Except Err (Heap × Nat × List Nat)
  | position, [] => .ok (h, position, [])
  | position, a :: as =>
    match insertArg1 h p position a with
    | .error e => .error e
    | .ok (h2, pos2, ins) =>
      match insertArgs h2 p pos2 as with
      | .error e => .error e
      | .ok (h3, pos3, ins') => .ok (h3, pos3, ins ++ ins')

/-- how `Tag._insert` reads a possibly negative `position`, the way `list.insert` does:
    `if position < 0: position = max(0, len(self.contents) + position)` (element.py, start of `_insert`; the clamp to the length,
    `position = min(position, len(self.contents))`, is part of `insertCore`) -/
def normPos (len : Nat) (z : Int) : Nat := if z < 0 then (Int.ofNat len + z).toNat else z.toNat

def insert (h : Heap) (p position : Nat) (args : List Arg) : Except Err (Heap × List Nat) :=
  match insertArgs h p position args with
  | .error e => .error e
  | .ok (h1, _, ins) => .ok (h1, ins)

/-- `Tag.insert(position, *new_children)` with an arbitrary Python integer: the first `_insert` normalises it against the children
    present at that moment; every later argument goes to `index(last inserted) + 1`, which is never negative -/
def insertZ (h : Heap) (p : Nat) (z : Int) (args : List Arg) : Except Err (Heap × List Nat) :=
  insert h p (normPos (h.kids p).length z) args

/-- `Tag.append(tag)` = `self.insert(len(self.contents), tag)[0]` -/
def append (h : Heap) (p : Nat) (a : Arg) : Except Err Heap :=
  match insert h p (h.kids p).length [a] with
  | .error e => .error e
  | .ok (h1, ins) => if ins.isEmpty then .error .crash else .ok h1     -- `[0]` of an empty list

/-- the loop of `Tag.extend` over a snapshot list -/
def appendAll (h : Heap) (p : Nat) : List Arg → Except Err Heap
  | [] => .ok h
  | a :: as =>
    match append h p a with
    | .error e => .error e
    | .ok h1 => appendAll h1 p as

/-- `Tag.extend(tags)`: a Tag argument stands for a snapshot of its contents -/
def extendTag (h : Heap) (p t : Nat) : Except Err Heap := appendAll h p ((h.kids t).map Arg.node)
def extendList (h : Heap) (p : Nat) (args : List Arg) : Except Err Heap := appendAll h p args

def isSelf (x : Nat) : Arg → Bool
  | .node y => y = x
  | .plain _ => false

/-- `PageElement.extract()` applied to an argument that is a PageElement -/
def extractArg (h : Heap) : Arg → Except Err Heap
  | .node y => extract h y
  | .plain _ => .ok h

/-- `insert_before(*args)` (element.py:689-713) -/
def insertBeforeLoop (h : Heap) (p x : Nat) : List Arg → Except Err Heap
  | [] => .ok h
  | a :: as =>
    match extractArg h a with
    | .error e => .error e
    | .ok h1 =>
      match indexOf h1 p x with
      | none => .error .valueError
      | some i =>
        match insert h1 p i [a] with
        | .error e => .error e
        | .ok (h2, _) => insertBeforeLoop h2 p x as

def insertBefore (h : Heap) (x : Nat) (args : List Arg) : Except Err Heap :=
  if h.kind x = .soup then .error .notImplemented else
  match h.parent x with
  | none => .error .valueError
  | some p => if args.any (isSelf x) then .error .valueError else insertBeforeLoop h p x args

/-- `insert_after(*args)` (element.py:715-745, each element goes right after the previously inserted one) -/
def insertAfterLoop (h : Heap) (p : Nat) : Nat → List Arg → Except Err Heap
  | _, [] => .ok h
  | anchor, a :: as =>
    -- `if successor is anchor: continue` (the same element twice in a row: it was just put in place)
    if isSelf anchor a then insertAfterLoop h p anchor as else
    match extractArg h a with
    | .error e => .error e
    | .ok h1 =>
      match indexOf h1 p anchor with
      | none => .error .valueError
      | some i =>
        match insert h1 p (i + 1) [a] with
        | .error e => .error e
        | .ok (h2, ins) => insertAfterLoop h2 p (ins.getLast?.getD anchor) as

def insertAfter (h : Heap) (x : Nat) (args : List Arg) : Except Err Heap :=
  if h.kind x = .soup then .error .notImplemented else
  match h.parent x with
  | none => .error .valueError
  | some p => if args.any (isSelf x) then .error .valueError else insertAfterLoop h p x args

/-- `replace_with(*args)` (element.py:552-573) -/
def replaceWith (h : Heap) (x : Nat) (args : List Arg) : Except Err Heap :=
  match h.parent x with
  | none => .error .valueError
  | some p =>
    if args = [.node x] then .ok h
    else if args.any (isSelf p) then .error .valueError
    else
      match indexOf h p x with
      | none => .error .valueError
      | some i =>
        match extract h x with
        | .error e => .error e
        | .ok h1 =>
          match insert h1 p i args with
          | .error e => .error e
          | .ok (h2, _) => .ok h2

/-- `wrap(wrap_inside)` (element.py:577-585) -/
def wrap (h : Heap) (x w : Nat) : Except Err Heap :=
  match replaceWith h x [.node w] with
  | .error e => .error e
  | .ok h1 => append h1 w (.node x)

/-- the loop of `unwrap`: `for child in reversed(self.contents[:]): my_parent.insert(my_index, child)` -/
def unwrapLoop (h : Heap) (p i : Nat) : List Nat → Except Err Heap
  | [] => .ok h
  | c :: cs =>
    match insert h p i [.node c] with
    | .error e => .error e
    | .ok (h1, _) => unwrapLoop h1 p i cs

/-- `unwrap()` (element.py:2022-2037) -/
def unwrap (h : Heap) (x : Nat) : Except Err Heap :=
  match h.parent x with
  | none => .error .valueError
  | some p =>
    match indexOf h p x with
    | none => .error .valueError
    | some i =>
      match extract h x with
      | .error e => .error e
      | .ok h1 => unwrapLoop h1 p i (h1.kids x).reverse

/-- `for element in self.contents[:]: element.extract()` -/
def extractAll (h : Heap) : List Nat → Except Err Heap
  | [] => .ok h
  | c :: cs =>
    match extract h c with
    | .error e => .error e
    | .ok h1 => extractAll h1 cs

def clear (h : Heap) (t : Nat) : Except Err Heap := extractAll h (h.kids t)

/-- the wipe-out loop of `decompose`: follow `next_element` from the extracted element, clearing every object -/
def wipe (h : Heap) : Nat → Option Nat → Heap
  | 0, _ => h
  | _, none => h
  | f + 1, some e =>
    let nxt := h.ne e
    let h1 := setKids (setNe (setPe (setNs (setPs (setParent h e none) e none) e none) e none) e none) e []
    wipe h1 f nxt

/-- `decompose()` (element.py:635-655). `excluded`: `decompose()` of a BeautifulSoup object that stands outside
    the element chain (`soup.next_element is None`, the state right after parsing) wipes only the object itself and
    leaves its children pointing at it — the Python does exactly that; a decomposed tree must never be used again,
    so this is outside the properties and the model does not claim consistency there. -/
def decompose (h : Heap) (x : Nat) : Except Err Heap :=
  if h.kind x = .soup ∧ h.ne x = none ∧ ¬ (h.kids x).isEmpty then .error .excluded else
  match extract h x with
  | .error e => .error e
  | .ok h1 => .ok (wipe h1 h1.cap (some x))

/-- `clear(decompose=True)` (element.py:2132-2144): `for element in self.contents[:]: element.decompose()` over a snapshot -/
def decomposeAll (h : Heap) : List Nat → Except Err Heap
  | [] => .ok h
  | c :: cs =>
    match decompose h c with
    | .error e => .error e
    | .ok h1 => decomposeAll h1 cs

def clearDecompose (h : Heap) (t : Nat) : Except Err Heap := decomposeAll h (h.kids t)

/-- indices `i` with `contents[i]`, `contents[i+1]` both non-Preformatted strings (element.py:2118-2136) -/
def smoothMarks (h : Heap) : Nat → List Nat → List Nat
  | _, [] => []
  | _, [_] => []
  | i, a :: b :: rest =>
    let tl := smoothMarks h (i + 1) (b :: rest)
    if h.kind a = .str ∧ h.kind b = .str then i :: tl else tl

/-- the merge loop of `smooth` over `reversed(marked)` (element.py:2138-2145) -/
def smoothMerge (h : Heap) (t : Nat) : List Nat → Except Err Heap
  | [] => .ok h
  | i :: is =>
    match (h.kids t)[i]?, (h.kids t)[i + 1]? with
    | some a, some b =>
      match extract h b with
      | .error e => .error e
      | .ok h1 =>
        let (h2, n) := alloc h1 .str (h1.val a ++ h1.val b)
        match replaceWith h2 a [.node n] with
        | .error e => .error e
        | .ok h3 => smoothMerge h3 t is
    | _, _ => .error .crash

def smoothChildren (h : Heap) (t : Nat) : Except Err Heap :=
  smoothMerge h t (smoothMarks h 0 (h.kids t)).reverse

/-- pointer chase along `next_element` (at most `f` steps) -/
def chaseNe (h : Heap) : Nat → Option Nat → List Nat
  | 0, _ => []
  | _, none => []
  | f + 1, some e => e :: chaseNe h f (h.ne e)

/-- `Tag.descendants` (element.py:2763-2779): from `contents[0]` along `next_element` up to the element after
    the last descendant (found by `_last_descendant()`, i.e. with the next-sibling shortcut) -/
def descendants (h : Heap) (t : Nat) : Except Err (List Nat) :=
  match (h.kids t).head? with
  | none => .ok []
  | some first =>
    match lastDescendant h t true with
    | .error e => .error e
    | .ok last =>
      let stop := h.ne last
      .ok ((chaseNe h h.cap (some first)).takeWhile (fun e => some e ≠ stop))

def smoothAll (h : Heap) : List Nat → Except Err Heap
  | [] => .ok h
  | t :: ts =>
    match smoothChildren h t with
    | .error e => .error e
    | .ok h1 => smoothAll h1 ts

/-- `smooth()`: this tag and every tag beneath it, collected up front -/
def smooth (h : Heap) (t : Nat) : Except Err Heap :=
  match descendants h t with
  | .error e => .error e
  | .ok ds => smoothAll h (t :: ds.filter (fun d => (h.kind d).isTag))

/-- the `.string` setter (element.py:1860-1868): `clear()` then append a new string of class `k` -/
def setString (h : Heap) (t : Nat) (k : Kind) (v : PStr) : Except Err Heap :=
  match clear h t with
  | .error e => .error e
  | .ok h1 =>
    let (h2, n) := alloc h1 k v
    append h2 t (.node n)

/-! ## traversal iterators (pointer chases; element.py:1147-1230, 2740-2779) -/
def chase (step : Nat → Option Nat) : Nat → Option Nat → List Nat
  | 0, _ => []
  | _, none => []
  | f + 1, some e => e :: chase step f (step e)

def nextElements (h : Heap) (x : Nat) : List Nat := chase h.ne h.cap (h.ne x)
def previousElements (h : Heap) (x : Nat) : List Nat := chase h.pe h.cap (h.pe x)
def nextSiblings (h : Heap) (x : Nat) : List Nat := chase h.ns h.cap (h.ns x)
def previousSiblings (h : Heap) (x : Nat) : List Nat := chase h.ps h.cap (h.ps x)
def parents (h : Heap) (x : Nat) : List Nat := chase h.parent h.cap (h.parent x)

/-! ## one editing call -/
inductive Op where
  | append (p : Nat) (a : Arg)
  | insert (p pos : Nat) (args : List Arg)
  | extendTag (p t : Nat)
  | extendList (p : Nat) (args : List Arg)
  | insertBefore (x : Nat) (args : List Arg)
  | insertAfter (x : Nat) (args : List Arg)
  | replaceWith (x : Nat) (args : List Arg)
  | wrap (x w : Nat)
  | unwrap (x : Nat)
  | extract (x : Nat)
  | clear (t : Nat)
  | decompose (x : Nat)
  | clearDecompose (t : Nat)
  | smooth (t : Nat)
  | setString (t : Nat) (k : Kind) (v : PStr)
deriving Repr

def step (h : Heap) : Op → Except Err Heap
  | .append p a => if (h.kind p).isTag then append h p a else .error .crash
  | .insert p pos args => if (h.kind p).isTag then (insert h p pos args).map (·.1) else .error .crash
  | .extendTag p t => if (h.kind p).isTag ∧ (h.kind t).isTag then extendTag h p t else .error .crash
  | .extendList p args => if (h.kind p).isTag then extendList h p args else .error .crash
  | .insertBefore x args => insertBefore h x args
  | .insertAfter x args => insertAfter h x args
  | .replaceWith x args => replaceWith h x args
  | .wrap x w => if (h.kind w).isTag then wrap h x w else .error .crash
  | .unwrap x => if (h.kind x).isTag then unwrap h x else .error .crash
  | .extract x => extract h x
  | .clear t => if (h.kind t).isTag then clear h t else .error .crash
  | .decompose x => decompose h x
  | .clearDecompose t => if (h.kind t).isTag then clearDecompose h t else .error .crash
  | .smooth t => if (h.kind t).isTag then smooth h t else .error .crash
  | .setString t k v => if (h.kind t).isTag then setString h t k v else .error .crash

/-- a failed call leaves the heap as the failing Python statement left it; the harness only continues a
    history after a successful call, so a history is a fold that stops at the first error -/
def run (h : Heap) : List Op → Except Err Heap
  | [] => .ok h
  | op :: ops =>
    match step h op with
    | .error e => .error e
    | .ok h1 => run h1 ops

end BS.Heap
