import BSModel.Model.Heap
/-! # Copies at the pointer level (code-mirror of `__copy__` / `__deepcopy__`, element.py:500-507, 1331-1339, 1782-1806)

`copy.copy(el)`, `copy.deepcopy(el)` and `el.__copy__()` all end in `el.__deepcopy__(memo)`:

* a string: `type(self)(self)` — one fresh object of the same class and text, `setup()` with no arguments (every link `None`);
* a Tag / BeautifulSoup object: `clone = self.copy_self()` (one fresh object of the same class, no contents, no links — for a
  BeautifulSoup object `type(self)("", None, self.builder)`), then for every event of `self._event_stream(self.descendants)`:
  `END` → `tag_stack.pop()`; otherwise `descendant_clone = element.__deepcopy__(memo, recursive=False)` (one fresh object),
  `tag_stack[-1].append(descendant_clone)`, and the clone is pushed if the event is `START`.

At pointer level: objects are allocated in document order of the source subtree, and each is linked with the EXISTING `append` of
`Model/Heap.lean` (through `step`, whose `isTag` guard is the `AttributeError` a string on the stack would raise) under the clone of its
parent. Allocation is `BS.Heap.alloc` of Model/Heap.lean: the object at `h.next` gets kind `k` and text `v`, `next` grows by one; every
link field of that id is already `none`/`[]` by the invariant (`WF.fresh`). The source tree is only read.

`_event_stream` derives its `END` events from the parent pointers (`while tag_stack and c.parent is not tag_stack[-1]: pop`), and
`__deepcopy__` answers each with a `pop()` of its own stack of clones, which has the root clone beneath: one stack of pairs
(source tag, its clone) stands for both, the root clone `c0` for the bottom that is never popped. A childless tag is pushed and popped
again before the next element (`is_empty_element` tags are not pushed at all by the code: the same thing, one step earlier).
`self.descendants` is read here up front; the code reads it lazily while it appends — the same walk, because nothing the loop writes
belongs to the source (`Props/C01.copy_leaves_source_untouched`; in the code: the harness's snapshot oracle). Core Lean only. -/
namespace BS.Heap

/-- `while tag_stack and c.parent is not tag_stack[-1]: now_closed_tag = tag_stack.pop(); yield END` (element.py:2536-2538) and the
    `tag_stack.pop()` each `END` triggers in `__deepcopy__` (element.py:1793-1796) -/
def popClosed (par : Option Nat) : List (Nat × Nat) → List (Nat × Nat)
  | [] => []
  | (s, c) :: st => if par = some s then (s, c) :: st else popClosed par st

/-- the clone on top of `__deepcopy__`'s stack (`tag_stack[-1]`; the root clone is the bottom) -/
def topClone (c0 : Nat) : List (Nat × Nat) → Nat
  | [] => c0
  | (_, c) :: _ => c

/-- one element `d` of `self.descendants`: close the tags that ended before it, allocate its clone (`element.__deepcopy__(memo,
    recursive=False)`: same class, same text, nothing linked), `tag_stack[-1].append(descendant_clone)`, push if it is a tag -/
def copyStep (h : Heap) (c0 : Nat) (st : List (Nat × Nat)) (d : Nat) : Except Err (Heap × List (Nat × Nat)) :=
  let st1 := popClosed (h.parent d) st
  match step (alloc h (h.kind d) (h.val d)).1 (.append (topClone c0 st1) (.node h.next)) with
  | .error e => .error e
  | .ok h2 => .ok (h2, if (h.kind d).isTag then (d, h.next) :: st1 else st1)

/-- the loop over `self.descendants` (pre-order of the source subtree without the element itself) -/
def copyLoop (c0 : Nat) : Heap → List (Nat × Nat) → List Nat → Except Err Heap
  | h, _, [] => .ok h
  | h, st, d :: ds =>
    match copyStep h c0 st d with
    | .error e => .error e
    | .ok (h1, st1) => copyLoop c0 h1 st1 ds

/-- `el.__deepcopy__(memo)` = `copy.copy(el)` = `copy.deepcopy(el)` = `el.__copy__()`: returns the heap and the clone (`h.next`) -/
def copy (h : Heap) (x : Nat) : Except Err (Heap × Nat) :=
  if (h.kind x).isTag then
    match descendants h x with
    | .error e => .error e
    | .ok ds =>
      match copyLoop h.next (alloc h (h.kind x) (h.val x)).1 [] ds with
      | .error e => .error e
      | .ok h1 => .ok (h1, h.next)
  else .ok ((alloc h (h.kind x) (h.val x)).1, h.next)

/-! ## histories that interleave edits, copies and constructor calls -/
inductive Op2 where
  | edit (op : Op)                 -- one editing call (Model/Heap.lean `Op`)
  | copy (x : Nat)                 -- `copy.copy(x)` / `copy.deepcopy(x)` / `x.__copy__()`; the clone is the id `next` had before
  | alloc (k : Kind) (v : PStr)    -- a constructor call (`soup.new_tag`, `NavigableString(v)`, `Comment(v)`, `BeautifulSoup("")`)
deriving Repr

def step2 (h : Heap) : Op2 → Except Err Heap
  | .edit op => step h op
  | .copy x => (copy h x).map (·.1)
  | .alloc k v => .ok (alloc h k v).1

/-- a history stops at the first call that raises (as `run`) -/
def run2 (h : Heap) : List Op2 → Except Err Heap
  | [] => .ok h
  | op :: ops =>
    match step2 h op with
    | .error e => .error e
    | .ok h1 => run2 h1 ops

end BS.Heap
