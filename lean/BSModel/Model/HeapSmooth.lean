import BSModel.Model.Heap
/-! # What `Tag.smooth()` documents, as a function on children lists (specification side)

"Smooth out the children of this Tag by consolidating consecutive strings" (bs4/element.py `smooth`,
`_smooth_children`): among the children of a tag, every maximal run of adjacent plain strings
(`NavigableString` and its non-Preformatted subclasses — kind `.str`; `Comment`, `CData`, `Doctype`, … are
`PreformattedString`s — kind `.pre` — and are never merged) becomes ONE string, the concatenation of the run, and
nothing else moves.

`view h t` is what the property observes of a children list: each plain string by its text (its identity does not
matter: the library creates new objects for merged runs), everything else by its identity. `squash` is the
documented effect on that view. `Proofs/HeapSmooth.lean` proves that the pointer-level procedure
(`smoothChildren`, `smooth` of `Model/Heap.lean`: mark pairs, then for the marks in reverse order `extract`, allocate,
`replace_with`) has exactly this effect. Core Lean only. -/
namespace BS.Heap

/-- one child as the property sees it: a plain string by its text, anything else by its identity -/
inductive Item where
  | str (v : PStr)
  | other (id : Nat)
deriving DecidableEq, Repr

def Item.isStr : Item → Bool
  | .str _ => true
  | .other _ => false

def item (h : Heap) (k : Nat) : Item := if h.kind k = .str then .str (h.val k) else .other k

/-- the children of `t`, as the property sees them -/
def view (h : Heap) (t : Nat) : List Item := (h.kids t).map (item h)

/-- glue a string onto the front of an already smoothed list -/
def squashCons : Item → List Item → List Item
  | .str a, .str b :: r => .str (a ++ b) :: r
  | x, r => x :: r

/-- the documented effect of `smooth` on one children list: every maximal run of adjacent plain strings becomes one
    string, the concatenation; everything else stays, in order (see `squash_split`, `squash_run` in
    `Proofs/HeapSmooth.lean` for the two equations that pin this definition down) -/
def squash : List Item → List Item
  | [] => []
  | x :: rest => squashCons x (squash rest)

/-! ### the same with identities

`squash` forgets which object a plain string is. `squashId` does not: every child is paired with its identity, a child
that is not merged keeps it, and each merge is a NEW object. The library builds a run of `k` strings with `k - 1` merges
from the right (each one a fresh `NavigableString`, the intermediate ones discarded again), runs from right to left; `n`
is the allocation counter, so the identities of the new strings are exactly the ones the model's `alloc` hands out. -/

/-- a child with its identity -/
abbrev IItem := Nat × Item

/-- the children of `t` with their identities -/
def idView (h : Heap) (t : Nat) : List IItem := (h.kids t).map (fun k => (k, item h k))

def squashIdCons (x : IItem) (r : List IItem × Nat) : List IItem × Nat :=
  match x, r with
  | (_, .str a), ((_, .str b) :: r', n) => ((n, .str (a ++ b)) :: r', n + 1)
  | x, (r, n) => (x :: r, n)

/-- the documented effect of `smooth` on one children list, identities included; returns the new list and the new
    allocation counter -/
def squashId (n : Nat) : List IItem → List IItem × Nat
  | [] => ([], n)
  | x :: rest => squashIdCons x (squashId n rest)

/-- no two adjacent plain strings -/
def NoAdjStr : List Item → Prop
  | [] => True
  | [_] => True
  | a :: b :: rest => ¬ (a.isStr = true ∧ b.isStr = true) ∧ NoAdjStr (b :: rest)

/-- all the text of the plain strings, in order -/
def strCat : List Item → PStr
  | [] => []
  | .str v :: rest => v ++ strCat rest
  | .other _ :: rest => strCat rest

/-- the children that are not plain strings, in order -/
def others : List Item → List Nat
  | [] => []
  | .str _ :: rest => others rest
  | .other k :: rest => k :: others rest

end BS.Heap
