import BSModel.Model.Heap
import BSModel.Model.Builder
/-! # Parse-time linkage (C01 "after parsing any document", C03 "the tree is always well linked")

How `BeautifulSoup` links the objects it creates while a builder feeds it events — mirrors
`PageElement.setup` (element.py:383-424), `Tag.__init__` → `setup(parent, previous)` (1697), `handle_starttag`
(bs4/__init__.py:1027-1051: `Tag(..., self.currentTag, self._most_recent_element)`, `_most_recent_element = tag`,
`pushTag`), `object_was_parsed` (867-903) and `_linkage_fixer` (905-948), `pushTag`/`popTag` as far as
`currentTag`/`tagStack` go. The heap is the one of Model/Heap.lean, so the consistency invariant `WF` and all the
iterator theorems apply to parsed documents as they do to edited ones.

Which objects are created, and when elements are closed, is decided by C03's machine (`actions` below replays it);
here only the pointer writes are modelled. Core Lean only. -/
namespace BS.ParseLink
open BS.Heap

/-- `PageElement.setup(parent, previous_element)` with `next_element = next_sibling = previous_sibling = None`
    passed, followed by `parent.contents.append(self)` -/
def parseAppend (h : Heap) (cur : Nat) (mre : Option Nat) (x : Nat) : Heap :=
  let h1 := setParent h x (some cur)
  let h2 := setPe h1 x mre
  let h3 := setNeO h2 mre (some x)             -- if self.previous_element is not None: previous_element.next_element = self
  let h4 := setNs (setNe h3 x none) x none
  let last := (h.kids cur).getLast?            -- if previous_sibling is None and parent.contents: previous_sibling = parent.contents[-1]
  let h5 := setPs h4 x last
  let h6 := setNsO h5 last (some x)
  { setKids h6 cur (h.kids cur ++ [x]) with cap := h.cap + h.cap }

/-- the `while True` up-walk at the end of `_linkage_fixer` -/
def fixerWalk (h : Heap) (descendant child : Nat) : Nat → Option Nat → Heap
  | 0, _ => h
  | _, none => h
  | f + 1, some t =>
    match h.ns t with
    | some s => setPe (setNe h descendant (some s)) s (some child)
    | none => fixerWalk h descendant child f (h.parent t)

/-- `_linkage_fixer(el)` (905-948), called by `object_was_parsed` when `el.next_element` was not `None` -/
def linkageFixer (h : Heap) (el : Nat) : Heap :=
  match (h.kids el).head?, (h.kids el).getLast? with
  | some first, some child =>
    let h1 :=
      if child = first ∧ h.parent el ≠ none then
        let h' := setNe h el (some child)
        let prevEl := h'.pe child
        let h'' := if prevEl ≠ none ∧ prevEl ≠ some el then setNeO h' prevEl none else h'
        setPs (setPe h'' child (some el)) child none
      else h
    let h2 := setNs h1 child none
    let descendant := if (h2.kind child).isTag ∧ ¬ (h2.kids child).isEmpty then lastDown h2 h2.cap child else child
    let h3 := setNs (setNe h2 descendant none) descendant none
    fixerWalk h3 descendant child h3.cap (some el)
  | _, _ => h

structure PSt where
  heap : Heap
  stack : List Nat            -- tagStack, innermost first; the last entry is the BeautifulSoup object
  mre : Option Nat            -- _most_recent_element

inductive Act where
  | newTag      -- handle_starttag creates a Tag under currentTag and pushes it
  | newStr      -- endData creates a string under currentTag (object_was_parsed)
  | pop         -- popTag
deriving Repr, DecidableEq

/-- ids are handed out in creation order; id 0 is the BeautifulSoup object -/
def PSt.init : PSt :=
  { heap := { Heap.empty with kind := fun i => if i = 0 then .soup else .str, next := 1, cap := 2 },
    stack := [0], mre := none }

def pstep (st : PSt) : Act → PSt
  | .newTag =>
    match st.stack with
    | [] => st
    | cur :: _ =>
      let (h1, x) := alloc st.heap .tag []
      -- Tag.__init__ → setup; then `_most_recent_element.next_element = tag` (already done by setup); pushTag
      { heap := parseAppend h1 cur st.mre x, stack := x :: st.stack, mre := some x }
  | .newStr =>
    match st.stack with
    | [] => st
    | cur :: _ =>
      let (h1, x) := alloc st.heap .str []
      let fix := h1.ne cur ≠ none                       -- `fix = parent.next_element is not None`
      let h2 := parseAppend h1 cur st.mre x
      { heap := if fix then linkageFixer h2 cur else h2, stack := st.stack, mre := some x }
  | .pop =>
    match st.stack with
    | _ :: rest@(_ :: _) => { st with stack := rest }
    | _ => st                                              -- the BeautifulSoup object is never popped

def prun (st : PSt) (acts : List Act) : PSt := acts.foldl pstep st

/-! ### which objects C03's machine creates, in order -/
open BS.Builder in
/-- the creation/closing actions of one builder event, read off the code-mirror state before and after it -/
def actsOf (cfg : Cfg) (st : St) (e : Ev) : List Act :=
  let flushed : Bool := !st.buf.isEmpty
  match e with
  | .start _ _ => (if flushed then [Act.newStr] else []) ++ [Act.newTag]
  | .stop n p =>
    let st1 := endData cfg st none
    let st2 := popToTag cfg st1 n p
    (if flushed then [Act.newStr] else []) ++ List.replicate (st1.stack.length - st2.stack.length) Act.pop
  | .data _ => []
  | .endData _ => if flushed then [Act.newStr] else []

open BS.Builder in
def actions (cfg : Cfg) : St → List Ev → List Act
  | st, [] =>
    -- `_feed`'s tail: endData(), then pop everything
    (if st.buf.isEmpty then [] else [Act.newStr]) ++ List.replicate (st.stack.length - 1) Act.pop
  | st, e :: es => actsOf cfg st e ++ actions cfg (step cfg st e) es

end BS.ParseLink
