import BSModel.Model.Builder
/-! # `parse_only` (C16): the documented fold with an element filter

Mirrors the two places where `BeautifulSoup` consults `parse_only` (bs4/__init__.py): `handle_starttag`
(1019-1026: only while `len(tagStack) <= 1`, i.e. while no kept element is open; a rejected start tag creates
nothing and pushes nothing) and `endData` (855-861: a string that would become a direct child of the
BeautifulSoup object is dropped unless `allow_string_creation`). Everything else is C03's machine, taken in its
documented-fold form (`sStep`; `build_refines` relates it to the code-mirror).

The filter is two opaque predicates (`SoupStrainer.allow_tag_creation` / `allow_string_creation`; what they
compute is C10's subject). The second argument of `allowTag` stands for everything a start tag carries besides its
name — namespace prefix and attributes; html.parser never uses prefixes, so the harness uses that slot as the
identity of the start tag. Core Lean only. -/
namespace BS.ParseOnly
open BS.Builder

structure Filt where
  allowTag : Name → Option Name → Bool
  allowString : PStr → Bool

/-- `endData` under `parse_only` -/
def fFlush (cfg : Cfg) (f : Filt) (st : SSt) (cls : Option Cls) : SSt :=
  match st.buf, st.stack with
  | [], _ => st
  | _ :: _, [] => { st with buf := [] }
  | b, [root] =>
    -- len(tagStack) <= 1: the string would be a child of the BeautifulSoup object
    let s := b.flatten
    let s := if !(preserving cfg [root]) && s.all (fun c => cfg.asciiSpaces.contains c)
             then (if s.contains 10 then [10] else [32]) else s
    if f.allowString s then
      { stack := [{ root with kids := root.kids ++ [Doc.text (classFor cfg [root] cls) s] }], buf := [] }
    else { st with buf := [] }
  | _, _ => sFlush cfg st cls

def fStep (cfg : Cfg) (f : Filt) (st : SSt) : Ev → SSt
  | .start name pfx =>
    let st := fFlush cfg f st none
    if st.stack.length ≤ 1 && !(f.allowTag name pfx) then st
    else { st with stack := ⟨name, pfx, []⟩ :: st.stack }
  | .stop name pfx =>
    let st := fFlush cfg f st none
    if name == cfg.rootName then st
    else { st with stack := sCloseN (closeCount name pfx st.stack.dropLast) st.stack }
  | .data s => { st with buf := st.buf ++ [s] }
  | .endData cls => fFlush cfg f st cls

def fRun (cfg : Cfg) (f : Filt) (st : SSt) (evs : List Ev) : SSt := evs.foldl (fStep cfg f) st

def fBuild (cfg : Cfg) (f : Filt) (evs : List Ev) : List Doc :=
  let st := fFlush cfg f (fRun cfg f ⟨[⟨cfg.rootName, none, []⟩], []⟩ evs) none
  match sCloseN (st.stack.length - 1) st.stack with
  | [root] => root.kids
  | _ => []

end BS.ParseOnly
