import BSModel.Base.PStr
import BSModel.Gen.Pretty
/-! # Pretty-printing: `Tag.decode(indent_level=…)` / `prettify()`   (property C14)

Code-mirror (line numbers as of /repo commit 3196e3e) of `bs4/element.py` `Tag.decode` (:2374-2482), `Tag._event_stream` (:2496-2539, as the balanced event list of
the tree — the tag-stack walk over the pre-order is tied to this list by the harness, op `ev`), `Tag._indent_string`
(:2540-2567), `Tag._should_pretty_print` (:2630-2640), `Tag.is_empty_element` (:1839-1855), `Tag.prettify` (:2641-2658),
`Tag.decode_contents` (:2659-2686), `PageElement._self_and` (hidden receiver skipped), and of `bs4/formatter.py`
`Formatter.__init__` (:125-136, normalisation of `indent`).

Opaque pieces.  What `_format_tag(opening=True/False)` returns for a tag and what `output_ready(formatter)` returns for a
string are *inputs* of this model (entity substitution, attribute rendering, prefixes/suffixes of comments, doctypes … are
properties C05/C06/C15). `decode` treats them as opaque strings too: it only concatenates them, `strip()`s string pieces,
tests them for emptiness and surrounds them with whitespace. A hidden tag has the empty string for both pieces.

Strings are code point lists; core Lean only. -/
namespace BS.Pretty

/-! ### `Formatter.indent` -/

/-- what a caller may pass as `Formatter(indent=…)` (a `bool` is an `int` in Python) -/
inductive IndentArg where
  | none
  | int (n : Int)
  | str (s : PStr)
  | other
deriving Repr, DecidableEq

/-- `Formatter.__init__` (formatter.py:125-136):
    `if indent is None: indent = 0`; `int`: negative → 0, then `" " * indent`; `str`: itself; anything else: one space. -/
def indentOf (a : IndentArg) : PStr :=
  let a := match a with
    | .none => IndentArg.int 0
    | a => a
  match a with
  | .int n =>
    let n := if n < 0 then 0 else n
    List.replicate n.toNat 32
  | .str s => s
  | _ => [32]

/-! ### `str.strip()`, `str * int` -/

def isSpace (c : Nat) : Bool := BS.Gen.Pretty.whitespace.contains c

def lstrip (s : PStr) : PStr := s.dropWhile isSpace
def rstrip (s : PStr) : PStr := (s.reverse.dropWhile isSpace).reverse
/-- `str.strip()` without argument: drop the maximal whitespace prefix, then the maximal whitespace suffix -/
def strip (s : PStr) : PStr := rstrip (lstrip s)

/-- Python `s * n` for an `int` n (empty for n ≤ 0) -/
def rep (s : PStr) (n : Int) : PStr := (List.replicate n.toNat s).flatten

/-! ### trees and their event stream -/

/-- `Tag._should_pretty_print()` as `decode` calls it (no argument, so `indent_level = 1 is not None`), element.py:2630-2640:
    `not self.preserve_whitespace_tags or self.name not in self.preserve_whitespace_tags`
    (`None` and the empty set are both falsy). -/
def shouldPrettyPrint (pwt : Option (List PStr)) (name : PStr) : Bool :=
  match pwt with
  | none => true
  | some l => l.isEmpty || !l.contains name

/-- `_should_pretty_print(indent_level)` with the argument given explicitly: `indent_level is not None and (…)` -/
def shouldPrettyPrintAt (indentLevel : Option Int) (pwt : Option (List PStr)) (name : PStr) : Bool :=
  indentLevel.isSome && shouldPrettyPrint pwt name

/-- A rendered tree. `str ready`: a `NavigableString` (any subclass) with `ready = output_ready(formatter)`.
    `void tag`: a tag with `is_empty_element`, `tag = _format_tag(opening=True)`.
    `elem id opn cls pre kids`: any other tag; `id` stands for the object's identity (`decode` compares with `is`),
    `opn`/`cls` = `_format_tag(opening=True/False)`, `pre = not _should_pretty_print()`. -/
inductive Node where
  | str (ready : PStr)
  | void (tag : PStr)
  | elem (id : Nat) (opn cls : PStr) (pre : Bool) (kids : List Node)
deriving Repr

/-- `is_empty_element` (element.py:1839-1855): `len(self.contents) == 0 and self.can_be_empty_element is True` decides
    between the two tag constructors. -/
def mkTag (id : Nat) (opn cls : PStr) (pwt : Option (List PStr)) (name : PStr) (canBeEmpty : Bool) (kids : List Node) : Node :=
  if kids.isEmpty && canBeEmpty then .void opn else .elem id opn cls (!shouldPrettyPrint pwt name) kids

/-- the events of `_event_stream` together with what `decode` computes from the element at that event -/
inductive Ev where
  | start (id : Nat) (piece : PStr) (pre : Bool)   -- START_ELEMENT_EVENT
  | stop (id : Nat) (piece : PStr)                 -- END_ELEMENT_EVENT
  | empty (piece : PStr)                           -- EMPTY_ELEMENT_EVENT
  | text (piece : PStr)                            -- STRING_ELEMENT_EVENT
deriving Repr, DecidableEq

def Ev.piece : Ev → PStr
  | .start _ p _ => p
  | .stop _ p => p
  | .empty p => p
  | .text p => p

mutual
/-- `_event_stream` over `self_and_descendants` of a visible element (element.py:2496-2539): start, the children's
    events, end; one event for an empty-element tag or a string. -/
def events : Node → List Ev
  | .str s => [.text s]
  | .void t => [.empty t]
  | .elem i o c pre ks => .start i o pre :: (eventsL ks ++ [.stop i c])
/-- `_event_stream` over `descendants` (what `decode_contents` passes, and what is left of `self_and_descendants` when the
    receiver is hidden) -/
def eventsL : List Node → List Ev
  | [] => []
  | k :: ks => events k ++ eventsL ks
end

/-! ### `_event_stream` itself: the tag stack over the pre-order with parent pointers -/

/-- one element yielded by the iterator `_event_stream` walks (`self_and_descendants` / `descendants`): its `.parent` (by
    identity) and what `decode` needs from it -/
inductive FItem where
  | tag (parent id : Nat) (isEmpty : Bool) (opn cls : PStr) (pre : Bool)   -- a Tag; `isEmpty` = `is_empty_element`
  | str (parent : Nat) (ready : PStr)                                       -- a NavigableString
deriving Repr

def FItem.parent : FItem → Nat
  | .tag p _ _ _ _ _ => p
  | .str p _ => p

/-- `while tag_stack and c.parent is not tag_stack[-1]: yield END, tag_stack.pop()` (element.py:2522-2524); the stack is
    kept top-first, a frame is the tag's identity and its closing piece -/
def popTo (par : Nat) : List (Nat × PStr) → List Ev × List (Nat × PStr)
  | [] => ([], [])
  | (i, c) :: st =>
    if i = par then ([], (i, c) :: st)
    else ((Ev.stop i c) :: (popTo par st).1, (popTo par st).2)

/-- `Tag._event_stream(iterator)` (element.py:2496-2539) -/
def streamImpl : List (Nat × PStr) → List FItem → List Ev
  | st, [] => st.map fun f => Ev.stop f.1 f.2                    -- `while tag_stack: yield END, tag_stack.pop()`
  | st, it :: rest =>
    (popTo it.parent st).1 ++
      (match it with
       | .tag _ i isEmpty o c pre =>
         if isEmpty then Ev.empty o :: streamImpl (popTo it.parent st).2 rest
         else Ev.start i o pre :: streamImpl ((i, c) :: (popTo it.parent st).2) rest
       | .str _ s => Ev.text s :: streamImpl (popTo it.parent st).2 rest)

mutual
/-- the pre-order of a tree with parent pointers, as the `next_element` walk delivers it (C01/C02's invariant) -/
def flat (p : Nat) : Node → List FItem
  | .str s => [.str p s]
  | .void t => [.tag p 0 true t [] false]
  | .elem i o c pre ks => .tag p i false o c pre :: flatL i ks
def flatL (p : Nat) : List Node → List FItem
  | [] => []
  | k :: ks => flat p k ++ flatL p ks
end

def Node.kids : Node → List Node
  | .elem _ _ _ _ ks => ks
  | _ => []

/-- the stream `decode` iterates for a receiver: `_self_and` drops a hidden receiver, `decode_contents` passes
    `iterator=self.descendants` -/
def receiverStream (hidden contentsOnly : Bool) (t : Node) : List Ev :=
  if hidden || contentsOnly then eventsL t.kids else events t

/-! ### `decode` -/

/-- `_indent_string` (element.py:2540-2567) -/
def indentString (unit s : PStr) (indentLevel : Int) (indentBefore indentAfter : Bool) : PStr :=
  let spaceBefore := if indentBefore && indentLevel != 0 then rep unit indentLevel else []
  let spaceAfter := if indentAfter then [10] else []
  spaceBefore ++ s ++ spaceAfter

/-- the loop state of `decode`: `indent_level` (None = not pretty-printing) and `string_literal_tag` (by identity) -/
structure St where
  lvl : Option Int
  lit : Option Nat
deriving Repr

/-- one iteration of the loop in `decode` (element.py:2418-2480): the piece appended and the next state -/
def step (unit : PStr) (st : St) (ev : Ev) : PStr × St :=
  -- :2419-2429  the piece; an end event decrements the level first
  let piece := ev.piece
  let lvl : Option Int := match ev with
    | .stop _ _ => st.lvl.map (· - 1)
    | _ => st.lvl
  -- :2440-2443  `if string_literal_tag:` (a Tag is always truthy)
  let dflt : Bool := st.lit.isNone
  -- :2448-2466  entering / leaving string literal mode
  let (before, after, lit) : Bool × Bool × Option Nat := match ev with
    | .start i _ pre => if st.lit.isNone && pre then (true, false, some i) else (dflt, dflt, st.lit)
    | .stop i _ => if st.lit == some i then (false, true, none) else (dflt, dflt, st.lit)
    | _ => (dflt, dflt, st.lit)
  -- :2470-2480
  match lvl with
  | none => (piece, ⟨none, lit⟩)
  | some l =>
    let piece :=
      if before || after then
        let piece := match ev with
          | .text _ => strip piece
          | _ => piece
        if piece ≠ [] then indentString unit piece l before after else piece
      else piece
    let l := match ev with
      | .start _ _ _ => l + 1
      | _ => l
    (piece, ⟨some l, lit⟩)

/-- what a caller may pass as `indent_level` to `Tag.decode` -/
inductive LevelArg where
  | none
  | true
  | false
  | int (n : Int)
deriving Repr, DecidableEq

/-- element.py:2407-2408 `if indent_level is True: indent_level = 0` (`False` is the int 0 already) -/
def levelOf : LevelArg → Option Int
  | .none => Option.none
  | .true => some 0
  | .false => some 0
  | .int n => some n

/-- the list `pieces` built by the loop -/
def pieces (unit : PStr) : St → List Ev → List PStr
  | _, [] => []
  | st, ev :: rest => (step unit st ev).1 :: pieces unit (step unit st ev).2 rest

/-- `Tag.decode(indent_level, formatter)` on a given event stream: `"".join(pieces)`, starting outside literal mode.
    `unit` = `formatter.indent`. -/
def decodeImpl (unit : PStr) (indentLevel : Option Int) (evs : List Ev) : PStr :=
  (pieces unit ⟨indentLevel, none⟩ evs).flatten

/-- `Tag.prettify(formatter=…)` with `encoding=None` (element.py:2654-2655) -/
def prettifyImpl (unit : PStr) (hidden : Bool) (t : Node) : PStr :=
  decodeImpl unit (some 0) (receiverStream hidden false t)

/-! ### specification: recursion on the tree -/

/-- a piece on a line of its own (nothing at all for an empty piece) -/
def fullLine (unit : PStr) (lvl : Int) (p : PStr) : PStr :=
  if p = [] then [] else rep unit lvl ++ p ++ [10]

/-- the opening tag of a whitespace-preserving element: indented, no newline after -/
def openLine (unit : PStr) (lvl : Int) (p : PStr) : PStr :=
  if p = [] then [] else rep unit lvl ++ p

/-- its closing tag: nothing before, newline after -/
def closeLine (p : PStr) : PStr :=
  if p = [] then [] else p ++ [10]

mutual
/-- the plain rendering (`decode()` with `indent_level=None`): the pieces, concatenated -/
def plain : Node → PStr
  | .str s => s
  | .void t => t
  | .elem _ o c _ ks => o ++ plainL ks ++ c
def plainL : List Node → PStr
  | [] => []
  | k :: ks => plain k ++ plainL ks
end

mutual
/-- the pretty rendering at level `lvl`; `lit` = inside a whitespace-preserving element -/
def prettyNode (unit : PStr) (lvl : Int) (lit : Bool) : Node → PStr
  | .str s => if lit then s else fullLine unit lvl (strip s)
  | .void t => if lit then t else fullLine unit lvl t
  | .elem _ o c pre ks =>
    if lit then o ++ prettyL unit (lvl + 1) true ks ++ c
    else if pre then openLine unit lvl o ++ prettyL unit (lvl + 1) true ks ++ closeLine c
    else fullLine unit lvl o ++ prettyL unit (lvl + 1) false ks ++ fullLine unit lvl c
def prettyL (unit : PStr) (lvl : Int) (lit : Bool) : List Node → PStr
  | [] => []
  | k :: ks => prettyNode unit lvl lit k ++ prettyL unit lvl lit ks
end

/-- what `decode(indent_level)` / `decode_contents(indent_level)` / `prettify()` should return for a receiver -/
def decodeSpec (unit : PStr) (indentLevel : Option Int) (hidden contentsOnly : Bool) (t : Node) : PStr :=
  match indentLevel with
  | none => if hidden || contentsOnly then plainL t.kids else plain t
  | some l => if hidden || contentsOnly then prettyL unit l false t.kids else prettyNode unit l false t

/-! ### object identity -/

mutual
/-- identities of the non-empty-element tags of a tree -/
def ids : Node → List Nat
  | .elem i _ _ _ ks => i :: idsL ks
  | _ => []
def idsL : List Node → List Nat
  | [] => []
  | k :: ks => ids k ++ idsL ks
end

mutual
/-- no element shares its identity with one of its descendants (true of any real tree: an object is not its own
    descendant — C01's well-formedness) -/
def distinct : Node → Bool
  | .elem i _ _ _ ks => !(idsL ks).contains i && distinctL ks
  | _ => true
def distinctL : List Node → Bool
  | [] => true
  | k :: ks => distinct k && distinctL ks
end

/-- all whitespace code points removed -/
def dropWs (s : PStr) : PStr := s.filter (fun c => !isSpace c)

/-! ## The layer above the pieces: receivers, encodings, the bytes flavour, the XML declaration

Here the pieces are no longer inputs but computed as the code computes them, from what the tag / string objects carry:
`Tag._format_tag` (element.py:2568-2629; the attribute string — `formatter.attributes`, `attribute_value`,
`quoted_attribute_value`, charset substitution — stays opaque, given per `eventual_encoding`), `NavigableString.output_ready` /
`PreformattedString.output_ready` (:1347-1355, :1450-1466; `PREFIX + body + SUFFIX`, the substituted body opaque), and the
entry points `Tag.decode`/`decode_contents`/`encode`/`encode_contents`/`prettify` (element.py) and `BeautifulSoup.decode`
(bs4/__init__.py:1080-1150: XML declaration, deprecated bool `indent_level`). The codec step `str.encode(encoding,
"xmlcharrefreplace")` is not modelled: a bytes result is represented by the encoding and the text handed to the codec. -/

/-- what a tag object carries as far as rendering its own two pieces is concerned -/
structure TagInfo where
  id : Nat
  /-- `none`: a `Tag`; `some x`: a `BeautifulSoup` object with `is_xml = x` (its `decode` is overridden) -/
  soupXml : Option Bool
  hidden : Bool
  /-- `self.prefix` ("" for `None`: both falsy) -/
  nsPrefix : PStr
  name : PStr
  /-- `attribute_string` of `_format_tag(opening=True)` for every `eventual_encoding` not listed in `attrBy` -/
  attrDefault : PStr
  /-- … and for the listed ones (`none` = `eventual_encoding=None`): differs only through `AttributeValueWithCharsetSubstitution` -/
  attrBy : List (Option PStr × PStr)
  preserveWs : Option (List PStr)
  canBeEmpty : Bool
deriving Repr

/-- a tree as the objects are: strings with their class' PREFIX/SUFFIX and the body `output_ready` puts between them -/
inductive RNode where
  | str (pre suf body : PStr)
  | tag (info : TagInfo) (kids : List RNode)
deriving Repr

/-- what reaches `_format_tag` from the call: `eventual_encoding` and `formatter.void_element_close_prefix or ""` -/
structure RCfg where
  enc : Option PStr
  vcp : PStr
deriving Repr

def attrString (i : TagInfo) (enc : Option PStr) : PStr :=
  match i.attrBy.lookup enc with
  | some s => s
  | none => i.attrDefault

/-- `Tag._format_tag(eventual_encoding, formatter, opening)` (element.py:2568-2629) -/
def formatTag (c : RCfg) (i : TagInfo) (isEmptyElement opening : Bool) : PStr :=
  if i.hidden then []
  else
    let closingSlash : PStr := if !opening then [47] else []
    let pfx : PStr := if i.nsPrefix ≠ [] then i.nsPrefix ++ [58] else []
    let attributeString : PStr := if opening then attrString i c.enc else []
    let voidElementClosingSlash : PStr := if isEmptyElement then c.vcp else []
    [60] ++ closingSlash ++ pfx ++ i.name ++ attributeString ++ voidElementClosingSlash ++ [62]

/-- `output_ready`: `self.PREFIX + output + self.SUFFIX` (both implementations) -/
def outputReady (pre suf body : PStr) : PStr := pre ++ body ++ suf

mutual
/-- the pieces of every node under one call configuration -/
def resolve (c : RCfg) : RNode → Node
  | .str p s b => .str (outputReady p s b)
  | .tag i ks =>
    let isEmpty := ks.isEmpty && i.canBeEmpty
    mkTag i.id (formatTag c i isEmpty true) (formatTag c i isEmpty false) i.preserveWs i.name i.canBeEmpty (resolveL c ks)
def resolveL (c : RCfg) : List RNode → List Node
  | [] => []
  | k :: ks => resolve c k :: resolveL c ks
end

def RNode.hidden : RNode → Bool
  | .tag i _ => i.hidden
  | .str _ _ _ => false

def RNode.soupXml : RNode → Option Bool
  | .tag i _ => i.soupXml
  | .str _ _ _ => none

/-- `Tag.decode(indent_level, eventual_encoding, formatter)` (`contentsOnly = false`) and
    `Tag.decode_contents(indent_level, eventual_encoding, formatter)` (`contentsOnly = true`, element.py:2659-2686);
    `unit` = `formatter.indent`, `vcp` = `formatter.void_element_close_prefix or ""` -/
def tagDecode (unit vcp : PStr) (lvl : LevelArg) (enc : Option PStr) (contentsOnly : Bool) (r : RNode) : PStr :=
  decodeImpl unit (levelOf lvl) (receiverStream r.hidden contentsOnly (resolve ⟨enc, vcp⟩ r))

/-- the first lines of `BeautifulSoup.decode` (bs4/__init__.py:1104-1117): the XML declaration of an `is_xml` soup -/
def xmlDecl (isXml : Bool) (enc : Option PStr) : PStr :=
  if isXml then
    let declared : Option PStr := match enc with
      | some e => if BS.Gen.Pretty.pythonSpecificEncodings.contains e then none else some e
      | none => none
    let encodingPart : PStr := match declared with
      | some e => ofS " encoding=\"" ++ e ++ ofS "\""
      | none => []
    ofS "<?xml version=\"1.0\"" ++ encodingPart ++ ofS "?>\n"
  else []

/-- bs4/__init__.py:1128-1133: a bool first argument keeps its pre-4.13 meaning (`True` → 0, `False` → None, with a
    DeprecationWarning) -/
def soupLevel : LevelArg → LevelArg
  | .true => .int 0
  | .false => .none
  | l => l

/-- `BeautifulSoup.decode(indent_level, eventual_encoding, formatter, iterator)`; `decode_contents` on a soup reaches it
    with `iterator=self.descendants` (`contentsOnly`) -/
def soupDecode (unit vcp : PStr) (isXml : Bool) (lvl : LevelArg) (enc : Option PStr) (contentsOnly : Bool) (r : RNode) : PStr :=
  xmlDecl isXml enc ++ tagDecode unit vcp (soupLevel lvl) enc contentsOnly r

/-- `self.decode(...)` by method resolution: the override for a `BeautifulSoup` receiver -/
def recvDecode (unit vcp : PStr) (lvl : LevelArg) (enc : Option PStr) (contentsOnly : Bool) (r : RNode) : PStr :=
  match r.soupXml with
  | some x => soupDecode unit vcp x lvl enc contentsOnly r
  | none => tagDecode unit vcp lvl enc contentsOnly r

/-- a result: text, or the bytes `text.encode(enc, "xmlcharrefreplace")` (codec not modelled) -/
inductive Out where
  | str (s : PStr)
  | bytes (enc : PStr) (text : PStr)
deriving Repr, DecidableEq

/-- `Tag.encode(encoding, indent_level, formatter)` (element.py:2344-2373): `self.decode(indent_level, encoding, formatter)`,
    then the codec -/
def encodeImpl (unit vcp : PStr) (encoding : PStr) (lvl : LevelArg) (r : RNode) : Out :=
  .bytes encoding (recvDecode unit vcp lvl (some encoding) false r)

/-- `Tag.encode_contents(indent_level, encoding, formatter)` (element.py:2687-2706) -/
def encodeContentsImpl (unit vcp : PStr) (lvl : LevelArg) (encoding : PStr) (r : RNode) : Out :=
  .bytes encoding (recvDecode unit vcp lvl (some encoding) true r)

/-- deprecated `Tag.renderContents(encoding, prettyPrint, indentLevel)`: `if not prettyPrint: indentLevel = None`, then
    `encode_contents(indent_level=indentLevel, encoding=encoding)` (always the default formatter) -/
def renderContentsImpl (unit vcp : PStr) (encoding : PStr) (prettyPrint : Bool) (indentLevel : LevelArg) (r : RNode) : Out :=
  encodeContentsImpl unit vcp (if prettyPrint then indentLevel else .none) encoding r

/-- `Tag.prettify(encoding, formatter)` (element.py:2641-2658): without an encoding `self.decode(indent_level=0,
    formatter=formatter)` — `eventual_encoding` at the default of the `decode` that is reached — else `self.encode(encoding=
    encoding, indent_level=0, formatter=formatter)` -/
def prettifyRaw (unit vcp : PStr) (encoding : Option PStr) (r : RNode) : Out :=
  match encoding with
  | none =>
    let dflt := match r.soupXml with
      | some _ => BS.Gen.Pretty.soupDecodeDefaultEnc
      | none => BS.Gen.Pretty.tagDecodeDefaultEnc
    .str (recvDecode unit vcp (.int 0) dflt false r)
  | some e => encodeImpl unit vcp e (.int 0) r

/-- the recursive specification of `recvDecode`: the declaration line (XML-flavoured soup only), then `decodeSpec` on the
    resolved pieces -/
def recvSpec (unit vcp : PStr) (lvl : LevelArg) (enc : Option PStr) (contentsOnly : Bool) (r : RNode) : PStr :=
  match r.soupXml with
  | some x => xmlDecl x enc ++ decodeSpec unit (levelOf (soupLevel lvl)) r.hidden contentsOnly (resolve ⟨enc, vcp⟩ r)
  | none => decodeSpec unit (levelOf lvl) r.hidden contentsOnly (resolve ⟨enc, vcp⟩ r)

mutual
/-- identities of the tags of a raw tree -/
def rids : RNode → List Nat
  | .tag i ks => i.id :: ridsL ks
  | .str _ _ _ => []
def ridsL : List RNode → List Nat
  | [] => []
  | k :: ks => rids k ++ ridsL ks
end

mutual
/-- no tag shares its identity with one of its descendants -/
def rdistinct : RNode → Bool
  | .tag i ks => !(ridsL ks).contains i.id && rdistinctL ks
  | .str _ _ _ => true
def rdistinctL : List RNode → Bool
  | [] => true
  | k :: ks => rdistinct k && rdistinctL ks
end

mutual
/-- no whitespace-preserving element met outside literal mode is `hidden` -/
def rPreVisible : RNode → Bool
  | .tag i ks =>
    if ks.isEmpty && i.canBeEmpty then true
    else if !shouldPrettyPrint i.preserveWs i.name then !i.hidden
    else rPreVisibleL ks
  | .str _ _ _ => true
def rPreVisibleL : List RNode → Bool
  | [] => true
  | k :: ks => rPreVisible k && rPreVisibleL ks
end

def RNode.kids : RNode → List RNode
  | .tag _ ks => ks
  | .str _ _ _ => []

/-! ## The two outputs as token sequences

The tokenizer (`html.parser`) is not modelled. `plainToks`/`prettyToks` cut the plain / pretty output where a tokenizer cuts
well-formed output: every tag piece and every string piece with a PREFIX (comment, CDATA, processing instruction, declaration,
doctype — minus the whitespace after its closing delimiter) is one markup token, everything else is character data. The
harness compares the cuts with the real tokenizer's on the real outputs (op `tp`/`tq`). -/

/-- the whitespace `rstrip` removes -/
def rtail (s : PStr) : PStr := (s.reverse.takeWhile isSpace).reverse

inductive Tok where
  | markup (p : PStr)
  | data (s : PStr)
deriving Repr, DecidableEq

def Tok.text : Tok → PStr
  | .markup p => p
  | .data s => s

def textOf (ts : List Tok) : PStr := (ts.map Tok.text).flatten

/-- pending character data, if any -/
def flushD (acc : PStr) : List Tok := if acc = [] then [] else [.data acc]

/-- adjacent character data merged (as `handle_data` calls accumulate until the next tag), whitespace in it disregarded,
    empty runs dropped -/
def canonAux : PStr → List Tok → List Tok
  | acc, [] => flushD acc
  | acc, .data s :: r => canonAux (acc ++ dropWs s) r
  | acc, .markup p :: r => flushD acc ++ .markup p :: canonAux [] r

def canon (ts : List Tok) : List Tok := canonAux [] ts

/-- a tag piece as tokens (a hidden tag has none) -/
def tagTok (p : PStr) : List Tok := if p = [] then [] else [.markup p]

def lineToks (u : PStr) (l : Int) (p : PStr) : List Tok := if p = [] then [] else [.data (rep u l), .markup p, .data [10]]
def openToks (u : PStr) (l : Int) (p : PStr) : List Tok := if p = [] then [] else [.data (rep u l), .markup p]
def closeToks (p : PStr) : List Tok := if p = [] then [] else [.markup p, .data [10]]

/-- a string piece in the plain output: character data, or (class with a PREFIX) one markup token followed by the whitespace
    after its closing delimiter -/
def strToks (pre suf body : PStr) : List Tok :=
  if pre = [] then [.data (outputReady pre suf body)]
  else [.markup (rstrip (outputReady pre suf body)), .data (rtail (outputReady pre suf body))]

mutual
def plainToks (c : RCfg) : RNode → List Tok
  | .str p s b => strToks p s b
  | .tag i ks =>
    let e := ks.isEmpty && i.canBeEmpty
    if e then tagTok (formatTag c i e true)
    else tagTok (formatTag c i e true) ++ plainToksL c ks ++ tagTok (formatTag c i e false)
def plainToksL (c : RCfg) : List RNode → List Tok
  | [] => []
  | k :: ks => plainToks c k ++ plainToksL c ks
end

mutual
def prettyToks (c : RCfg) (u : PStr) (l : Int) (lit : Bool) : RNode → List Tok
  | .str p s b =>
    if lit then strToks p s b
    else if strip (outputReady p s b) = [] then []
    else if p = [] then [.data (rep u l ++ strip (outputReady p s b) ++ [10])]
    else [.data (rep u l), .markup (strip (outputReady p s b)), .data [10]]
  | .tag i ks =>
    let e := ks.isEmpty && i.canBeEmpty
    if e then (if lit then tagTok (formatTag c i e true) else lineToks u l (formatTag c i e true))
    else if lit then tagTok (formatTag c i e true) ++ prettyToksL c u (l + 1) true ks ++ tagTok (formatTag c i e false)
    else if !shouldPrettyPrint i.preserveWs i.name then
      openToks u l (formatTag c i e true) ++ prettyToksL c u (l + 1) true ks ++ closeToks (formatTag c i e false)
    else lineToks u l (formatTag c i e true) ++ prettyToksL c u (l + 1) false ks ++ lineToks u l (formatTag c i e false)
def prettyToksL (c : RCfg) (u : PStr) (l : Int) (lit : Bool) : List RNode → List Tok
  | [] => []
  | k :: ks => prettyToks c u l lit k ++ prettyToksL c u l lit ks
end

end BS.Pretty
