import BSModel.Base.PStr
import BSModel.Gen.Pretty
/-! # Pretty-printing: `Tag.decode(indent_level=…)` / `prettify()`   (property C14)

Code-mirror (line numbers as of /repo commit 30770a7) of `bs4/element.py` `Tag.decode` (:2350-2457), `Tag._event_stream` (:2472-2514, as the balanced event list of
the tree — the tag-stack walk over the pre-order is tied to this list by the harness, op `ev`), `Tag._indent_string`
(:2516-2542), `Tag._should_pretty_print` (:2606-2615), `Tag.is_empty_element` (:1825-1841), `Tag.prettify` (:2617-2633),
`Tag.decode_contents` (:2635-2661), `PageElement._self_and` (hidden receiver skipped), and of `bs4/formatter.py`
`Formatter.__init__` (:125-136, normalisation of `indent`).

Opaque pieces.  What `_format_tag(opening=True/False)` returns for a tag and what `output_ready(formatter)` returns for a
string are *inputs* of this model (entity substitution, attribute rendering, prefixes/suffixes of comments, doctypes … are
properties C05/C06/C15). `decode` treats them as opaque strings too: it only concatenates them, `strip()`s string pieces,
tests them for emptiness and surrounds them with whitespace. A hidden tag has the empty string for both pieces.

Strings are code point lists; core Lean only. -/
namespace BS.Pretty

/-! ### `Formatter.indent` -/

/-- what a caller may pass as `Formatter(indent=…)` (a `bool` is an `int` in Python) -/
inductive IndentArg where
  | none
  | int (n : Int)
  | str (s : PStr)
  | other
deriving Repr, DecidableEq

/-- `Formatter.__init__` (formatter.py:125-136):
    `if indent is None: indent = 0`; `int`: negative → 0, then `" " * indent`; `str`: itself; anything else: one space. -/
def indentOf (a : IndentArg) : PStr :=
  let a := match a with
    | .none => IndentArg.int 0
    | a => a
  match a with
  | .int n =>
    let n := if n < 0 then 0 else n
    List.replicate n.toNat 32
  | .str s => s
  | _ => [32]

/-! ### `str.strip()`, `str * int` -/

def isSpace (c : Nat) : Bool := BS.Gen.Pretty.whitespace.contains c

def lstrip (s : PStr) : PStr := s.dropWhile isSpace
def rstrip (s : PStr) : PStr := (s.reverse.dropWhile isSpace).reverse
/-- `str.strip()` without argument: drop the maximal whitespace prefix, then the maximal whitespace suffix -/
def strip (s : PStr) : PStr := rstrip (lstrip s)

/-- Python `s * n` for an `int` n (empty for n ≤ 0) -/
def rep (s : PStr) (n : Int) : PStr := (List.replicate n.toNat s).flatten

/-! ### trees and their event stream -/

/-- `Tag._should_pretty_print()` as `decode` calls it (no argument, so `indent_level = 1 is not None`), element.py:2606-2615:
    `not self.preserve_whitespace_tags or self.name not in self.preserve_whitespace_tags`
    (`None` and the empty set are both falsy). -/
def shouldPrettyPrint (pwt : Option (List PStr)) (name : PStr) : Bool :=
  match pwt with
  | none => true
  | some l => l.isEmpty || !l.contains name

/-- A rendered tree. `str ready`: a `NavigableString` (any subclass) with `ready = output_ready(formatter)`.
    `void tag`: a tag with `is_empty_element`, `tag = _format_tag(opening=True)`.
    `elem id opn cls pre kids`: any other tag; `id` stands for the object's identity (`decode` compares with `is`),
    `opn`/`cls` = `_format_tag(opening=True/False)`, `pre = not _should_pretty_print()`. -/
inductive Node where
  | str (ready : PStr)
  | void (tag : PStr)
  | elem (id : Nat) (opn cls : PStr) (pre : Bool) (kids : List Node)
deriving Repr

/-- `is_empty_element` (element.py:1825-1841): `len(self.contents) == 0 and self.can_be_empty_element is True` decides
    between the two tag constructors. -/
def mkTag (id : Nat) (opn cls : PStr) (pwt : Option (List PStr)) (name : PStr) (canBeEmpty : Bool) (kids : List Node) : Node :=
  if kids.isEmpty && canBeEmpty then .void opn else .elem id opn cls (!shouldPrettyPrint pwt name) kids

/-- the events of `_event_stream` together with what `decode` computes from the element at that event -/
inductive Ev where
  | start (id : Nat) (piece : PStr) (pre : Bool)   -- START_ELEMENT_EVENT
  | stop (id : Nat) (piece : PStr)                 -- END_ELEMENT_EVENT
  | empty (piece : PStr)                           -- EMPTY_ELEMENT_EVENT
  | text (piece : PStr)                            -- STRING_ELEMENT_EVENT
deriving Repr

def Ev.piece : Ev → PStr
  | .start _ p _ => p
  | .stop _ p => p
  | .empty p => p
  | .text p => p

mutual
/-- `_event_stream` over `self_and_descendants` of a visible element (element.py:2472-2514): start, the children's
    events, end; one event for an empty-element tag or a string. -/
def events : Node → List Ev
  | .str s => [.text s]
  | .void t => [.empty t]
  | .elem i o c pre ks => .start i o pre :: (eventsL ks ++ [.stop i c])
/-- `_event_stream` over `descendants` (what `decode_contents` passes, and what is left of `self_and_descendants` when the
    receiver is hidden) -/
def eventsL : List Node → List Ev
  | [] => []
  | k :: ks => events k ++ eventsL ks
end

def Node.kids : Node → List Node
  | .elem _ _ _ _ ks => ks
  | _ => []

/-- the stream `decode` iterates for a receiver: `_self_and` drops a hidden receiver, `decode_contents` passes
    `iterator=self.descendants` -/
def receiverStream (hidden contentsOnly : Bool) (t : Node) : List Ev :=
  if hidden || contentsOnly then eventsL t.kids else events t

/-! ### `decode` -/

/-- `_indent_string` (element.py:2516-2542) -/
def indentString (unit s : PStr) (indentLevel : Int) (indentBefore indentAfter : Bool) : PStr :=
  let spaceBefore := if indentBefore && indentLevel != 0 then rep unit indentLevel else []
  let spaceAfter := if indentAfter then [10] else []
  spaceBefore ++ s ++ spaceAfter

/-- the loop state of `decode`: `indent_level` (None = not pretty-printing) and `string_literal_tag` (by identity) -/
structure St where
  lvl : Option Int
  lit : Option Nat
deriving Repr

/-- one iteration of the loop in `decode` (element.py:2394-2456): the piece appended and the next state -/
def step (unit : PStr) (st : St) (ev : Ev) : PStr × St :=
  -- :2395-2405  the piece; an end event decrements the level first
  let piece := ev.piece
  let lvl : Option Int := match ev with
    | .stop _ _ => st.lvl.map (· - 1)
    | _ => st.lvl
  -- :2416-2419  `if string_literal_tag:` (a Tag is always truthy)
  let dflt : Bool := st.lit.isNone
  -- :2424-2442  entering / leaving string literal mode
  let (before, after, lit) : Bool × Bool × Option Nat := match ev with
    | .start i _ pre => if st.lit.isNone && pre then (true, false, some i) else (dflt, dflt, st.lit)
    | .stop i _ => if st.lit == some i then (false, true, none) else (dflt, dflt, st.lit)
    | _ => (dflt, dflt, st.lit)
  -- :2446-2456
  match lvl with
  | none => (piece, ⟨none, lit⟩)
  | some l =>
    let piece :=
      if before || after then
        let piece := match ev with
          | .text _ => strip piece
          | _ => piece
        if piece ≠ [] then indentString unit piece l before after else piece
      else piece
    let l := match ev with
      | .start _ _ _ => l + 1
      | _ => l
    (piece, ⟨some l, lit⟩)

/-- what a caller may pass as `indent_level` to `Tag.decode` -/
inductive LevelArg where
  | none
  | true
  | int (n : Int)
deriving Repr, DecidableEq

/-- element.py:2383-2384 `if indent_level is True: indent_level = 0` (`False` is the int 0 already) -/
def levelOf : LevelArg → Option Int
  | .none => Option.none
  | .true => some 0
  | .int n => some n

/-- the list `pieces` built by the loop -/
def pieces (unit : PStr) : St → List Ev → List PStr
  | _, [] => []
  | st, ev :: rest => (step unit st ev).1 :: pieces unit (step unit st ev).2 rest

/-- `Tag.decode(indent_level, formatter)` on a given event stream: `"".join(pieces)`, starting outside literal mode.
    `unit` = `formatter.indent`. -/
def decodeImpl (unit : PStr) (indentLevel : Option Int) (evs : List Ev) : PStr :=
  (pieces unit ⟨indentLevel, none⟩ evs).flatten

/-- `Tag.prettify(formatter=…)` with `encoding=None` (element.py:2630-2631) -/
def prettifyImpl (unit : PStr) (hidden : Bool) (t : Node) : PStr :=
  decodeImpl unit (some 0) (receiverStream hidden false t)

/-! ### specification: recursion on the tree -/

/-- a piece on a line of its own (nothing at all for an empty piece) -/
def fullLine (unit : PStr) (lvl : Int) (p : PStr) : PStr :=
  if p = [] then [] else rep unit lvl ++ p ++ [10]

/-- the opening tag of a whitespace-preserving element: indented, no newline after -/
def openLine (unit : PStr) (lvl : Int) (p : PStr) : PStr :=
  if p = [] then [] else rep unit lvl ++ p

/-- its closing tag: nothing before, newline after -/
def closeLine (p : PStr) : PStr :=
  if p = [] then [] else p ++ [10]

mutual
/-- the plain rendering (`decode()` with `indent_level=None`): the pieces, concatenated -/
def plain : Node → PStr
  | .str s => s
  | .void t => t
  | .elem _ o c _ ks => o ++ plainL ks ++ c
def plainL : List Node → PStr
  | [] => []
  | k :: ks => plain k ++ plainL ks
end

mutual
/-- the pretty rendering at level `lvl`; `lit` = inside a whitespace-preserving element -/
def prettyNode (unit : PStr) (lvl : Int) (lit : Bool) : Node → PStr
  | .str s => if lit then s else fullLine unit lvl (strip s)
  | .void t => if lit then t else fullLine unit lvl t
  | .elem _ o c pre ks =>
    if lit then o ++ prettyL unit (lvl + 1) true ks ++ c
    else if pre then openLine unit lvl o ++ prettyL unit (lvl + 1) true ks ++ closeLine c
    else fullLine unit lvl o ++ prettyL unit (lvl + 1) false ks ++ fullLine unit lvl c
def prettyL (unit : PStr) (lvl : Int) (lit : Bool) : List Node → PStr
  | [] => []
  | k :: ks => prettyNode unit lvl lit k ++ prettyL unit lvl lit ks
end

/-- what `decode(indent_level)` / `decode_contents(indent_level)` / `prettify()` should return for a receiver -/
def decodeSpec (unit : PStr) (indentLevel : Option Int) (hidden contentsOnly : Bool) (t : Node) : PStr :=
  match indentLevel with
  | none => if hidden || contentsOnly then plainL t.kids else plain t
  | some l => if hidden || contentsOnly then prettyL unit l false t.kids else prettyNode unit l false t

/-! ### object identity -/

mutual
/-- identities of the non-empty-element tags of a tree -/
def ids : Node → List Nat
  | .elem i _ _ _ ks => i :: idsL ks
  | _ => []
def idsL : List Node → List Nat
  | [] => []
  | k :: ks => ids k ++ idsL ks
end

mutual
/-- no element shares its identity with one of its descendants (true of any real tree: an object is not its own
    descendant — C01's well-formedness) -/
def distinct : Node → Bool
  | .elem i _ _ _ ks => !(idsL ks).contains i && distinctL ks
  | _ => true
def distinctL : List Node → Bool
  | [] => true
  | k :: ks => distinct k && distinctL ks
end

/-- all whitespace code points removed -/
def dropWs (s : PStr) : PStr := s.filter (fun c => !isSpace c)

end BS.Pretty
