import BSModel.Model.RenderWritten
import BSModel.Model.Pretty
/-! # C14 ↔ C05 bridge: the pretty output as the plain output of a tree with whitespace strings added

`Model/Pretty.lean` (C14) takes the pieces of tags and strings as opaque inputs; `Model/Render.lean` (C05) computes them
(`_format_tag`, `output_ready`). `toP`/`toPL` hand C05's pieces to C14's loop (identities = pre-order numbers).
`prettyTree`/`prettyTreeL` is the tree whose PLAIN rendering is the PRETTY rendering of the given tree: whitespace
strings (`rep unit level`, `"\n"`) added around every tag / non-blank string outside whitespace-preserving elements,
text stripped, blank text dropped. `eraseWs`/`eraseWsL` is the normalisation the property names ("whitespace inside
text is disregarded"): in character data outside whitespace-preserving elements every whitespace character
(`str.isspace`) is removed and strings that become empty disappear; comments, CDATA sections, doctypes, declarations,
processing instructions and everything inside whitespace-preserving elements are left alone. Core Lean only. -/
namespace BS.PrettyReparse
open BS.Render BS.Builder BS.Writer BS.Adapter
open BS.Pretty (rep strip isSpace dropWs shouldPrettyPrint)

/-- `not tag._should_pretty_print()` as `decode` evaluates it on a start event (element.py:2630-2640) -/
def isPre (pwt : Option (List PStr)) (i : TagInfo) : Bool := !shouldPrettyPrint pwt i.name

mutual
/-- number of objects of a tree (for the pre-order numbering that stands for object identity) -/
def size : Node → Nat
  | .tag _ ks => 1 + sizeL ks
  | .str _ _ => 1
def sizeL : List Node → Nat
  | [] => 0
  | n :: ns => size n + sizeL ns
end

mutual
/-- C05's tree as C14's loop sees it: the two pieces of every tag (`_format_tag`), the piece of every string
    (`output_ready`), `is_empty_element`, `not _should_pretty_print()`; identity = pre-order number from `k` -/
def toP (ci : SCls → ClsInfo) (f : Fmt) (pwt : Option (List PStr)) (pn : Option PStr) (k : Nat) : Node → BS.Pretty.Node
  | .str c s => .str (outputReady ci f pn c s)
  | .tag i ks =>
    if ks.isEmpty && i.cbe then .void (formatTag f i true true)
    else .elem k (formatTag f i false true) (formatTag f i false false) (isPre pwt i) (toPL ci f pwt (some i.name) (k + 1) ks)
def toPL (ci : SCls → ClsInfo) (f : Fmt) (pwt : Option (List PStr)) (pn : Option PStr) (k : Nat) :
    List Node → List BS.Pretty.Node
  | [] => []
  | n :: ns => toP ci f pwt pn k n :: toPL ci f pwt pn (k + size n) ns
end

mutual
/-- no element is `hidden` (a hidden element has no pieces, hence no lines of its own: outside this bridge) -/
def noHidden : Node → Bool
  | .str _ _ => true
  | .tag i ks => !i.hidden && noHiddenL ks
def noHiddenL : List Node → Bool
  | [] => true
  | n :: ns => noHidden n && noHiddenL ns
end

/-- a whitespace string the pretty-printer inserts -/
def ws (x : PStr) : Node := .str .navigable x

/-- a node on a line of its own -/
def line (u : PStr) (l : Int) (n : Node) : List Node := [ws (rep u l), n, ws [10]]

mutual
/-- the tree whose plain rendering is the pretty rendering at level `l` of the given tree (outside literal mode; a
    whitespace-preserving element and an empty-element tag are kept whole). A doctype's own SUFFIX ends its line. -/
def prettyTree (u : PStr) (pwt : Option (List PStr)) (l : Int) : Node → List Node
  | .str c s =>
    match c with
    | .doctype => [ws (rep u l), .str .doctype s]
    | .comment => line u l (.str .comment s)
    | .cdata => line u l (.str .cdata s)
    | .pi => line u l (.str .pi s)
    | .xmlpi => line u l (.str .xmlpi s)
    | .declaration => line u l (.str .declaration s)
    | c => if strip s = [] then [] else line u l (.str c (strip s))
  | .tag i ks =>
    if ks.isEmpty && i.cbe then line u l (.tag i ks)
    else if isPre pwt i then line u l (.tag i ks)
    else line u l (.tag i (ws [10] :: (prettyTreeL u pwt (l + 1) ks ++ [ws (rep u l)])))
def prettyTreeL (u : PStr) (pwt : Option (List PStr)) (l : Int) : List Node → List Node
  | [] => []
  | n :: ns => prettyTree u pwt l n ++ prettyTreeL u pwt l ns
end

/-- the classes bs4's handler gives to comments, CDATA sections, processing instructions, declarations, doctypes -/
def isSpecialCls (c : Cls) : Bool := c == clsComment || c == clsCData || c == clsPI || c == clsDecl || c == clsDoctype

mutual
/-- **"whitespace inside text is disregarded"**: character data (any class a string container gives it) outside
    whitespace-preserving elements loses its whitespace characters and disappears if nothing is left; special strings
    and the contents of whitespace-preserving elements stay as they are -/
def eraseWs (cfg : Cfg) : Doc → List Doc
  | .text c s => if isSpecialCls c then [.text c s] else if dropWs s = [] then [] else [.text c (dropWs s)]
  | .elem n p ks => [.elem n p (if cfg.preserve n then ks else eraseWsL cfg ks)]
def eraseWsL (cfg : Cfg) : List Doc → List Doc
  | [] => []
  | d :: ds => eraseWs cfg d ++ eraseWsL cfg ds
end

mutual
/-- the builder's whitespace-preserving elements are among the pretty-printer's: an element the pretty-printer lays
    out (not `isPre`) is not whitespace-preserving for the builder under the name a re-parse reads. (Both consult
    `builder.preserve_whitespace_tags`; elements inside an `isPre` element are not looked at.) -/
def preAgree (cfg : Cfg) (pwt : Option (List PStr)) : Node → Bool
  | .str _ _ => true
  | .tag i ks => (ks.isEmpty && i.cbe) || isPre pwt i || (!cfg.preserve (fullName i) && preAgreeL cfg pwt ks)
def preAgreeL (cfg : Cfg) (pwt : Option (List PStr)) : List Node → Bool
  | [] => true
  | n :: ns => preAgree cfg pwt n && preAgreeL cfg pwt ns
end

end BS.PrettyReparse
