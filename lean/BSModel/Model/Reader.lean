import BSModel.Model.Entities
/-! # What a parser reads back

`readText` — CPython's `html.parser.HTMLParser(convert_charrefs=False).goahead` (html/parser.py:134-250) on **tag-free**
text that is followed by a tag (the text of `<p>TEXT</p>`), composed with bs4's `handle_entityref` /
`handle_charref` (bs4/builder/_htmlparser.py:229-287) and the concatenation of the data chunks.

`readAttr` — the tokenizer's handling of a quoted attribute value (`attrfind_tolerant`, quote stripping,
html/parser.py:330-340) followed by `html.unescape` (html/__init__.py:91-132).

Both are *recorded* behaviour of the runtime (DESIGN section 6): the correspondence check compares them with the real
parser on every generated string. -/
namespace BS.Reader
open BS.Entities

def digitVal (c : Nat) : Nat :=
  if isDigit c then c - 48 else if 65 ≤ c && c ≤ 70 then c - 55 else if 97 ≤ c && c ≤ 102 then c - 87 else 0

/-- `int(digits, base)` on ASCII digits -/
def numVal (base : Nat) (ds : PStr) : Nat := ds.foldl (fun acc d => acc * base + digitVal d) 0

/-- bs4 `handle_entityref` (_htmlparser.py:271-287): a known name becomes its characters, an unknown one the literal
    `&name` (without the `;` the tokenizer may have consumed). -/
def entityRef (T : Tbl) (name : PStr) : PStr :=
  match T.toChar.get name with
  | some cs => cs
  | none => 38 :: name

/-- bs4 `handle_charref` (_htmlparser.py:229-269) for a `str` document (`original_encoding` is None): values below 256
    go through windows-1252 when that decodes; out-of-range values become U+FFFD. (`int()` refuses decimal strings of
    more than 4300 digits with ValueError — C06's finding; such inputs are outside this model.) -/
def charRef (T : Tbl) (n : Nat) : PStr :=
  if n < 256 then
    match T.cp1252.lookup n with
    | some c => [c]
    | none => [n]
  else if n ≤ 0x10FFFF then [n] else [0xFFFD]

/-- After `&#`: `charref = '&#(?:[0-9]+|[xX][0-9a-fA-F]+)[^0-9a-fA-F]'` (html/parser.py:23). Returns the value and the
    number of code points of the digits part (with the `x`). The terminator must not be a hex digit; the end of the text
    counts as a terminator because a `<` follows. -/
def charrefMatch (l : PStr) : Option (Nat × Nat) :=
  match l with
  | [] => none
  | x :: r =>
    if x = 120 || x = 88 then
      let n := spanLen isHex r
      if n = 0 then none else some (numVal 16 (r.take n), n + 1)
    else
      let n := spanLen isDigit l
      if n = 0 then none else
      match l.drop n with
      | t :: _ => if isHex t then none else some (numVal 10 (l.take n), n)
      | [] => some (numVal 10 (l.take n), n)

/-- marker appended when the tokenizer gives up on `&#` and hands the whole rest of the *document* (following tags
    included) to `handle_data` (html/parser.py:205-209 + 243-248): not a code point. -/
def RUNAWAY : Nat := 0x110000

/-- The text the tree holds after parsing tag-free `s` (the first text of the document).

    `late` — the tokenizer is already in its `close()` pass (`goahead(1)`): bs4 calls `feed()` then `close()`; `feed()`
    stops (`break`) at the first `&#` that is not a well-formed numeric reference, after handing `&#` to `handle_data`
    if a `;` occurs later in the document (html/parser.py:205-209); `close()` resumes after it. A **second** such
    `&#`, or a first one with no later `;`, is met by `close()`, whose `break` is followed by "hand everything up to
    the end of the document to handle_data" (html/parser.py:243-248): the rest of the text stays raw and the following
    tags are swallowed (`RUNAWAY`).

    The counter is the number of code points still belonging to the previous token. Assumes the rest of the document
    after the text holds no `;`. -/
def readText (T : Tbl) (late : Bool) : Nat → PStr → PStr
  | _, [] => []
  | k + 1, _ :: cs => readText T late k cs
  | 0, c :: cs =>
    if c ≠ 38 then c :: readText T late 0 cs else
    match cs with
    | [] => [38]
    | d :: ds =>
      if d = 35 then
        match charrefMatch ds with
        | some (v, len) =>
          let semi := match ds.drop len with | 59 :: _ => 1 | _ => 0
          charRef T v ++ readText T late (1 + len + semi) cs
        | none =>
          if !late && ds.contains 59 then 38 :: 35 :: readText T true 1 cs
          else 38 :: cs ++ [RUNAWAY]
      else if isAlpha d then
        let n := spanLen isNameChar cs
        let semi := match cs.drop n with | 59 :: _ => 1 | _ => 0
        entityRef T (cs.take n) ++ readText T late (n + semi) cs
      else 38 :: readText T late 0 cs

/-- `charref` needs its terminator: at the very end of the document a digit run that reaches the end does not match -/
def charrefMatchEnd (l : PStr) : Option (Nat × Nat) :=
  match l with
  | [] => none
  | x :: r =>
    if x = 120 || x = 88 then
      let n := spanLen isHex r
      if n = 0 then none else
      match r.drop n with
      | _ :: _ => some (numVal 16 (r.take n), n + 1)
      | [] => none
    else
      let n := spanLen isDigit l
      if n = 0 then none else
      match l.drop n with
      | t :: _ => if isHex t then none else some (numVal 10 (l.take n), n)
      | [] => none

/-- The text the tree holds after parsing tag-free `s` that is the **last thing of the document** (no tag after it:
    top-level text, or text in an element that is never closed). Differences from `readText`, all at the end of the
    input (html/parser.py:200-251): a reference whose name or digits run to the end has no terminator — `entityref`
    backtracks to the last `-`/`.` of the run (the name before it is looked up, the rest is text), `&` + one letter is
    consumed without any callback at `close()` (parser.py:228-232), any other unterminated reference and everything
    after a `&#` bail at `close()` is flushed as it stands (parser.py:245-249: no tags to swallow, so no `RUNAWAY`). -/
def readTextEnd (T : Tbl) (late : Bool) : Nat → PStr → PStr
  | _, [] => []
  | k + 1, _ :: cs => readTextEnd T late k cs
  | 0, c :: cs =>
    if c ≠ 38 then c :: readTextEnd T late 0 cs else
    match cs with
    | [] => [38]
    | d :: ds =>
      if d = 35 then
        match charrefMatchEnd ds with
        | some (v, len) =>
          let semi := match ds.drop len with | 59 :: _ => 1 | _ => 0
          charRef T v ++ readTextEnd T late (1 + len + semi) cs
        | none =>
          if !late && ds.contains 59 then 38 :: 35 :: readTextEnd T true 1 cs
          else 38 :: cs
      else if isAlpha d then
        match cs.drop (spanLen isNameChar cs) with
        | t :: _ =>
          let semi := if t = 59 then 1 else 0
          entityRef T (cs.take (spanLen isNameChar cs)) ++ readTextEnd T late (spanLen isNameChar cs + semi) cs
        | [] =>
          match lastDashDot cs with
          | some q => entityRef T (cs.take q) ++ readTextEnd T late q cs
          | none => if ds.isEmpty then cs else 38 :: cs
      else 38 :: readTextEnd T late 0 cs

/-! ## html.unescape -/

/-- `[^\t\n\f <&#;]` -/
def isRefChar (c : Nat) : Bool := !(c = 9 || c = 10 || c = 12 || c = 32 || c = 60 || c = 38 || c = 35 || c = 59)

/-- the `for x in range(len(s)-1, 1, -1): if s[:x] in html5` loop; `x` runs downwards from `x0` -/
def longestPrefix (T : Tbl) (s : PStr) : Nat → Option PStr
  | 0 => none
  | x + 1 =>
    if x + 1 < 2 then none else
    match T.html5.get (s.take (x + 1)) with
    | some v => some (v ++ s.drop (x + 1))
    | none => longestPrefix T s x

/-- `_replace_charref` for a named reference body `s` (with its optional `;`) -/
def namedRef (T : Tbl) (s : PStr) : PStr :=
  match T.html5.get s with
  | some v => v
  | none =>
    match longestPrefix T s (s.length - 1) with
    | some r => r
    | none => 38 :: s

/-- `_replace_charref` for a numeric reference with value `n` -/
def numericRef (T : Tbl) (n : Nat) : PStr :=
  match T.invalidCharrefs.lookup n with
  | some r => r
  | none =>
    if (0xD800 ≤ n && n ≤ 0xDFFF) || n > 0x10FFFF then [0xFFFD]
    else if T.invalidCodepoints.contains n then []
    else [n]

/-- `html.unescape`: `&(#[0-9]+;?|#[xX][0-9a-fA-F]+;?|[^\t\n\f <&#;]{1,32};?)` with `_replace_charref`. -/
def unescape (T : Tbl) : Nat → PStr → PStr
  | _, [] => []
  | k + 1, _ :: cs => unescape T k cs
  | 0, c :: cs =>
    if c ≠ 38 then c :: unescape T 0 cs else
    match cs with
    | [] => [38]
    | d :: ds =>
      if d = 35 then
        let nd := spanLen isDigit ds
        if nd ≠ 0 then
          let semi := match ds.drop nd with | 59 :: _ => 1 | _ => 0
          numericRef T (numVal 10 (ds.take nd)) ++ unescape T (1 + nd + semi) cs
        else
          match ds with
          | x :: r =>
            let nh := spanLen isHex r
            if (x = 120 || x = 88) && nh ≠ 0 then
              let semi := match r.drop nh with | 59 :: _ => 1 | _ => 0
              numericRef T (numVal 16 (r.take nh)) ++ unescape T (2 + nh + semi) cs
            else 38 :: unescape T 0 cs
          | [] => 38 :: unescape T 0 cs
      else
        let n := min (spanLen isRefChar cs) 32
        if n = 0 then 38 :: unescape T 0 cs else
        let semi := match cs.drop n with | 59 :: _ => 1 | _ => 0
        namedRef T (cs.take (n + semi)) ++ unescape T (n + semi) cs

/-- A quoted attribute value as the tokenizer sees it: the value runs from the opening quote to the **first** matching
    quote, which must be the last code point (otherwise the tag does not have this single attribute value: `none`);
    the quotes are stripped and the body goes through `html.unescape`. -/
def readAttr (T : Tbl) (q : PStr) : Option PStr :=
  match q with
  | [] => none
  | c :: rest =>
    if c = 34 || c = 39 then
      let n := spanLen (· != c) rest
      if rest.drop n = [c] then some (unescape T 0 (rest.take n)) else none
    else none

end BS.Reader
