/-! C20 — `TreeBuilderRegistry.register/lookup` (bs4/builder/__init__.py:86-151) and the builder decision of
    `BeautifulSoup.__init__` (bs4/__init__.py:344-433). Code-mirror (`lookup`) and spec (`lookupSpec`). -/
namespace BS.Registry

structure Builder where
  id : Nat
  features : List Nat
deriving DecidableEq, Repr

/-- code-mirror state: `builders_for_feature` (front insertion per feature) and `builders` (front insertion) -/
structure Registry where
  byFeature : Nat → List Builder
  builders : List Builder

def empty : Registry := ⟨fun _ => [], []⟩

/-- `for feature in cls.features: builders_for_feature[feature].insert(0, cls)` -/
def addFeatures (b : Builder) : List Nat → (Nat → List Builder) → (Nat → List Builder)
  | [], m => m
  | f :: fs, m => addFeatures b fs (fun g => if g = f then b :: m g else m g)

def register (r : Registry) (b : Builder) : Registry :=
  { byFeature := addFeatures b b.features r.byFeature, builders := b :: r.builders }

def registerAll (bs : List Builder) : Registry := bs.foldl register empty

/-- the `while len(feature_list) > 0` loop of `lookup`: `candidates` = the list of the first offered feature,
    `candidate_set` = running intersection (a list used as a set) -/
def scan (r : Registry) : List Nat → Option (List Builder × List Builder) → Option (List Builder × List Builder)
  | [], acc => acc
  | f :: fs, acc =>
    let have_ := r.byFeature f
    if have_.isEmpty then scan r fs acc
    else match acc with
      | none => scan r fs (some (have_, have_))
      | some (c, s) => scan r fs (some (c, s.filter (fun b => have_.contains b)))

def lookup (r : Registry) (fs : List Nat) : Option Builder :=
  if r.builders.isEmpty then none
  else if fs.isEmpty then r.builders.head?
  else match scan r fs none with
    | none => none
    | some (c, s) => c.find? (fun b => s.contains b)

/-! ### spec: over the plain registration history (most recent first) -/

def offers (b : Builder) (f : Nat) : Bool := b.features.contains f
def offered (bs : List Builder) (f : Nat) : Bool := bs.any (fun b => offers b f)

/-- "the most recently registered builder that advertises every requested feature that any registered
    builder advertises; the most recent registration when nothing is requested; nothing when none of the
    requested features is offered or no builder offers all the offered ones" -/
def lookupSpec (recentFirst : List Builder) (fs : List Nat) : Option Builder :=
  if fs.isEmpty then recentFirst.head?
  else
    let off := fs.filter (offered recentFirst)
    if off.isEmpty then none
    else recentFirst.find? (fun b => off.all (offers b))

/-! ### constructor decision (bs4/__init__.py:356-433) -/

inductive BuilderArg where
  | none
  | cls (id : Nat)
  | inst (id : Nat)
deriving DecidableEq, Repr

inductive FeaturesArg where
  | none
  | str (f : Nat)
  | list (fs : List Nat)
deriving DecidableEq, Repr

structure Decision where
  builder : Nat            -- id of the builder class used
  instantiated : Bool      -- the constructor instantiated the class itself
  kwargsForwarded : Bool   -- the extra keyword arguments were passed to that instantiation
  kwargsIgnoredWarning : Bool
  registryConsulted : Bool
deriving DecidableEq, Repr

inductive Outcome where
  | ok (d : Decision)
  | featureNotFound
deriving DecidableEq, Repr

def normFeatures (dflt : List Nat) : FeaturesArg → List Nat
  | .none => dflt
  | .str f => [f]
  | .list fs => if fs.isEmpty then dflt else fs

def construct (r : Registry) (dflt : List Nat) (b : BuilderArg) (fa : FeaturesArg) (hasKwargs : Bool) : Outcome :=
  match b with
  | .cls id => .ok ⟨id, true, true, false, false⟩
  | .inst id => .ok ⟨id, false, false, hasKwargs, false⟩
  | .none =>
    match lookup r (normFeatures dflt fa) with
    | none => .featureNotFound
    | some c => .ok ⟨c.id, true, true, false, true⟩

end BS.Registry
