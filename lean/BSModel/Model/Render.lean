import BSModel.Base.PStr
/-! C05 — rendering a tree as markup: `Tag.decode` (bs4/element.py `def decode`, non-pretty branch
    `indent_level=None`), `Tag._event_stream`, `Tag._format_tag`, `Tag.is_empty_element`,
    `NavigableString.output_ready`, `PreformattedString.output_ready` and the `PREFIX`/`SUFFIX` of the string
    classes, `Formatter.substitute / attribute_value / attributes` (bs4/formatter.py),
    `EntitySubstitution.quoted_attribute_value / substitute_xml` (bs4/dammit.py).

    Code-mirror: `eventStream` (the explicit tag stack of `_event_stream` over the pre-order element chain with
    parent links; "is not the stack top" is inequality of unique ids) + `piece` (`decode`'s per-event formatting),
    `decodeImpl` = the join of the pieces.  Spec: `renderSpec`, the obvious structural recursion.
    That `self_and_descendants` visits the nodes below an element in pre-order with the recorded parent links is
    C01's invariant; `flatten` is that walk of a plain tree. -/
namespace BS.Render

/-- `NavigableString` and the subclasses defined in bs4/element.py -/
inductive SCls where
  | navigable | preformatted | cdata | pi | xmlpi | comment | declaration | doctype
  | stylesheet | script | template | rubyText | rubyParen
deriving DecidableEq, Repr, Inhabited

/-- an attribute value as `_format_tag` distinguishes them: a `str`, a list/tuple of `str`, or `None` -/
inductive AVal where
  | str (s : PStr)
  | list (l : List PStr)
  | none
deriving DecidableEq, Repr, Inhabited

/-- the fields of a `Tag` rendering reads: `name`, `prefix`, `attrs` (dict order), `can_be_empty_element is True`,
    `hidden` -/
structure TagInfo where
  name : PStr
  pfx : Option PStr
  attrs : List (PStr × AVal)
  cbe : Bool
  hidden : Bool
deriving DecidableEq, Repr, Inhabited

inductive Node where
  | tag (i : TagInfo) (kids : List Node)
  | str (c : SCls) (s : PStr)
deriving Repr, Inhabited

mutual
/-- decidable equality of trees (the deriving handler does not cover the nested `List Node`) -/
def Node.decEq : (a b : Node) → Decidable (a = b)
  | .str c s, .str c' s' =>
    if h : c = c' ∧ s = s' then isTrue (by rw [h.1, h.2]) else isFalse (by intro e; cases e; exact h ⟨rfl, rfl⟩)
  | .tag i ks, .tag i' ks' =>
    if h : i = i' then
      match Node.decEqL ks ks' with
      | isTrue h2 => isTrue (by rw [h, h2])
      | isFalse h2 => isFalse (by intro e; cases e; exact h2 rfl)
    else isFalse (by intro e; cases e; exact h rfl)
  | .str _ _, .tag _ _ => isFalse (by intro e; cases e)
  | .tag _ _, .str _ _ => isFalse (by intro e; cases e)
def Node.decEqL : (a b : List Node) → Decidable (a = b)
  | [], [] => isTrue rfl
  | [], _ :: _ => isFalse (by intro e; cases e)
  | _ :: _, [] => isFalse (by intro e; cases e)
  | a :: as, b :: bs =>
    match Node.decEq a b with
    | isTrue h =>
      match Node.decEqL as bs with
      | isTrue h2 => isTrue (by rw [h, h2])
      | isFalse h2 => isFalse (by intro e; cases e; exact h2 rfl)
    | isFalse h => isFalse (by intro e; cases e; exact h rfl)
end

instance : DecidableEq Node := Node.decEq

/-- per string class: `PREFIX`, `SUFFIX`, and whether `output_ready` is `PreformattedString.output_ready`
    (no substitution) rather than `NavigableString.output_ready` -/
structure ClsInfo where
  pre : PStr
  suf : PStr
  preformatted : Bool
deriving DecidableEq, Repr, Inhabited

/-- a `Formatter` object: `entity_substitution` (`none` = falsy), `void_element_close_prefix or ""`,
    `cdata_containing_tags`, `empty_attributes_are_booleans` -/
structure Fmt where
  subst : Option (PStr → PStr)
  voidPrefix : PStr
  cdataTags : List PStr
  emptyBool : Bool

/-- the data part of a registry entry (the substitution function is named by a code: 0 = None,
    1 = substitute_xml, 2 = substitute_html, 3 = substitute_html5, 9 = anything else) -/
structure FmtSpec where
  substKind : Nat
  voidPrefix : PStr
  cdataTags : List PStr
  emptyBool : Bool
deriving DecidableEq, Repr, Inhabited

/-! ### entity substitution of the 'minimal' formatter and attribute quoting (bs4/dammit.py) -/

/-- `_substitute_xml_entity` on one match of `AMPERSAND_OR_BRACKET = ([<>&])` -/
def esc (c : Nat) : PStr :=
  if c = 38 then [38, 97, 109, 112, 59]        -- &amp;
  else if c = 60 then [38, 108, 116, 59]       -- &lt;
  else if c = 62 then [38, 103, 116, 59]       -- &gt;
  else [c]

/-- `EntitySubstitution.substitute_xml(value)` (make_quoted_attribute=False): `re.sub` over single characters -/
def substXml : PStr → PStr
  | [] => []
  | c :: cs => esc c ++ substXml cs

/-- `value.replace('"', "&quot;")` -/
def replaceDq : PStr → PStr
  | [] => []
  | c :: cs => (if c = 34 then [38, 113, 117, 111, 116, 59] else [c]) ++ replaceDq cs

/-- `EntitySubstitution.quoted_attribute_value` -/
def quoteAttr (v : PStr) : PStr :=
  if v.contains 34 then
    if v.contains 39 then 34 :: (replaceDq v ++ [34])
    else 39 :: (v ++ [39])
  else 34 :: (v ++ [34])

/-! ### `Formatter` (bs4/formatter.py) -/

/-- `Formatter.substitute(ns)`: nothing without a substitution function; a `NavigableString` whose parent's
    `name` is in `cdata_containing_tags` is returned as is; otherwise the function is applied.
    `pname` = `ns.parent.name` (`none` for a plain `str`, as attribute values are, or a parentless string). -/
def substitute (f : Fmt) (pname : Option PStr) (s : PStr) : PStr :=
  match f.subst with
  | none => s
  | some g =>
    match pname with
    | some n => if f.cdataTags.contains n then s else g s
    | none => g s

/-- `str.__lt__`: lexicographic by code point -/
def ltL : PStr → PStr → Bool
  | [], [] => false
  | [], _ :: _ => true
  | _ :: _, [] => false
  | a :: as, b :: bs => if a < b then true else if b < a then false else ltL as bs

def insertAttr (x : PStr × AVal) : List (PStr × AVal) → List (PStr × AVal)
  | [] => [x]
  | y :: ys => if ltL x.1 y.1 then x :: y :: ys else y :: insertAttr x ys

/-- `sorted(...)` of the `(key, value)` pairs; the keys of a dict are distinct, so the order is by key
    (stable insertion sort from the right: equal keys, which a dict cannot hold, would keep their order) -/
def sortAttrs : List (PStr × AVal) → List (PStr × AVal)
  | [] => []
  | x :: xs => insertAttr x (sortAttrs xs)

/-- `Formatter.attributes(tag)`: `""` becomes `None` when `empty_attributes_are_booleans`, then sorted -/
def fmtAttributes (f : Fmt) (attrs : List (PStr × AVal)) : List (PStr × AVal) :=
  sortAttrs (attrs.map fun kv => (kv.1, if f.emptyBool && kv.2 == AVal.str [] then AVal.none else kv.2))

/-- `" ".join(val)` -/
def joinSp : List PStr → PStr
  | [] => []
  | [a] => a
  | a :: b :: rest => a ++ 32 :: joinSp (b :: rest)

/-- the string a non-`None` attribute value is rendered from (`_format_tag`: lists and tuples are joined) -/
def valText : AVal → PStr
  | .str s => s
  | .list l => joinSp l
  | .none => []

/-- one `decoded` entry of `_format_tag`'s attribute loop -/
def attrPiece (f : Fmt) (kv : PStr × AVal) : PStr :=
  match kv.2 with
  | .none => kv.1
  | v => kv.1 ++ 61 :: quoteAttr (substitute f none (valText v))

/-- `" " + " ".join(attrs)` or `""` -/
def attrString (f : Fmt) (attrs : List (PStr × AVal)) : PStr :=
  match (fmtAttributes f attrs).map (attrPiece f) with
  | [] => []
  | ps => 32 :: joinSp ps

/-- `self.prefix + ":"` when the prefix is truthy -/
def prefixStr (i : TagInfo) : PStr :=
  match i.pfx with
  | some p => if p.isEmpty then [] else p ++ [58]
  | none => []

/-- `Tag._format_tag(eventual_encoding, formatter, opening)`; `isEmpty` = `self.is_empty_element`.
    (Charset substitution of `<meta>` attribute values is C08's and not modelled: no such value occurs.) -/
def formatTag (f : Fmt) (i : TagInfo) (isEmpty : Bool) (opening : Bool) : PStr :=
  if i.hidden then []
  else
    60 :: ((if opening then [] else [47]) ++ prefixStr i ++ i.name ++ (if opening then attrString f i.attrs else [])
      ++ (if isEmpty then f.voidPrefix else []) ++ [62])

/-- `output_ready(formatter)` of a string of class `c` whose parent has name `pname` -/
def outputReady (ci : SCls → ClsInfo) (f : Fmt) (pname : Option PStr) (c : SCls) (s : PStr) : PStr :=
  let k := ci c
  if k.preformatted then k.pre ++ s ++ k.suf
  else k.pre ++ substitute f pname s ++ k.suf

/-! ### the element chain: a pre-order list of items with unique ids and parent links -/

inductive Payload where
  | tag (i : TagInfo) (nkids : Nat)
  | str (c : SCls) (s : PStr) (pname : Option PStr)
deriving Repr, Inhabited

/-- one `PageElement` of the walk: identity, `.parent`'s identity, and what rendering reads from it
    (`nkids` = `len(self.contents)`, `pname` = `self.parent.name`) -/
structure Item where
  id : Nat
  parent : Option Nat
  pl : Payload
deriving Repr, Inhabited

mutual
/-- `self_and_descendants` of the node, ids = pre-order positions starting at `k` -/
def flatten (par : Option Nat) (pname : Option PStr) (k : Nat) : Node → List Item
  | .tag i kids => ⟨k, par, .tag i kids.length⟩ :: flattenL (some k) (some i.name) (k + 1) kids
  | .str c s => [⟨k, par, .str c s pname⟩]
def flattenL (par : Option Nat) (pname : Option PStr) (k : Nat) : List Node → List Item
  | [] => []
  | n :: ns =>
    let l := flatten par pname k n
    l ++ flattenL par pname (k + l.length) ns
end

/-- `Tag.is_empty_element`: `len(self.contents) == 0 and self.can_be_empty_element is True` -/
def Payload.isEmptyElement : Payload → Bool
  | .tag i nk => nk == 0 && i.cbe
  | .str _ _ _ => false

/-- the four `_TreeTraversalEvent`s -/
inductive Ev where
  | start | stop | empty | string
deriving DecidableEq, Repr, Inhabited

/-- `while tag_stack and c.parent != tag_stack[-1]: yield END, tag_stack.pop()` (stack top first) -/
def popWhile (par : Option Nat) : List Item → List (Ev × Item) → List Item × List (Ev × Item)
  | [], acc => ([], acc)
  | top :: rest, acc =>
    if par ≠ some top.id then popWhile par rest (acc ++ [(Ev.stop, top)])
    else (top :: rest, acc)

/-- the body of `for c in iterator:` in `_event_stream` -/
def evStep (st : List Item × List (Ev × Item)) (c : Item) : List Item × List (Ev × Item) :=
  let r := popWhile c.parent st.1 st.2
  match c.pl with
  | .tag _ _ =>
    if c.pl.isEmptyElement then (r.1, r.2 ++ [(Ev.empty, c)])
    else (c :: r.1, r.2 ++ [(Ev.start, c)])
  | .str _ _ _ => (r.1, r.2 ++ [(Ev.string, c)])

/-- the events still owed for the open tags: `while tag_stack: yield END, tag_stack.pop()` -/
def closes (stk : List Item) : List (Ev × Item) := stk.map fun t => (Ev.stop, t)

/-- `Tag._event_stream(iterator)` -/
def eventStream (items : List Item) : List (Ev × Item) :=
  let r := items.foldl evStep ([], [])
  r.2 ++ closes r.1

/-- the `piece` `decode` computes for one event (indent_level=None: no indentation is applied) -/
def piece (ci : SCls → ClsInfo) (f : Fmt) (e : Ev × Item) : PStr :=
  match e.2.pl with
  | .tag i _ =>
    match e.1 with
    | .stop => formatTag f i e.2.pl.isEmptyElement false
    | _ => formatTag f i e.2.pl.isEmptyElement true
  | .str c s pname => outputReady ci f pname c s

def pieces (ci : SCls → ClsInfo) (f : Fmt) (evs : List (Ev × Item)) : PStr := evs.flatMap (piece ci f)

/-- `Tag.decode(indent_level=None, formatter=f, iterator=items)`: `"".join(pieces)` -/
def decodeImpl (ci : SCls → ClsInfo) (f : Fmt) (items : List Item) : PStr := pieces ci f (eventStream items)

/-- `el.decode(formatter=f)` -/
def decodeNode (ci : SCls → ClsInfo) (f : Fmt) (n : Node) : PStr := decodeImpl ci f (flatten none none 0 n)

/-- `el.decode_contents(formatter=f)`: the same loop over `self.descendants` -/
def decodeContents (ci : SCls → ClsInfo) (f : Fmt) (n : Node) : PStr :=
  decodeImpl ci f (flatten none none 0 n).tail

/-! ### spec: the structural recursion -/

mutual
def renderSpec (ci : SCls → ClsInfo) (f : Fmt) (pname : Option PStr) : Node → PStr
  | .tag i kids =>
    if kids.isEmpty && i.cbe then formatTag f i true true
    else formatTag f i false true ++ renderL ci f (some i.name) kids ++ formatTag f i false false
  | .str c s => outputReady ci f pname c s
def renderL (ci : SCls → ClsInfo) (f : Fmt) (pname : Option PStr) : List Node → PStr
  | [] => []
  | n :: ns => renderSpec ci f pname n ++ renderL ci f pname ns
end

/-! ### which formatter `decode` uses: `PageElement.formatter_for_name`, `PageElement._is_xml` (bs4/element.py) -/

/-- `PageElement._is_xml` (a loop up the parent chain): `known_xml` of the element if it is not `None`, else the parent's answer; at an element
    without parent `getattr(self, "is_xml", False)` (`rootAttr`). `chain` = the `known_xml` values from the element up
    to the root of its tree. -/
def isXmlImpl (rootAttr : Bool) : List (Option Bool) → Bool
  | [] => rootAttr
  | some b :: _ => b
  | none :: rest => isXmlImpl rootAttr rest

/-- spec: the first `known_xml` on the way up that is not `None`, else the root's `is_xml` attribute -/
def isXmlSpec (rootAttr : Bool) (chain : List (Option Bool)) : Bool :=
  match chain.find? Option.isSome with
  | some (some b) => b
  | _ => rootAttr

/-- the `formatter` argument of `decode`/`encode`/`decode_contents`: a `Formatter` object, a callable (used as the
    entity substitution function of a new formatter), or a registry key (a name or `None`) -/
inductive FmtArg where
  | obj (f : Fmt)
  | fn (g : PStr → PStr)
  | name (n : Option PStr)

/-- `Fmt` or the `KeyError` of `registry[formatter_name]` -/
inductive FmtRes where
  | ok (f : Fmt)
  | keyError

/-- the environment of the lookup: both registries and the constructor defaults of `HTMLFormatter(entity_substitution=fn)`
    / `XMLFormatter(entity_substitution=fn)`, indexed by `_is_xml`; `fnOf` turns a registry entry's function code
    into the function -/
structure FmtEnv where
  registry : Bool → List (Option PStr × FmtSpec)
  ctorDefaults : Bool → FmtSpec
  fnOf : Nat → Option (PStr → PStr)

def FmtEnv.mk' (e : FmtEnv) (s : FmtSpec) : Fmt := ⟨e.fnOf s.substKind, s.voidPrefix, s.cdataTags, s.emptyBool⟩

def lookupReg (reg : List (Option PStr × FmtSpec)) (k : Option PStr) : Option FmtSpec :=
  match reg with
  | [] => none
  | (a, b) :: rest => if a = k then some b else lookupReg rest k

/-- `PageElement.formatter_for_name(formatter_name)` on an element with `_is_xml = isXml` -/
def formatterForName (e : FmtEnv) (isXml : Bool) : FmtArg → FmtRes
  | .obj f => .ok f                                            -- isinstance(formatter_name, Formatter)
  | .fn g =>                                                   -- callable: c(entity_substitution=formatter_name)
    let d := e.ctorDefaults isXml
    .ok ⟨some g, d.voidPrefix, d.cdataTags, d.emptyBool⟩
  | .name n =>                                                 -- registry[formatter_name]
    match lookupReg (e.registry isXml) n with
    | some s => .ok (e.mk' s)
    | none => .keyError

/-- `decode(formatter=arg)` with its formatter resolution; `none` = `KeyError` -/
def decodeTop (ci : SCls → ClsInfo) (e : FmtEnv) (rootAttr : Bool) (chain : List (Option Bool)) (arg : FmtArg)
    (n : Node) : Option PStr :=
  match formatterForName e (isXmlImpl rootAttr chain) arg with
  | .ok f => some (decodeNode ci f n)
  | .keyError => none

/-! ### `output_ready` called on a string directly (bs4/element.py `NavigableString.output_ready`,
    `PreformattedString.output_ready`, `PageElement.format_string`) -/

/-- `s.output_ready(formatter)`; `arg = none` is `formatter=None`. `chain`/`rootAttr` decide the string's own `_is_xml`
    (a string has `known_xml = None`, so its parents decide). `none` = the `KeyError` of an unknown registry key.
    * `format_string`: `None` → the string unchanged; anything that is not a `Formatter` → `formatter_for_name`;
      then `formatter.substitute(s)`.
    * a preformatted class calls `format_string` only for its side effects (the lookup can still raise) and returns
      `PREFIX + self + SUFFIX`. -/
def strOutputReady (ci : SCls → ClsInfo) (e : FmtEnv) (rootAttr : Bool) (chain : List (Option Bool))
    (arg : Option FmtArg) (pname : Option PStr) (c : SCls) (s : PStr) : Option PStr :=
  let k := ci c
  match arg with
  | none => some (k.pre ++ s ++ k.suf)
  | some a =>
    match formatterForName e (isXmlImpl rootAttr chain) a with
    | .keyError => none
    | .ok f => some (if k.preformatted then k.pre ++ s ++ k.suf else k.pre ++ substitute f pname s ++ k.suf)

/-! ### `Doctype.for_name_and_ids` / `_string_for_name_and_ids` (bs4/element.py) -/

/-- `value = name or ""`; `' PUBLIC "%s"' % pub_id` (+ `' "%s"' % system_id`) or `' SYSTEM "%s"' % system_id` -/
def doctypeString (name pub sys : Option PStr) : PStr :=
  let v := name.getD []
  match pub with
  | some pb =>
    let v := v ++ [32, 80, 85, 66, 76, 73, 67, 32, 34] ++ pb ++ [34]
    match sys with
    | some sy => v ++ [32, 34] ++ sy ++ [34]
    | none => v
  | none =>
    match sys with
    | some sy => v ++ [32, 83, 89, 83, 84, 69, 77, 32, 34] ++ sy ++ [34]
    | none => v

/-! ### spec of the event stream: the structural recursion over the tree -/

mutual
/-- the events of one node: `EMPTY` for a childless tag that can be empty, else `START`, the children's events, `END`;
    `STRING` for a string. Items as `flatten` numbers them. -/
def specEvents (par : Option Nat) (pname : Option PStr) (k : Nat) : Node → List (Ev × Item)
  | .tag i kids =>
    if kids.isEmpty && i.cbe then [(Ev.empty, ⟨k, par, .tag i kids.length⟩)]
    else (Ev.start, ⟨k, par, .tag i kids.length⟩) ::
      (specEventsL (some k) (some i.name) (k + 1) kids ++ [(Ev.stop, ⟨k, par, .tag i kids.length⟩)])
  | .str c s => [(Ev.string, ⟨k, par, .str c s pname⟩)]
def specEventsL (par : Option Nat) (pname : Option PStr) (k : Nat) : List Node → List (Ev × Item)
  | [] => []
  | n :: ns => specEvents par pname k n ++ specEventsL par pname (k + (flatten par pname k n).length) ns
end

/-- the children of a node (`[]` for a string) -/
def Node.kids : Node → List Node
  | .tag _ ks => ks
  | .str _ _ => []

/-- `self.name` of a tag node -/
def Node.pname : Node → Option PStr
  | .tag i _ => some i.name
  | .str _ _ => none

end BS.Render
