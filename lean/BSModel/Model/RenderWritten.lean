import BSModel.Model.Reparse
import BSModel.Model.WriterText
/-! C05 ↔ C04 bridge: the tree a renderer is given, as the document a writer has in mind (`toWDocL`), and the decidable
    class `renderWritableL` of trees on which the text the 'minimal' formatter writes is literally a text C04's writer
    writes (`Proofs/RenderWritten.lean`). Imports C04's `Model/WriterText.lean` unchanged. -/
namespace BS.Render
open BS.Writer BS.WriterText

/-- a string node as the writer's document: text classes are character data; `<?s?>` strings (XML processing
    instruction, Declaration) are the processing instruction `s?`; a doctype is followed by the newline of its SUFFIX -/
def toWDocStr (c : SCls) (s : PStr) : List WDoc :=
  match c with
  | .comment => [.special .comment s]
  | .cdata => [.special .cdata s]
  | .pi => [.special .pi s]
  | .xmlpi => [.special .pi (s ++ [63])]
  | .declaration => [.special .pi (s ++ [63])]
  | .doctype => [.special .doctype s, .text [10]]
  | _ => [.text s]

mutual
/-- element: the name a re-parse reads, the attributes in written order with the written text of their values -/
def toWDoc (f : Fmt) : Node → List WDoc
  | .tag i ks => [.elem (fullName i) (evAttrs f i.attrs) (toWDocL f ks)]
  | .str c s => toWDocStr c s
def toWDocL (f : Fmt) : List Node → List WDoc
  | [] => []
  | n :: ns => toWDoc f n ++ toWDocL f ns
end

/-- an attribute value the renderer writes exactly as the writer does (`"…"` with `&amp;` and `&quot;`): no `<`, no `>`
    (the renderer writes `&lt;`/`&gt;`, the writer has no such spelling inside values), and not "a `"` but no `'`"
    (the renderer then switches to single quotes, which the writer never uses) -/
def okAttrVal (x : PStr) : Bool := !x.contains 60 && !x.contains 62 && (!x.contains 34 || x.contains 39)

mutual
/-- **`RenderWritable`** (besides C04's `Writable`/`Representable` on `toWDocL`): where the renderer's freedoms and the
    writer's coincide — no hidden element; an element with a void name is written `<br/>` (`can_be_empty_element`
    true, no children); any other element is not written `<x/>` (not both childless and `can_be_empty_element`);
    the element's own name is not cdata-containing for the formatter (its text is substituted); attribute values per
    `okAttrVal`; no bare `PreformattedString` -/
def renderWritable (iv : PStr → Bool) (f : Fmt) : Node → Bool
  | .str c _ => c != .preformatted
  | .tag i ks =>
    !i.hidden && !f.cdataTags.contains i.name
    && i.attrs.all (fun kv => match kv.2 with | .none => true | v => okAttrVal (valText v))
    && (if iv (fullName i) then i.cbe && ks.isEmpty else !(ks.isEmpty && i.cbe) && renderWritableL iv f ks)
def renderWritableL (iv : PStr → Bool) (f : Fmt) : List Node → Bool
  | [] => true
  | n :: ns => renderWritable iv f n && renderWritableL iv f ns
end

end BS.Render
