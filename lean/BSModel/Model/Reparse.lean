import BSModel.Model.Render
/-! C05 — feeding rendered markup back to `BeautifulSoup(..., "html.parser")`, at the event level.

    CPython's tokenizer (`html.parser.HTMLParser`, `_markupbase`) is *not* modelled. `emitR` is the stream of
    tokenizer events the rendered text of a tree gives rise to (validated per case by the harness, which records
    the real event stream of the real rendered text); entity references are already resolved in it (that
    `read (subst s) = s` for text and attribute values under the 'minimal' and 'html' formatters is C09's theorem).

    What *is* modelled, statement by statement, is bs4's side of the re-parse:
    `BeautifulSoupHTMLParser.handle_startendtag / handle_starttag / handle_endtag` with the
    `already_closed_empty_element` list, `handle_comment / handle_decl / unknown_decl / handle_pi`
    (bs4/builder/_htmlparser.py), and `BeautifulSoup.handle_starttag / handle_endtag / handle_data / endData /
    string_container / pushTag / popTag / _popToTag` (bs4/__init__.py), `TreeBuilder.
    _replace_cdata_list_attribute_values / can_be_empty_element` (bs4/builder/__init__.py).

    `normalise` is *defined* as what that machine absorbs for a forest (adjacent text merges, the whitespace rule
    of `endData`, container classes of strings, the newline after a doctype, attribute normalisation). -/
namespace BS.Render

/-- the configuration of the re-parsing builder (generated from the live `HTMLParserTreeBuilder`) -/
structure PCfg where
  voidAll : Bool                          -- `empty_element_tags is None`: every tag can be an empty-element tag
  voidTags : List PStr                    -- `empty_element_tags` (when it is a set)
  preserveWs : List PStr                  -- `preserve_whitespace_tags`
  containers : List (PStr × SCls)         -- `string_containers`
  cdataList : List (PStr × List PStr)     -- `cdata_list_attributes` ("*" = [42] and tag names)
  asciiSpaces : PStr                      -- `BeautifulSoup.ASCII_SPACES`
  reSpace : List Nat                      -- code points `\s` matches (complement of `\S` in `nonwhitespace_re`)
  cdataElems : List PStr                  -- `HTMLParser.CDATA_CONTENT_ELEMENTS`
  startendChecks : Bool                   -- `handle_startendtag` passes `check_already_closed=True` (4.13.0 does)
deriving Repr

/-- `TreeBuilder.can_be_empty_element(name)`: `True` when `empty_element_tags is None`, else membership -/
def PCfg.isVoid (p : PCfg) (nm : PStr) : Bool := p.voidAll || p.voidTags.contains nm

/-- tokenizer events, string events already routed through bs4's handlers -/
inductive TEv where
  | start (name : PStr) (attrs : List (PStr × Option PStr))      -- `handle_starttag`
  | startend (name : PStr) (attrs : List (PStr × Option PStr))   -- `handle_startendtag` (`<x/>`)
  | stop (name : PStr)                                           -- `handle_endtag`
  | data (s : PStr)                                              -- `handle_data` (+ resolved references)
  | special (c : SCls) (s : PStr)   -- `endData(); handle_data(s); endData(c)` of comment/decl/unknown_decl/pi
deriving Repr, Inhabited

/-! ### the rendered text as events -/

/-- `prefix:name`, the name the tokenizer reads back -/
def fullName (i : TagInfo) : PStr := prefixStr i ++ i.name

/-- the attributes of a start tag as the tokenizer delivers them: in rendered (sorted) order; a bare key has the
    value `None`; list values arrive joined -/
def evAttrs (f : Fmt) (attrs : List (PStr × AVal)) : List (PStr × Option PStr) :=
  (fmtAttributes f attrs).map fun kv => (kv.1, match kv.2 with | .none => none | v => some (valText v))

/-- how a string node comes back: as character data, or as a special string (class, content, and whether
    character data `"\n"` follows: `Doctype.SUFFIX = ">\n"`) -/
inductive SK where
  | text (s : PStr)
  | special (c : SCls) (s : PStr) (nl : Bool)
deriving Repr

/-- `<!--s-->` → comment; `<![CDATA[s]]>` → unknown_decl → CData; `<?s>` → pi;
    `<?s?>` (XMLProcessingInstruction *and* Declaration) → pi with text `s?`; `<!DOCTYPE s>\n` → decl + data -/
def strKind : SCls → PStr → SK
  | .comment, s => .special .comment s false
  | .cdata, s => .special .cdata s false
  | .pi, s => .special .pi s false
  | .xmlpi, s => .special .pi (s ++ [63]) false
  | .declaration, s => .special .pi (s ++ [63]) false
  | .doctype, s => .special .doctype s true
  | _, s => .text s

/-- the markup `strKind`/`emitStr` presuppose for each string class (`PREFIX`, `SUFFIX`, written without substitution?):
    text classes are bare substituted character data; the generated class table is checked against this in
    Props/C05.lean (`class_table_live`) -/
def assumedMarkup : SCls → ClsInfo
  | .comment => ⟨[60, 33, 45, 45], [45, 45, 62], true⟩                                   -- <!-- -->
  | .cdata => ⟨[60, 33, 91, 67, 68, 65, 84, 65, 91], [93, 93, 62], true⟩                 -- <![CDATA[ ]]>
  | .pi => ⟨[60, 63], [62], true⟩                                                        -- <? >
  | .xmlpi => ⟨[60, 63], [63, 62], true⟩                                                 -- <? ?>
  | .declaration => ⟨[60, 63], [63, 62], true⟩                                           -- <? ?>
  | .doctype => ⟨[60, 33, 68, 79, 67, 84, 89, 80, 69, 32], [62, 10], true⟩               -- <!DOCTYPE  >\n
  | .preformatted => ⟨[], [], true⟩
  | _ => ⟨[], [], false⟩

def emitStr (c : SCls) (s : PStr) : List TEv :=
  match strKind c s with
  | .text s => if s.isEmpty then [] else [.data s]
  | .special c s nl => .special c s :: (if nl then [.data [10]] else [])

mutual
/-- events of the rendered text of a node (formatters whose void prefix is "/": `<x/>` is a startend event) -/
def emitR (f : Fmt) : Node → List TEv
  | .tag i kids =>
    if kids.isEmpty && i.cbe then [.startend (fullName i) (evAttrs f i.attrs)]
    else .start (fullName i) (evAttrs f i.attrs) :: (emitRL f kids ++ [.stop (fullName i)])
  | .str c s => emitStr c s
def emitRL (f : Fmt) : List Node → List TEv
  | [] => []
  | n :: ns => emitR f n ++ emitRL f ns
end

/-! ### the rendered text as events, through a reader of character data and attribute values

    `emitR` above carries the original strings. `emitRd` carries what a reader makes of the *written* strings:
    `rd.text` = the tokenizer's treatment of tag-free character data with bs4's `handle_entityref`/`handle_charref`,
    `rd.attr` = quote stripping + `html.unescape` of a written attribute value (both modelled and proved reversible
    in C09 for `substitute_xml` and `substitute_html`); inside script/style (`CDATA_CONTENT_ELEMENTS`) the tokenizer
    hands the text over as it stands. -/

structure Reader where
  text : PStr → PStr
  attr : PStr → Option PStr

def evAttrsRd (rd : Reader) (f : Fmt) (attrs : List (PStr × AVal)) : List (PStr × Option PStr) :=
  (fmtAttributes f attrs).map fun kv =>
    (kv.1, match kv.2 with
           | .none => none
           | v => some ((rd.attr (quoteAttr (substitute f none (valText v)))).getD []))

/-- character data as `output_ready` writes it under a parent named `pname`, and as it is read back (`raw` = the
    reader is inside a CDATA-content element) -/
def readData (rd : Reader) (f : Fmt) (pname : Option PStr) (raw : Bool) (c : SCls) (s : PStr) : PStr :=
  let w := if c = .preformatted then s else substitute f pname s
  if raw then w else rd.text w

def emitStrRd (rd : Reader) (f : Fmt) (pname : Option PStr) (raw : Bool) (c : SCls) (s : PStr) : List TEv :=
  match strKind c s with
  | .text s => if (readData rd f pname raw c s).isEmpty then [] else [.data (readData rd f pname raw c s)]
  | .special c s nl => .special c s :: (if nl then [.data [10]] else [])

mutual
def emitRd (p : PCfg) (rd : Reader) (f : Fmt) (pname : Option PStr) (raw : Bool) : Node → List TEv
  | .tag i kids =>
    if kids.isEmpty && i.cbe then [.startend (fullName i) (evAttrsRd rd f i.attrs)]
    else .start (fullName i) (evAttrsRd rd f i.attrs) ::
      (emitRdL p rd f (some i.name) (p.cdataElems.contains (fullName i)) kids ++ [.stop (fullName i)])
  | .str c s => emitStrRd rd f pname raw c s
def emitRdL (p : PCfg) (rd : Reader) (f : Fmt) (pname : Option PStr) (raw : Bool) : List Node → List TEv
  | [] => []
  | n :: ns => emitRd p rd f pname raw n ++ emitRdL p rd f pname raw ns
end

/-! ### bs4's side of the parse -/

/-- an open `Tag` of `tagStack` with the children it has so far -/
structure Frame where
  name : PStr
  attrs : List (PStr × AVal)
  kids : List Node
deriving Repr, Inhabited

/-- `tagStack` (top first, the `[document]` frame last), `current_data`, `already_closed_empty_element` -/
structure BState where
  stack : List Frame
  buf : List PStr
  closed : List PStr
deriving Repr, Inhabited

/-- what `endData`/`string_container` read from the two auxiliary stacks: is a preserve-whitespace tag open,
    and the container class of the innermost open string-container tag -/
structure Ctx where
  pres : Bool
  cont : Option SCls
deriving DecidableEq, Repr, Inhabited

def lookupL {β} (l : List (PStr × β)) (k : PStr) : Option β :=
  match l with
  | [] => none
  | (a, b) :: rest => if a = k then some b else lookupL rest k

/-- `pushTag`'s bookkeeping of `preserve_whitespace_tag_stack` and `string_container_stack` -/
def pushCtx (p : PCfg) (c : Ctx) (nm : PStr) : Ctx :=
  ⟨c.pres || p.preserveWs.contains nm,
   match lookupL p.containers nm with
   | some k => some k
   | none => c.cont⟩

/-- the two auxiliary stacks are functions of `tagStack` (push and pop keep them in step) -/
def ctxOf (p : PCfg) : List Frame → Ctx
  | [] => ⟨false, none⟩
  | f :: rest => pushCtx p (ctxOf p rest) f.name

/-- `endData`: a string of ASCII spaces only (the empty one included) becomes `"\n"` or `" "` unless a
    preserve-whitespace tag is open -/
def wsRule (p : PCfg) (pres : Bool) (s : PStr) : PStr :=
  if !pres && s.all (fun c => p.asciiSpaces.contains c) then (if s.contains 10 then [10] else [32]) else s

/-- `"".join(chunks)` -/
def concatL : List PStr → PStr
  | [] => []
  | a :: as => a ++ concatL as

/-- the string object `endData(None)` makes of pending character data (none when `current_data` is empty) -/
def txt (p : PCfg) (ctx : Ctx) (b : List PStr) : List Node :=
  match b with
  | [] => []
  | _ :: _ => [Node.str (ctx.cont.getD .navigable) (wsRule p ctx.pres (concatL b))]

def addKids (ks : List Node) : List Frame → List Frame
  | [] => []
  | top :: rest => { top with kids := top.kids ++ ks } :: rest

/-- `BeautifulSoup.endData(containerClass=None)` -/
def flush (p : PCfg) (st : BState) : BState :=
  { st with stack := addKids (txt p (ctxOf p st.stack) st.buf) st.stack, buf := [] }

/-- `attr_dict[key] = value`: replaces in place or appends -/
def dictSet (d : List (PStr × PStr)) (k v : PStr) : List (PStr × PStr) :=
  match d with
  | [] => [(k, v)]
  | (a, b) :: rest => if a = k then (a, v) :: rest else (a, b) :: dictSet rest k v

/-- the attribute loop of `BeautifulSoupHTMLParser.handle_starttag` (`None` → `""`; a repeated key replaces:
    `on_duplicate_attribute=None`) -/
def adaptAttrs (attrs : List (PStr × Option PStr)) : List (PStr × PStr) :=
  attrs.foldl (fun d kv => dictSet d kv.1 (kv.2.getD [])) []

/-- `nonwhitespace_re.findall(value)` (`\S+`), `cur` = the run being collected (reversed) -/
def splitWsAux (sp : List Nat) : PStr → PStr → List PStr
  | [], cur => if cur.isEmpty then [] else [cur.reverse]
  | c :: cs, cur =>
    if sp.contains c then (if cur.isEmpty then splitWsAux sp cs [] else cur.reverse :: splitWsAux sp cs [])
    else splitWsAux sp cs (c :: cur)

def splitWs (p : PCfg) (s : PStr) : List PStr := splitWsAux p.reSpace s []

/-- `attr in universal or (tag_specific and attr in tag_specific)` -/
def isCdataListAttr (p : PCfg) (tag attr : PStr) : Bool :=
  ((lookupL p.cdataList [42]).getD []).contains attr || ((lookupL p.cdataList tag).getD []).contains attr

/-- the `attrs` of the new `Tag`: `_replace_cdata_list_attribute_values(name, attr_dict)` -/
def buildAttrs (p : PCfg) (nm : PStr) (attrs : List (PStr × Option PStr)) : List (PStr × AVal) :=
  (adaptAttrs attrs).map fun kv => (kv.1, if isCdataListAttr p nm kv.1 then AVal.list (splitWs p kv.2) else AVal.str kv.2)

/-- a closed frame as a tree node: no prefix (html.parser passes none), `can_be_empty_element` from the builder -/
def closeFrame (p : PCfg) (fr : Frame) : Node :=
  .tag ⟨fr.name, none, fr.attrs, p.isVoid fr.name, false⟩ fr.kids

/-- `_popToTag(name)`: pop up to and including the most recent open tag of that name; the `[document]` frame is
    never popped; `none` = no open tag has the name (`open_tag_counter`), nothing happens.
    `carry` = the element just popped, to be appended to the frame below. -/
def popToAux (p : PCfg) (name : PStr) (carry : List Node) : List Frame → Option (List Frame)
  | [] => none
  | [_] => none
  | top :: below :: rest =>
    let top' : Frame := { top with kids := top.kids ++ carry }
    if top.name = name then some (addKids [closeFrame p top'] (below :: rest))
    else popToAux p name [closeFrame p top'] (below :: rest)

def popTo (p : PCfg) (name : PStr) (stk : List Frame) : Option (List Frame) := popToAux p name [] stk

/-- `BeautifulSoup.handle_endtag(name)`: `endData(); _popToTag(name)` -/
def soupEnd (p : PCfg) (name : PStr) (st : BState) : BState :=
  let st := flush p st
  match popTo p name st.stack with
  | some s => { st with stack := s }
  | none => st

/-- `BeautifulSoup.handle_starttag`: `endData()`, new `Tag`, `pushTag` -/
def soupStart (p : PCfg) (name : PStr) (attrs : List (PStr × Option PStr)) (st : BState) : BState :=
  let st := flush p st
  { st with stack := ⟨name, buildAttrs p name attrs, []⟩ :: st.stack }

/-- `BeautifulSoupHTMLParser.handle_endtag(name, check_already_closed)` -/
def adapterEnd (p : PCfg) (name : PStr) (check : Bool) (st : BState) : BState :=
  if check && st.closed.contains name then { st with closed := st.closed.erase name }
  else soupEnd p name st

def step (p : PCfg) (st : BState) : TEv → BState
  | .start name attrs =>
    -- handle_starttag(name, attrs, handle_empty_element=True)
    let st := soupStart p name attrs st
    if p.isVoid name then
      -- `tag.is_empty_element`: the new tag has no contents and `builder.can_be_empty_element(name)`
      let st := adapterEnd p name false st
      { st with closed := st.closed ++ [name] }
    else st
  | .startend name attrs =>
    -- handle_starttag(name, attrs, handle_empty_element=False); handle_endtag(name)
    adapterEnd p name p.startendChecks (soupStart p name attrs st)
  | .stop name => adapterEnd p name true st
  | .data s => { st with buf := st.buf ++ [s] }
  | .special c s =>
    let st := flush p st
    -- handle_data(s); endData(c): `current_data` is the non-empty list [s]
    { st with stack := addKids [Node.str c (wsRule p (ctxOf p st.stack).pres s)] st.stack }

def run (p : PCfg) (st : BState) (evs : List TEv) : BState := evs.foldl (step p) st

/-- closing whatever is still open at the end of the document (`_feed`: `endData()`, then `popTag` down to the root) -/
def closeAllAux (p : PCfg) (carry : List Node) : List Frame → List Node
  | [] => []
  | [root] => root.kids ++ carry
  | top :: below :: rest => closeAllAux p [closeFrame p { top with kids := top.kids ++ carry }] (below :: rest)

def closeAll (p : PCfg) (stk : List Frame) : List Node := closeAllAux p [] stk

/-- the `BeautifulSoup` object itself: `ROOT_TAG_NAME = "[document]"` -/
def rootFrame : Frame := ⟨[91, 100, 111, 99, 117, 109, 101, 110, 116, 93], [], []⟩

/-- the children of the `BeautifulSoup` object after feeding the events -/
def build (p : PCfg) (evs : List TEv) : List Node :=
  closeAll p (flush p (run p ⟨[rootFrame], [], []⟩ evs)).stack

/-! ### the normal form: what the machine absorbs -/

/-- the attributes after a re-parse -/
def normAttrs (p : PCfg) (f : Fmt) (nm : PStr) (attrs : List (PStr × AVal)) : List (PStr × AVal) :=
  buildAttrs p nm (evAttrs f attrs)

mutual
/-- the nodes appended to the current frame for a forest, threading the pending character data -/
def absorb (p : PCfg) (f : Fmt) (ctx : Ctx) : List PStr → List Node → List Node × List PStr
  | b, [] => ([], b)
  | b, d :: ds =>
    let r := absorb1 p f ctx b d
    let r2 := absorb p f ctx r.2 ds
    (r.1 ++ r2.1, r2.2)
def absorb1 (p : PCfg) (f : Fmt) (ctx : Ctx) : List PStr → Node → List Node × List PStr
  | b, .str c s =>
    match strKind c s with
    | .text s => ([], if s.isEmpty then b else b ++ [s])
    | .special c s nl => (txt p ctx b ++ [Node.str c (wsRule p ctx.pres s)], if nl then [[10]] else [])
  | b, .tag i ks =>
    let nm := fullName i
    let ctx' := pushCtx p ctx nm
    let r := absorb p f ctx' [] ks
    (txt p ctx b ++ [Node.tag ⟨nm, none, normAttrs p f nm i.attrs, p.isVoid nm, false⟩
      (r.1 ++ txt p ctx' r.2)], [])
end

/-- the forest a re-parse of the rendering of `ds` yields (children of the new `BeautifulSoup` object) -/
def normaliseL (p : PCfg) (f : Fmt) (ds : List Node) : List Node :=
  let r := absorb p f (ctxOf p [rootFrame]) [] ds
  r.1 ++ txt p (ctxOf p [rootFrame]) r.2

/-! ### which trees the tokenizer reads back as `emitR` says: `Representable` -/

def isLower (c : Nat) : Bool := 97 ≤ c && c ≤ 122
def isDigit (c : Nat) : Bool := 48 ≤ c && c ≤ 57
/-- `[-.a-z0-9:_]`, the name characters of `endtagfind` that `str.lower()` leaves alone -/
def isNameRest (c : Nat) : Bool := isLower c || isDigit c || c = 45 || c = 46 || c = 58 || c = 95

/-- `[a-z][-.a-z0-9:_]*` -/
def okTagName : PStr → Bool
  | [] => false
  | c :: cs => isLower c && cs.all isNameRest

/-- `[a-z_:][-.a-z0-9:_]*` -/
def okAttrName : PStr → Bool
  | [] => false
  | c :: cs => (isLower c || c = 95 || c = 58) && cs.all isNameRest

/-- does `pat` occur in `s` -/
def hasSub (pat : PStr) : PStr → Bool
  | [] => pat.isEmpty
  | c :: cs => pat.isPrefixOf (c :: cs) || hasSub pat cs

def keysNodup : List PStr → Bool
  | [] => true
  | k :: ks => !ks.contains k && keysNodup ks

/-- is this class rendered as character data that is entity-substituted (and read back through the reader) -/
def isTextCls : SCls → Bool
  | .navigable | .stylesheet | .script | .template | .rubyText | .rubyParen => true
  | _ => false

/-- a string node outside script/style -/
def okStr (c : SCls) (s : PStr) : Bool :=
  match c with
  | .preformatted => false                                  -- emitted raw without markup of its own
  | .comment => !hasSub [45, 45] s && s.getLast? != some 45 && s.head? != some 62
                  && !(([45, 62] : PStr).isPrefixOf s)      -- no `--`, no trailing `-`, not `>…`/`->…`
  | .cdata => !s.contains 93 && !s.contains 62              -- no `]`, no `>`
  | .pi | .xmlpi | .declaration | .doctype => !s.contains 62
  | _ => !s.isEmpty                                         -- text: non-empty

/-- a child of script/style: a non-empty string of a text class -/
def isTextNode : Node → Bool
  | .str c s => isTextCls c && !s.isEmpty
  | .tag _ _ => false

/-- what is written between `<script>` and `</script>` -/
def rawText : List Node → PStr
  | [] => []
  | .str _ s :: ns => s ++ rawText ns
  | .tag _ _ :: ns => rawText ns

/-- the content of an element the re-parser reads raw (script/style): text only, and no `</` in what is written -/
def rawKidsOK (kids : List Node) : Bool := kids.all isTextNode && !hasSub [60, 47] (rawText kids)

mutual
/-- explicit, decidable: the trees whose rendering the tokenizer reads back as `emitR` -/
def representable (p : PCfg) (f : Fmt) : Node → Bool
  | .str c s => okStr c s
  | .tag i kids =>
    !i.hidden
    && okTagName (fullName i)
    && (!p.isVoid (fullName i) || kids.isEmpty)                    -- a void element has no children
    && (f.cdataTags.contains i.name == p.cdataElems.contains (fullName i))    -- writer and reader agree on raw content
    && keysNodup (i.attrs.map (·.1)) && i.attrs.all (fun kv => okAttrName kv.1)
    && (if p.cdataElems.contains (fullName i) then rawKidsOK kids else representableL p f kids)
def representableL (p : PCfg) (f : Fmt) : List Node → Bool
  | [] => true
  | n :: ns => representable p f n && representableL p f ns
end

/-! ### `DoctypeStable`: the forests on which a second round trip changes nothing -/

/-- after this node, is the pending data of the second pass a doctype's newline? -/
def nextAfter (after : Bool) : Node → Bool
  | .tag _ _ => false
  | .str c s =>
    match strKind c s with
    | .text _ => after
    | .special _ _ nl => nl

/-- a doctype must not stand in a preserve-whitespace context, and the text that follows one must be whitespace -/
def headOK (p : PCfg) (ctx : Ctx) (after : Bool) : Node → Bool
  | .tag _ _ => true
  | .str c s =>
    match strKind c s with
    | .text t => !after || t.all (fun c => p.asciiSpaces.contains c)
    | .special _ _ nl => !nl || !ctx.pres

mutual
/-- `DoctypeStable`: below this node no doctype is followed by visible text or stands inside `<pre>`/`<textarea>` -/
def dstableN (p : PCfg) (ctx : Ctx) : Node → Bool
  | .tag i ks => dstableL p (pushCtx p ctx (fullName i)) false ks
  | .str _ _ => true
def dstableL (p : PCfg) (ctx : Ctx) : Bool → List Node → Bool
  | _, [] => true
  | after, n :: ns => dstableN p ctx n && headOK p ctx after n && dstableL p ctx (nextAfter after n) ns
end


/-! ### how much the character data grows on a second round trip (0 iff `DoctypeStable`) -/

/-- ASCII whitespace only -/
def isSp (p : PCfg) (x : PStr) : Bool := x.all fun c => p.asciiSpaces.contains c

/- total length of the character data of a forest -/
mutual
def tlenN : Node → Nat
  | .tag _ ks => tlenL ks
  | .str c s =>
    match strKind c s with
    | .text t => t.length
    | .special _ _ _ => 0
def tlenL : List Node → Nat
  | [] => 0
  | n :: ns => tlenN n + tlenL ns
end


/-- does the run of text after a doctype keep its newline visible: in a preserve-whitespace context always, else as
    soon as a chunk is not whitespace -/
def brkText (p : PCfg) (after brk : Bool) (t : PStr) : Bool := brk || (after && !isSp p t)

def owed (after brk : Bool) : Nat := if after && brk then 1 else 0

mutual
/-- growth inside a node (its children are closed at its end tag) -/
def growN (p : PCfg) (ctx : Ctx) : Node → Nat
  | .tag i ks =>
    let r := growL p (pushCtx p ctx (fullName i)) false false ks
    r.1 + owed r.2.1 r.2.2
  | .str _ _ => 0
/-- growth over a run of siblings: (flushes that grew, pending doctype newline?, its run already visible?) -/
def growL (p : PCfg) (ctx : Ctx) : Bool → Bool → List Node → Nat × Bool × Bool
  | after, brk, [] => (0, after, brk)
  | after, brk, n :: ns =>
    match n with
    | .tag i ks =>
      let r := growL p ctx false false ns
      (owed after brk + growN p ctx (.tag i ks) + r.1, r.2)
    | .str c s =>
      match strKind c s with
      | .text t =>
        if t.isEmpty then growL p ctx after brk ns else growL p ctx after (brkText p after brk t) ns
      | .special _ _ nl =>
        let r := growL p ctx nl (nl && ctx.pres) ns
        (owed after brk + r.1, r.2)
end

/-- the total growth of a closed forest -/
def grow (p : PCfg) (ctx : Ctx) (ds : List Node) : Nat :=
  let r := growL p ctx false false ds
  r.1 + owed r.2.1 r.2.2


end BS.Render
