import BSModel.Base.PStr
/-! # Search: the `find_*` family, `SoupStrainer` matching, limit loop and fast paths (bs4 4.13.0)

Code-mirror of `bs4/element.py` (`_find_all`, `_find_one`, `find`, `find_all`, `find_next(s)`, …,
`__call__`, `__getattr__`) and `bs4/filter.py` (`MatchRule`, `SoupStrainer`, `ElementFilter.filter/find_all`),
plus the documented meaning (`sat`, `findAllSpec`).  Core Lean only.

External functions never run inside Lean: a compiled regular expression and a user function are *oracle
predicates* (`Oracle`), supplied as truth tables per case by the harness.

`Variant.repaired` mirrors /repo HEAD: bs4 4.13.0 plus the three C10 repairs that are committed there —
* (a) `noCritBranch`: a search with no criteria at all returns every tag *also* with a limit / via the singular
  methods (`fixes/C10-no-criteria-limit.diff`, element.py `_find_all`);
* (b) `retryFn = false`: a function given as the name criterion is not called a second time with the prefixed name
  string (`fixes/C10-name-function-once.diff`, filter.py `matches_tag`);
* (f) `_attribute_match` retries the joined value when `len(attr_values) != 1`, so a multi-valued attribute without
  values (`class=""` → `[]`) is matched as the empty string (`fixes/C10-empty-multivalued-attr.diff`; the code
  before that repair is `attributeMatchOld`).
`Variant.unrepaired` switches (a) and (b) off (4.13.0 as shipped). `Variant.proposed` additionally switches on two
patches that are **proposed, not applied** (`fixes/proposed/`), whose absence is recorded as known findings:
* (d) `deadCheck`: a criterion that yields no match rule (an empty list, a list of nested lists) matches nothing
  also when combined with other criteria — `SoupStrainer.matches_nothing` (`C10-empty-list-combined`);
* (e) `attrsDict`: the shortcuts of `_find_all` are taken only when `attrs` is an empty *dict*; a falsy non-dict
  value ("" / None / False / []) is a restriction on `class` on every path (`C10-falsy-attrs-ignored`).
A third known finding is mirrored as the code behaves: `limit=0` (pinned by the repo test `test_find_all_limit`). -/
namespace BS.Search

/-! ## Trees -/

/-- An attribute value: `str` or a list of `str` (multi-valued attributes such as `class`). -/
inductive AttrVal where
  | one (s : PStr)
  | many (l : List PStr)
  deriving Repr, DecidableEq, Inhabited

/-- A parse tree. Every node carries a unique `id` (the harness's label); `cls` is the string container class
    (0 NavigableString, 1 Comment, 2 CData, …) — matching never looks at it. The `BeautifulSoup` object is a tag
    named `[document]`. -/
inductive Node where
  | tag (id : Nat) (name : PStr) (pfx : Option PStr) (attrs : List (PStr × AttrVal)) (kids : List Node)
  | text (id : Nat) (s : PStr) (cls : Nat)
  deriving Repr, Inhabited

/-- What matching can see of one element. `str` is `Tag.string` for a tag (element.py:1837-1857) and the text
    itself for a string. -/
structure Elem where
  id : Nat
  isTag : Bool
  name : PStr
  pfx : Option PStr
  attrs : List (PStr × AttrVal)
  str : Option PStr
  deriving Repr, DecidableEq, Inhabited

namespace Node

def id : Node → Nat
  | .tag i _ _ _ _ => i
  | .text i _ _ => i

def kids : Node → List Node
  | .tag _ _ _ _ ks => ks
  | .text _ _ _ => []

mutual
/-- `Tag.string` (element.py:1850-1857): the single string below a chain of only children. -/
def stringOf : Node → Option PStr
  | .text _ s _ => some s
  | .tag _ _ _ _ ks => stringOfKids ks
def stringOfKids : List Node → Option PStr
  | [k] => stringOf k
  | _ => none
end

mutual
/-- document order (pre-order) of a subtree, the node itself first -/
def pre : Node → List Node
  | .tag i n p a ks => .tag i n p a ks :: preL ks
  | .text i s c => [.text i s c]
def preL : List Node → List Node
  | [] => []
  | k :: ks => pre k ++ preL ks
end

def view : Node → Elem
  | .tag i n p a ks => ⟨i, true, n, p, a, stringOfKids ks⟩
  | .text i s _ => ⟨i, false, [], none, [], some s⟩

end Node

/-! ## Axes (as lists of nodes in axis order), computed from the tree alone -/

def findNode (root : Node) (i : Nat) : Option Node := root.pre.find? (·.id == i)

def parentOf (root : Node) (i : Nat) : Option Node := root.pre.find? (fun n => n.kids.any (·.id == i))

def parentsFuel (root : Node) : Nat → Nat → List Node
  | 0, _ => []
  | f + 1, i => match parentOf root i with
    | none => []
    | some p => p :: parentsFuel root f p.id

inductive Family where
  | descendants | children | nextElements | previousElements | nextSiblings | previousSiblings | parents
  deriving Repr, DecidableEq, Inhabited

def siblingsOf (root : Node) (i : Nat) : List Node :=
  match parentOf root i with
  | none => []
  | some p => p.kids

/-- The seven axes of element.py:1148-1224, 2752-2779 as the tree defines them (C01 ties the pointer chases to
    these). `nextElements`/`previousElements` are taken in the document order of `root`. -/
def axisNodes (root : Node) (start : Nat) : Family → List Node
  | .descendants => match findNode root start with
    | some n => n.pre.tail
    | none => []
  | .children => match findNode root start with
    | some n => n.kids
    | none => []
  | .nextElements => (root.pre.dropWhile (·.id != start)).tail
  | .previousElements => (root.pre.takeWhile (·.id != start)).reverse
  | .nextSiblings => ((siblingsOf root start).dropWhile (·.id != start)).tail
  | .previousSiblings => ((siblingsOf root start).takeWhile (·.id != start)).reverse
  | .parents => parentsFuel root root.pre.length start

def axis (root : Node) (start : Nat) (f : Family) : List Elem := (axisNodes root start f).map Node.view

/-! ## Criteria -/

/-- One non-iterable criterion value. `other` = any other object (a number…): `_make_match_rules` takes its
    `str()` (filter.py:473); `truthy` is its Python truth value (needed for `not attrs`). -/
inductive Atom where
  | none
  | str (s : PStr)
  | bytes (s : PStr)          -- decoded as UTF-8 (filter.py:204)
  | bool (b : Bool)
  | fn (i : Nat)              -- a callable: oracle index
  | regex (i : Nat)           -- a compiled pattern: oracle index
  | other (repr : PStr) (truthy : Bool)
  deriving Repr, DecidableEq, Inhabited

/-- An item of a list criterion: an atom, or a nested iterable (ignored with a warning, filter.py:458-469). -/
inductive Item where
  | atom (a : Atom)
  | nested
  deriving Repr, DecidableEq, Inhabited

inductive Crit where
  | atom (a : Atom)
  | list (l : List Item)
  deriving Repr, DecidableEq, Inhabited

/-- the `attrs` argument: a dict, or anything else = sugar for `{"class": value}` (filter.py:365-369) -/
inductive AttrsArg where
  | dict (d : List (PStr × Crit))
  | sugar (c : Crit)
  deriving Repr, DecidableEq, Inhabited

structure Query where
  name : Crit := .atom .none
  attrs : AttrsArg := .dict []
  string : Crit := .atom .none
  kwargs : List (PStr × Crit) := []
  deriving Repr, DecidableEq, Inhabited

/-- Oracle predicates for the external functions of a case. -/
structure Oracle where
  re : Nat → PStr → Bool              -- `pattern.search(s) is not None`
  fnTag : Nat → Nat → Bool            -- truth value of `function(tag)`, tag by id
  fnStr : Nat → Option PStr → Bool    -- truth value of `function(s)`, `s` a string or `None`

inductive Rule where
  | string (s : PStr)
  | pattern (i : Nat)
  | function (i : Nat)
  | present (b : Bool)
  deriving Repr, DecidableEq, Inhabited

/-- One call of a user function made while name rules are evaluated: with a `Tag` or with a `str`. -/
inductive Call where
  | tag (fn : Nat) (id : Nat)
  | str (fn : Nat) (arg : PStr)
  deriving Repr, DecidableEq, Inhabited

def Atom.rules : Atom → List Rule
  | .none => []                      -- filter.py:446
  | .str s => [.string s]            -- :448
  | .bytes s => [.string s]
  | .bool b => [.present b]          -- :450
  | .fn i => [.function i]           -- :452
  | .regex i => [.pattern i]         -- :454
  | .other r _ => [.string r]        -- :473

def Item.rules : Item → List Rule
  | .atom a => a.rules               -- :470 (recursive call on a non-iterable)
  | .nested => []                    -- :458-469

/-- `SoupStrainer._make_match_rules` (filter.py:433-473). -/
def makeRules : Crit → List Rule
  | .atom a => a.rules
  | .list l => l.flatMap Item.rules

/-- `MatchRule._base_match` (filter.py:230-257). -/
def Rule.baseMatch (O : Oracle) : Rule → Option PStr → Option Bool
  | .present true, v => some v.isSome
  | .present false, v => some v.isNone
  | .string s, v => some (v == some s)
  | .pattern _, none => some false
  | .pattern i, some x => some (O.re i x)
  | .function _, _ => none

/-- `MatchRule.matches_string` (filter.py:259-267). -/
def Rule.matchesString (O : Oracle) (r : Rule) (v : Option PStr) : Bool :=
  match r with
  | .function i => O.fnStr i v
  | r => (r.baseMatch O v).getD true

def colon : Nat := 58
def space : Nat := 32

def truthyPfx : Option PStr → Bool
  | some (_ :: _) => true
  | _ => false

/-- `f"{tag.prefix}:{tag.name}"` if `tag.prefix` is truthy (filter.py:508-510). -/
def prefixedName (e : Elem) : Option PStr :=
  match e.pfx with
  | some (c :: p) => some ((c :: p) ++ colon :: e.name)
  | _ => none

/-- Which of the two repairs are in force. -/
structure Variant where
  retryFn : Bool        -- unrepaired (b): a name *function* is retried with the prefixed name string
  noCritBranch : Bool   -- repaired (a): `_find_all` has a branch for "no criteria at all" honouring `limit`
  deadCheck : Bool      -- proposed (d): `SoupStrainer.matches_nothing` is consulted
  attrsDict : Bool      -- proposed (e): the shortcuts test `isinstance(attrs, dict) and not attrs`, not `not attrs`
  deriving Repr, DecidableEq

/-- /repo HEAD -/
def Variant.repaired : Variant := ⟨false, true, false, false⟩
/-- bs4 4.13.0 as shipped (apart from `_attribute_match`, see `attributeMatchOld`) -/
def Variant.unrepaired : Variant := ⟨true, false, false, false⟩
/-- /repo HEAD plus the two proposed patches `fixes/proposed/C10-*.diff` -/
def Variant.proposed : Variant := ⟨false, true, true, true⟩

/-- One turn of the name-rule loop (filter.py:518-520): `rule.matches_tag(tag) or (prefixed_name is not None and
    [rule.function is None and] rule.matches_string(prefixed_name))`, with the calls it makes. -/
def nameRuleEval (O : Oracle) (v : Variant) (e : Elem) (r : Rule) : Bool × List Call :=
  match r with
  | .function i =>
    -- TagNameMatchRule.matches_tag, filter.py:288-298
    if O.fnTag i e.id then (true, [.tag i e.id])
    else match prefixedName e with
      | some p => if v.retryFn then (O.fnStr i (some p), [.tag i e.id, .str i p]) else (false, [.tag i e.id])
      | none => (false, [.tag i e.id])
  | r =>
    if (r.baseMatch O (some e.name)).getD false then (true, [])
    else match prefixedName e with
      | some p => (r.matchesString O (some p), [])
      | none => (false, [])

/-- the `for rule in self.name_rules: … break` loop (filter.py:513-522) -/
def nameRulesEval (O : Oracle) (v : Variant) (e : Elem) : List Rule → Bool × List Call
  | [] => (false, [])
  | r :: rs =>
    let x := nameRuleEval O v e r
    if x.1 then (true, x.2)
    else
      let y := nameRulesEval O v e rs
      (y.1, x.2 ++ y.2)

def getAttr (e : Elem) (a : PStr) : Option AttrVal := (e.attrs.find? (·.1 == a)).map (·.2)

def attrValues : Option AttrVal → List (Option PStr)
  | none => [none]
  | some (.one s) => [some s]
  | some (.many l) => l.map some

def joinSp : List PStr → PStr
  | [] => []
  | [x] => x
  | x :: xs => x ++ space :: joinSp xs

def joinedValue : Option AttrVal → PStr
  | some (.many l) => joinSp l
  | _ => []

/-- `_match_attribute_value_helper` (filter.py:556-561). -/
def helperMatch (O : Oracle) (rules : List Rule) (vals : List (Option PStr)) : Bool :=
  rules.any (fun r => vals.any (fun x => r.matchesString O x))

/-- `SoupStrainer._attribute_match` (filter.py `_attribute_match`), incl. the retry on the space-joined value when
    `len(attr_values) != 1` (repair f: a multi-valued attribute without values is the empty string). -/
def attributeMatch (O : Oracle) (v : Option AttrVal) (rules : List Rule) : Bool :=
  let vals := attrValues v
  helperMatch O rules vals ||
    (decide (vals.length ≠ 1) && helperMatch O rules [some (joinedValue v)])

/-- `_attribute_match` before repair (f): the retry only for `len(attr_values) > 1` (4.13.0 as shipped) -/
def attributeMatchOld (O : Oracle) (v : Option AttrVal) (rules : List Rule) : Bool :=
  let vals := attrValues v
  helperMatch O rules vals ||
    (decide (vals.length > 1) && helperMatch O rules [some (joinedValue v)])

def ofS' (s : String) : PStr := s.toList.map Char.toNat

def classKey : PStr := [99, 108, 97, 115, 115]            -- "class"
def classUKey : PStr := [99, 108, 97, 115, 115, 95]       -- "class_"

/-- The (attribute, criterion) pairs of a query in the order `SoupStrainer.__init__` visits them
    (filter.py:365-386): the `attrs` dict (or `{"class": attrs}`), then kwargs with `class_` renamed;
    a `None` value means `False` ("attribute absent"). -/
def Query.attrPairs (q : Query) : List (PStr × Crit) :=
  let fixv : Crit → Crit := fun c => if c = .atom .none then .atom (.bool false) else c
  let d := match q.attrs with
    | .dict d => d
    | .sugar c => [(classKey, c)]
  d.map (fun p => (p.1, fixv p.2)) ++ q.kwargs.map (fun p => ((if p.1 = classUKey then classKey else p.1), fixv p.2))

/-- `SoupStrainer`: `attribute_rules` (a `defaultdict(list)`) is represented as the association list of
    `(attribute, rule)` in insertion order; `attribute_rules[a]` = the rules paired with `a`, the dict's keys =
    the attributes that occur. An attribute whose criterion yields no rule never becomes a key. -/
structure Strainer where
  nameRules : List Rule
  attrFlat : List (PStr × Rule)
  stringRules : List Rule
  /-- `matches_nothing` (proposed patch d; not consulted by /repo HEAD): some criterion was given that yields no
      rule at all -/
  dead : Bool
  deriving Repr

def Crit.isNone (c : Crit) : Bool := c = .atom .none

def mkStrainer (q : Query) : Strainer :=
  { nameRules := makeRules q.name
    attrFlat := q.attrPairs.flatMap (fun p => (makeRules p.2).map (fun r => (p.1, r)))
    stringRules := makeRules q.string
    dead := (!q.name.isNone && (makeRules q.name).isEmpty)          -- `name is not None and not self.name_rules`
      || q.attrPairs.any (fun p => (makeRules p.2).isEmpty)          -- `if not rules: self.matches_nothing = True`
      || (!q.string.isNone && (makeRules q.string).isEmpty) }

def Strainer.rulesFor (s : Strainer) (a : PStr) : List Rule := (s.attrFlat.filter (·.1 == a)).map (·.2)

def Rule.isString : Rule → Option PStr
  | .string s => some s
  | _ => none

/-- the one-rule shortcut, filter.py:497-503 -/
def shortcutReject (s : Strainer) (e : Elem) : Bool :=
  !truthyPfx e.pfx && (match s.nameRules with
    | [.string n] => e.name != n
    | _ => false)

def stringRulesOK (O : Oracle) (s : Strainer) (e : Elem) : Bool :=
  s.stringRules.isEmpty ||
    (match e.str with
     | none => false
     | some x => s.stringRules.any (fun r => r.matchesString O (some x)))

/-- `SoupStrainer.matches_tag` (filter.py:475-543) with the calls its name rules make. -/
def matchesTag (O : Oracle) (v : Variant) (s : Strainer) (e : Elem) : Bool × List Call :=
  if s.nameRules.isEmpty && s.attrFlat.isEmpty then (false, [])        -- :491
  else if shortcutReject s e then (false, [])                          -- :497
  else
    let nm := if s.nameRules.isEmpty then (true, []) else nameRulesEval O v e s.nameRules
    if !nm.1 then (false, nm.2)                                        -- :524
    else
      (s.attrFlat.all (fun p => attributeMatch O (getAttr e p.1) (s.rulesFor p.1))   -- :530-534
        && stringRulesOK O s e, nm.2)                                               -- :537-542

/-- `SoupStrainer.match` (filter.py:650-668). -/
def matchElem (O : Oracle) (v : Variant) (s : Strainer) (e : Elem) : Bool × List Call :=
  if v.deadCheck && s.dead then (false, [])     -- proposed d: `if self.matches_nothing: return False` (for tags the
                                                -- patch has the same test at the top of `matches_tag`, reached from here)
  else if e.isTag then matchesTag O v s e
  else if s.nameRules.isEmpty && s.attrFlat.isEmpty then
    (s.stringRules.any (fun r => r.matchesString O e.str), [])
  else (false, [])

/-- `if i:` in `ElementFilter.filter` (filter.py:119): a `Tag` is always true (element.py:2219), a string is true
    iff non-empty — **an empty `NavigableString` is never yielded by the general path**. -/
def Elem.truthy (e : Elem) : Bool := e.isTag || e.str != some []

def limitReached (limit : Option Nat) (n : Nat) : Bool :=
  match limit with
  | none => false
  | some k => decide (n ≥ k)           -- filter.py:154 `limit is not None and len(results) >= limit`

/-- `ElementFilter.filter` + `find_all` (filter.py:108-156): `n` = `len(results)` so far. -/
def filterLoop (m : Elem → Bool × List Call) (limit : Option Nat) : List Elem → Nat → List Elem × List Call
  | [], _ => ([], [])
  | e :: rest, n =>
    if e.truthy then
      let x := m e
      if x.1 then
        if limitReached limit (n + 1) then ([e], x.2)
        else
          let y := filterLoop m limit rest (n + 1)
          (e :: y.1, x.2 ++ y.2)
      else
        let y := filterLoop m limit rest n
        (y.1, x.2 ++ y.2)
    else filterLoop m limit rest n

/-- Python truth value of a criterion object (for `not attrs`). -/
def Crit.truthy : Crit → Bool
  | .atom .none => false
  | .atom (.str s) => !s.isEmpty
  | .atom (.bytes s) => !s.isEmpty
  | .atom (.bool b) => b
  | .atom (.fn _) => true
  | .atom (.regex _) => true
  | .atom (.other _ t) => t
  | .list l => !l.isEmpty

def AttrsArg.truthy : AttrsArg → Bool
  | .dict d => !d.isEmpty
  | .sugar c => c.truthy

/-- `isinstance(attrs, dict) and not attrs` -/
def AttrsArg.isEmptyDict : AttrsArg → Bool
  | .dict d => d.isEmpty
  | .sugar _ => false

def limitTruthy : Option Nat → Bool
  | none => false
  | some k => k != 0

def countColon (s : PStr) : Nat := s.count colon

/-- `name.split(":", 1)` when `name.count(":") == 1` -/
def splitColon (s : PStr) : PStr × PStr := (s.takeWhile (· != colon), (s.dropWhile (· != colon)).tail)

/-- the test of the plain-name fast path, element.py:1125-1141 -/
def fastNameTest (name : PStr) (e : Elem) : Bool :=
  let (pfx, localName) : Option PStr × PStr :=
    if countColon name = 1 then (some (splitColon name).1, (splitColon name).2) else (none, name)
  e.isTag && (e.name == name || (e.name == localName && (pfx.isNone || e.pfx == pfx)))

def generalPath (O : Oracle) (v : Variant) (q : Query) (limit : Option Nat) (ax : List Elem) : List Elem × List Call :=
  filterLoop (matchElem O v (mkStrainer q)) limit ax 0

/-- `PageElement._find_all` (element.py:1079-1143; with repair (a) when `v.noCritBranch`). -/
def findAllImpl (O : Oracle) (v : Variant) (q : Query) (limit : Option Nat) (ax : List Elem) : List Elem × List Call :=
  let noAttrs := if v.attrsDict then q.attrs.isEmptyDict else !q.attrs.truthy     -- `not attrs` / proposed e
  let basic := q.string.isNone && noAttrs && q.kwargs.isEmpty
  if v.noCritBranch && basic && q.name.isNone then
    -- repaired: no criteria at all = every tag, up to the limit (`if limit and len(result) >= limit: break`)
    let tags := ax.filter (·.isTag)
    (match limit with
     | some k => if k = 0 then tags else tags.take k
     | none => tags, [])
  else if basic && !limitTruthy limit then               -- element.py:1118
    match q.name with
    | .atom (.bool true) => (ax.filter (·.isTag), [])    -- :1119-1122 `name is True`
    | .atom .none => (ax.filter (·.isTag), [])           -- :1119 `name is None` (unrepaired code only)
    | .atom (.str n) => (ax.filter (fastNameTest n), []) -- :1123-1142
    | _ => generalPath O v q limit ax
  else generalPath O v q limit ax                        -- :1143

/-- A `SoupStrainer` object used directly: as the `name` argument of a `find_*` method (`_find_all`: `if isinstance(name,
    ElementFilter): matcher = name` … `return matcher.find_all(generator, limit)` — no shortcut applies) or through
    `SoupStrainer.find_all(generator, limit)` itself (filter.py `ElementFilter.find_all`). `q` = the arguments the strainer was
    built from. -/
def findAllStrainer (O : Oracle) (v : Variant) (q : Query) (limit : Option Nat) (ax : List Elem) : List Elem × List Call :=
  generalPath O v q limit ax

/-- `ElementFilter.find(generator)` (filter.py): the first element `filter` yields, or `None` -/
def findStrainer (O : Oracle) (v : Variant) (q : Query) (ax : List Elem) : Option Elem :=
  (generalPath O v q none ax).1.head?

/-- the family's own argument list: `find_parents` has no `string` parameter (element.py:1022-1044). -/
def famQuery (f : Family) (q : Query) : Query :=
  if f = .parents then { q with string := .atom .none } else q

def findAllFam (O : Oracle) (v : Variant) (root : Node) (start : Nat) (f : Family) (q : Query) (limit : Option Nat) :
    List Elem × List Call :=
  findAllImpl O v (famQuery f q) limit (axis root start f)

/-- `_find_one` / `find` / `find_parent` (element.py:1061-1077, 992-1018, 2684-2711): the plural call with limit 1,
    first element or `None`. -/
def findOneFam (O : Oracle) (v : Variant) (root : Node) (start : Nat) (f : Family) (q : Query) :
    Option Elem × List Call :=
  let r := findAllFam O v root start f q (some 1)
  (r.1.head?, r.2)

/-- `Tag.__call__` (element.py:2232-2247): `find_all(name, attrs, recursive, string, limit, **kwargs)`. -/
def callImpl (O : Oracle) (v : Variant) (root : Node) (start : Nat) (q : Query) (recursive : Bool) (limit : Option Nat) :
    List Elem × List Call :=
  findAllFam O v root start (if recursive then .descendants else .children) q limit

inductive GetAttr where
  | ok (r : Option Elem)
  | attributeError
  deriving Repr, DecidableEq

def tagSuffix : PStr := [84, 97, 103]            -- "Tag"
def dunder : PStr := [95, 95]                    -- "__"
def contentsName : PStr := [99, 111, 110, 116, 101, 110, 116, 115]   -- "contents"

def endsWith (s suf : PStr) : Bool := suf.isSuffixOf s
def startsWith (s pre : PStr) : Bool := pre.isPrefixOf s

/-- `Tag.__getattr__` (element.py:2249-2271), reached only for names that are not real attributes of the object. -/
def getattrImpl (O : Oracle) (v : Variant) (root : Node) (start : Nat) (subtag : PStr) : GetAttr :=
  if subtag.length > 3 && endsWith subtag tagSuffix then
    .ok (findOneFam O v root start .descendants { name := .atom (.str (subtag.take (subtag.length - 3))) }).1
  else if !startsWith subtag dunder && subtag != contentsName then
    .ok (findOneFam O v root start .descendants { name := .atom (.str subtag) }).1
  else .attributeError

/-! ## The documented meaning -/

/-- one non-list criterion against one value (`onTag` = the tag's id when a function is to receive the tag) -/
def Atom.sat (O : Oracle) (onTag : Option Nat) : Atom → Option PStr → Bool
  | .none, _ => false
  | .str s, v => v == some s
  | .bytes s, v => v == some s
  | .bool true, v => v.isSome
  | .bool false, v => v.isNone
  | .fn i, v => match onTag with
    | Option.some id => O.fnTag i id
    | Option.none => O.fnStr i v
  | .regex _, Option.none => false
  | .regex i, Option.some x => O.re i x
  | .other r _, v => v == some r

/-- the atoms a criterion offers: itself, or the non-iterable items of the list ("any of") -/
def Crit.atoms : Crit → List Atom
  | .atom a => [a]
  | .list l => l.filterMap (fun | .atom a => some a | .nested => none)

/-- A value satisfies a criterion: a list means "any of its items". -/
def Crit.sat (O : Oracle) (c : Crit) (v : Option PStr) : Bool := c.atoms.any (fun a => a.sat O none v)

def Atom.isFn : Atom → Bool
  | .fn _ => true
  | _ => false

/-- A tag satisfies a name criterion: its name does, or its prefixed name `prefix:name` does; a function is
    asked once, about the tag itself. -/
def Crit.satName (O : Oracle) (c : Crit) (e : Elem) : Bool :=
  c.atoms.any (fun a => a.sat O (some e.id) (some e.name) ||
    (!a.isFn && (match prefixedName e with
                 | some p => a.sat O none (some p)
                 | none => false)))

/-- An attribute value satisfies a criterion: a missing attribute is `None`; a multi-valued attribute matches if
    any single value or the space-joined value does (a multi-valued attribute without values is the empty string). -/
def Crit.satAttr (O : Oracle) (c : Crit) (v : Option AttrVal) : Bool :=
  (attrValues v).any (fun x => c.sat O x) ||
    (decide ((attrValues v).length ≠ 1) && c.sat O (some (joinedValue v)))

def Query.hasTagCriteria (q : Query) : Bool := !q.name.isNone || !q.attrPairs.isEmpty

def Query.noCriteria (q : Query) : Bool := q.name.isNone && q.attrPairs.isEmpty && q.string.isNone

def Atom.isNoneB : Atom → Bool
  | .none => true
  | _ => false

/-- the criterion offers no alternative at all: an empty list, a list of nested lists and `None`s — "any of nothing" -/
def Crit.noAlternative (c : Crit) : Bool := c.atoms.all Atom.isNoneB

/-- some criterion of the query was given but offers no alternative: nothing can satisfy the query -/
def Query.unsatisfiable (q : Query) : Bool :=
  (!q.name.isNone && q.name.noAlternative) || q.attrPairs.any (fun p => p.2.noAlternative)
    || (!q.string.isNone && q.string.noAlternative)

/-- **The documented meaning of a query on one element.**
    * no criteria at all: every tag; a criterion that offers no alternative (an empty list): nothing;
    * a tag: it must satisfy the name criterion (if any), for every constrained attribute one of the criteria
      given for that attribute, and its `.string` the string criterion (if any); a query with only a string
      criterion finds strings, not tags;
    * a string: only a query consisting of a string criterion alone finds strings — the non-empty ones
      (`ElementFilter.filter` never yields an empty string). -/
def sat (O : Oracle) (q : Query) (e : Elem) : Bool :=
  if q.noCriteria then e.isTag
  else if q.unsatisfiable then false
  else if e.isTag then
    q.hasTagCriteria
    && (q.name.isNone || q.name.satName O e)
    && q.attrPairs.all (fun p => (q.attrPairs.filter (·.1 == p.1)).any (fun p' => p'.2.satAttr O (getAttr e p.1)))
    && (q.string.isNone || (match e.str with
                            | none => false
                            | some x => q.string.sat O (some x)))
  else
    !q.hasTagCriteria && e.str != some [] && q.string.sat O e.str

def findAllSpec (O : Oracle) (q : Query) (ax : List Elem) : List Elem := ax.filter (sat O q)

/-- the calls the property demands for a function given as the name criterion: once per candidate tag, with the tag -/
def nameFnCallsSpec (i : Nat) (ax : List Elem) : List Call := (ax.filter (·.isTag)).map (fun e => .tag i e.id)

/-! ## CSS fragment both can express (soupsieve itself is recorded, not modelled) -/

inductive Simple where
  | type (n : PStr)
  | cls (c : PStr)
  | ident (i : PStr)
  | hasAttr (a : PStr)
  | attrEq (a : PStr) (v : PStr)
  deriving Repr, DecidableEq

def idKey : PStr := [105, 100]

/-- value of an attribute as CSS sees it: a list is its space-joined form -/
def attrString (e : Elem) (a : PStr) : Option PStr :=
  match getAttr e a with
  | none => none
  | some (.one s) => some s
  | some (.many l) => some (joinSp l)

def classList (e : Elem) : List PStr :=
  match getAttr e classKey with
  | some (.many l) => l
  | some (.one s) => [s]
  | none => []

def Simple.holds (e : Elem) : Simple → Bool
  | .type n => e.isTag && e.name == n
  | .cls c => e.isTag && (classList e).contains c
  | .ident i => e.isTag && attrString e idKey == some i
  | .hasAttr a => e.isTag && (getAttr e a).isSome
  | .attrEq a v => e.isTag && attrString e a == some v

/-- the `find_all` query that says the same as a simple selector -/
def Simple.toQuery : Simple → Query
  | .type n => { name := .atom (.str n) }
  | .cls c => { kwargs := [(classUKey, .atom (.str c))] }
  | .ident i => { kwargs := [(idKey, .atom (.str i))] }
  | .hasAttr a => { attrs := .dict [(a, .atom (.bool true))] }
  | .attrEq a v => { attrs := .dict [(a, .atom (.str v))] }

/-- `select(simple)` from a start element: the descendants for which the selector holds, in document order -/
def cssSpec (s : Simple) (ax : List Elem) : List Elem := ax.filter s.holds

/-! ## Forwarding glue: how the wrappers hand their arguments on

The definitions above take for granted *which* method each wrapper forwards to and *which* argument lands in *which*
parameter (`findOneFam` = the plural method of the same axis with `limit = 1`; `callImpl` = `find_all` with the same
six arguments; `famQuery .parents` has no string; `axisH`/`axis` per family). `forwardSpec` writes that down per wrapper;
`translate/parts_c10.py` reads the actual forwarding calls out of the live source (through `ast`) into
`BS.Gen.Search.c10Forwarders`, and `Props/C10.lean` checks the whole generated table against `forwardSpec`. Encoding of a
value: `p:x` the wrapper's own parameter `x`, `c:v` the constant `v`, `a:x` the attribute `self.x`, `l:x|!r:y` a local that
is `self.x`, or `self.y` when parameter `r` is false. -/

/-- what each parameter of the callee receives: positional arguments in order, then keyword arguments -/
def bindArgs (calleeParams args : List String) (kwargs : List (String × String)) : List (String × String) :=
  calleeParams.zip args ++ kwargs

structure ForwardSpec where
  callee : String
  /-- the bindings that matter for the search (the warning bookkeeping `_stacklevel` is left free) -/
  binding : List (String × String)
  deriving Repr, DecidableEq

def sameThree : List (String × String) := [("name", "p:name"), ("attrs", "p:attrs"), ("string", "p:string")]

/-- the documented forwarding of every wrapper of the `find_*` family, `Tag.__call__`, `Tag.select`, `Tag.select_one` -/
def forwardSpec : String → Option ForwardSpec
  | "find_next" => some ⟨"self._find_one", ("method", "a:find_all_next") :: sameThree⟩
  | "find_next_sibling" => some ⟨"self._find_one", ("method", "a:find_next_siblings") :: sameThree⟩
  | "find_previous" => some ⟨"self._find_one", ("method", "a:find_all_previous") :: sameThree⟩
  | "find_previous_sibling" => some ⟨"self._find_one", ("method", "a:find_previous_siblings") :: sameThree⟩
  | "_find_one" => some ⟨"method", sameThree ++ [("limit", "c:1")]⟩
  | "find_all_next" => some ⟨"self._find_all", sameThree ++ [("limit", "p:limit"), ("generator", "a:next_elements")]⟩
  | "find_all_previous" => some ⟨"self._find_all", sameThree ++ [("limit", "p:limit"), ("generator", "a:previous_elements")]⟩
  | "find_next_siblings" => some ⟨"self._find_all", sameThree ++ [("limit", "p:limit"), ("generator", "a:next_siblings")]⟩
  | "find_previous_siblings" =>
    some ⟨"self._find_all", sameThree ++ [("limit", "p:limit"), ("generator", "a:previous_siblings")]⟩
  | "find_parents" =>
    some ⟨"self._find_all", [("name", "p:name"), ("attrs", "p:attrs"), ("string", "c:None"), ("limit", "p:limit"),
                             ("generator", "l:parents")]⟩
  | "find_parent" => some ⟨"self.find_parents", [("name", "p:name"), ("attrs", "p:attrs"), ("limit", "c:1")]⟩
  | "find_all" =>
    some ⟨"self._find_all", sameThree ++ [("limit", "p:limit"), ("generator", "l:descendants|!recursive:children")]⟩
  | "find" => some ⟨"self.find_all", sameThree ++ [("recursive", "p:recursive"), ("limit", "c:1")]⟩
  | "__call__" => some ⟨"self.find_all", sameThree ++ [("recursive", "p:recursive"), ("limit", "p:limit")]⟩
  | "select" => some ⟨"self.css.select", [("select", "p:selector"), ("namespaces", "p:namespaces"), ("limit", "p:limit")]⟩
  | "select_one" => some ⟨"self.css.select_one", [("select", "p:selector"), ("namespaces", "p:namespaces")]⟩
  | _ => none

def forwardedNames : List String :=
  ["find_next", "find_all_next", "find_next_sibling", "find_next_siblings", "find_previous", "find_all_previous",
   "find_previous_sibling", "find_previous_siblings", "find_parent", "find_parents", "_find_one", "find", "find_all",
   "__call__", "select", "select_one"]

/-- one row of the generated table agrees with `forwardSpec`: right callee, `**kwargs` forwarded, no parameter bound
    twice, no more positional arguments than parameters, and every binding that matters is the documented one -/
def checkForward (name callee : String) (calleeParams args : List String) (kwargs : List (String × String))
    (starKw : Bool) : Bool :=
  match forwardSpec name with
  | none => false
  | some sp =>
    callee == sp.callee && starKw && decide (args.length ≤ calleeParams.length)
      && decide ((bindArgs calleeParams args kwargs).map (·.1)).Nodup
      && sp.binding.all (fun kv => (bindArgs calleeParams args kwargs).lookup kv.1 == some kv.2)

/-! ## Entry points by name: the canonical search methods and their deprecated aliases

Every public `find_all`-style method is one of twelve canonical ones (`methodKind`) or a deprecated camelCase / BS3 alias
(`findAllNext`, `fetchPreviousSiblings`, …) that resolves `getattr(self, new_name)` at call time (bs4/_deprecation.py).
`aliasSpec` is the documented renaming table; `translate/parts_c10.py` reads the actual targets out of the closures of the
live alias functions into `BS.Gen.Search.c10Aliases`, and `Props/C10.lean` checks the whole generated table. -/

/-- a search method: plural or singular, over a fixed family or (`find_all`/`find`) descendants/children by `recursive` -/
structure MethodKind where
  plural : Bool
  family : Option Family      -- `none`: chosen by the `recursive` argument
  deriving Repr, DecidableEq

def methodKind : String → Option MethodKind
  | "find_all" => some ⟨true, none⟩
  | "find" => some ⟨false, none⟩
  | "find_all_next" => some ⟨true, some .nextElements⟩
  | "find_next" => some ⟨false, some .nextElements⟩
  | "find_all_previous" => some ⟨true, some .previousElements⟩
  | "find_previous" => some ⟨false, some .previousElements⟩
  | "find_next_siblings" => some ⟨true, some .nextSiblings⟩
  | "find_next_sibling" => some ⟨false, some .nextSiblings⟩
  | "find_previous_siblings" => some ⟨true, some .previousSiblings⟩
  | "find_previous_sibling" => some ⟨false, some .previousSiblings⟩
  | "find_parents" => some ⟨true, some .parents⟩
  | "find_parent" => some ⟨false, some .parents⟩
  | _ => none

/-- the documented renamings (BS4 method names, and the BS3 `fetch*`/`findChild*` names), sorted by old name -/
def aliasSpec : List (String × String) :=
  [("fetchAllPrevious", "find_all_previous"), ("fetchNextSiblings", "find_next_siblings"), ("fetchParents", "find_parents"),
   ("fetchPreviousSiblings", "find_previous_siblings"), ("findAll", "find_all"), ("findAllNext", "find_all_next"),
   ("findAllPrevious", "find_all_previous"), ("findChild", "find"), ("findChildren", "find_all"), ("findNext", "find_next"),
   ("findNextSibling", "find_next_sibling"), ("findNextSiblings", "find_next_siblings"), ("findParent", "find_parent"),
   ("findParents", "find_parents"), ("findPrevious", "find_previous"), ("findPreviousSibling", "find_previous_sibling"),
   ("findPreviousSiblings", "find_previous_siblings")]

/-- what a method name searches: a canonical method, or the canonical method its alias is documented to replace -/
def methodOf (name : String) : Option MethodKind :=
  match methodKind name with
  | some k => some k
  | none => (aliasSpec.lookup name).bind methodKind

/-- a search called by method name (canonical or alias) -/
def findByName (O : Oracle) (v : Variant) (root : Node) (start : Nat) (method : String) (recursive : Bool) (q : Query)
    (limit : Option Nat) : Option (List Elem × List Call) :=
  (methodOf method).map fun k =>
    let f := k.family.getD (if recursive then .descendants else .children)
    if k.plural then findAllFam O v root start f q limit
    else let r := findOneFam O v root start f q; (r.1.toList, r.2)

end BS.Search
