import BSModel.Model.Heap
import BSModel.Model.Search
/-! # The `find_*` methods on the pointer heap

`Model/Search.lean` runs `_find_all` over an abstract list of elements. Here that list is what the real generators
yield: the pointer chases of `Model/Heap.lean` (`next_elements`, `previous_elements`, `next_siblings`,
`previous_siblings`, `parents` — element.py `PageElement.next_elements` … `parents`; `Tag.descendants` with its
`_last_descendant` stop node; `Tag.children` = `contents`) on the six link fields of every `PageElement`, exactly as
an edit history or a parse left them (including a `BeautifulSoup` root that stands outside the element chain).
`Labels` adds what the heap does not hold (tag names, prefixes, attributes); a string's text is `Heap.val`.
Core Lean only. -/
namespace BS.SearchHeap
open BS.Heap BS.Search

structure Labels where
  name : Nat → PStr
  pfx : Nat → Option PStr
  attrs : Nat → List (PStr × AttrVal)

/-- `Tag.string` (element.py, the `while True` loop over only children): `f` bounds the depth -/
def onlyChildString (h : Heap) : Nat → Nat → Option PStr
  | 0, _ => none
  | f + 1, n =>
    if (h.kind n).isTag then
      match h.kids n with
      | [k] => onlyChildString h f k
      | _ => none
    else some (h.val n)

/-- what matching sees of node `n` -/
def view (h : Heap) (L : Labels) (n : Nat) : Elem :=
  if (h.kind n).isTag then
    { id := n, isTag := true, name := L.name n, pfx := L.pfx n, attrs := L.attrs n,
      str := match h.kids n with
        | [k] => onlyChildString h h.cap k
        | _ => none }
  else
    { id := n, isTag := false, name := [], pfx := none, attrs := [], str := some (h.val n) }

/-- the generator each family hands to `_find_all` (element.py `find_all` … `find_parents`) -/
def axisH (h : Heap) (x : Nat) : Family → Except Err (List Nat)
  | .descendants => Heap.descendants h x
  | .children => .ok (h.kids x)
  | .nextElements => .ok (nextElements h x)
  | .previousElements => .ok (previousElements h x)
  | .nextSiblings => .ok (nextSiblings h x)
  | .previousSiblings => .ok (previousSiblings h x)
  | .parents => .ok (parents h x)

/-- a plural `find_*` call on the heap -/
def findAllH (O : Oracle) (v : Variant) (h : Heap) (L : Labels) (x : Nat) (f : Family) (q : Query)
    (limit : Option Nat) : Except Err (List Elem × List Call) :=
  match axisH h x f with
  | .error e => .error e
  | .ok ids => .ok (findAllImpl O v (famQuery f q) limit (ids.map (view h L)))

/-- a singular `find_*` call: the plural one with `limit=1`, first element or `None` -/
def findOneH (O : Oracle) (v : Variant) (h : Heap) (L : Labels) (x : Nat) (f : Family) (q : Query) :
    Except Err (Option Elem × List Call) :=
  match findAllH O v h L x f q (some 1) with
  | .error e => .error e
  | .ok r => .ok (r.1.head?, r.2)

end BS.SearchHeap
