import BSModel.Model.Adapter
/-! # Source positions (C18)

bs4's part is a pass-through: `handle_starttag` reads `HTMLParser.getpos()` when the builder stores line numbers
(`_htmlparser.py:176-184`, `mkInfo` in Model/Adapter.lean) and `Tag.__init__` stores the pair. `getpos()` itself is
CPython's: `_markupbase.ParserBase.updatepos(i, j)` advances `(lineno, offset)` over the chunk `rawdata[i:j]` the
tokenizer has just consumed. `updatepos` is modelled here (its arithmetic, not the tokenizer's choice of chunks) next
to the direct specification `lineCol`. Core Lean only. -/
namespace BS.SourcePos

/-- specification: 1-based line and 0-based column of offset `off` in `text` -/
def lineCol (text : PStr) (off : Nat) : Nat × Nat :=
  let pre := text.take off
  (1 + pre.count 10, (pre.reverse.takeWhile (· ≠ 10)).length)

/-- `ParserBase.updatepos` on one chunk: `nlines = chunk.count("\n"); if nlines: lineno += nlines;
    offset = len(chunk) - (chunk.rindex("\n") + 1) else: offset += len(chunk)` -/
def updatepos (p : Nat × Nat) (chunk : PStr) : Nat × Nat :=
  let nl := chunk.count 10
  if nl = 0 then (p.1, p.2 + chunk.length)
  else (p.1 + nl, (chunk.reverse.takeWhile (· ≠ 10)).length)

/-- position after consuming the chunks in order, starting from `(1, 0)` (`ParserBase.reset`) -/
def posAfter (chunks : List PStr) : Nat × Nat := chunks.foldl updatepos (1, 0)

end BS.SourcePos
