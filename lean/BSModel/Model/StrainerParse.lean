import BSModel.Model.Search
/-! # The parse-time side of a `SoupStrainer` (C16): `allow_tag_creation`, `allow_string_creation`

Code-mirror of bs4/filter.py:582-650 on top of the rule model of `Model/Search.lean` (C10): what `BeautifulSoup.handle_starttag`
asks BEFORE a `Tag` exists (namespace prefix, name, RAW attribute dictionary: every value a string) and what `endData` asks about a
finished string. Core Lean only. -/
namespace BS.StrainerParse
open BS BS.Search

/-- `attrs.get(attr)` on the raw dictionary the parser hands over (values are plain strings; `None` → `AttributeDict()`) -/
def rawGet (attrs : List (PStr × PStr)) (a : PStr) : Option AttrVal :=
  (attrs.find? (·.1 == a)).map (fun p => AttrVal.one p.2)

/-- `f"{nsprefix}:{name}"` if `nsprefix` is truthy (filter.py:597-599) -/
def prefixed (nsprefix : Option PStr) (name : PStr) : Option PStr :=
  match nsprefix with
  | some (c :: p) => some ((c :: p) ++ Search.colon :: name)
  | _ => none

/-- `if x is not None: if rule.matches_string(x)` for the prefixed name -/
def pnMatch (O : Oracle) (r : Rule) : Option PStr → Bool
  | some p => r.matchesString O (some p)
  | none => false

/-- `for rule in self.name_rules: for x in name, prefixed_name: if x is not None: if rule.matches_string(x): name_match = True; break`
    (filter.py:600-608; the `break` leaves the inner loop only, so every rule is tried: the result is "any") -/
def nameLoop (O : Oracle) (name : PStr) (pn : Option PStr) : List Rule → Bool
  | [] => false
  | r :: rs =>
    (r.matchesString O (some name) || pnMatch O r pn) || nameLoop O name pn rs

/-- `SoupStrainer.allow_tag_creation(nsprefix, name, attrs)` (filter.py:582-620). `attribute_rules.items()` is walked through the flat
    association list (a key that occurs twice is asked twice — the same answer) -/
def allowTagCreation (O : Oracle) (s : Strainer) (nsprefix : Option PStr) (name : PStr) (attrs : List (PStr × PStr)) : Bool :=
  if !s.stringRules.isEmpty then false                                     -- :591
  else if !s.nameRules.isEmpty && !nameLoop O name (prefixed nsprefix name) s.nameRules then false   -- :600-610
  else s.attrFlat.all (fun p => attributeMatch O (rawGet attrs p.1) (s.rulesFor p.1))               -- :616-619

/-- `SoupStrainer.allow_string_creation(string)` (filter.py:622-637) -/
def allowStringCreation (O : Oracle) (s : Strainer) (str : PStr) : Bool :=
  if !s.nameRules.isEmpty || !s.attrFlat.isEmpty then false
  else if s.stringRules.isEmpty then true
  else s.stringRules.any (fun r => r.matchesString O (some str))

end BS.StrainerParse
