import BSModel.Base.PStr
import BSModel.Gen.TextWs
/-! C13 — text extraction. Code-mirror of (bs4/element.py, line numbers as of the /repo HEAD this was last checked
    against; the function names are the stable anchor):
    `Tag._all_strings` (1904-1943), `Tag.strings` (1945), `NavigableString._all_strings` (1377-1425),
    `NavigableString.strings` (1428), `PageElement.get_text/.text/stripped_strings` (518-554), the `Tag.string` getter
    (1863-1889, a `while True` loop over only children) and `NavigableString.string` (1337), the assignment of
    `interesting_string_types` in `Tag.__init__` (1724 without a builder, 1747-1753 with one), `Tag.copy_self` (1800);
    bs4/__init__.py: `BeautifulSoup.string_container` (739-762), `new_tag` (689), `copy_self` (492), the
    `string_container_stack` lines of `pushTag`/`popTag` (793-831); bs4/builder/__init__.py: the `string_containers`
    option of `TreeBuilder.__init__` (237-239) and the two `DEFAULT_STRING_CONTAINERS` tables (269, 608).

    Code-mirror (`…Impl`, statement by statement) and spec (`textOf`: the obvious recursive evaluator).
    Trees are a plain inductive type here; `walk` is the worklist form of the `descendants` chain walk. The same
    procedures over the pointer heap — `Tag.descendants` as the `next_element` chase — are in Model/TextHeap.lean, and
    Props/C13.lean section 9 derives from C01 that both agree on every parsed and edited tree. -/
namespace BS.Text

/-- `NavigableString` and the subclasses bs4/element.py defines; `other k` = any further subclass (user-defined
    ones in particular) — the class tests of `_all_strings` are *exact* (`type(x) is`/`in`), so a subclass of
    `Comment` is not a `Comment` for them. -/
inductive StrClass where
  | navigableString | preformattedString | cData | processingInstruction | xMLProcessingInstruction
  | comment | declaration | doctype | stylesheet | script | templateString | rubyTextString
  | rubyParenthesisString
  | other (k : Nat)
deriving DecidableEq, Repr

/-- The `types` argument as the caller can pass it (and the value of `tag.interesting_string_types`):
    `dflt` = the sentinel `PageElement.default` (the empty tuple, compared with `is`), `none` = `None`,
    `one c` = a single class object, `many cs` = any container of classes (tuple, list, set). -/
inductive TypesArg where
  | dflt
  | none
  | one (c : StrClass)
  | many (cs : List StrClass)
deriving DecidableEq, Repr

/-- the value `types` holds after the default has been resolved -/
inductive Types where
  | all                        -- `None`: no class test at all
  | one (c : StrClass)         -- `isinstance(types, type)`: `descendant_type is not types`
  | many (cs : List StrClass)  -- `descendant_type not in types`
deriving DecidableEq, Repr

/-- `tag.interesting_string_types`: `None`, a class, or a collection of classes -/
inductive Interesting where
  | none                          -- `None` on a stock `Tag` (fallback: `Tag.MAIN_CONTENT_STRING_TYPES`)
  | one (c : StrClass)
  | many (cs : List StrClass)
  | noneOf (cm : List StrClass)   -- `None` on a tag whose class (a `Tag` subclass installed through `element_classes`,
                                  -- or a `BeautifulSoup` subclass) overrides `MAIN_CONTENT_STRING_TYPES` with `cm`:
                                  -- the fallback of `_all_strings` is `self.MAIN_CONTENT_STRING_TYPES`
deriving DecidableEq, Repr

/-- the attribute value `i` as it is seen on a tag whose class has `MAIN_CONTENT_STRING_TYPES = cm` -/
def Interesting.ofClass (cm : List StrClass) : Interesting → Interesting
  | .none => .noneOf cm
  | i => i

inductive Node where
  | str (cls : StrClass) (val : PStr)
  | tag (name : PStr) (interesting : Interesting) (kids : List Node)
deriving Repr

/-- the class test of both `_all_strings` (`my_type is not types` / `not in types`), `true` = the string passes -/
def Types.keeps : Types → StrClass → Bool
  | .all, _ => true
  | .one c, d => d == c
  | .many cs, d => cs.contains d

/-- `if types is self.default: …` on a Tag (first statement of `Tag._all_strings`). `main` = `Tag.MAIN_CONTENT_STRING_TYPES`. -/
def resolveTag (main : List StrClass) (i : Interesting) : TypesArg → Types
  | .dflt => match i with
    | .none => .many main
    | .one c => .one c
    | .many cs => .many cs
    | .noneOf cm => .many cm
  | .none => .all
  | .one c => .one c
  | .many cs => .many cs

/-- the same on a NavigableString: the default is always `Tag.MAIN_CONTENT_STRING_TYPES` -/
def resolveStr (main : List StrClass) : TypesArg → Types
  | .dflt => .many main
  | .none => .all
  | .one c => .one c
  | .many cs => .many cs

/-! ### `str.strip()` -/

/-- `Py_UNICODE_ISSPACE`, from the generated table -/
def isSpace (c : Nat) : Bool := BS.Gen.pyWhitespace.contains c

def lstrip (s : PStr) : PStr := s.dropWhile isSpace
def rstrip (s : PStr) : PStr := (s.reverse.dropWhile isSpace).reverse
/-- `str.strip()` without argument: drop the maximal whitespace prefix, then the maximal whitespace suffix -/
def strip (s : PStr) : PStr := rstrip (lstrip s)

/-- values a caller can pass as `strip` (tested by `if strip:`): only the truth value matters -/
inductive PyArg where
  | bool (b : Bool)
  | int (n : Int)
  | none
  | str (s : PStr)
deriving DecidableEq, Repr

/-- Python truthiness -/
def PyArg.truthy : PyArg → Bool
  | .bool b => b
  | .int n => n != 0
  | .none => false
  | .str s => !s.isEmpty

/-! ### the walk over `descendants` -/

mutual
def sizeN : Node → Nat
  | .str _ _ => 1
  | .tag _ _ ks => 1 + sizeL ks
def sizeL : List Node → Nat
  | [] => 0
  | k :: ks => sizeN k + sizeL ks
end

def kidsOf : Node → List Node
  | .str _ _ => []
  | .tag _ _ ks => ks

theorem sizeL_append (a b : List Node) : sizeL (a ++ b) = sizeL a + sizeL b := by
  induction a with
  | nil => simp [sizeL]
  | cons k ks ih => simp [sizeL, ih, Nat.add_assoc]

theorem sizeN_eq (n : Node) : sizeN n = 1 + sizeL (kidsOf n) := by
  cases n <;> simp [sizeN, kidsOf, sizeL]

/-- `Tag.descendants` in worklist form: the head of the list is `current`; its successor
    `current.next_element` is its first child if it has one, else whatever was pending. Started on
    `self.contents`, it stops when the work below `self` is used up (`stopNode`). -/
def walk : List Node → List Node
  | [] => []
  | n :: rest => n :: walk (kidsOf n ++ rest)
termination_by l => sizeL l
decreasing_by
  simp only [sizeL, sizeL_append, sizeN_eq n]; omega

/-- body of the `for descendant in self.descendants` loop of `Tag._all_strings`: `none` = `continue` -/
def tagKeep (t : Types) (strp : Bool) : Node → Option PStr
  | .tag _ _ _ => none                          -- `if not isinstance(descendant, NavigableString): continue`
  | .str c v =>
    if !t.keeps c then none                      -- "We're not interested in strings of this type."
    else if strp then
      let stripped := strip v
      if stripped.length == 0 then none else some stripped
    else some v                                  -- yielded even when empty

/-- `Tag._all_strings` / `NavigableString._all_strings` -/
def allStringsImpl (main : List StrClass) (strp : Bool) (types : TypesArg) : Node → List PStr
  | .tag _ i kids => (walk kids).filterMap (tagKeep (resolveTag main i types) strp)
  | .str c v =>
    let t := resolveStr main types
    if !t.keeps c then []
    else
      let finalValue := if strp then strip v else v
      if finalValue.length > 0 then [finalValue] else []   -- `if len(final_value) > 0`: an empty string yields nothing

/-- `_all_strings(strip, types)` / `get_text(separator, strip, types)` with `strip` as passed: `if strip:` -/
def allStringsArg (main : List StrClass) (strp : PyArg) (types : TypesArg) (n : Node) : List PStr :=
  allStringsImpl main strp.truthy types n

/-! #### a one-shot iterator as `types` (recorded behaviour; the documented argument is a tuple)

`descendant_type not in types` on an iterator/generator *consumes* it: `in` advances up to and including the first
equal element, or to the end. The filter then depends on the order of the strings and is no longer a selection by
class. -/

/-- `c in it` for a one-shot iterator holding `it`: the answer and what is left of the iterator -/
def iterIn (c : StrClass) : List StrClass → Bool × List StrClass
  | [] => (false, [])
  | d :: ds => if d == c then (true, ds) else iterIn c ds

/-- the loop of `Tag._all_strings` when `types` is a one-shot iterator: the iterator state is threaded through -/
def iterWalk (strp : Bool) : List StrClass → List Node → List PStr
  | _, [] => []
  | it, .tag _ _ _ :: ns => iterWalk strp it ns
  | it, .str c v :: ns =>
    match iterIn c it with
    | (true, it') => (tagKeep .all strp (.str c v)).toList ++ iterWalk strp it' ns
    | (false, it') => iterWalk strp it' ns

def allStringsIterImpl (strp : Bool) (it : List StrClass) : Node → List PStr
  | .tag _ _ kids => iterWalk strp it (walk kids)
  | .str c v =>
    if (iterIn c it).1 then
      let finalValue := if strp then strip v else v
      if finalValue.length > 0 then [finalValue] else []
    else []

/-- `Tag.strings = property(_all_strings)`, `NavigableString.strings` -/
def stringsImpl (main : List StrClass) (n : Node) : List PStr := allStringsImpl main false .dflt n

/-- `PageElement.stripped_strings`: `for string in self._all_strings(True): yield string` -/
def strippedStringsImpl (main : List StrClass) (n : Node) : List PStr := allStringsImpl main true .dflt n

/-- `str.join` as the accumulation it performs: the separator goes before every piece but the first -/
def joinImpl (sep : PStr) : List PStr → PStr
  | [] => []
  | p :: ps => ps.foldl (fun acc q => acc ++ sep ++ q) p

/-- `PageElement.get_text`: `separator.join([s for s in self._all_strings(strip, types=types)])` -/
def getTextImpl (main : List StrClass) (sep : PStr) (strp : Bool) (types : TypesArg) (n : Node) : PStr :=
  joinImpl sep (allStringsImpl main strp types n)

/-- `text = property(get_text)` -/
def textImpl (main : List StrClass) (n : Node) : PStr := getTextImpl main [] false .dflt n

mutual
/-- `Tag.string` getter (a `while True` loop descending through only children; structural recursion is its functional
    form, the loop itself with its bound is `stringPropHeap` in Model/TextHeap.lean) and `NavigableString.string`. The
    result is the string node itself (class and value). -/
def stringProp : Node → Option (StrClass × PStr)
  | .str c v => some (c, v)
  | .tag _ _ ks => stringPropL ks
/-- `if len(tag.contents) != 1: return None; child = tag.contents[0]; …` -/
def stringPropL : List Node → Option (StrClass × PStr)
  | [] => none
  | [k] => stringProp k
  | _ :: _ :: _ => none
end

/-! ### configuration: which strings a tag counts, which class parsed text gets -/

/-- `Tag.__init__` with a builder (`main` = `self.MAIN_CONTENT_STRING_TYPES`, i.e. that of the tag's own class — a `Tag`
    subclass installed through `element_classes` may override it): `{builder.string_containers[self.name]}` when the name is a
    string container, else `MAIN_CONTENT_STRING_TYPES` -/
def interestingFor (main : List StrClass) (containers : List (PStr × StrClass)) (name : PStr) : Interesting :=
  match containers.lookup name with
  | some c => .many [c]
  | none => .many main

/-- `BeautifulSoup.string_container(base_class)` (bs4/__init__.py). `elementClasses` = the
    `element_classes` mapping restricted to string classes, `stackTop` = name of `string_container_stack[-1]`
    (the innermost open string-container tag), `base` = the class the builder asked for (`None` for plain data). -/
def stringContainer (elementClasses : List (StrClass × StrClass)) (containers : List (PStr × StrClass))
    (stackTop : Option PStr) (base : Option StrClass) : StrClass :=
  let container := base.getD .navigableString
  let container := (elementClasses.lookup container).getD container
  match stackTop with
  | some name =>
    if container = .navigableString then (containers.lookup name).getD container else container
  | none => container

/-! ### configuration handling: the builder's option, `Tag.__init__` in full, `new_tag`, `copy_self` -/

/-- the `string_containers` keyword of `TreeBuilder.__init__` -/
inductive SCArg where
  | useDefault                                  -- not passed (`USE_DEFAULT`)
  | none                                        -- `None` (not a documented value)
  | dict (l : List (PStr × StrClass))           -- a dictionary (possibly empty)
deriving Repr

/-- `TreeBuilder.__init__` (builder/__init__.py: `if string_containers == self.USE_DEFAULT: string_containers =
    self.DEFAULT_STRING_CONTAINERS; self.string_containers = string_containers`). `dflt` = the class attribute
    `DEFAULT_STRING_CONTAINERS` of the builder class; `None` is stored as it is. -/
def builderStringContainers (dflt : List (PStr × StrClass)) : SCArg → Option (List (PStr × StrClass))
  | .useDefault => some dflt
  | .none => Option.none
  | .dict l => some l

/-- outcome of `Tag.__init__` as far as `interesting_string_types` goes -/
inductive InitResult where
  | ok (i : Interesting)
  | typeError                 -- `self.name in builder.string_containers` with `string_containers=None`
deriving DecidableEq, Repr

/-- `Tag.__init__` (element.py: `if builder is None: … self.interesting_string_types = interesting_string_types` /
    `else: … if self.name in builder.string_containers: … else: …`). `builder` = `none` for a builder-less tag,
    `some sc` for a builder whose `string_containers` attribute is `sc`; `param` = the `interesting_string_types`
    argument (default `None`), which is **ignored** when a builder is given. -/
def tagInitInteresting (main : List StrClass) (builder : Option (Option (List (PStr × StrClass)))) (name : PStr)
    (param : Interesting) : InitResult :=
  match builder with
  | Option.none => .ok param
  | some Option.none => .typeError
  | some (some cont) => .ok (interestingFor main cont name)

/-- a builder *object* as `Tag.__init__` receives it: its `string_containers` attribute and its truth value (a builder class
    may define `__len__`/`__bool__`; a reusable builder counting its documents is falsy during the first one) -/
structure BuilderObj where
  sc : Option (List (PStr × StrClass))
  truthy : Bool

/-- `Tag.__init__` with the builder argument as an object or `None`: the branch is chosen by `builder is None` — identity,
    never the truth value of the object -/
def tagInitInterestingObj (main : List StrClass) (builder : Option BuilderObj) (name : PStr) (param : Interesting) : InitResult :=
  tagInitInteresting main (builder.map (·.sc)) name param

/-- `BeautifulSoup.__getstate__`/`__setstate__`: the builder object is pickled with the document when it is
    `picklable` (html.parser); otherwise only its class is kept and `__setstate__` instantiates it with default
    arguments, i.e. with the class's `DEFAULT_STRING_CONTAINERS` (`dflt`). `__setstate__` replaces the builder by a fresh
    `HTMLParserTreeBuilder()` (default table `htmlDflt`) only when it `is None` (repaired, ca31e7d) — the truth value of
    the restored object does not matter. The tree is then re-parsed with the resulting builder. -/
def pickledStringContainersObj (picklable : Bool) (dflt _htmlDflt : List (PStr × StrClass)) (b : BuilderObj) :
    Option (List (PStr × StrClass)) :=
  if picklable then b.sc else builderStringContainers dflt .useDefault

/-- the code before ca31e7d: `elif not self.builder:` — a FALSY builder object was replaced by the default one -/
def pickledStringContainersObjOld (picklable : Bool) (dflt htmlDflt : List (PStr × StrClass)) (b : BuilderObj) :
    Option (List (PStr × StrClass)) :=
  if picklable then (if b.truthy then b.sc else builderStringContainers htmlDflt .useDefault)
  else builderStringContainers dflt .useDefault

/-- the same for an ordinary (truthy) builder object -/
def pickledStringContainers (picklable : Bool) (dflt : List (PStr × StrClass)) (sc : Option (List (PStr × StrClass))) :
    Option (List (PStr × StrClass)) :=
  pickledStringContainersObj picklable dflt dflt ⟨sc, true⟩

/-- `BeautifulSoup.new_tag(name)`: `Tag(None, self.builder, name, …)` -/
def newTagInteresting (main : List StrClass) (sc : Option (List (PStr × StrClass))) (name : PStr) : InitResult :=
  tagInitInteresting main (some sc) name .none

/-- `Tag.copy_self`: `type(self)(None, None, self.name, …, interesting_string_types=self.interesting_string_types)` -/
def copySelfInteresting (main : List StrClass) (name : PStr) (i : Interesting) : InitResult :=
  tagInitInteresting main Option.none name i

/-- `BeautifulSoup.copy_self` (bs4/__init__.py): `type(self)("", None, self.builder)` — a new root made from the same
    builder; an `interesting_string_types` set by hand on the original root object is not carried over -/
def soupCopySelfInteresting (main : List StrClass) (sc : Option (List (PStr × StrClass))) (root : PStr)
    (_original : Interesting) : InitResult :=
  tagInitInteresting main (some sc) root .none

mutual
/-- `Tag.__copy__`/`__deepcopy__` as far as text extraction can see: every tag through `copy_self`, every string
    through `type(self)(self)` (same class, same value), children in the same order -/
def copyNode (main : List StrClass) : Node → Node
  | .str c v => .str c v
  | .tag n i ks =>
    match copySelfInteresting main n i with
    | .ok j => .tag n j (copyNodeL main ks)
    | .typeError => .tag n .none (copyNodeL main ks)
def copyNodeL (main : List StrClass) : List Node → List Node
  | [] => []
  | k :: ks => copyNode main k :: copyNodeL main ks
end

/-- `string_container_stack` maintenance (bs4/__init__.py `pushTag`: `if tag.name in self.builder.string_containers:
    self.string_container_stack.append(tag)`; `popTag`: `if self.string_container_stack and tag ==
    self.string_container_stack[-1]: pop()`), on the list of open elements (innermost first, each with a flag
    "is on the container stack") — the full parser is C03's machine (Model/Builder.lean); this is the part
    `string_container()` reads. -/
def containerStackTop (cont : List (PStr × StrClass)) (openNames : List PStr) : Option PStr :=
  openNames.find? (fun n => (cont.lookup n).isSome)

/-- numbering shared with C03's builder machine (`Cls`): 0 = NavigableString ("no class of its own") -/
def StrClass.code : StrClass → Nat
  | .navigableString => 0 | .preformattedString => 1 | .cData => 2 | .processingInstruction => 3
  | .xMLProcessingInstruction => 4 | .comment => 5 | .declaration => 6 | .doctype => 7 | .stylesheet => 8
  | .script => 9 | .templateString => 10 | .rubyTextString => 11 | .rubyParenthesisString => 12
  | .other k => 13 + k

def StrClass.ofCode : Nat → StrClass
  | 0 => .navigableString | 1 => .preformattedString | 2 => .cData | 3 => .processingInstruction
  | 4 => .xMLProcessingInstruction | 5 => .comment | 6 => .declaration | 7 => .doctype | 8 => .stylesheet
  | 9 => .script | 10 => .templateString | 11 => .rubyTextString | 12 => .rubyParenthesisString
  | k + 13 => .other k

/-! ### spec: the recursive evaluator -/

mutual
/-- the strings at or beneath a node, in document order, whose class satisfies `sel` -/
def textOf (sel : StrClass → Bool) : Node → List PStr
  | .str c v => if sel c then [v] else []
  | .tag _ _ ks => textOfL sel ks
def textOfL (sel : StrClass → Bool) : List Node → List PStr
  | [] => []
  | k :: ks => textOf sel k ++ textOfL sel ks
end

mutual
/-- every string node at or beneath a node, in document order, whatever its class -/
def strNodes : Node → List (StrClass × PStr)
  | .str c v => [(c, v)]
  | .tag _ _ ks => strNodesL ks
def strNodesL : List Node → List (StrClass × PStr)
  | [] => []
  | k :: ks => strNodes k ++ strNodesL ks
end

/-- the documented meaning of `separator.join` -/
def joinSpec (sep : PStr) : List PStr → PStr
  | [] => []
  | [p] => p
  | p :: q :: r => p ++ sep ++ joinSpec sep (q :: r)

mutual
/-- the tree without the string nodes whose class fails `keep` -/
def prune (keep : StrClass → Bool) : Node → List Node
  | .str c v => if keep c then [.str c v] else []
  | .tag n i ks => [.tag n i (pruneL keep ks)]
def pruneL (keep : StrClass → Bool) : List Node → List Node
  | [] => []
  | k :: ks => prune keep k ++ pruneL keep ks
end

mutual
/-- a string node of class `c` and value `v` occurs at or beneath the node -/
inductive Occurs : Node → StrClass → PStr → Prop
  | here (c v) : Occurs (.str c v) c v
  | inTag {n i ks c v} : OccursL ks c v → Occurs (.tag n i ks) c v
inductive OccursL : List Node → StrClass → PStr → Prop
  | head {k ks c v} : Occurs k c v → OccursL (k :: ks) c v
  | tail {k ks c v} : OccursL ks c v → OccursL (k :: ks) c v
end

/-- the string node `(c, v)` is reached from the node through a chain of only children -/
inductive SoleChain : Node → StrClass → PStr → Prop
  | here (c v) : SoleChain (.str c v) c v
  | down {n i k c v} : SoleChain k c v → SoleChain (.tag n i [k]) c v

end BS.Text
