import BSModel.Model.Text
import BSModel.Model.Heap
import BSModel.Model.Builder
/-! C13 on the pointer heap — `Tag._all_strings` / `get_text` / `.string` as they really run: over
    `Tag.descendants` (the `next_element` chase of Model/Heap.lean, element.py `descendants` + `_last_descendant`)
    and over `contents`, on the heap every editing call and the parser write to.

    The heap of Model/Heap.lean records for a node only whether it is a tag, a string or a preformatted string; the
    string *class* and the tags' `interesting_string_types` are carried here by a labelling `Labels` (they are
    attributes no editing call ever writes). `toNode` is the abstraction to the tree type of Model/Text.lean. -/
namespace BS.Text
open BS.Heap

/-- per-object attributes the heap does not hold: `type(string)`, `tag.interesting_string_types`, `tag.name` -/
structure Labels where
  cls : Nat → StrClass
  interesting : Nat → Interesting
  name : Nat → PStr

/-- what the loop body of `_all_strings` can see of one descendant: its kind, class and value (not its children) -/
def shallow (h : Heap) (L : Labels) (e : Nat) : Node :=
  if (h.kind e).isTag then .tag (L.name e) (L.interesting e) [] else .str (L.cls e) (h.val e)

/-- `Tag._all_strings` / `NavigableString._all_strings` on the heap: `for descendant in self.descendants` is the
    pointer chase `Heap.descendants` (which can fail on an inconsistent heap: `Err`), the loop body is `tagKeep`. -/
def allStringsHeap (main : List StrClass) (h : Heap) (L : Labels) (strp : Bool) (types : TypesArg) (x : Nat) :
    Except Err (List PStr) :=
  if (h.kind x).isTag then
    match descendants h x with
    | .error e => .error e
    | .ok ds => .ok (ds.filterMap (fun e => tagKeep (resolveTag main (L.interesting x) types) strp (shallow h L e)))
  else .ok (allStringsImpl main strp types (.str (L.cls x) (h.val x)))

/-! ### the generator protocol: iteration interleaved with edits by the consumer

`.strings` hands out the live string objects one at a time; between two `next()` calls the consumer may edit the tree —
typically the string it was just given (`s.replace_with(…)`, `s.extract()`, …). `Tag.descendants` is written so that
this does not end the iteration: `successor = current.next_element` is read **before** `yield current`, and the stop
node is fixed when the iteration starts. -/

/-- the local variables of the generator `Tag.descendants` between two `next()` calls -/
structure GenSt where
  current : Option Nat
  stop : Option Nat

/-- the statements of `Tag.descendants` before its loop; `none` = the generator returns at once (no contents) -/
def genStart (h : Heap) (t : Nat) : Except Err (Option GenSt) :=
  match (h.kids t).head? with
  | none => .ok none
  | some first =>
    match lastDescendant h t true with
    | .error e => .error e
    | .ok last => .ok (some { current := some first, stop := h.ne last })

/-- one turn of `while current is not stopNode and current is not None: successor = current.next_element; yield current;
    current = successor` — the successor is read from the heap as it is *before* the consumer gets the element -/
def genNext (h : Heap) (st : GenSt) : Option (Nat × GenSt) :=
  match st.current with
  | none => none
  | some c => if some c = st.stop then none else some (c, { st with current := h.ne c })

/-- `for s in tag._all_strings(False, types): <consumer edits the tree>`: `keep` is the loop body's filter, `edit h k s` the
    editing call the consumer makes on the `k`-th string handed out (`none` = it only looks). Result: the strings handed
    out, in order, and the final heap. `f` bounds the number of `next()` turns. -/
def stringsIterEdit (keep : Heap → Nat → Bool) (edit : Heap → Nat → Nat → Option Op) :
    Nat → Heap → GenSt → Nat → Except Err (List Nat × Heap)
  | 0, h, _, _ => .ok ([], h)
  | f + 1, h, st, k =>
    match genNext h st with
    | none => .ok ([], h)
    | some (c, st') =>
      if keep h c then
        match edit h k c with
        | none =>
          match stringsIterEdit keep edit f h st' (k + 1) with
          | .error e => .error e
          | .ok (l, h') => .ok (c :: l, h')
        | some op =>
          match step h op with
          | .error e => .error e
          | .ok h1 =>
            match stringsIterEdit keep edit f h1 st' (k + 1) with
            | .error e => .error e
            | .ok (l, h') => .ok (c :: l, h')
      else stringsIterEdit keep edit f h st' k

/-- the elements the generator hands out when nobody edits the tree in between (`f` bounds the number of turns) -/
def genList (h : Heap) : Nat → GenSt → List Nat
  | 0, _ => []
  | f + 1, st =>
    match genNext h st with
    | none => []
    | some (c, st') => c :: genList h f st'

/-- the filter of `Tag._all_strings(False, types)` on receiver `x` -/
def heapKeeps (main : List StrClass) (L : Labels) (types : TypesArg) (x : Nat) (h : Heap) (e : Nat) : Bool :=
  (tagKeep (resolveTag main (L.interesting x) types) false (shallow h L e)).isSome

/-- the whole interleaved iteration on a tag -/
def stringsIterEditFrom (main : List StrClass) (L : Labels) (types : TypesArg) (edit : Heap → Nat → Nat → Option Op)
    (fuel : Nat) (h : Heap) (x : Nat) : Except Err (List Nat × Heap) :=
  match genStart h x with
  | .error e => .error e
  | .ok none => .ok ([], h)
  | .ok (some st) => stringsIterEdit (heapKeeps main L types x) edit fuel h st 0

/-- `PageElement.get_text` on the heap -/
def getTextHeap (main : List StrClass) (h : Heap) (L : Labels) (sep : PStr) (strp : Bool) (types : TypesArg) (x : Nat) :
    Except Err PStr :=
  match allStringsHeap main h L strp types x with
  | .error e => .error e
  | .ok l => .ok (joinImpl sep l)

/-- `Tag.string` getter (element.py, the `while True` loop over `tag.contents`) and `NavigableString.string`:
    the result is the string *object* (its id). `f` bounds the number of loop iterations (ghost fuel, `h.cap`). -/
def stringPropHeap (h : Heap) : Nat → Nat → Option Nat
  | f, n =>
    if !(h.kind n).isTag then some n
    else match f with
      | 0 => none
      | f + 1 =>
        match h.kids n with
        | [k] => stringPropHeap h f k      -- a sole child: a string is returned, a tag is descended into
        | _ => none                         -- `if len(tag.contents) != 1: return None`

/-- the tree beneath a node, read off the children lists (`f` bounds the depth) -/
def toNode (h : Heap) (L : Labels) : Nat → Nat → Node
  | 0, n => shallow h L n
  | f + 1, n =>
    if (h.kind n).isTag then .tag (L.name n) (L.interesting n) ((h.kids n).map (toNode h L f))
    else .str (L.cls n) (h.val n)

/-- the string object `s` is reached from `n` through a chain of only children (on the heap) -/
inductive HeapSoleChain (h : Heap) : Nat → Nat → Prop
  | here {s} : (h.kind s).isTag = false → HeapSoleChain h s s
  | down {n k s} : (h.kind n).isTag = true → h.kids n = [k] → HeapSoleChain h k s → HeapSoleChain h n s

/-- the configuration C03's builder machine (Model/Builder.lean: `pushTag`/`popTag` with both context stacks,
    `_popToTag`, `endData`, `string_container`) sees for a `string_containers` table; string classes travel as
    `StrClass.code` (0 = NavigableString) -/
def builderCfg (cont : List (PStr × StrClass)) (preserve : BS.Builder.Name → Bool) (ascii : List Nat)
    (root : BS.Builder.Name) : BS.Builder.Cfg :=
  { preserve := preserve, container := fun n => (cont.lookup n).map StrClass.code, asciiSpaces := ascii, rootName := root }

end BS.Text
