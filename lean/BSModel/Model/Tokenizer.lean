import BSModel.Gen.TextWs
import BSModel.Model.SourcePos
/-! # CPython's `html.parser.HTMLParser` tokenizer (3.12), as bs4 drives it

bs4 constructs the parser with `convert_charrefs=False` (`bs4/builder/_htmlparser.py:385`), calls `feed(markup)`
once and then `close()` (`_htmlparser.py:478-479`), and turns `AssertionError`/`ValueError` into
`ParserRejectedMarkup` (480-487). This file mirrors `html/parser.py` (CPython 3.12.1) and the parts of
`_markupbase.py` it reaches: `goahead` (parser.py:134-251), `parse_html_declaration` (256-273),
`parse_bogus_comment` (277-286), `parse_pi` (289-298), `parse_starttag` (301-341),
`check_for_whole_start_tag` (345-376), `parse_endtag` (379-416), `set_cdata_mode`/`clear_cdata_mode` (123-129),
`_markupbase.updatepos` (44-55, = `BS.SourcePos.updatepos`), `parse_marked_section` (141-162),
`parse_comment` (165-175), `_scan_name` (376-392). `parse_declaration` and the `_parse_doctype_*` family are not
reachable from `html.parser` (it overrides the declaration path with `parse_html_declaration`).

**Representation.** Python walks `rawdata` with absolute indices `i, j, k`. The model walks the *remaining
suffix* `s = rawdata[i:]`; every Python index is an offset into that suffix, every `updatepos(i, k)` consumes the
chunk `s.take k`, and the loop continues on `s.drop k`. Each consumed chunk is emitted together with the callback
it produced (`Ev.src`), so spans are explicit. `feed` leaves `rawdata = rawdata[i:]` for `close()`: that is the
suffix the state carries. Three stretches of input produce NO callback in CPython and appear as `Tok.skip`:
`</>` (parser.py:395-396), the `&` of an incomplete reference that is the whole rest at `close()`
(parser.py:228-232), and - not as an event but as an unconsumed rest - everything after an unterminated
`<script>`/`<style>` (parser.py:158-159, 245).

**Parameters** (standard-library functions the model does not look into): `unescape = html.unescape`
(attribute values, parser.py:326) and `lower = str.lower` (tag and attribute names, parser.py:314, 327, 399, 408).

**Regular expressions** are fixed patterns; each has a hand-written matcher below that returns lengths
relative to the suffix it is given. `\s` is `str.isspace` (`BS.Gen.pyWhitespace`, generated).

**Errors.** `Flag.err` (the driver's `error`; bs4 turns it into `ParserRejectedMarkup`) stands for the `AssertionError`s
the 3.12 code can raise on this path: `_scan_name`'s "expected name token" (`_markupbase.py:389-392`, reached from
`parse_marked_section` for `<![` followed by something that is neither a letter nor the end of input) and
`parse_marked_section`'s "unknown status keyword" (`_markupbase.py:153-156`, `<![foo…`). The other assertions are
mirrored but cannot fire: `assert match` in `parse_starttag` (parser.py:312, `tagFind` after `starttagopen` matched),
`assert 0, "interesting.search() lied"` (parser.py:243), the `assert rawdata[i:i+2] == …` guards of the `parse_*`
functions (their callers have just tested it), `raise AssertionError("we should not get here!")` (parser.py:376:
`locatestarttagend_tolerant` always matches after `<[a-zA-Z]`). No `ValueError` arises in the tokenizer itself with
`convert_charrefs=False` (bs4's `handle_charref` can raise one; that is the adapter's business, C04/C06).
Not modelled because unobservable through the callbacks: `lasttag`, `get_starttag_text()`; the `convert_charrefs=True`
branches of `goahead` are never taken.

**Loops** use fuel; running out of fuel (or the one arithmetic dead end of `parse_endtag`, see `Act.stuck`) is an
explicit outcome `Flag.stuck`, proved unreachable in `Proofs/TokenizerTerm.lean`. Core Lean only. -/
namespace BS.Tokenizer
open BS.SourcePos

/-! ### character classes -/
def isWs (c : Nat) : Bool := BS.Gen.pyWhitespace.contains c                     -- `\s`, `str.strip()`
def isUpper (c : Nat) : Bool := 65 ≤ c && c ≤ 90
def isAlpha (c : Nat) : Bool := (65 ≤ c && c ≤ 90) || (97 ≤ c && c ≤ 122)      -- `[a-zA-Z]`
def isDigit (c : Nat) : Bool := 48 ≤ c && c ≤ 57                                -- `[0-9]`
def isHex (c : Nat) : Bool := isDigit c || (65 ≤ c && c ≤ 70) || (97 ≤ c && c ≤ 102)   -- `[0-9a-fA-F]`
def isAlnum (c : Nat) : Bool := isAlpha c || isDigit c                          -- `[a-zA-Z0-9]`
/-- `[-.a-zA-Z0-9]` (entityref name tail) -/
def isEntCh (c : Nat) : Bool := isAlnum c || c == 45 || c == 46
/-- `[-.a-zA-Z0-9:_]` (endtagfind name tail) -/
def isEndNameCh (c : Nat) : Bool := isAlnum c || c == 45 || c == 46 || c == 58 || c == 95
/-- `[-_.a-zA-Z0-9]` (`_declname_match` tail) -/
def isDeclNameCh (c : Nat) : Bool := isAlnum c || c == 45 || c == 46 || c == 95
/-- `[^\t\n\r\f />\x00]` (tag name tail) -/
def isTagNameCh (c : Nat) : Bool :=
  !(c == 9 || c == 10 || c == 13 || c == 12 || c == 32 || c == 47 || c == 62 || c == 0)
/-- `[^\s/>]` (first character of an attribute name) -/
def isAttrFirst (c : Nat) : Bool := !(isWs c || c == 47 || c == 62)
/-- `[^\s/=>]` (rest of an attribute name) -/
def isAttrRest (c : Nat) : Bool := !(isWs c || c == 47 || c == 61 || c == 62)
/-- `[^>\s]` (bare attribute value) -/
def isBare (c : Nat) : Bool := !(c == 62 || isWs c)
/-- `[\s/]` -/
def isWsSlash (c : Nat) : Bool := isWs c || c == 47
/-- `(?<=['"\s/])` -/
def isLookbehind (c : Nat) : Bool := c == 39 || c == 34 || isWs c || c == 47
/-- `[&<]` negated: not interesting in normal mode -/
def isPlain (c : Nat) : Bool := !(c == 38 || c == 60)

def asciiLowerC (c : Nat) : Nat := if isUpper c then c + 32 else c
/-- `str.lower` restricted to ASCII strings (declaration names, the `<!doctype` test) -/
def asciiLower (s : PStr) : PStr := s.map asciiLowerC

/-- one pattern letter under `re.I` on a `str` pattern: the ASCII letter in either case, plus the two extra
    equivalences of CPython's case-insensitive matching that touch the letters of `script`/`style`
    (`s ~ U+017F`, `i ~ U+0130, U+0131`); checked against `re` over all code points by the harness -/
def ciEq (p c : Nat) : Bool :=
  asciiLowerC c == p || (p == 115 && c == 383) || (p == 105 && (c == 304 || c == 305))

/-! ### scanning primitives (all lengths relative to the given suffix) -/

/-- length of the longest prefix whose characters all satisfy `p` (a greedy `[...]*`) -/
def spanLen (p : Nat → Bool) : PStr → Nat
  | [] => 0
  | c :: t => if p c then spanLen p t + 1 else 0

/-- `str.find(c)`: index of the first `c` -/
def findCh (c : Nat) : PStr → Option Nat
  | [] => none
  | x :: t => if x == c then some 0 else (findCh c t).map (· + 1)

/-- `pattern.search`: first offset at which the anchored matcher `m` succeeds, with the match length -/
def search (m : PStr → Option Nat) : PStr → Option (Nat × Nat)
  | [] => (m []).map fun l => (0, l)
  | c :: t =>
    match m (c :: t) with
    | some l => some (0, l)
    | none => (search m t).map fun r => (r.1 + 1, r.2)

/-- `s.startswith(p)` -/
def sw (p s : PStr) : Bool := s.take p.length == p

/-- `s.strip()` -/
def strip (s : PStr) : PStr := ((s.dropWhile isWs).reverse.dropWhile isWs).reverse

/-- case-insensitive literal prefix (`re.I`) -/
def ciPrefix : PStr → PStr → Bool
  | [], _ => true
  | _ :: _, [] => false
  | p :: ps, c :: cs => ciEq p c && ciPrefix ps cs

/-! ### the fixed patterns -/

/-- `commentclose = --\s*>` anchored: match length -/
def mCommentClose (s : PStr) : Option Nat :=
  if sw [45, 45] s then
    let w := spanLen isWs (s.drop 2)
    if (s.drop (2 + w)).head? == some 62 then some (2 + w + 1) else none
  else none

/-- `_markedsectionclose = ]\s*]\s*>` anchored -/
def mMarkedClose (s : PStr) : Option Nat :=
  if s.head? == some 93 then
    let w1 := spanLen isWs (s.drop 1)
    if (s.drop (1 + w1)).head? == some 93 then
      let w2 := spanLen isWs (s.drop (1 + w1 + 1))
      if (s.drop (1 + w1 + 1 + w2)).head? == some 62 then some (1 + w1 + 1 + w2 + 1) else none
    else none
  else none

/-- `_msmarkedsectionclose = ]\s*>` anchored -/
def mMsMarkedClose (s : PStr) : Option Nat :=
  if s.head? == some 93 then
    let w := spanLen isWs (s.drop 1)
    if (s.drop (1 + w)).head? == some 62 then some (1 + w + 1) else none
  else none

/-- `interesting` in CDATA mode (parser.py:125): `</\s*ELEM\s*>` with `re.I`, anchored -/
def mCdataClose (elem : PStr) (s : PStr) : Option Nat :=
  if sw [60, 47] s then
    let w1 := spanLen isWs (s.drop 2)
    let t := s.drop (2 + w1)
    if ciPrefix elem t then
      let w2 := spanLen isWs (t.drop elem.length)
      if (t.drop (elem.length + w2)).head? == some 62 then some (2 + w1 + elem.length + w2 + 1) else none
    else none
  else none

/-- `(?:\s|/(?!>))*`: whitespace, and slashes not followed by `>` -/
def wsSlashLen : PStr → Nat
  | [] => 0
  | c :: t =>
    if isWs c then wsSlashLen t + 1
    else if c == 47 && t.head? != some 62 then wsSlashLen t + 1
    else 0

/-- `tagfind_tolerant = ([a-zA-Z][^\t\n\r\f />\x00]*)(?:\s|/(?!>))*` anchored: (group 1, match length) -/
def tagFind (t : PStr) : Option (PStr × Nat) :=
  match t with
  | c :: t' =>
    if isAlpha c then
      let nl := spanLen isTagNameCh t'
      some (c :: t'.take nl, 1 + nl + wsSlashLen (t'.drop nl))
    else none
  | [] => none

/-- `endtagfind = </\s*([a-zA-Z][-.a-zA-Z0-9:_]*)\s*>` anchored: group 1 (the character classes are pairwise
    disjoint from what follows them, so the greedy choice is the only one) -/
def endTagFind (s : PStr) : Option PStr :=
  if sw [60, 47] s then
    let w1 := spanLen isWs (s.drop 2)
    match s.drop (2 + w1) with
    | c :: t =>
      if isAlpha c then
        let nl := spanLen isEndNameCh t
        let w2 := spanLen isWs (t.drop nl)
        if (t.drop (nl + w2)).head? == some 62 then some (c :: t.take nl) else none
      else none
    | [] => none
  else none

/-- the optional value part of an attribute, `\s*=+\s*('[^']*'|"[^"]*"|(?!['"])[^>\s]*)`, anchored after the
    attribute name: `(offset of the value, length of the value)`; the group ends where the value ends.
    The only place where the backtracking of `re` shows: an opening quote without a partner makes the quoted
    alternatives fail and the bare alternative is barred by `(?!['"])`; `re` then gives back one whitespace
    character (bare value empty, before that whitespace), else one `=` (bare value starts at the last `=`),
    else the group fails. -/
def valueGroup (r : PStr) : Option (Nat × Nat) :=
  let a := spanLen isWs r
  let b := spanLen (· == 61) (r.drop a)
  if b = 0 then none else
  let c := spanLen isWs (r.drop (a + b))
  let r3 := r.drop (a + b + c)
  match r3 with
  | [] => some (a + b + c, 0)
  | q :: r4 =>
    if q == 39 || q == 34 then
      match findCh q r4 with
      | some g => some (a + b + c, g + 2)
      | none =>
        if 0 < c then some (a + b + c - 1, 0)
        else if 1 < b then some (a + b - 1, 1 + spanLen isBare r3)
        else none
    else some (a + b + c, spanLen isBare r3)

/-- `attrfind_tolerant = ((?<=['"\s/])[^\s/>][^\s/=>]*)(\s*=+\s*(…))?(?:\s|/(?!>))*` anchored at a position whose
    preceding character is `prev`: (group 1, group 3 or `none` when group 2 did not take part, match length).
    One iteration of the attribute loop of `locatestarttagend_tolerant` consumes exactly the same characters
    (its extra `\s*` after the value is swallowed by the `(?:\s|/(?!>))*` that follows). -/
def attrFind (prev : Nat) (t : PStr) : Option (PStr × Option PStr × Nat) :=
  if isLookbehind prev then
    match t with
    | c :: t' =>
      if isAttrFirst c then
        let nl := spanLen isAttrRest t'
        let r := t'.drop nl
        match valueGroup r with
        | some (vs, vl) =>
          some (c :: t'.take nl, some ((r.drop vs).take vl), 1 + nl + (vs + vl) + wsSlashLen (r.drop (vs + vl)))
        | none => some (c :: t'.take nl, none, 1 + nl + wsSlashLen r)
      else none
    | [] => none
  else none

/-- last character of the first `l` characters of `t` (the character before offset `l`), `d` when `l = 0` -/
def charBefore (d : Nat) (t : PStr) (l : Nat) : Nat := (t.take l).getLast?.getD d

/-- the `( attribute )*` loop of `locatestarttagend_tolerant`: total length; `none` = out of fuel -/
def locAttrs : Nat → Nat → PStr → Option Nat
  | 0, _, _ => none
  | f + 1, prev, t =>
    match attrFind prev t with
    | none => some 0
    | some (_, _, l) => (locAttrs f (charBefore prev t l) (t.drop l)).map (l + ·)

/-- `locatestarttagend_tolerant.match(rawdata, i).end()` for a suffix that starts with `<` and a letter
    (parser.py:40-54); every part after the name is optional, so the match always succeeds -/
def locateStartTagEnd (s : PStr) : Option Nat :=
  let nl := spanLen isTagNameCh (s.drop 2)                       -- `<[a-zA-Z][^\t\n\r\f />\x00]*`
  let a := spanLen isWsSlash (s.drop (2 + nl))                   -- `[\s/]*`
  let p := 2 + nl + a
  match locAttrs (s.length + 1) (charBefore 0 s p) (s.drop p) with
  | none => none
  | some l => some (p + l + spanLen isWs (s.drop (p + l)))       -- trailing `\s*`

/-! ### results of the `parse_*` functions -/

/-- the callbacks (`skip`: input consumed without any callback) -/
inductive Tok where
  | st (name : PStr) (attrs : List (PStr × Option PStr))
  | se (name : PStr) (attrs : List (PStr × Option PStr))
  | et (name : PStr)
  | data (s : PStr)
  | cr (s : PStr)
  | er (s : PStr)
  | cm (s : PStr)
  | dl (s : PStr)
  | ud (s : PStr)
  | pi (s : PStr)
  | skip
deriving Repr, DecidableEq

/-- outcome of a `parse_*` call on the suffix that starts at its `i` -/
inductive PR where
  | incomplete                                           -- returns -1
  | err                                                  -- raises AssertionError
  | stuck                                                -- out of fuel / arithmetic dead end (proved unreachable)
  | ok (tok : Tok) (len : Nat) (cd : Option PStr)        -- callback, returned index (relative), `cdata_elem` afterwards
deriving Repr, DecidableEq

structure Params where
  unescape : PStr → PStr
  lower : PStr → PStr

/-- `check_for_whole_start_tag` (parser.py:345-376): `none` = -1 -/
def checkWholeStartTag (s : PStr) : Option (Option Nat) :=
  match locateStartTagEnd s with
  | none => none                                                       -- out of fuel
  | some j =>
    some <|
    match (s.drop j).head? with
    | none => none                                                     -- 364: end of input
    | some nx =>
      if nx == 62 then some (j + 1)                                    -- 351
      else if nx == 47 then
        if sw [47, 62] (s.drop j) then some (j + 2) else none           -- 353-358 (`startswith("/", j)` is then true)
      else if isAlpha nx || nx == 61 || nx == 47 then none              -- 367-371
      else if j > 0 then some j else some 1                             -- 372-375

/-- attribute value post-processing (parser.py:320-326) -/
def attrValue (P : Params) (v : Option PStr) : Option PStr :=
  match v with
  | none => none                                                        -- `if not rest: attrvalue = None`
  | some v =>
    let v := if (v.head? == some 39 && v.getLast? == some 39) || (v.head? == some 34 && v.getLast? == some 34)
             then (v.drop 1).dropLast else v
    some (if v.isEmpty then v else P.unescape v)

/-- the `while k < endpos` loop of `parse_starttag` (parser.py:315-328): (attrs, final k); `none` = out of fuel -/
def attrLoop (P : Params) (s : PStr) (endpos : Nat) :
    Nat → Nat → List (PStr × Option PStr) → Option (List (PStr × Option PStr) × Nat)
  | 0, _, _ => none
  | f + 1, k, acc =>
    if k < endpos then
      match attrFind (charBefore 0 s k) (s.drop k) with
      | none => some (acc, k)
      | some (name, v, l) => attrLoop P s endpos f (k + l) (acc ++ [(P.lower name, attrValue P v)])
    else some (acc, k)

def cdataContentElements : List PStr := [[115, 99, 114, 105, 112, 116], [115, 116, 121, 108, 101]]   -- ("script", "style")

/-- `parse_starttag` (parser.py:301-341) -/
def parseStartTag (P : Params) (cd : Option PStr) (s : PStr) : PR :=
  match checkWholeStartTag s with
  | none => .stuck
  | some none => .incomplete
  | some (some endpos) =>
    match tagFind (s.drop 1) with
    | none => .err                                                     -- `assert match` (unreachable)
    | some (name, kl) =>
      let tag := P.lower name
      match attrLoop P s endpos (s.length + 1) (1 + kl) [] with
      | none => .stuck
      | some (attrs, k) =>
        let e := strip ((s.take endpos).drop k)                         -- `rawdata[k:endpos].strip()`
        if e == [62] then
          .ok (.st tag attrs) endpos (if cdataContentElements.contains tag then some tag else cd)
        else if e == [47, 62] then .ok (.se tag attrs) endpos cd
        else .ok (.data (s.take endpos)) endpos cd                      -- 331-333

/-- `parse_bogus_comment` (parser.py:277-286) on a suffix starting with `<!` or `</` -/
def parseBogusComment (cd : Option PStr) (s : PStr) : PR :=
  match findCh 62 (s.drop 2) with
  | none => .incomplete
  | some p => .ok (.cm ((s.drop 2).take p)) (2 + p + 1) cd

/-- `parse_pi` (parser.py:289-298) -/
def parsePi (cd : Option PStr) (s : PStr) : PR :=
  match findCh 62 (s.drop 2) with
  | none => .incomplete
  | some p => .ok (.pi ((s.drop 2).take p)) (2 + p + 1) cd

/-- `_markupbase.parse_comment` (165-175) on a suffix starting with `<!--` -/
def parseComment (cd : Option PStr) (s : PStr) : PR :=
  match search mCommentClose (s.drop 4) with
  | none => .incomplete
  | some (p, l) => .ok (.cm ((s.drop 4).take p)) (4 + p + l) cd

inductive ScanName where
  | incomplete | err
  | ok (name : PStr) (len : Nat)

/-- `_markupbase._scan_name` (376-392): `_declname_match = [a-zA-Z][-_.a-zA-Z0-9]*\s*` on the suffix `t` -/
def scanName (t : PStr) : ScanName :=
  match t with
  | [] => .incomplete                                                   -- `if i == n`
  | c :: t' =>
    if isAlpha c then
      let nl := spanLen isDeclNameCh t'
      let w := spanLen isWs (t'.drop nl)
      if (t'.drop (nl + w)).isEmpty then .incomplete                    -- `(i + len(s)) == n`
      else .ok (asciiLower (c :: t'.take nl)) (1 + nl + w)              -- `name.strip().lower()`
    else .err                                                           -- "expected name token"

def sectStd : List PStr := [[116,101,109,112], [99,100,97,116,97], [105,103,110,111,114,101], [105,110,99,108,117,100,101], [114,99,100,97,116,97]]
def sectMs : List PStr := [[105,102], [101,108,115,101], [101,110,100,105,102]]

/-- `_markupbase.parse_marked_section` (141-162) on a suffix starting with `<![` -/
def parseMarkedSection (cd : Option PStr) (s : PStr) : PR :=
  match scanName (s.drop 3) with
  | .incomplete => .incomplete
  | .err => .err
  | .ok name _ =>
    if sectStd.contains name then
      match search mMarkedClose (s.drop 3) with
      | none => .incomplete
      | some (p, l) => .ok (.ud ((s.drop 3).take p)) (3 + p + l) cd
    else if sectMs.contains name then
      match search mMsMarkedClose (s.drop 3) with
      | none => .incomplete
      | some (p, l) => .ok (.ud ((s.drop 3).take p)) (3 + p + l) cd
    else .err                                                           -- "unknown status keyword"

/-- `parse_html_declaration` (parser.py:256-273) on a suffix starting with `<!` -/
def parseHtmlDeclaration (cd : Option PStr) (s : PStr) : PR :=
  if sw [60, 33, 45, 45] s then parseComment cd s
  else if sw [60, 33, 91] s then parseMarkedSection cd s
  else if asciiLower (s.take 9) == [60, 33, 100, 111, 99, 116, 121, 112, 101] then   -- `.lower() == '<!doctype'`
    match findCh 62 (s.drop 9) with
    | none => .incomplete
    | some g => .ok (.dl ((s.drop 2).take (7 + g))) (9 + g + 1) cd
  else parseBogusComment cd s

/-- `parse_endtag` (parser.py:379-416) on a suffix starting with `</` -/
def parseEndTag (P : Params) (cd : Option PStr) (s : PStr) : PR :=
  match findCh 62 (s.drop 1) with                                       -- `endendtag.search(rawdata, i+1)`
  | none => .incomplete
  | some g =>
    let gtpos := 1 + g + 1
    match endTagFind s with
    | none =>
      if cd.isSome then .ok (.data (s.take gtpos)) gtpos cd              -- 388-390
      else
        match tagFind (s.drop 2) with
        | none =>
          if s.take 3 == [60, 47, 62] then .ok .skip 3 cd                -- 395-396: `</>` vanishes
          else parseBogusComment cd s
        | some (name, nl) =>
          match findCh 62 (s.drop (2 + nl)) with                        -- 404
          | none => .stuck                                              -- `gtpos = -1`, would return 0 (unreachable)
          | some g2 => .ok (.et (P.lower name)) (2 + nl + g2 + 1) cd
    | some name =>
      let elem := P.lower name
      match cd with
      | some c => if elem != c then .ok (.data (s.take gtpos)) gtpos cd  -- 409-412
                  else .ok (.et elem) gtpos none
      | none => .ok (.et elem) gtpos none                                -- 414-416 `clear_cdata_mode`

/-! ### charref / entityref -/

/-- `charref = &#(?:[0-9]+|[xX][0-9a-fA-F]+)[^0-9a-fA-F]` anchored on a suffix starting with `&#`:
    (name = `group()[2:-1]`, match length). Giving characters back never helps (they are hex digits). -/
def charRef (s : PStr) : Option (PStr × Nat) :=
  let t := s.drop 2
  let d := spanLen isDigit t
  if 0 < d then
    match (t.drop d).head? with
    | some c => if isHex c then none else some (t.take d, 2 + d + 1)
    | none => none
  else
    match t with
    | x :: t' =>
      if x == 120 || x == 88 then
        let h := spanLen isHex t'
        if 0 < h then
          match (t'.drop h).head? with
          | some _ => some (t.take (1 + h), 2 + 1 + h + 1)
          | none => none
        else none
      else none
    | [] => none

/-- index of the last `-` or `.` in `l` -/
def lastDashDot (l : PStr) : Option Nat :=
  match findCh 1 (l.reverse.map fun c => if c == 45 || c == 46 then 1 else 0) with
  | none => none
  | some r => some (l.length - 1 - r)

/-- `entityref = &([a-zA-Z][-.a-zA-Z0-9]*)[^a-zA-Z0-9]` anchored on a suffix starting with `&`: (group 1, match
    length). When the greedy name runs to the end of the input `re` backtracks to the last `-`/`.` of the run,
    which then serves as the terminator. -/
def entityRef (s : PStr) : Option (PStr × Nat) :=
  match s.drop 1 with
  | c :: t =>
    if isAlpha c then
      let r := spanLen isEntCh t
      match (t.drop r).head? with
      | some _ => some (c :: t.take r, 1 + 1 + r + 1)
      | none =>
        match lastDashDot (t.take r) with
        | some q => some (c :: t.take q, 1 + 1 + q + 1)
        | none => none
    else none
  | [] => none

/-! ### `goahead` -/

structure Ev where
  tok : Tok
  src : PStr            -- the chunk of input consumed for it
  pos : Nat × Nat       -- `getpos()` during the callback
deriving Repr, DecidableEq

structure St where
  s : PStr              -- `rawdata[i:]`
  pos : Nat × Nat       -- `(lineno, offset)`
  cd : Option PStr      -- `cdata_elem` (and with it `interesting`)
deriving Repr, DecidableEq

/-- what one turn of the `while` loop does after the data before the next interesting character has been handled -/
inductive Act where
  | adv (tok : Tok) (len : Nat) (cd : Option PStr) (cont : Bool)   -- callback, `i = updatepos(i, i+len)`, continue / break
  | brk
  | err
  | stuck
deriving Repr, DecidableEq

/-- parser.py:169-184: which `parse_*` function the characters after `<` select (`none` = the `break` of 183-184) -/
def parseLt (P : Params) (cd : Option PStr) (s : PStr) : Option PR :=
  if ((s.drop 1).head?.map isAlpha).getD false then some (parseStartTag P cd s)   -- `starttagopen.match`
  else if sw [60, 47] s then some (parseEndTag P cd s)
  else if sw [60, 33, 45, 45] s then some (parseComment cd s)
  else if sw [60, 63] s then some (parsePi cd s)
  else if sw [60, 33] s then some (parseHtmlDeclaration cd s)
  else if 1 < s.length then some (.ok (.data [60]) 1 cd)                 -- 180-182
  else none                                                              -- 183-184 break

/-- parser.py:188-194: how far an unterminated construct reaches when `close()` forces it out as text -/
def forcedEnd (s : PStr) : Nat :=
  match findCh 62 (s.drop 1) with
  | some g => 1 + g + 1
  | none =>
    match findCh 60 (s.drop 1) with
    | some g => 1 + g
    | none => 1

/-- parser.py:169-199, the `<` branch, on the suffix `s` starting with `<` -/
def actLt (P : Params) (end_ : Bool) (cd : Option PStr) (s : PStr) : Act :=
  let r := parseLt P cd s
  match r with
  | none => .brk
  | some .err => .err
  | some .stuck => .stuck
  | some (.ok tok len cd') => .adv tok len cd' true
  | some .incomplete =>
    if !end_ then .brk                                                   -- 186-187
    else
      .adv (.data (s.take (forcedEnd s))) (forcedEnd s) cd true          -- 188-199

/-- parser.py:200-214, on the suffix `s` starting with `&#` -/
def actCharRef (cd : Option PStr) (s : PStr) : Act :=
  match charRef s with
  | some (name, e) =>
    let k := if (s.drop (e - 1)).head? == some 59 then e else e - 1       -- 206-207
    .adv (.cr name) k cd true
  | none =>
    if s.contains 59 then .adv (.data (s.take 2)) 2 cd false             -- 211-213 then break
    else .brk

/-- parser.py:215-241, on the suffix `s` starting with `&` (not `&#`) -/
def actEntityRef (end_ : Bool) (cd : Option PStr) (s : PStr) : Act :=
  match entityRef s with
  | some (name, e) =>
    let k := if (s.drop (e - 1)).head? == some 59 then e else e - 1       -- 221-222
    .adv (.er name) k cd true
  | none =>
    match s.drop 1 with
    | c :: t =>
      if isAlpha c || c == 35 then                                        -- `incomplete = &[a-zA-Z#]`
        if end_ && t.isEmpty then .adv .skip 1 cd false                   -- 228-232: `&` consumed silently, break
        else .brk                                                         -- 234
      else .adv (.data [38]) 1 cd true                                    -- 235-239 (`(i + 1) < n` holds)
    | [] => .brk                                                          -- 240-241

inductive Flag where
  | ok | err | stuck
deriving Repr, DecidableEq

structure Out where
  evs : List Ev
  st : St
  flag : Flag
deriving Repr

/-- parser.py:168-243: which branch the character at `i` selects, on the non-empty suffix `s1 = rawdata[i:]` -/
def chooseAct (P : Params) (end_ : Bool) (cd : Option PStr) (s1 : PStr) : Act :=
  if s1.head? == some 60 then actLt P end_ cd s1
  else if sw [38, 35] s1 then actCharRef cd s1
  else if s1.head? == some 38 then actEntityRef end_ cd s1
  else .err                                                              -- 243 `assert 0`

/-- carrying an action out: the callback (stamped with `getpos()`), `i = updatepos(i, k)`, `continue`/`break`;
    `pre` = the data callback already made in this turn -/
def applyAct (pre : List Ev) (s1 : PStr) (pos1 : Nat × Nat) (cd : Option PStr) : Act → List Ev × St × Option Flag
  | .adv tok len cd' cont =>
    (pre ++ [⟨tok, s1.take len, pos1⟩], ⟨s1.drop len, updatepos pos1 (s1.take len), cd'⟩,
      if cont then none else some .ok)
  | .brk => (pre, ⟨s1, pos1, cd⟩, some .ok)
  | .err => (pre, ⟨s1, pos1, cd⟩, some .err)
  | .stuck => (pre, ⟨s1, pos1, cd⟩, some .stuck)

/-- one turn of the `while i < n` loop (parser.py:138-243): events, new state, and whether the loop goes on
    (`none`) or ends with a flag -/
def step (P : Params) (end_ : Bool) (st : St) : List Ev × St × Option Flag :=
  -- 153-160: `interesting.search(rawdata, i)`
  let jo : Option Nat := match st.cd with
    | none => some (spanLen isPlain st.s)
    | some e => (search (mCdataClose e) st.s).map (·.1)
  match jo with
  | none => ([], st, some .ok)                                           -- 158-159 break
  | some j =>
    let pre : List Ev := if 0 < j then [⟨.data (st.s.take j), st.s.take j, st.pos⟩] else []   -- 161-165
    let pos1 := updatepos st.pos (st.s.take j)                           -- 166
    let s1 := st.s.drop j
    if s1.isEmpty then (pre, ⟨s1, pos1, st.cd⟩, some .ok)                -- 167 break
    else applyAct pre s1 pos1 st.cd (chooseAct P end_ st.cd s1)

/-- the `while` loop with fuel -/
def loop (P : Params) (end_ : Bool) : Nat → St → Out
  | 0, st => ⟨[], st, .stuck⟩
  | f + 1, st =>
    match st.s with
    | [] => ⟨[], st, .ok⟩                                                -- `while i < n`
    | _ :: _ =>
      match step P end_ st with
      | (evs, st', some fl) => ⟨evs, st', fl⟩
      | (evs, st', none) =>
        let r := loop P end_ f st'
        ⟨evs ++ r.evs, r.st, r.flag⟩

/-- parser.py:245-251: the flush after the loop -/
def flush (end_ : Bool) (st : St) : List Ev × St :=
  if end_ && !st.s.isEmpty && st.cd.isNone then
    ([⟨.data st.s, st.s, st.pos⟩], ⟨[], updatepos st.pos st.s, st.cd⟩)
  else ([], st)

/-- `goahead(end)` on the state left by the previous call -/
def goahead (P : Params) (end_ : Bool) (st : St) : Out :=
  let r := loop P end_ (st.s.length + 1) st
  match r.flag with
  | .ok => let (e, st') := flush end_ r.st; ⟨r.evs ++ e, st', .ok⟩
  | _ => r

/-- `reset()` -/
def init (text : PStr) : St := ⟨text, (1, 0), none⟩

/-- `feed(text); close()` -/
def run (P : Params) (text : PStr) : Out :=
  let r1 := goahead P false (init text)
  match r1.flag with
  | .ok => let r2 := goahead P true r1.st; ⟨r1.evs ++ r2.evs, r2.st, r2.flag⟩
  | _ => r1

/-- offsets: the span of the k-th event is `[off k, off k + src.length)` -/
def spans : Nat → List Ev → List (Ev × Nat × Nat)
  | _, [] => []
  | o, e :: es => (e, o, o + e.src.length) :: spans (o + e.src.length) es

/-- the callback stream in the adapter's vocabulary (`skip` is no callback) -/
def toSEv (e : Ev) : Option BS.Adapter.SEv :=
  match e.tok with
  | .st n a => some (.starttag n a e.pos.1 e.pos.2)
  | .se n a => some (.startendtag n a e.pos.1 e.pos.2)
  | .et n => some (.endtag n)
  | .data s => some (.data s)
  | .cr s => some (.charref s)
  | .er s => some (.entityref s)
  | .cm s => some (.comment s)
  | .dl s => some (.decl s)
  | .ud s => some (.unknownDecl s)
  | .pi s => some (.pi s)
  | .skip => none

def callbacks (o : Out) : List BS.Adapter.SEv := o.evs.filterMap toSEv

end BS.Tokenizer
