import BSModel.Model.Adapter
/-! # A well-formed WRITER of HTML documents, at the level of html.parser's callbacks (C04, `emit_build`)

`WDoc` is the document a writer has in mind: elements with attributes, text, comments, CDATA sections, doctypes,
other declarations (`<![if x]>`) and processing instructions. `emit` is the stream of `html.parser` callbacks
(`Adapter.SEv`) the markup of such a document gives rise to, under ARBITRARY per-occurrence choices of the writer:

 * every void element is spelt `<br>` (one `starttag` callback), `<br/>` (one `startendtag` callback) or
   `<br></br>` (`starttag` then `endtag`), independently per occurrence;
 * every text is cut into arbitrarily many `data` chunks, and every character of it may be spelt literally, as a
   decimal reference `&#0…0N;` or a hexadecimal reference `&#x0…0H;` / `&#X…;` (a `charref` callback carrying the
   text between `&#` and `;`) with any number of leading zeros and digits in either case, or as a named reference
   `&name;` (an `entityref` callback);
 * every letter of the keyword of a doctype / CDATA section (`DOCTYPE`, `CDATA`) is written in upper or lower case;
 * the position `(line, col)` of every start tag is whatever in-tag whitespace, quoting and the text before it
   make it (the tokenizer reports it with the callback: `getpos()`).

Tag and attribute names are already lower-cased and attribute values already unescaped by the tokenizer, so their
spelling is not a choice at this level. CPython's tokenizer is NOT modelled: that the markup written by the harness'
independent writer (`harness/c04.py: write`) makes the real tokenizer produce exactly `emit d c` for the choices
the writer took is checked per document by the correspondence stream `writer`.

`normalise` is the tree the document describes: the document itself with adjacent text runs merged, whitespace-only
runs outside whitespace-preserving elements collapsed to one newline/space (C03's rule, which `endData` applies to
every string, special ones included), text classes taken from the nearest enclosing string container, special
strings in their classes, elements childless or with the normal form of their children.

An occurrence (of an element, a text, a special string) is identified by its PATH: the list of child indices
leading to it, innermost first. Core Lean only. -/
namespace BS.Writer
open BS.Builder BS.Adapter

/-- kinds of special strings -/
inductive Kind where
  | comment      -- `<!--s-->`                     handle_comment(s)
  | cdata        -- `<![CDATA[s]]>`                unknown_decl("CDATA[" + s)
  | doctype      -- `<!DOCTYPE s>`                 handle_decl("DOCTYPE " + s)
  | decl         -- `<![s]>` (`<![if x]>`, …)      unknown_decl(s)
  | pi           -- `<?s>`                         handle_pi(s)
deriving DecidableEq, Repr

/-- the document the writer has in mind -/
inductive WDoc where
  | elem (name : Name) (attrs : List (PStr × Option PStr)) (kids : List WDoc)
  | text (s : PStr)
  | special (k : Kind) (s : PStr)
deriving Repr

/-- an occurrence: child indices from the node up to the top level, innermost first -/
abbrev Path := List Nat

/-- the three spellings of a void element -/
inductive VoidSp where
  | plain      -- `<br>`
  | slash      -- `<br/>`
  | pair       -- `<br></br>`
deriving DecidableEq, Repr

/-- how one character of a text is spelt -/
inductive CharSp where
  | lit (cut : Bool)                          -- literally; `cut`: a new `data` chunk starts at this character
  | dec (zeros : Nat)                         -- `&#0…0N;`
  | hex (upperX upperDigits : Bool) (zeros : Nat)   -- `&#x0…0h;` / `&#X0…0H;`
  | named (name : PStr)                       -- `&name;`
deriving Repr

/-- the writer's choices, one per occurrence -/
structure Choices where
  void : Path → VoidSp                -- spelling of the void element at this path
  pos : Path → Nat × Nat              -- `(line, col)` of the start tag of the element at this path
  char : Path → Nat → CharSp          -- spelling of the i-th character of the text at this path
  kwCase : Path → Nat → Bool          -- is the i-th letter of the keyword `DOCTYPE` / `CDATA` written in upper case?

/-! ### spelling of references -/

/-- digits of `n` in base `base`, most significant first (`fuel` > number of digits; `n + 1` always suffices) -/
def digits (base : Nat) (dig : Nat → Nat) : Nat → Nat → PStr
  | 0, _ => []
  | fuel + 1, n => if n < base then [dig n] else digits base dig fuel (n / base) ++ [dig (n % base)]

def decDig (k : Nat) : Nat := 48 + k
def hexDig (upper : Bool) (k : Nat) : Nat := if k < 10 then 48 + k else (if upper then 55 else 87) + k

/-- the text between `&#` and `;` of a decimal reference to `n` with `zeros` leading zeros -/
def decName (zeros n : Nat) : PStr := List.replicate zeros 48 ++ digits 10 decDig (n + 1) n

/-- … of a hexadecimal reference: `x`/`X`, leading zeros, digits in lower/upper case -/
def hexName (upperX upperDigits : Bool) (zeros n : Nat) : PStr :=
  (if upperX then 88 else 120) :: (List.replicate zeros 48 ++ digits 16 (hexDig upperDigits) (n + 1) n)

/-! ### the callback stream -/

def flushLit (cur : PStr) : List SEv := if cur.isEmpty then [] else [.data cur]

/-- callbacks of a text from its `i`-th character on; `cur` = the literal chunk collected so far -/
def emitChars (sp : Nat → CharSp) : Nat → PStr → PStr → List SEv
  | _, cur, [] => flushLit cur
  | i, cur, ch :: rest =>
    match sp i with
    | .lit cut =>
      if cut then flushLit cur ++ emitChars sp (i + 1) [ch] rest else emitChars sp (i + 1) (cur ++ [ch]) rest
    | .dec z => flushLit cur ++ .charref (decName z ch) :: emitChars sp (i + 1) [] rest
    | .hex ux ud z => flushLit cur ++ .charref (hexName ux ud z ch) :: emitChars sp (i + 1) [] rest
    | .named nm => flushLit cur ++ .entityref nm :: emitChars sp (i + 1) [] rest

/-- an upper-case ASCII letter `u`, written in upper or lower case -/
def cased (up : Bool) (u : Nat) : Nat := if up then u else u + 32

/-- `DOCTYPE ` with its letters in the chosen cases (`<!DocType html>` is a doctype: html/parser.py compares
    `rawdata[i:i+9].lower()`) -/
def kwDoctype (m : Nat → Bool) : PStr :=
  [cased (m 0) 68, cased (m 1) 79, cased (m 2) 67, cased (m 3) 84, cased (m 4) 89, cased (m 5) 80, cased (m 6) 69, 32]
/-- `CDATA[` with its letters in the chosen cases (`_markupbase.parse_marked_section` lower-cases the keyword) -/
def kwCData (m : Nat → Bool) : PStr :=
  [cased (m 0) 67, cased (m 1) 68, cased (m 2) 65, cased (m 3) 84, cased (m 4) 65, 91]

/-- the one callback of a special string -/
def specialEv (k : Kind) (up : Nat → Bool) (s : PStr) : SEv :=
  match k with
  | .comment => .comment s
  | .cdata => .unknownDecl (kwCData up ++ s)
  | .doctype => .decl (kwDoctype up ++ s)
  | .decl => .unknownDecl s
  | .pi => .pi s

mutual
/-- the callbacks of the node at path `p`; `iv` = the writer's (and the parser's) set of void element names -/
def emit (iv : Name → Bool) (c : Choices) : Path → WDoc → List SEv
  | p, .elem n a ks =>
    if iv n then
      match c.void p with
      | .plain => [.starttag n a (c.pos p).1 (c.pos p).2]
      | .slash => [.startendtag n a (c.pos p).1 (c.pos p).2]
      | .pair => [.starttag n a (c.pos p).1 (c.pos p).2, .endtag n]
    else .starttag n a (c.pos p).1 (c.pos p).2 :: (emitL iv c p 0 ks ++ [.endtag n])
  | p, .text s => emitChars (c.char p) 0 [] s
  | p, .special k s => [specialEv k (c.kwCase p) s]
/-- … of the children of the node at path `p`, from the `i`-th on -/
def emitL (iv : Name → Bool) (c : Choices) : Path → Nat → List WDoc → List SEv
  | _, _, [] => []
  | p, i, d :: ds => emit iv c (i :: p) d ++ emitL iv c p (i + 1) ds
end

/-- the callback stream of a whole document -/
def emitDoc (iv : Name → Bool) (c : Choices) (ds : List WDoc) : List SEv := emitL iv c [] 0 ds

mutual
/-- what `handle_starttag` hands to `Tag.__init__` for the elements of the document, in document order -/
def infos (cfg : ACfg) (c : Choices) : Path → WDoc → List StartInfo
  | p, .elem n a ks =>
    if cfg.isVoid n then [mkInfo cfg a (c.pos p).1 (c.pos p).2]
    else mkInfo cfg a (c.pos p).1 (c.pos p).2 :: infosL cfg c p 0 ks
  | _, .text _ => []
  | _, .special _ _ => []
def infosL (cfg : ACfg) (c : Choices) : Path → Nat → List WDoc → List StartInfo
  | _, _, [] => []
  | p, i, d :: ds => infos cfg c (i :: p) d ++ infosL cfg c p (i + 1) ds
end

def startInfos (cfg : ACfg) (c : Choices) (ds : List WDoc) : List StartInfo := infosL cfg c [] 0 ds

/-! ### the tree the document describes -/

/-- class and content of a special string: a declaration whose text starts with `CDATA[` in any case IS a CDATA
    section (`unknown_decl`, _htmlparser.py:303-313) -/
def specialText (k : Kind) (s : PStr) : Cls × PStr :=
  match k with
  | .comment => (clsComment, s)
  | .cdata => (clsCData, s)
  | .doctype => (clsDoctype, s)
  | .decl => if startsWithUpper cdataPrefix s then (clsCData, s.drop 6) else (clsDecl, s)
  | .pi => (clsPI, s)

/-- C03's value rule, on the names `ctx` of the enclosing elements (innermost first): a string of ASCII spaces
    only (the empty one included) outside whitespace-preserving elements becomes one newline or one space -/
def wsRule (cfg : Cfg) (ctx : List Name) (s : PStr) : PStr :=
  if !(ctx.any cfg.preserve) && s.all (fun c => cfg.asciiSpaces.contains c) then (if s.contains 10 then [10] else [32]) else s

/-- C03's class rule: the class of the nearest enclosing string container, else `NavigableString` -/
def textCls (cfg : Cfg) (ctx : List Name) : Cls :=
  ((ctx.find? (fun n => (cfg.container n).isSome)).bind cfg.container).getD 0

/-- a finished run of text becomes one string -/
def flushP (cfg : Cfg) (ctx : List Name) : Option PStr → List Doc
  | none => []
  | some s => [Doc.text (textCls cfg ctx) (wsRule cfg ctx s)]

mutual
/-- normal form of one node under the enclosing elements `ctx`, given the run of text `pend` gathered so far
    (`none` = no text pending); returns the finished nodes and the run still open -/
def norm1 (cfg : Cfg) : List Name → Option PStr → WDoc → List Doc × Option PStr
  | _, pend, .text s => ([], if s.isEmpty then pend else some (pend.getD [] ++ s))
  | ctx, pend, .special k s =>
    (flushP cfg ctx pend ++ [Doc.text (specialText k s).1 (wsRule cfg ctx (specialText k s).2)], none)
  | ctx, pend, .elem n _ ks =>
    let r := normL cfg (n :: ctx) none ks
    (flushP cfg ctx pend ++ [Doc.elem n none (r.1 ++ flushP cfg (n :: ctx) r.2)], none)
def normL (cfg : Cfg) : List Name → Option PStr → List WDoc → List Doc × Option PStr
  | _, pend, [] => ([], pend)
  | ctx, pend, d :: ds =>
    let r := norm1 cfg ctx pend d
    let r2 := normL cfg ctx r.2 ds
    (r.1 ++ r2.1, r2.2)
end

/-- **the tree the markup describes** (children of the `BeautifulSoup` object) -/
def normalise (cfg : Cfg) (ds : List WDoc) : List Doc :=
  let r := normL cfg [cfg.rootName] none ds
  r.1 ++ flushP cfg [cfg.rootName] r.2

/-! ### which documents a writer can write, and which spellings denote the character they stand for -/

mutual
/-- `Representable`: (1) no element is named like the `BeautifulSoup` object (`[document]` — not a tag name the
    tokenizer can deliver; `_popToTag` ignores its end tag); (2) a void element has no children (markup cannot
    express any: `<br>x</br>` makes `x` a sibling). Nothing else is excluded. -/
def representable (rootName : Name) (iv : Name → Bool) : WDoc → Bool
  | .elem n _ ks => n != rootName && (!(iv n) || ks.isEmpty) && representableL rootName iv ks
  | .text _ => true
  | .special _ _ => true
def representableL (rootName : Name) (iv : Name → Bool) : List WDoc → Bool
  | [] => true
  | d :: ds => representable rootName iv d && representableL rootName iv ds
end

def Representable (bcfg : Cfg) (acfg : ACfg) (ds : List WDoc) : Prop :=
  representableL bcfg.rootName acfg.isVoid ds = true

instance (bcfg : Cfg) (acfg : ACfg) (ds : List WDoc) : Decidable (Representable bcfg acfg ds) := by
  unfold Representable; infer_instance

/-- does a numeric reference to the code point `n` denote `n`? It must be a code point (`chr` range), and below
    256 bs4 takes the Windows-1252 detour (_htmlparser.py:241-255): the reference denotes the Windows-1252
    character of that BYTE — the same code point except for 128–159 — and, where Windows-1252 leaves the byte
    undefined (129, 141, 143, 144, 157), whatever the document's own encoding makes of it, if it has one -/
def numericOK (cfg : ACfg) (n : Nat) : Bool :=
  n ≤ 0x10FFFF &&
  (256 ≤ n ||
    match cfg.cp1252 n with
    | some c => c == n
    | none =>
      match cfg.origDecode n with
      | none => true
      | some d => d.isEmpty || d == [n])

/-- does the chosen spelling of the character `ch` denote it? literal: always; decimal: `numericOK` and at most
    `sys.int_max_str_digits` digits (leading zeros count: `int()` refuses longer strings, the reference becomes
    U+FFFD); hexadecimal: `numericOK`; named: the name is in `HTML_ENTITY_TO_CHARACTER` and stands for exactly
    this character -/
def charOK (cfg : ACfg) (ch : Nat) : CharSp → Bool
  | .lit _ => true
  | .dec z => numericOK cfg ch && (decName z ch).length ≤ cfg.maxDigits
  | .hex _ _ _ => numericOK cfg ch
  | .named nm => cfg.entity nm == some [ch]

def charsOK (cfg : ACfg) (sp : Nat → CharSp) : Nat → PStr → Bool
  | _, [] => true
  | i, ch :: rest => charOK cfg ch (sp i) && charsOK cfg sp (i + 1) rest

mutual
/-- every reference the writer chose denotes the character it stands for -/
def wellSpelt (cfg : ACfg) (sp : Path → Nat → CharSp) : Path → WDoc → Bool
  | p, .elem _ _ ks => wellSpeltL cfg sp p 0 ks
  | p, .text s => charsOK cfg (sp p) 0 s
  | _, .special _ _ => true
def wellSpeltL (cfg : ACfg) (sp : Path → Nat → CharSp) : Path → Nat → List WDoc → Bool
  | _, _, [] => true
  | p, i, d :: ds => wellSpelt cfg sp (i :: p) d && wellSpeltL cfg sp p (i + 1) ds
end

def WellSpelt (cfg : ACfg) (sp : Path → Nat → CharSp) (ds : List WDoc) : Prop := wellSpeltL cfg sp [] 0 ds = true

instance (cfg : ACfg) (sp : Path → Nat → CharSp) (ds : List WDoc) : Decidable (WellSpelt cfg sp ds) := by
  unfold WellSpelt; infer_instance

/-! ### views of a tree used by the corollaries -/

mutual
/-- the element skeleton of a built tree: every string removed -/
def skel : Doc → List Doc
  | .elem n p ks => [Doc.elem n p (skelL ks)]
  | .text _ _ => []
def skelL : List Doc → List Doc
  | [] => []
  | d :: ds => skel d ++ skelL ds
end

mutual
/-- the element skeleton of a document: its elements, nested as written -/
def wskel : WDoc → List Doc
  | .elem n _ ks => [Doc.elem n none (wskelL ks)]
  | .text _ => []
  | .special _ _ => []
def wskelL : List WDoc → List Doc
  | [] => []
  | d :: ds => wskel d ++ wskelL ds
end

def isSpecialCls (c : Cls) : Bool := 1 ≤ c && c ≤ 5

mutual
/-- the special strings (Comment, CData, ProcessingInstruction, Declaration, Doctype) of a built tree in document order -/
def specials : Doc → List (Cls × PStr)
  | .elem _ _ ks => specialsL ks
  | .text c s => if isSpecialCls c then [(c, s)] else []
def specialsL : List Doc → List (Cls × PStr)
  | [] => []
  | d :: ds => specials d ++ specialsL ds
end

mutual
/-- the special strings of a document in document order, each with its class and its content (after C03's
    whitespace rule, which only touches strings made of ASCII spaces) -/
def wspecials (cfg : Cfg) : List Name → WDoc → List (Cls × PStr)
  | ctx, .elem n _ ks => wspecialsL cfg (n :: ctx) ks
  | _, .text _ => []
  | ctx, .special k s => [((specialText k s).1, wsRule cfg ctx (specialText k s).2)]
def wspecialsL (cfg : Cfg) : List Name → List WDoc → List (Cls × PStr)
  | _, [] => []
  | ctx, d :: ds => wspecials cfg ctx d ++ wspecialsL cfg ctx ds
end

mutual
/-- the tags of a document in document order: name and attribute list as the tokenizer delivers them -/
def wtags : WDoc → List (Name × List (PStr × Option PStr))
  | .elem n a ks => (n, a) :: wtagsL ks
  | .text _ => []
  | .special _ _ => []
def wtagsL : List WDoc → List (Name × List (PStr × Option PStr))
  | [] => []
  | d :: ds => wtags d ++ wtagsL ds
end

/-- an attribute list as `Tag.attrs` holds it when no name repeats: same names, same order, a missing value
    (`<input disabled>`) stored as the empty string -/
def plainAttrs (a : List (PStr × Option PStr)) : List (PStr × AVal) := a.map (fun kv => (kv.1, AVal.one (kv.2.getD [])))

def keysNodup : List PStr → Bool
  | [] => true
  | k :: ks => !ks.contains k && keysNodup ks

end BS.Writer
