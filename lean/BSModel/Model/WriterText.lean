import BSModel.Model.Writer
import BSModel.Model.Tokenizer
/-! # The TEXT a well-formed writer writes (C04, `parse_of_written_document`)

`Model/Writer.lean` gives the html.parser CALLBACKS (`emit`) of the document a writer has in mind under its choices;
this file gives the MARKUP: the sequence of the writer's tokens (`wtoks`, one token per callback of `emit`, plus the
literal character data between them), each with its text, and `writeText` = the concatenation of those texts.
The writer is as simple as a correct writer can be:

 * start tags `<name k="v" j …>`: one space before every attribute, values in double quotes with `&` written
   `&amp;` and `"` written `&quot;` (`escAttr`; nothing else needs escaping inside double quotes for this
   tokenizer), an attribute without value (`None`) as its bare name; void elements per choice `<br>`, `<br/>`
   (the `/>` directly after the last attribute) or `<br></br>`; end tags `</name>`;
 * text character by character per `CharSp`: literally, `&#0…0N;`, `&#x0…0h;` / `&#X0…0H;`, `&name;`
   (the `cut` flag of a literal character is the tokenizer's business and has no effect on the text);
 * `<!--s-->`, `<![CDATA[s]]>` and `<!DOCTYPE s>` with the keyword's letters in the chosen case, `<![s]>`, `<?s>`.

`Writable` lists what the writer must respect for this text to mean the document (see its docstring).
The positions of the start tags are not a choice: `derivedPos` reads them off the text. Core Lean only. -/
namespace BS.WriterText
open BS.Builder BS.Writer BS.Adapter BS.Tokenizer

/-! ### texts of the tokens -/

/-- an attribute value between double quotes: `&` → `&amp;`, `"` → `&quot;` -/
def escAttr (v : PStr) : PStr :=
  v.flatMap fun ch => if ch == 38 then [38, 97, 109, 112, 59] else if ch == 34 then [38, 113, 117, 111, 116, 59] else [ch]

/-- ` k="v"` / ` k` for every attribute, then `tl` -/
def attrsText (tl : PStr) : List (PStr × Option PStr) → PStr
  | [] => tl
  | kv :: more =>
    32 :: ((kv.1 ++ (match kv.2 with | none => [] | some v => 61 :: 34 :: (escAttr v ++ [34]))) ++ attrsText tl more)

/-- `<name k="v" …>` or `<name k="v" …/>` -/
def openText (n : Name) (a : List (PStr × Option PStr)) (slash : Bool) : PStr :=
  60 :: (n ++ attrsText (if slash then [47, 62] else [62]) a)

/-- `</name>` -/
def closeText (n : Name) : PStr := [60, 47] ++ n ++ [62]
/-- `&#name;` -/
def crefText (name : PStr) : PStr := [38, 35] ++ name ++ [59]
/-- `&name;` -/
def erefText (name : PStr) : PStr := 38 :: (name ++ [59])

def specialMarkup (k : Kind) (up : Nat → Bool) (s : PStr) : PStr :=
  match k with
  | .comment => [60, 33, 45, 45] ++ s ++ [45, 45, 62]
  | .cdata => [60, 33, 91] ++ (kwCData up ++ s) ++ [93, 93, 62]
  | .doctype => [60, 33] ++ (kwDoctype up ++ s) ++ [62]
  | .decl => [60, 33, 91] ++ s ++ [93, 62]
  | .pi => [60, 63] ++ s ++ [62]

/-- the tokenizer callback of a special string (the same data as `Writer.specialEv`) -/
def specialTok (k : Kind) (up : Nat → Bool) (s : PStr) : Tok :=
  match k with
  | .comment => .cm s
  | .cdata => .ud (kwCData up ++ s)
  | .doctype => .dl (kwDoctype up ++ s)
  | .decl => .ud s
  | .pi => .pi s

/-! ### the writer's tokens -/

/-- one token of the markup: its text; the callback it is meant to cause (`none`: literal character data, which
    the tokenizer reports together with whatever literal data is adjacent); for a start tag the path of its element -/
structure WTok where
  text : PStr
  tok : Option Tok
  path : Path
deriving Repr

def litTok (s : PStr) : WTok := ⟨s, none, []⟩
def openTok (p : Path) (n : Name) (a : List (PStr × Option PStr)) (slash : Bool) : WTok :=
  ⟨openText n a slash, some (if slash then .se n a else .st n a), p⟩
def closeTok (n : Name) : WTok := ⟨closeText n, some (.et n), []⟩
def crefTok (name : PStr) : WTok := ⟨crefText name, some (.cr name), []⟩
def erefTok (name : PStr) : WTok := ⟨erefText name, some (.er name), []⟩
def specialWTok (k : Kind) (up : Nat → Bool) (s : PStr) : WTok := ⟨specialMarkup k up s, some (specialTok k up s), []⟩

def flushLitTok (cur : PStr) : List WTok := if cur.isEmpty then [] else [litTok cur]

/-- the tokens of a text from its `i`-th character on (mirrors `Writer.emitChars`: one literal token per `data`
    chunk of `emit`, one reference token per reference) -/
def charToks (sp : Nat → CharSp) : Nat → PStr → PStr → List WTok
  | _, cur, [] => flushLitTok cur
  | i, cur, ch :: rest =>
    match sp i with
    | .lit cut =>
      if cut then flushLitTok cur ++ charToks sp (i + 1) [ch] rest else charToks sp (i + 1) (cur ++ [ch]) rest
    | .dec z => flushLitTok cur ++ crefTok (decName z ch) :: charToks sp (i + 1) [] rest
    | .hex ux ud z => flushLitTok cur ++ crefTok (hexName ux ud z ch) :: charToks sp (i + 1) [] rest
    | .named nm => flushLitTok cur ++ erefTok nm :: charToks sp (i + 1) [] rest

mutual
/-- the tokens of the node at path `p` (mirrors `Writer.emit`) -/
def wtoks (iv : Name → Bool) (c : Choices) : Path → WDoc → List WTok
  | p, .elem n a ks =>
    if iv n then
      match c.void p with
      | .plain => [openTok p n a false]
      | .slash => [openTok p n a true]
      | .pair => [openTok p n a false, closeTok n]
    else openTok p n a false :: (wtoksL iv c p 0 ks ++ [closeTok n])
  | p, .text s => charToks (c.char p) 0 [] s
  | p, .special k s => [specialWTok k (c.kwCase p) s]
def wtoksL (iv : Name → Bool) (c : Choices) : Path → Nat → List WDoc → List WTok
  | _, _, [] => []
  | p, i, d :: ds => wtoks iv c (i :: p) d ++ wtoksL iv c p (i + 1) ds
end

def textOf (ts : List WTok) : PStr := (ts.map (·.text)).flatten

/-- **the markup of the document under the writer's choices** -/
def writeText (iv : Name → Bool) (c : Choices) (ds : List WDoc) : PStr := textOf (wtoksL iv c [] 0 ds)

/-! ### positions are read off the text -/

def isOpenTok (t : WTok) : Bool :=
  match t.tok with
  | some (.st ..) => true
  | some (.se ..) => true
  | _ => false

/-- offset of the `<` of the start tag of the element at path `p` (`o` = offset of the first token of the list) -/
def offsetOf (p : Path) : Nat → List WTok → Option Nat
  | _, [] => none
  | o, t :: ts => if isOpenTok t && t.path == p then some o else offsetOf p (o + t.text.length) ts

/-- `(line, col)` of the start tag of the element at path `p`, from the written text: 1-based line and 0-based
    column of the offset of its `<` -/
def derivedPos (iv : Name → Bool) (c : Choices) (ds : List WDoc) (p : Path) : Nat × Nat :=
  match offsetOf p 0 (wtoksL iv c [] 0 ds) with
  | some o => BS.SourcePos.lineCol (writeText iv c ds) o
  | none => (0, 0)

/-- the choices with the positions the text gives the start tags -/
def withDerivedPos (iv : Name → Bool) (c : Choices) (ds : List WDoc) : Choices :=
  { c with pos := derivedPos iv c ds }

/-! ### what the writer must respect -/

def isLowerB (c : Nat) : Bool := 97 ≤ c && c ≤ 122
/-- `[-.:_a-z0-9]` -/
def isNameChB (c : Nat) : Bool := isLowerB c || isDigit c || c == 45 || c == 46 || c == 58 || c == 95
/-- `[a-z][-.:_a-z0-9]*` -/
def nameOK : PStr → Bool
  | [] => false
  | c :: t => isLowerB c && t.all isNameChB
/-- `[a-zA-Z][-.a-zA-Z0-9]*`: what `&name;` may use -/
def entNameOK : PStr → Bool
  | [] => false
  | c :: t => isAlpha c && t.all isEntCh

/-- the keyword `_markupbase._scan_name` reads at the start of a marked section `<![s…` -/
def declName : PStr → PStr
  | [] => []
  | c :: t => if isAlpha c then asciiLower (c :: t.take (spanLen isDeclNameCh t)) else []

def charWritable (ch : Nat) : CharSp → Bool
  | .lit _ => ch != 38 && ch != 60
  | .dec _ => true
  | .hex _ _ _ => true
  | .named nm => entNameOK nm

def charsWritable (sp : Nat → CharSp) : Nat → PStr → Bool
  | _, [] => true
  | i, ch :: rest => charWritable ch (sp i) && charsWritable sp (i + 1) rest

def specialWritable (k : Kind) (s : PStr) : Bool :=
  match k with
  | .comment => !s.contains 62 || !s.contains 45
  | .cdata => !s.contains 62
  | .doctype => !s.contains 62
  | .decl => !s.contains 62 && sectMs.contains (declName s)
  | .pi => !s.contains 62

mutual
def writable (iv : Name → Bool) (c : Choices) : Path → WDoc → Bool
  | p, .elem n a ks =>
    nameOK n && !cdataContentElements.contains n && a.all (fun kv => nameOK kv.1) && (iv n || writableL iv c p 0 ks)
  | p, .text s => charsWritable (c.char p) 0 s
  | _, .special k s => specialWritable k s
def writableL (iv : Name → Bool) (c : Choices) : Path → Nat → List WDoc → Bool
  | _, _, [] => true
  | p, i, d :: ds => writable iv c (i :: p) d && writableL iv c p (i + 1) ds
end

/-- **`Writable`** — what a writer has to respect for `writeText` to mean the document:
 1. element and attribute names are `[a-z][-.:_a-z0-9]*` (the tokenizer lower-cases names; a name must start with a
    letter and contain no whitespace, `/`, `>`, `=`; this is a convenient sufficient class);
 2. no element is `script` or `style` (their content is raw text: references and tags inside are not markup —
    a different writer is needed there);
 3. a character spelt literally is not `&` or `<`;
 4. a named reference uses a name of the shape `[a-zA-Z][-.a-zA-Z0-9]*`;
 5. a comment contains no `>` or no `-` (sufficient; exactly: no `--\s*>` before its end);
 6. a CDATA section, doctype, declaration, processing instruction contains no `>` (exact for doctype and PI;
    sufficient for CDATA — exactly: no `]\s*]\s*>` — and for `<![s]>` — exactly: no `]\s*>`);
 7. a declaration `<![s]>` begins with one of the keywords `if`, `else`, `endif` (any case) — the others html.parser
    knows (`temp`, `cdata`, `ignore`, `include`, `rcdata`) end with `]]>`, anything else raises. -/
def Writable (iv : Name → Bool) (c : Choices) (ds : List WDoc) : Prop := writableL iv c [] 0 ds = true

instance (iv : Name → Bool) (c : Choices) (ds : List WDoc) : Decidable (Writable iv c ds) := by
  unfold Writable; infer_instance

/-! ### raw-text elements (`<script>`, `<style>`): the text is written verbatim -/

/-- at this suffix no `</` begins, or the character after it is neither whitespace nor (case-insensitively, `re.I`)
    the first letter `n0` of the element's name: `</\s*name\s*>` cannot match here -/
def rawSafeAt (n0 : Nat) : PStr → Bool
  | a :: b :: c :: _ => !(a == 60 && b == 47) || (!isWs c && !ciEq n0 c)
  | _ => true

def rawSafe (n0 : Nat) : PStr → Bool
  | [] => true
  | c :: t => rawSafeAt n0 (c :: t) && rawSafe n0 t

/-- **what the text of a written `<script>`/`<style>` element must respect** (decidable, sufficient): every `</` in
    `text ++ "<"` (the `<` of the element's own end tag, so a text ending in `</` is judged too) is followed by a character
    that is neither whitespace nor the first letter of the element's name in either case (nor `ſ`, which `re.I` equates
    with `s`). `<`, `&`, `</p>`, `<!--`, `&amp;` are all fine: nothing in raw text is markup.
    The exact condition of the model is "`</\s*name\s*>` (`re.I`) matches nowhere in `text`"
    (`search (mCdataClose name) (text ++ closeText name ++ rest) = some (text.length, _)`, hypothesis `hs` of
    `step_raw_body`); this one is what a writer can check character by character. -/
def rawTextOK (n t : PStr) : Bool := rawSafe (n.headD 0) (t ++ [60])

/-- every character of the text is spelt literally (raw text knows no references) -/
def allLit (sp : Nat → CharSp) : Nat → PStr → Bool
  | _, [] => true
  | i, _ :: rest => (match sp i with | .lit _ => true | _ => false) && allLit sp (i + 1) rest

mutual
def writableR (iv : Name → Bool) (c : Choices) : Path → WDoc → Bool
  | p, .elem n a ks =>
    if cdataContentElements.contains n then
      !iv n && a.all (fun kv => nameOK kv.1) &&
        (match ks with
         | [.text s] => rawTextOK n s && allLit (c.char (0 :: p)) 0 s
         | _ => false)
    else nameOK n && a.all (fun kv => nameOK kv.1) && (iv n || writableRL iv c p 0 ks)
  | p, .text s => charsWritable (c.char p) 0 s
  | _, .special k s => specialWritable k s
def writableRL (iv : Name → Bool) (c : Choices) : Path → Nat → List WDoc → Bool
  | _, _, [] => true
  | p, i, d :: ds => writableR iv c (i :: p) d && writableRL iv c p (i + 1) ds
end

/-- **`WritableRaw`** — `Writable` with point 2 replaced: an element named `script` or `style` is allowed when it is not
    void for the builder, its only child is ONE text, every character of that text is spelt literally (`CharSp.lit`:
    the text is written verbatim, `&` and `<` included) and the text respects `rawTextOK` (no `</` followed by
    whitespace or by the first letter of the element's name in either case). Everything else as in `Writable`. -/
def WritableRaw (iv : Name → Bool) (c : Choices) (ds : List WDoc) : Prop := writableRL iv c [] 0 ds = true

instance (iv : Name → Bool) (c : Choices) (ds : List WDoc) : Decidable (WritableRaw iv c ds) := by
  unfold WritableRaw; infer_instance

/-! ### callback streams up to the cutting of character data -/

/-- adjacent `data` callbacks joined: the tokenizer reports literal character data in maximal chunks, `emit` in the
    chunks of the choice `cut`; the builder cannot tell (`Props/C03 data_chunking_irrelevant`) -/
def mergeData : List SEv → List SEv
  | [] => []
  | e :: rest =>
    match e, mergeData rest with
    | .data a, .data b :: r => .data (a ++ b) :: r
    | e, r => e :: r

end BS.WriterText
