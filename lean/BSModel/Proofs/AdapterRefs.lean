import BSModel.Model.Adapter
/-! C04 helper lemmas: decimal digit strings parse back to their number; attribute dictionary read-after-write -/
namespace BS.Adapter
open BS.Builder

/-- decimal digits of a number, most significant first -/
def decDigits : Nat → Nat → PStr
  | 0, _ => []
  | fuel + 1, n => if n < 10 then [48 + n] else decDigits fuel (n / 10) ++ [48 + n % 10]

theorem parse_append_digit (acc : Option Nat) (s : PStr) (d : Nat) :
    (s ++ [d]).foldl (fun acc c => match acc, decVal c with | some a, some v => some (a * 10 + v) | _, _ => none) acc
      = match s.foldl (fun acc c => match acc, decVal c with | some a, some v => some (a * 10 + v) | _, _ => none) acc,
          decVal d with
        | some a, some v => some (a * 10 + v)
        | _, _ => none := by
  simp [List.foldl_append]

theorem decDigits_ne_nil : ∀ fuel n, n < 10 ^ (fuel) → 0 < fuel → decDigits fuel n ≠ [] := by
  intro fuel
  induction fuel with
  | zero => intro n _ h; omega
  | succ f ih =>
    intro n _ _
    simp only [decDigits]
    split <;> simp

theorem parse_decDigits : ∀ fuel n, n < 10 ^ fuel → 0 < fuel →
    (decDigits fuel n).foldl (fun acc c => match acc, decVal c with | some a, some v => some (a * 10 + v) | _, _ => none) (some 0)
      = some n := by
  intro fuel
  induction fuel with
  | zero => intro n _ h; omega
  | succ f ih =>
    intro n hn _
    simp only [decDigits]
    by_cases h10 : n < 10
    · simp only [h10, if_true, List.foldl_cons, List.foldl_nil]
      have : decVal (48 + n) = some n := by simp [decVal]; omega
      simp [this]
    · simp only [h10, if_false]
      have hf : 0 < f := by
        cases f with
        | zero => simp at hn; omega
        | succ f' => omega
      have hlt : n / 10 < 10 ^ f := by
        rw [Nat.pow_succ] at hn
        exact Nat.div_lt_of_lt_mul (by omega)
      rw [parse_append_digit, ih (n / 10) hlt hf]
      have : decVal (48 + n % 10) = some (n % 10) := by simp [decVal]; omega
      simp only [this]
      congr 1; omega


theorem getAttr_setAttr (d : List (PStr × AVal)) (k : PStr) (v : AVal) : getAttr (setAttr d k v) k = some v := by
  induction d with
  | nil => simp [setAttr, getAttr]
  | cons e es ih =>
    simp only [setAttr]
    by_cases hek : (e.1 == k) = true
    · simp [hek, getAttr]
    · have hek' : (e.1 == k) = false := by simpa using hek
      simp only [hek', Bool.false_eq_true, if_false]
      simp only [getAttr, List.find?_cons, hek'] at ih ⊢
      exact ih


end BS.Adapter
