import BSModel.Model.Adapter
import BSModel.Proofs.BuilderBal
import BSModel.Proofs.BuilderRefine
/-! C04: every element created for a void name is childless, for every callback stream -/
namespace BS.Adapter
open BS.Builder

mutual
/-- no element with a void name has children, anywhere in the tree -/
def voidLeaf (isVoid : Name → Bool) : Doc → Bool
  | .elem n _ ks => (!(isVoid n) || ks.isEmpty) && voidLeafL isVoid ks
  | .text _ _ => true
def voidLeafL (isVoid : Name → Bool) : List Doc → Bool
  | [] => true
  | d :: ds => voidLeaf isVoid d && voidLeafL isVoid ds
end

theorem voidLeafL_append (iv : Name → Bool) : ∀ (a b : List Doc), voidLeafL iv (a ++ b) = (voidLeafL iv a && voidLeafL iv b) := by
  intro a
  induction a with
  | nil => intro b; simp [voidLeafL]
  | cons d ds ih => intro b; simp [voidLeafL, ih, Bool.and_assoc]

/-- every open element has a non-void name and only well-formed finished children -/
def FOK (iv : Name → Bool) (stack : List Frame) : Prop :=
  ∀ f ∈ stack, iv f.name = false ∧ voidLeafL iv f.kids = true

theorem fok_flush (cfg : Cfg) (iv : Name → Bool) (st : SSt) (cls : Option Cls) (h : FOK iv st.stack) :
    FOK iv (sFlush cfg st cls).stack ∧ (sFlush cfg st cls).buf = [] ∨ (st.buf = [] ∧ sFlush cfg st cls = st) := by
  cases hb : st.buf with
  | nil => right; exact ⟨rfl, by simp [sFlush, hb]⟩
  | cons b bs =>
    left
    cases hs : st.stack with
    | nil => simp [sFlush, hb, hs, FOK]
    | cons top rest =>
      rw [hs] at h
      have : sFlush cfg st cls = sFlush cfg ⟨top :: rest, b :: bs⟩ cls := by
        cases st; simp_all
      rw [this, sFlush_eq]
      refine ⟨?_, rfl⟩
      intro f hf
      simp only [List.mem_cons] at hf
      rcases hf with rfl | hf
      · have ht := h top (by simp)
        refine ⟨ht.1, ?_⟩
        simp only [voidLeafL_append, ht.2, Bool.true_and, txtN]
        simp [voidLeafL, voidLeaf]
      · exact h f (by simp [hf])

theorem fok_flush' (cfg : Cfg) (iv : Name → Bool) (st : SSt) (cls : Option Cls) (h : FOK iv st.stack) :
    FOK iv (sFlush cfg st cls).stack := by
  rcases fok_flush cfg iv st cls h with h1 | h1
  · exact h1.1
  · rw [h1.2]; exact h

theorem flush_buf_nil (cfg : Cfg) (st : SSt) (cls : Option Cls) : (sFlush cfg st cls).buf = [] := by
  cases hb : st.buf with
  | nil => simp [sFlush, hb]
  | cons b bs =>
    cases hs : st.stack with
    | nil => simp [sFlush, hb, hs]
    | cons top rest => simp [sFlush, hb, hs]

theorem fok_close1 (iv : Name → Bool) (s : List Frame) (h : FOK iv s) : FOK iv (sClose1 s) := by
  match s, h with
  | [], h => exact h
  | [_], h => exact h
  | top :: below :: rest, h =>
    simp only [sClose1]
    intro f hf
    simp only [List.mem_cons] at hf
    rcases hf with rfl | hf
    · have hb := h below (by simp)
      have ht := h top (by simp)
      refine ⟨hb.1, ?_⟩
      simp only [voidLeafL_append, hb.2, Bool.true_and, voidLeafL, voidLeaf, ht.1, ht.2]
      simp
    · exact h f (by simp [hf])

theorem fok_closeN (iv : Name → Bool) : ∀ (k : Nat) (s : List Frame), FOK iv s → FOK iv (sCloseN k s) := by
  intro k
  induction k with
  | zero => intro s h; exact h
  | succ k ih => intro s h; exact ih _ (fok_close1 iv s h)

/-- one non-void-related event keeps the invariant -/
theorem fok_step (cfg : Cfg) (iv : Name → Bool) (st : SSt) (e : Ev) (h : FOK iv st.stack)
    (he : ∀ n p, e = .start n p → iv n = false) : FOK iv (sStep cfg st e).stack := by
  cases e with
  | start n p =>
    simp only [sStep]
    intro f hf
    simp only [List.mem_cons] at hf
    rcases hf with rfl | hf
    · exact ⟨he n p rfl, by simp [voidLeafL]⟩
    · exact fok_flush' cfg iv st none h f hf
  | stop n p =>
    simp only [sStep]
    split
    · exact fok_flush' cfg iv st none h
    · exact fok_closeN iv _ _ (fok_flush' cfg iv st none h)
  | data s => exact h
  | endData c => exact fok_flush' cfg iv st c h

/-- a void start tag followed at once by its own end tag appends a childless element -/
theorem fok_void_pair (cfg : Cfg) (iv : Name → Bool) (st : SSt) (n : Name) (h : FOK iv st.stack)
    (hne : st.stack ≠ []) (hr : n ≠ cfg.rootName) :
    FOK iv (sStep cfg (sStep cfg st (.start n none)) (.stop n none)).stack := by
  have h1 := fok_flush' cfg iv st none h
  have hb := flush_buf_nil cfg st none
  cases hs : (sFlush cfg st none).stack with
  | nil =>
    -- impossible: flushing never empties the stack
    exfalso
    cases hbuf : st.buf with
    | nil => have : sFlush cfg st none = st := by simp [sFlush, hbuf]
             rw [this] at hs; exact hne hs
    | cons b bs =>
      cases hst : st.stack with
      | nil => exact hne hst
      | cons t r => simp [sFlush, hbuf, hst] at hs
  | cons below rest =>
    have e1 : sStep cfg st (.start n none) = ⟨⟨n, none, []⟩ :: below :: rest, []⟩ := by
      simp only [sStep]
      cases hfl : sFlush cfg st none with
      | mk stk bf =>
        rw [hfl] at hs hb
        simp only at hs hb
        simp [hs, hb]
    rw [e1, sStep_stop_top cfg n none [] below rest [] hr]
    rw [hs] at h1
    intro f hf
    simp only [List.mem_cons] at hf
    rcases hf with rfl | hf
    · have hbl := h1 below (by simp)
      refine ⟨hbl.1, ?_⟩
      simp only [voidLeafL_append, hbl.2, Bool.true_and, txtN, List.append_nil, voidLeafL, voidLeaf]
      simp
    · exact h1 f (by simp [hf])

end BS.Adapter

namespace BS.Adapter
open BS.Builder

theorem close1_ne (s : List Frame) (h : s ≠ []) : sClose1 s ≠ [] := by
  match s, h with
  | [_], _ => simp [sClose1]
  | _ :: _ :: _, _ => simp [sClose1]

theorem closeN_ne : ∀ (k : Nat) (s : List Frame), s ≠ [] → sCloseN k s ≠ [] := by
  intro k
  induction k with
  | zero => intro s h; exact h
  | succ k ih => intro s h; exact ih _ (close1_ne s h)

theorem flush_ne (cfg : Cfg) (st : SSt) (cls : Option Cls) (h : st.stack ≠ []) : (sFlush cfg st cls).stack ≠ [] := by
  cases hb : st.buf with
  | nil => have : sFlush cfg st cls = st := by simp [sFlush, hb]
           rw [this]; exact h
  | cons b bs =>
    cases hs : st.stack with
    | nil => exact absurd hs h
    | cons t r => simp [sFlush, hb, hs]

theorem sStep_ne (cfg : Cfg) (st : SSt) (e : Ev) (h : st.stack ≠ []) : (sStep cfg st e).stack ≠ [] := by
  cases e with
  | start n p => simp [sStep]
  | stop n p =>
    simp only [sStep]
    split
    · exact flush_ne cfg st none h
    · exact closeN_ne _ _ (flush_ne cfg st none h)
  | data s => exact h
  | endData c => exact flush_ne cfg st c h

theorem sRun_append' (cfg : Cfg) (st : SSt) (a b : List Ev) : sRun cfg st (a ++ b) = sRun cfg (sRun cfg st a) b := by
  simp [sRun, List.foldl_append]

/-- a list of events none of which starts a void element -/
theorem fok_run_plain (cfg : Cfg) (iv : Name → Bool) : ∀ (evs : List Ev) (st : SSt), FOK iv st.stack → st.stack ≠ [] →
    (∀ n p, Ev.start n p ∈ evs → iv n = false) →
    FOK iv (sRun cfg st evs).stack ∧ (sRun cfg st evs).stack ≠ [] := by
  intro evs
  induction evs with
  | nil => intro st h hne _; exact ⟨h, hne⟩
  | cons e es ih =>
    intro st h hne hev
    have h1 := fok_step cfg iv st e h (fun n p he => hev n p (by simp [he]))
    have := ih (sStep cfg st e) h1 (sStep_ne cfg st e hne) (fun n p hm => hev n p (by simp [hm]))
    exact this

theorem special_no_start (s : PStr) (c : Cls) : ∀ n p, Ev.start n p ∉ special s c := by
  intro n p h; simp [special] at h

/-- the events of one callback keep the invariant -/
theorem fok_astep (bcfg : Cfg) (cfg : ACfg) (hr : cfg.isVoid bcfg.rootName = false) (ast : ASt) (e : SEv) (st : SSt)
    (h : FOK cfg.isVoid st.stack) (hne : st.stack ≠ []) :
    FOK cfg.isVoid (sRun bcfg st (astep cfg ast e).2.1).stack ∧ (sRun bcfg st (astep cfg ast e).2.1).stack ≠ [] := by
  have pair : ∀ n, n ≠ bcfg.rootName →
      FOK cfg.isVoid (sRun bcfg st [.start n none, .stop n none]).stack ∧
      (sRun bcfg st [.start n none, .stop n none]).stack ≠ [] := by
    intro n hn
    refine ⟨fok_void_pair bcfg cfg.isVoid st n h hne hn, ?_⟩
    show (sStep bcfg (sStep bcfg st (.start n none)) (.stop n none)).stack ≠ []
    exact sStep_ne _ _ _ (sStep_ne _ _ _ hne)
  cases e with
  | starttag n a l c =>
    simp only [astep]
    by_cases hv : cfg.isVoid n = true
    · simp only [hv, if_true]
      exact pair n (by intro hc; rw [hc, hr] at hv; cases hv)
    · have hv' : cfg.isVoid n = false := by simpa using hv
      simp only [hv', Bool.false_eq_true, if_false]
      exact fok_run_plain bcfg cfg.isVoid _ st h hne (by intro m p hm; simp at hm; rw [hm.1]; exact hv')
  | startendtag n a l c =>
    simp only [astep]
    by_cases hv : cfg.isVoid n = true
    · exact pair n (by intro hc; rw [hc, hr] at hv; cases hv)
    · have hv' : cfg.isVoid n = false := by simpa using hv
      exact fok_run_plain bcfg cfg.isVoid _ st h hne (by intro m p hm; simp at hm; rw [hm.1]; exact hv')
  | endtag n =>
    simp only [astep]
    split
    · exact ⟨h, hne⟩
    · exact fok_run_plain bcfg cfg.isVoid _ st h hne (by intro m p hm; simp at hm)
  | data s => exact fok_run_plain bcfg cfg.isVoid _ st h hne (by intro m p hm; simp [astep] at hm)
  | charref s => exact fok_run_plain bcfg cfg.isVoid _ st h hne (by intro m p hm; simp [astep] at hm)
  | entityref s => exact fok_run_plain bcfg cfg.isVoid _ st h hne (by intro m p hm; simp [astep] at hm)
  | comment s => exact fok_run_plain bcfg cfg.isVoid _ st h hne (by intro m p hm; simp [astep, special] at hm)
  | decl s => exact fok_run_plain bcfg cfg.isVoid _ st h hne (by intro m p hm; simp [astep, special] at hm)
  | unknownDecl s =>
    simp only [astep]
    split <;> exact fok_run_plain bcfg cfg.isVoid _ st h hne (by intro m p hm; simp [special] at hm)
  | pi s => exact fok_run_plain bcfg cfg.isVoid _ st h hne (by intro m p hm; simp [astep, special] at hm)

theorem fok_arun (bcfg : Cfg) (cfg : ACfg) (hr : cfg.isVoid bcfg.rootName = false) : ∀ (sevs : List SEv) (ast : ASt) (st : SSt),
    FOK cfg.isVoid st.stack → st.stack ≠ [] →
    FOK cfg.isVoid (sRun bcfg st (arun (astep cfg) ast sevs).1).stack ∧
    (sRun bcfg st (arun (astep cfg) ast sevs).1).stack ≠ [] := by
  intro sevs
  induction sevs with
  | nil => intro ast st h hne; exact ⟨h, hne⟩
  | cons e es ih =>
    intro ast st h hne
    simp only [arun]
    rw [sRun_append']
    obtain ⟨h1, h2⟩ := fok_astep bcfg cfg hr ast e st h hne
    exact ih _ _ h1 h2

/-- **void elements are childless**, for every callback stream: in the tree the documented fold builds from the
    adapter's events, no element with a void name has a child -/
theorem buildSpec_voidLeaf (bcfg : Cfg) (cfg : ACfg) (hr : cfg.isVoid bcfg.rootName = false) (sevs : List SEv) :
    voidLeafL cfg.isVoid (buildSpec bcfg (toEvents cfg sevs).1) = true := by
  unfold buildSpec toEvents
  have h0 : FOK cfg.isVoid [⟨bcfg.rootName, none, []⟩] := by
    intro f hf; simp at hf; subst hf; exact ⟨hr, by simp [voidLeafL]⟩
  obtain ⟨h1, h2⟩ := fok_arun bcfg cfg hr sevs ⟨[]⟩ ⟨[⟨bcfg.rootName, none, []⟩], []⟩ h0 (by simp)
  have h3 := fok_flush' bcfg cfg.isVoid _ none h1
  have h4 := fok_closeN cfg.isVoid ((sFlush bcfg (sRun bcfg ⟨[⟨bcfg.rootName, none, []⟩], []⟩ (arun (astep cfg) ⟨[]⟩ sevs).1) none).stack.length - 1) _ h3
  simp only
  split
  · rename_i root heq
    rw [heq] at h4
    exact (h4 root (by simp)).2
  · simp [voidLeafL]

end BS.Adapter
