import BSModel.Model.Attrs
/-! helper lemmas for C17 (core only) -/
namespace BS.Attrs

/-! ### `\S+` tokens -/

/-- a string of whitespace only -/
def AllWs (w : PStr) : Prop := ∀ c ∈ w, isWs c = true

/-- a non-empty string without whitespace -/
def Tok (t : PStr) : Prop := t ≠ [] ∧ ∀ c ∈ t, isWs c = false

/-- tokens each followed by its separator -/
def glue : List (PStr × PStr) → PStr
  | [] => []
  | p :: rest => p.1 ++ p.2 ++ glue rest

/-- every token is a `Tok`, every separator is whitespace, and only the last separator may be empty -/
def GoodItems : List (PStr × PStr) → Prop
  | [] => True
  | p :: rest => Tok p.1 ∧ AllWs p.2 ∧ (rest ≠ [] → p.2 ≠ []) ∧ GoodItems rest

theorem splitGo_tok (t rest cur : PStr) (h : ∀ c ∈ t, isWs c = false) :
    splitGo (t ++ rest) cur = splitGo rest (cur ++ t) := by
  induction t generalizing cur with
  | nil => simp
  | cons c t ih =>
    have hc : isWs c = false := h c (by simp)
    have ht : ∀ c ∈ t, isWs c = false := fun x hx => h x (by simp [hx])
    simp only [List.cons_append, splitGo, hc, Bool.false_eq_true, if_false]
    rw [ih _ ht]; simp

theorem splitGo_ws_nil (w rest : PStr) (h : AllWs w) : splitGo (w ++ rest) [] = splitGo rest [] := by
  induction w with
  | nil => simp
  | cons c w ih =>
    have hc : isWs c = true := h c (by simp)
    have hw : AllWs w := fun x hx => h x (by simp [hx])
    simp only [List.cons_append, splitGo, hc, if_true, List.isEmpty_nil]
    exact ih hw

theorem splitGo_ws_cur (c : Nat) (rest cur : PStr) (hc : isWs c = true) (hcur : cur ≠ []) :
    splitGo (c :: rest) cur = cur :: splitGo rest [] := by
  cases cur with
  | nil => exact absurd rfl hcur
  | cons a as => simp [splitGo, hc]

theorem splitGo_nil_cur (cur : PStr) (hcur : cur ≠ []) : splitGo [] cur = [cur] := by
  cases cur with
  | nil => exact absurd rfl hcur
  | cons a as => simp [splitGo]

theorem splitGo_glue (items : List (PStr × PStr)) (h : GoodItems items) :
    splitGo (glue items) [] = items.map (·.1) := by
  induction items with
  | nil => simp [glue, splitGo]
  | cons p rest ih =>
    obtain ⟨⟨hne, hnw⟩, hws, hlast, hrest⟩ := h
    simp only [glue, List.append_assoc, List.map_cons]
    rw [splitGo_tok _ _ _ hnw, List.nil_append]
    cases hw : p.2 with
    | nil =>
      have : rest = [] := by
        apply Classical.byContradiction
        intro hr; exact hlast hr hw
      subst this
      simp [glue, splitGo_nil_cur _ hne]
    | cons c w =>
      have hc : isWs c = true := hws c (by simp [hw])
      have hw' : AllWs w := fun x hx => hws x (by simp [hw, hx])
      rw [List.cons_append, splitGo_ws_cur _ _ _ hc hne, splitGo_ws_nil _ _ hw', ih hrest]

theorem decompose (s : PStr) :
    ∃ lead items, AllWs lead ∧ GoodItems items ∧ s = lead ++ glue items := by
  induction s with
  | nil => exact ⟨[], [], by simp [AllWs], trivial, by simp [glue]⟩
  | cons c s ih =>
    obtain ⟨lead, items, hl, hg, hs⟩ := ih
    cases hc : isWs c with
    | true =>
      refine ⟨c :: lead, items, ?_, hg, by simp [hs]⟩
      intro x hx
      rcases List.mem_cons.mp hx with rfl | hx
      · exact hc
      · exact hl x hx
    | false =>
      cases lead with
      | cons l ls =>
        refine ⟨[], ([c], l :: ls) :: items, by simp [AllWs], ?_, by simp [hs, glue]⟩
        exact ⟨⟨by simp, by simp [hc]⟩, hl, by simp, hg⟩
      | nil =>
        cases items with
        | nil =>
          refine ⟨[], [([c], [])], by simp [AllWs], ?_, by simp [hs, glue]⟩
          exact ⟨⟨by simp, by simp [hc]⟩, by simp [AllWs], by simp, trivial⟩
        | cons p rest =>
          obtain ⟨⟨hne, hnw⟩, hws, hlast, hrest⟩ := hg
          refine ⟨[], (c :: p.1, p.2) :: rest, by simp [AllWs], ?_, by simp [hs, glue]⟩
          refine ⟨⟨by simp, ?_⟩, hws, hlast, hrest⟩
          intro x hx
          rcases List.mem_cons.mp hx with rfl | hx
          · exact hc
          · exact hnw x hx

theorem splitGo_shape (s cur : PStr) (hcur : ∀ c ∈ cur, isWs c = false) :
    ∀ t ∈ splitGo s cur, t ≠ [] ∧ ∀ c ∈ t, isWs c = false := by
  induction s generalizing cur with
  | nil =>
    intro t ht
    cases cur with
    | nil => simp [splitGo] at ht
    | cons a as =>
      simp [splitGo] at ht
      subst ht
      exact ⟨by simp, hcur⟩
  | cons c s ih =>
    intro t ht
    cases hc : isWs c with
    | true =>
      cases cur with
      | nil =>
        simp only [splitGo, hc, if_true, List.isEmpty_nil] at ht
        exact ih [] (by simp) t ht
      | cons a as =>
        simp only [splitGo, hc, if_true, List.isEmpty_cons, Bool.false_eq_true, if_false] at ht
        rcases List.mem_cons.mp ht with rfl | ht
        · exact ⟨by simp, hcur⟩
        · exact ih [] (by simp) t ht
    | false =>
      simp only [splitGo, hc, Bool.false_eq_true, if_false] at ht
      refine ih (cur ++ [c]) ?_ t ht
      intro x hx
      rcases List.mem_append.mp hx with hx | hx
      · exact hcur x hx
      · simp at hx; subst hx; exact hc

theorem splitGo_flatten (s cur : PStr) :
    (splitGo s cur).flatten = cur ++ s.filter (fun c => !isWs c) := by
  induction s generalizing cur with
  | nil =>
    cases cur with
    | nil => simp [splitGo]
    | cons a as => simp [splitGo]
  | cons c s ih =>
    cases hc : isWs c with
    | true =>
      cases cur with
      | nil => simp [splitGo, hc, ih]
      | cons a as => simp [splitGo, hc, ih]
    | false =>
      simp [splitGo, hc, ih]

theorem isWs_space : isWs 32 = true := by decide

theorem split_joinSp (toks : List PStr) (h : ∀ t ∈ toks, Tok t) : splitGo (joinSp toks) [] = toks := by
  induction toks with
  | nil => simp [joinSp, splitGo]
  | cons t ts ih =>
    obtain ⟨hne, hnw⟩ := h t (by simp)
    cases ts with
    | nil =>
      simp only [joinSp]
      have := splitGo_tok t [] [] hnw
      simp only [List.append_nil, List.nil_append] at this
      rw [this, splitGo_nil_cur _ hne]
    | cons t' ts' =>
      simp only [joinSp]
      rw [splitGo_tok _ _ _ hnw, List.nil_append, splitGo_ws_cur _ _ _ isWs_space hne]
      rw [ih (fun x hx => h x (by simp [hx]))]

/-! ### dictionary laws -/

def keys (d : Items) : List PStr := d.map (·.1)

theorem dictGet_set_self (d : Items) (k : PStr) (v : PyVal) : dictGet (dictSet d k v) k = some v := by
  induction d with
  | nil => simp [dictSet, dictGet]
  | cons p rest ih =>
    obtain ⟨k', v'⟩ := p
    by_cases h : k' = k
    · subst h; simp [dictSet, dictGet]
    · have h' : (k == k') = false := by simpa using fun e => h e.symm
      simp only [dictSet, beq_iff_eq, h, if_false, dictGet, List.lookup, h']
      exact ih

theorem dictGet_set_other (d : Items) (k k' : PStr) (v : PyVal) (hne : k' ≠ k) :
    dictGet (dictSet d k v) k' = dictGet d k' := by
  induction d with
  | nil =>
    have : (k' == k) = false := by simpa using hne
    simp [dictSet, dictGet, List.lookup, this]
  | cons p rest ih =>
    obtain ⟨k0, v0⟩ := p
    by_cases h : k0 = k
    · subst h
      have : (k' == k0) = false := by simpa using hne
      simp [dictSet, dictGet, List.lookup, this]
    · simp only [dictSet, beq_iff_eq, h, if_false, dictGet, List.lookup]
      cases k' == k0 <;> simp [dictGet] at ih ⊢
      exact ih

theorem dictHas_iff_mem (d : Items) (k : PStr) : dictHas d k = true ↔ k ∈ keys d := by
  simp [dictHas, keys]

theorem dictHas_eq_isSome (d : Items) (k : PStr) : dictHas d k = (dictGet d k).isSome := by
  induction d with
  | nil => simp [dictHas, dictGet, List.lookup]
  | cons p rest ih =>
    obtain ⟨k0, v0⟩ := p
    simp only [dictHas, List.any_cons, dictGet, List.lookup] at ih ⊢
    by_cases h : k0 = k
    · subst h; simp
    · have h1 : (k0 == k) = false := by simpa using h
      have h2 : (k == k0) = false := by simpa using fun e => h e.symm
      simp [h1, h2, ih]

theorem keys_dictSet (d : Items) (k : PStr) (v : PyVal) :
    keys (dictSet d k v) = if dictHas d k then keys d else keys d ++ [k] := by
  induction d with
  | nil => simp [dictSet, keys, dictHas]
  | cons p rest ih =>
    obtain ⟨k0, v0⟩ := p
    by_cases h : k0 = k
    · subst h; simp [dictSet, keys, dictHas]
    · have h1 : (k0 == k) = false := by simpa using h
      simp only [dictSet, h1, Bool.false_eq_true, if_false, keys, List.map_cons, dictHas, List.any_cons,
        Bool.false_or] at ih ⊢
      rw [ih]; by_cases hh : (rest.any fun p => p.fst == k) = true <;> simp [hh]

theorem keys_dictDel (d : Items) (k : PStr) : keys (dictDel d k) = (keys d).filter (fun x => !(x == k)) := by
  simp [keys, dictDel, List.filter_map]; rfl

theorem dictGet_del_self (d : Items) (k : PStr) : dictGet (dictDel d k) k = none := by
  induction d with
  | nil => simp [dictDel, dictGet]
  | cons p rest ih =>
    obtain ⟨k0, v0⟩ := p
    by_cases h : k0 = k
    · subst h; simpa [dictDel, List.filter] using ih
    · have h1 : (k0 == k) = false := by simpa using h
      have h2 : (k == k0) = false := by simpa using fun e => h e.symm
      simp only [dictDel, List.filter, h1, Bool.not_false, dictGet, List.lookup, h2]
      exact ih

theorem dictGet_del_other (d : Items) (k k' : PStr) (hne : k' ≠ k) :
    dictGet (dictDel d k) k' = dictGet d k' := by
  induction d with
  | nil => simp [dictDel, dictGet]
  | cons p rest ih =>
    obtain ⟨k0, v0⟩ := p
    by_cases h : k0 = k
    · subst h
      have : (k' == k0) = false := by simpa using hne
      simpa [dictDel, List.filter, dictGet, List.lookup, this] using ih
    · have h1 : (k0 == k) = false := by simpa using h
      simp only [dictDel, List.filter, h1, Bool.not_false, dictGet, List.lookup]
      cases k' == k0 <;> simp [dictGet, dictDel] at ih ⊢
      exact ih

theorem nodup_dictSet (d : Items) (k : PStr) (v : PyVal) (h : (keys d).Nodup) : (keys (dictSet d k v)).Nodup := by
  rw [keys_dictSet]
  split
  · exact h
  · rename_i hh
    have : k ∉ keys d := fun hm => hh ((dictHas_iff_mem d k).mpr hm)
    exact List.nodup_append.mpr ⟨h, by simp, by
      intro a ha b hb; simp at hb; subst hb; exact fun e => this (e ▸ ha)⟩

theorem nodup_dictDel (d : Items) (k : PStr) (h : (keys d).Nodup) : (keys (dictDel d k)).Nodup := by
  rw [keys_dictDel]; exact h.filter _

theorem mem_dictSet (d : Items) (k : PStr) (v : PyVal) (p : PStr × PyVal) (hp : p ∈ dictSet d k v) :
    p ∈ d ∨ p.2 = v := by
  induction d with
  | nil => simp [dictSet] at hp; right; simp [hp]
  | cons q rest ih =>
    obtain ⟨k0, v0⟩ := q
    by_cases h : k0 = k
    · subst h
      simp [dictSet] at hp
      rcases hp with rfl | hp
      · right; rfl
      · left; simp [hp]
    · have h1 : (k0 == k) = false := by simpa using h
      simp only [dictSet, h1, Bool.false_eq_true, if_false, List.mem_cons] at hp
      rcases hp with rfl | hp
      · left; simp
      · rcases ih hp with h2 | h2
        · left; simp [h2]
        · right; exact h2

theorem mem_dictDel (d : Items) (k : PStr) (p : PStr × PyVal) (hp : p ∈ dictDel d k) : p ∈ d := by
  simp [dictDel] at hp; exact hp.1

/-- with distinct keys, assigning `f` of the current value is a `map` -/
theorem dictSet_as_map (d : Items) (k : PStr) (v : PyVal) (f : PyVal → PyVal) (hnd : (keys d).Nodup)
    (hget : dictGet d k = some v) :
    dictSet d k (f v) = d.map (fun p => if p.1 == k then (p.1, f p.2) else p) := by
  induction d with
  | nil => simp [dictGet] at hget
  | cons p rest ih =>
    obtain ⟨k0, v0⟩ := p
    by_cases h : k0 = k
    · subst h
      simp only [dictGet, List.lookup, beq_self_eq_true, Option.some.injEq] at hget
      subst hget
      simp only [dictSet, beq_self_eq_true, if_true, List.map_cons, List.cons.injEq, true_and]
      have hk : k0 ∉ keys rest := by simp [keys] at hnd; simpa [keys] using hnd.1
      symm
      rw [List.map_congr_left (g := id)]
      · simp
      · intro q hq
        have : q.1 ≠ k0 := fun e => hk (by simp [keys]; exact ⟨q.2, by rw [← e]; exact hq⟩)
        simp [this]
    · have h1 : (k0 == k) = false := by simpa using h
      have h2 : (k == k0) = false := by simpa using fun e => h e.symm
      simp only [dictGet, List.lookup, h2] at hget
      simp only [dictSet, h1, Bool.false_eq_true, if_false, List.map_cons, List.cons.injEq, true_and]
      simp [keys] at hnd
      exact ih (by simpa [keys] using hnd.2) hget

/-! ### `_replace_cdata_list_attribute_values` over a plain dictionary -/

theorem splitVal_idem (c : Nat) (v : PyVal) : splitVal c (splitVal c v) = splitVal c v := by
  cases v <;> simp [splitVal]

theorem keys_map_upd (d : Items) (c : PStr × PyVal → Bool) (g : PStr × PyVal → PyVal) :
    keys (d.map fun p => if c p then (p.1, g p) else p) = keys d := by
  simp only [keys, List.map_map]
  apply List.map_congr_left
  intro p _
  simp only [Function.comp]
  split <;> rfl

/-- a value the parser itself produces: a string, or a list (from an accumulating duplicate handler) -/
def StrOrList : PyVal → Prop
  | .str _ | .list _ _ => True
  | _ => False

theorem strOrList_splitVal (lc : Nat) (v : PyVal) (h : StrOrList v) : StrOrList (splitVal lc v) := by
  cases v <;> simp_all [StrOrList, splitVal]

theorem setItem_strOrList (md : Nat) (cls : DictClass) (d : Items) (k : PStr) (w : PyVal) (h : StrOrList w) :
    setItem md cls d (.plain k) w = .ok (dictSet d k w) := by
  cases cls <;> cases w <;> simp_all [StrOrList, setItem, htmlSet, xmlSet, Key.str]

/-- the loop, for a dictionary class `cls` under the hypothesis `hset` that assigning a split value through it is a
    plain store (true of every class when the values are strings or lists, and of the plain class always) -/
theorem replaceLoop_gen (md : Nat) (m : CdataMap) (lower : PStr → PStr) (lc : Nat) (cls : DictClass) (tag : PStr)
    (P : PyVal → Prop) (hP : ∀ v, P v → P (splitVal lc v))
    (hset : ∀ d k w, P w → setItem md cls d (.plain k) w = .ok (dictSet d k w))
    (ks : List PStr) (d : Items) (hnd : (keys d).Nodup) (hks : ∀ k ∈ ks, k ∈ keys d) (hd : ∀ p ∈ d, P p.2) :
    replaceLoop md m lower lc cls tag ks d =
      .ok (d.map fun p => if ks.contains p.1 && isMulti m lower tag p.1 then (p.1, splitVal lc p.2) else p) := by
  induction ks generalizing d with
  | nil => simp [replaceLoop]
  | cons attr rest ih =>
    have hrest : ∀ k ∈ rest, k ∈ keys d := fun k hk => hks k (by simp [hk])
    by_cases hm : isMulti m lower tag attr = true
    · obtain ⟨v, hv⟩ : ∃ v, dictGet d attr = some v := by
        have := (dictHas_iff_mem d attr).mpr (hks attr (by simp))
        rw [dictHas_eq_isSome] at this
        exact Option.isSome_iff_exists.mp this
      have hvm : (attr, v) ∈ d := by
        have := List.lookup_eq_some_iff.mp (by simpa [dictGet] using hv)
        obtain ⟨l1, l2, h1, _⟩ := this
        rw [h1]; simp
      have hPv : P v := hd _ hvm
      simp only [replaceLoop, hm, if_true, hv, hset d attr _ (hP v hPv), Res.bind]
      rw [dictSet_as_map d attr v (splitVal lc) hnd hv]
      rw [ih _ (by rw [keys_map_upd d (fun p => p.1 == attr) (fun p => splitVal lc p.2)]; exact hnd)
        (by rw [keys_map_upd d (fun p => p.1 == attr) (fun p => splitVal lc p.2)]; exact hrest)
        (by
          intro p hp
          obtain ⟨q, hq, rfl⟩ := List.mem_map.mp hp
          split
          · exact hP _ (hd q hq)
          · exact hd q hq)]
      congr 1
      rw [List.map_map]
      apply List.map_congr_left
      intro p _
      simp only [Function.comp]
      by_cases h1 : p.1 = attr
      · simp [h1, hm, splitVal_idem]
      · have h2 : (p.1 == attr) = false := by simpa using h1
        simp [h2, h1]
    · have hm' : isMulti m lower tag attr = false := by simpa using hm
      simp only [replaceLoop, hm', Bool.false_eq_true, if_false]
      rw [ih d hnd hrest hd]
      congr 1
      apply List.map_congr_left
      intro p _
      by_cases h1 : p.1 = attr
      · simp [h1, hm']
      · simp [h1]

theorem replaceLoop_plain (md : Nat) (m : CdataMap) (lower : PStr → PStr) (lc : Nat) (tag : PStr)
    (ks : List PStr) (d : Items) (hnd : (keys d).Nodup) (hks : ∀ k ∈ ks, k ∈ keys d) :
    replaceLoop md m lower lc .plain tag ks d =
      .ok (d.map fun p => if ks.contains p.1 && isMulti m lower tag p.1 then (p.1, splitVal lc p.2) else p) :=
  replaceLoop_gen md m lower lc .plain tag (fun _ => True) (fun _ _ => trivial) (fun _ _ _ _ => rfl) ks d hnd hks
    (fun _ _ => trivial)

theorem isMulti_nil (lower : PStr → PStr) (tag attr : PStr) : isMulti [] lower tag attr = false := by
  simp [isMulti, List.lookup]

theorem replaceCdataList_gen (md : Nat) (m : Option CdataMap) (lower : PStr → PStr) (lc : Nat) (cls : DictClass)
    (tag : PStr) (P : PyVal → Prop) (hP : ∀ v, P v → P (splitVal lc v))
    (hset : ∀ d k w, P w → setItem md cls d (.plain k) w = .ok (dictSet d k w))
    (d : Items) (hnd : (keys d).Nodup) (hd : ∀ p ∈ d, P p.2) :
    replaceCdataList md m lower lc cls tag d = .ok (replaceSpec m lower lc tag d) := by
  cases m with
  | none => simp [replaceCdataList, replaceSpec]
  | some m =>
    simp only [replaceCdataList, replaceSpec]
    split
    · rename_i h
      congr 1
      simp only [Bool.or_eq_true, List.isEmpty_iff] at h
      rcases h with h | h
      · subst h; simp
      · subst h; simp [isMulti_nil]
    · rw [replaceLoop_gen md m lower lc cls tag P hP hset _ d hnd (by intro k hk; exact hk) hd]
      congr 1
      apply List.map_congr_left
      intro p hp
      have : (List.map (fun x => x.1) d).contains p.1 = true := by
        simp only [List.contains_eq_mem, List.mem_map, decide_eq_true_eq]
        exact ⟨p, hp, rfl⟩
      rw [this]; simp

theorem replaceCdataList_plain (md : Nat) (m : Option CdataMap) (lower : PStr → PStr) (lc : Nat) (tag : PStr)
    (d : Items) (hnd : (keys d).Nodup) :
    replaceCdataList md m lower lc .plain tag d = .ok (replaceSpec m lower lc tag d) :=
  replaceCdataList_gen md m lower lc .plain tag (fun _ => True) (fun _ _ => trivial) (fun _ _ _ _ => rfl) d hnd
    (fun _ _ => trivial)

/-- for every dictionary class, as long as the values are strings or lists (what a parser delivers) -/
theorem replaceCdataList_strOrList (md : Nat) (m : Option CdataMap) (lower : PStr → PStr) (lc : Nat) (cls : DictClass)
    (tag : PStr) (d : Items) (hnd : (keys d).Nodup) (hd : ∀ p ∈ d, StrOrList p.2) :
    replaceCdataList md m lower lc cls tag d = .ok (replaceSpec m lower lc tag d) :=
  replaceCdataList_gen md m lower lc cls tag StrOrList (strOrList_splitVal lc)
    (fun d k w hw => setItem_strOrList md cls d k w hw) d hnd hd

/-! ### duplicate attributes -/

/-- the values given to `k` in a start tag, in source order -/
def valsOf (attrs : List (PStr × Option PStr)) (k : PStr) : List PStr :=
  (attrs.filter (fun p => p.1 == k)).map (fun p => rawVal p.2)

/-- keys in order of first occurrence, continuing from the keys already `seen` -/
def dedupAcc : List PStr → List PStr → List PStr
  | seen, [] => seen
  | seen, k :: ks => if seen.contains k then dedupAcc seen ks else dedupAcc (seen ++ [k]) ks

theorem setItem_str (md : Nat) (cls : DictClass) (d : Items) (k s : PStr) :
    setItem md cls d (.plain k) (.str s) = .ok (dictSet d k (.str s)) := by
  cases cls <;> simp [setItem, htmlSet, xmlSet, Key.str]

theorem valsOf_snoc_self (pre : List (PStr × Option PStr)) (k : PStr) (v : Option PStr) :
    valsOf (pre ++ [(k, v)]) k = valsOf pre k ++ [rawVal v] := by
  simp [valsOf, List.filter_append]

theorem valsOf_snoc_other (pre : List (PStr × Option PStr)) (k k' : PStr) (v : Option PStr) (h : k' ≠ k) :
    valsOf (pre ++ [(k, v)]) k' = valsOf pre k' := by
  have : (k == k') = false := by simpa using fun e => h e.symm
  simp [valsOf, List.filter_append, List.filter, this]

/-- Generic invariant of the `for key, value in attrs` loop: if the stored value of every key is `enc` of the values
    seen so far, and the duplicate handler maintains that, it holds at the end; keys appear in first-occurrence order. -/
theorem startTagLoop_inv (md : Nat) (cls : DictClass) (onDup : OnDup) (enc : List PStr → Option PyVal)
    (henc : ∀ vs, (enc vs).isSome = !vs.isEmpty)
    (hfirst : ∀ v, enc [v] = some (.str v))
    (hdup : ∀ d k v vs, vs ≠ [] → dictGet d k = enc vs →
      ∃ d', onDuplicate md cls onDup d k v = .ok d' ∧ dictGet d' k = enc (vs ++ [v]) ∧
        (∀ k', k' ≠ k → dictGet d' k' = dictGet d k') ∧ keys d' = keys d)
    (rest pre : List (PStr × Option PStr)) (d : Items) (hinv : ∀ k, dictGet d k = enc (valsOf pre k)) :
    ∃ d', startTagLoop md cls onDup rest d = .ok d' ∧ (∀ k, dictGet d' k = enc (valsOf (pre ++ rest) k)) ∧
      keys d' = dedupAcc (keys d) (rest.map (·.1)) := by
  induction rest generalizing pre d with
  | nil => exact ⟨d, by simp [startTagLoop], by simpa using hinv, by simp [dedupAcc]⟩
  | cons kv rest ih =>
    obtain ⟨k, v⟩ := kv
    have happ : pre ++ (k, v) :: rest = (pre ++ [(k, v)]) ++ rest := by simp
    by_cases hh : dictHas d k = true
    · have hne : valsOf pre k ≠ [] := by
        have h1 := hh
        rw [dictHas_eq_isSome, hinv k, henc] at h1
        intro e; simp [e] at h1
      obtain ⟨d1, h1, h2, h3, h4⟩ := hdup d k (rawVal v) (valsOf pre k) hne (hinv k)
      obtain ⟨d', e1, e2, e3⟩ := ih (pre ++ [(k, v)]) d1 (by
        intro k'
        by_cases hk : k' = k
        · subst hk; rw [valsOf_snoc_self]; exact h2
        · rw [valsOf_snoc_other _ _ _ _ hk, h3 k' hk]; exact hinv k')
      refine ⟨d', ?_, ?_, ?_⟩
      · simp only [startTagLoop, hh, if_true, h1, Res.bind]; exact e1
      · rw [happ]; exact e2
      · have hc : (keys d).contains k = true := by simpa using (dictHas_iff_mem d k).mp hh
        rw [e3, h4]; simp only [List.map_cons, dedupAcc, hc, if_true]
    · have hh' : dictHas d k = false := by simpa using hh
      have hnil : valsOf pre k = [] := by
        have h1 := hh'
        rw [dictHas_eq_isSome, hinv k, henc] at h1
        simpa using h1
      obtain ⟨d', e1, e2, e3⟩ := ih (pre ++ [(k, v)]) (dictSet d k (.str (rawVal v))) (by
        intro k'
        by_cases hk : k' = k
        · subst hk; rw [valsOf_snoc_self, hnil, dictGet_set_self]; simp [hfirst]
        · rw [valsOf_snoc_other _ _ _ _ hk, dictGet_set_other _ _ _ _ hk]; exact hinv k')
      refine ⟨d', ?_, ?_, ?_⟩
      · simp only [startTagLoop, hh', Bool.false_eq_true, if_false, setItem_str, Res.bind]; exact e1
      · rw [happ]; exact e2
      · have hc : (keys d).contains k = false := by
          cases hcc : (keys d).contains k with
          | false => rfl
          | true => exact absurd ((dictHas_iff_mem d k).mpr (by simpa using hcc)) hh
        rw [e3, keys_dictSet, hh']; simp only [List.map_cons, dedupAcc, hc, Bool.false_eq_true, if_false]

def encReplace (vs : List PStr) : Option PyVal := vs.getLast?.map .str
def encIgnore (vs : List PStr) : Option PyVal := vs.head?.map .str
def encAccumulate : List PStr → Option PyVal
  | [] => none
  | [v] => some (.str v)
  | vs => some (.list 0 vs)

theorem has_of_get (d : Items) (k : PStr) (v : PyVal) (h : dictGet d k = some v) : dictHas d k = true := by
  rw [dictHas_eq_isSome, h]; rfl

theorem hdup_replace (md : Nat) (cls : DictClass) (d : Items) (k v : PStr) (vs : List PStr) (hne : vs ≠ [])
    (hget : dictGet d k = encReplace vs) :
    ∃ d', onDuplicate md cls .replace d k v = .ok d' ∧ dictGet d' k = encReplace (vs ++ [v]) ∧
      (∀ k', k' ≠ k → dictGet d' k' = dictGet d k') ∧ keys d' = keys d := by
  refine ⟨dictSet d k (.str v), by simp [onDuplicate, setItem_str], ?_, fun k' hk => dictGet_set_other _ _ _ _ hk, ?_⟩
  · simp [dictGet_set_self, encReplace]
  · have : dictHas d k = true := by
      rw [dictHas_eq_isSome, hget]
      cases vs with
      | nil => exact absurd rfl hne
      | cons a l => simp [encReplace, List.getLast?_isSome]
    rw [keys_dictSet, this]; simp

theorem hdup_ignore (md : Nat) (cls : DictClass) (d : Items) (k v : PStr) (vs : List PStr) (hne : vs ≠ [])
    (hget : dictGet d k = encIgnore vs) :
    ∃ d', onDuplicate md cls .ignore d k v = .ok d' ∧ dictGet d' k = encIgnore (vs ++ [v]) ∧
      (∀ k', k' ≠ k → dictGet d' k' = dictGet d k') ∧ keys d' = keys d := by
  refine ⟨d, by simp [onDuplicate], ?_, fun _ _ => rfl, rfl⟩
  cases vs with
  | nil => exact absurd rfl hne
  | cons a l => rw [hget]; simp [encIgnore]

theorem hdup_accumulate (md : Nat) (cls : DictClass) (d : Items) (k v : PStr) (vs : List PStr) (hne : vs ≠ [])
    (hget : dictGet d k = encAccumulate vs) :
    ∃ d', onDuplicate md cls (.callable accumulate) d k v = .ok d' ∧ dictGet d' k = encAccumulate (vs ++ [v]) ∧
      (∀ k', k' ≠ k → dictGet d' k' = dictGet d k') ∧ keys d' = keys d := by
  match vs, hne, hget with
  | [s], _, hget =>
    simp only [encAccumulate] at hget
    refine ⟨dictSet d k (.list 0 [s, v]), by simp [onDuplicate, accumulate, hget], ?_,
      fun k' hk => dictGet_set_other _ _ _ _ hk, ?_⟩
    · simp [dictGet_set_self, encAccumulate]
    · rw [keys_dictSet, has_of_get d k _ hget]; simp
  | a :: b :: l, _, hget =>
    simp only [encAccumulate] at hget
    refine ⟨dictSet d k (.list 0 (a :: b :: l ++ [v])), by simp [onDuplicate, accumulate, hget], ?_,
      fun k' hk => dictGet_set_other _ _ _ _ hk, ?_⟩
    · simp [dictGet_set_self, encAccumulate]
    · rw [keys_dictSet, has_of_get d k _ hget]; simp

/-! ### decimal numerals -/

/-- the number a string of decimal digits denotes -/
def decVal (s : PStr) : Nat := s.foldl (fun acc c => acc * 10 + (c - 48)) 0

theorem decVal_snoc (s : PStr) (c : Nat) : decVal (s ++ [c]) = decVal s * 10 + (c - 48) := by
  simp [decVal, List.foldl_append]

theorem natDigits_acc (fuel n : Nat) (acc : PStr) : natDigits fuel n acc = natDigits fuel n [] ++ acc := by
  induction fuel generalizing n acc with
  | zero => simp [natDigits]
  | succ f ih =>
    simp only [natDigits]
    split
    · simp
    · rw [ih (n / 10) ((48 + n % 10) :: acc), ih (n / 10) [48 + n % 10]]; simp

/-- the unfolding equation without accumulator -/
theorem natDigits_succ (f n : Nat) :
    natDigits (f + 1) n [] = if n < 10 then [48 + n] else natDigits f (n / 10) [] ++ [48 + n % 10] := by
  simp only [natDigits]
  split
  · rfl
  · rw [natDigits_acc]

theorem natDigits_val (fuel n : Nat) (h : n < fuel) : decVal (natDigits fuel n []) = n := by
  induction fuel generalizing n with
  | zero => omega
  | succ f ih =>
    rw [natDigits_succ]
    split
    · simp [decVal]
    · rw [decVal_snoc, ih _ (by omega)]; omega

theorem natStr_val (n : Nat) : decVal (natStr n) = n := natDigits_val _ _ (by omega)

theorem natDigits_digits (fuel n : Nat) : ∀ c ∈ natDigits fuel n [], 48 ≤ c ∧ c ≤ 57 := by
  induction fuel generalizing n with
  | zero => simp [natDigits]
  | succ f ih =>
    rw [natDigits_succ]
    split
    · intro c hc; simp at hc; omega
    · intro c hc
      rcases List.mem_append.mp hc with hc | hc
      · exact ih _ c hc
      · simp at hc; omega

theorem natStr_digits (n : Nat) : ∀ c ∈ natStr n, 48 ≤ c ∧ c ≤ 57 := natDigits_digits _ _

theorem natDigits_head (fuel n : Nat) (h : n < fuel) (hn : n ≠ 0) :
    ∃ c rest, natDigits fuel n [] = c :: rest ∧ c ≠ 48 := by
  induction fuel generalizing n with
  | zero => omega
  | succ f ih =>
    rw [natDigits_succ]
    split
    · exact ⟨48 + n, [], rfl, by omega⟩
    · obtain ⟨c, rest, h1, hc⟩ := ih (n / 10) (by omega) (by omega)
      exact ⟨c, rest ++ [48 + n % 10], by simp [h1], hc⟩

theorem natStr_head (n : Nat) (hn : n ≠ 0) : ∃ c rest, natStr n = c :: rest ∧ c ≠ 48 :=
  natDigits_head _ _ (by omega) hn

/-! ### the two `__setitem__`s, case analysis done once -/

theorem htmlSet_ok_cases (md : Nat) (d d' : Items) (k : Key) (v : PyVal) (h : htmlSet md d k v = .ok d') :
    (htmlStored k v = none ∧ d' = dictDel d k.str) ∨ (∃ w, htmlStored k v = some w ∧ d' = dictSet d k.str w) := by
  cases v with
  | int i =>
    simp only [htmlSet, pyStrInt] at h
    split at h
    · simp [Res.bind] at h
    · simp only [Res.bind, Res.ok.injEq] at h; exact Or.inr ⟨_, rfl, h.symm⟩
  | bool b =>
    cases b
    · simp only [htmlSet, Res.ok.injEq] at h; exact Or.inl ⟨rfl, h.symm⟩
    · simp only [htmlSet, Res.ok.injEq] at h; exact Or.inr ⟨_, rfl, h.symm⟩
  | none => simp only [htmlSet, Res.ok.injEq] at h; exact Or.inl ⟨rfl, h.symm⟩
  | str s => simp only [htmlSet, Res.ok.injEq] at h; exact Or.inr ⟨_, rfl, h.symm⟩
  | float t z => simp only [htmlSet, Res.ok.injEq] at h; exact Or.inr ⟨_, rfl, h.symm⟩
  | list c l => simp only [htmlSet, Res.ok.injEq] at h; exact Or.inr ⟨_, rfl, h.symm⟩
  | other i e => simp only [htmlSet, Res.ok.injEq] at h; exact Or.inr ⟨_, rfl, h.symm⟩

theorem htmlSet_err_iff (md : Nat) (d : Items) (k : Key) (v : PyVal) :
    htmlSet md d k v = .valueError ↔ tooBig md v := by
  cases v with
  | int i =>
    simp only [htmlSet, pyStrInt, tooBig]
    split
    · rename_i h; simp [Res.bind, h]
    · rename_i h; simp [Res.bind, h]
  | bool b => cases b <;> simp [htmlSet, tooBig]
  | none => simp [htmlSet, tooBig]
  | str s => simp [htmlSet, tooBig]
  | float t z => simp [htmlSet, tooBig]
  | list c l => simp [htmlSet, tooBig]
  | other i e => simp [htmlSet, tooBig]

theorem xmlSet_ok (md : Nat) (d d' : Items) (k : Key) (v : PyVal) (h : xmlSet md d k v = .ok d') :
    d' = dictSet d k.str (xmlStored v) := by
  cases v with
  | int i =>
    simp only [xmlSet, pyStrInt] at h
    split at h
    · simp [Res.bind] at h
    · simp only [Res.bind, Res.ok.injEq] at h; exact h.symm
  | bool b => simp only [xmlSet, Res.ok.injEq] at h; exact h.symm
  | none => simp only [xmlSet, Res.ok.injEq] at h; exact h.symm
  | str s => simp only [xmlSet, Res.ok.injEq] at h; exact h.symm
  | float t z => simp only [xmlSet, Res.ok.injEq] at h; exact h.symm
  | list c l => simp only [xmlSet, Res.ok.injEq] at h; exact h.symm
  | other i e => simp only [xmlSet, Res.ok.injEq] at h; exact h.symm

theorem xmlSet_err_iff (md : Nat) (d : Items) (k : Key) (v : PyVal) :
    xmlSet md d k v = .valueError ↔ tooBig md v := by
  cases v with
  | int i =>
    simp only [xmlSet, pyStrInt, tooBig]
    split
    · rename_i h; simp [Res.bind, h]
    · rename_i h; simp [Res.bind, h]
  | bool b => simp [xmlSet, tooBig]
  | none => simp [xmlSet, tooBig]
  | str s => simp [xmlSet, tooBig]
  | float t z => simp [xmlSet, tooBig]
  | list c l => simp [xmlSet, tooBig]
  | other i e => simp [xmlSet, tooBig]

/-- values an HTML container may hold / an XML container may hold -/
def HtmlStorable : PyVal → Prop
  | .int _ | .float _ _ | .bool _ => False
  | _ => True

def XmlStorable : PyVal → Prop
  | .int _ | .float _ _ | .none => False
  | _ => True

theorem htmlStored_storable (k : Key) (v w : PyVal) (h : htmlStored k v = some w) : HtmlStorable w := by
  cases v with
  | bool b =>
    cases b
    · simp [htmlStored] at h
    · simp only [htmlStored, Option.some.injEq] at h
      subst h
      cases k with
      | plain s => simp [ownName, HtmlStorable]
      | ns pf nm =>
        cases nm with
        | none => simp [ownName, HtmlStorable]
        | some n => cases n <;> simp [ownName, HtmlStorable]
  | none => simp [htmlStored] at h
  | int i => simp only [htmlStored, Option.some.injEq] at h; subst h; simp [HtmlStorable]
  | float t z => simp only [htmlStored, Option.some.injEq] at h; subst h; simp [HtmlStorable]
  | str s => simp only [htmlStored, Option.some.injEq] at h; subst h; simp [HtmlStorable]
  | list c l => simp only [htmlStored, Option.some.injEq] at h; subst h; simp [HtmlStorable]
  | other i e => simp only [htmlStored, Option.some.injEq] at h; subst h; simp [HtmlStorable]

theorem xmlStored_storable (v : PyVal) : XmlStorable (xmlStored v) := by
  cases v <;> simp [xmlStored, XmlStorable]

/-! ### the sorted lookup is the plain lookup -/

theorem sortedKeys_lt (a : Nat × List Nat) (rest : List (Nat × List Nat)) (h : sortedKeys (a :: rest) = true) :
    ∀ p ∈ rest, a.1 < p.1 := by
  induction rest generalizing a with
  | nil => simp
  | cons b rest ih =>
    simp only [sortedKeys, Bool.and_eq_true, decide_eq_true_eq] at h
    intro p hp
    rcases List.mem_cons.mp hp with rfl | hp
    · exact h.1
    · exact Nat.lt_trans h.1 (ih b h.2 p hp)

theorem sortedKeys_tail (a : Nat × List Nat) (rest : List (Nat × List Nat)) (h : sortedKeys (a :: rest) = true) :
    sortedKeys rest = true := by
  cases rest with
  | nil => rfl
  | cons b rest => simp only [sortedKeys, Bool.and_eq_true] at h; exact h.2

theorem lookupSorted_eq_lookup (t : List (Nat × List Nat)) (c : Nat) (h : sortedKeys t = true) :
    lookupSorted t c = t.lookup c := by
  induction t with
  | nil => rfl
  | cons a rest ih =>
    obtain ⟨k, v⟩ := a
    by_cases hk : k = c
    · subst hk; simp [lookupSorted, List.lookup]
    · have h1 : (k == c) = false := by simpa using hk
      have h2 : (c == k) = false := by simpa using fun e => hk e.symm
      simp only [lookupSorted, h1, Bool.false_eq_true, if_false, List.lookup, h2]
      split
      · rename_i hlt
        have hall := sortedKeys_lt (k, v) rest h
        symm
        clear ih h
        induction rest with
        | nil => rfl
        | cons b rest ih2 =>
          have hb : k < b.1 := hall b (by simp)
          have : (c == b.1) = false := by simp; omega
          obtain ⟨bk, bv⟩ := b
          simp only [List.lookup, this]
          exact ih2 (fun p hp => hall p (by simp [hp]))
      · exact ih (sortedKeys_tail _ _ h)

/-! ### more dictionary facts -/

theorem dictGet_map_upd (d : Items) (c : PStr → Bool) (f : PyVal → PyVal) (k : PStr) :
    dictGet (d.map fun p => if c p.1 then (p.1, f p.2) else p) k
      = (dictGet d k).map (fun v => if c k then f v else v) := by
  induction d with
  | nil => simp [dictGet]
  | cons p rest ih =>
    obtain ⟨k0, v0⟩ := p
    simp only [dictGet] at ih
    by_cases h : k = k0
    · subst h
      by_cases hc : c k = true <;> simp [dictGet, List.lookup, hc]
    · have h2 : (k == k0) = false := by simpa using h
      by_cases hc : c k0 = true <;> simp [dictGet, List.lookup, hc, h2, ih]

theorem mem_dedupAcc (seen ks : List PStr) (x : PStr) : x ∈ dedupAcc seen ks ↔ x ∈ seen ∨ x ∈ ks := by
  induction ks generalizing seen with
  | nil => simp [dedupAcc]
  | cons k ks ih =>
    simp only [dedupAcc]
    split
    · rename_i h
      rw [ih]
      have : k ∈ seen := by simpa using h
      constructor
      · rintro (h | h)
        · exact Or.inl h
        · exact Or.inr (by simp [h])
      · rintro (h | h)
        · exact Or.inl h
        · rcases List.mem_cons.mp h with rfl | h
          · exact Or.inl this
          · exact Or.inr h
    · rw [ih]; simp only [List.mem_append, List.mem_cons, List.not_mem_nil, or_false]
      constructor
      · rintro ((h | h) | h)
        · exact Or.inl h
        · exact Or.inr (Or.inl h)
        · exact Or.inr (Or.inr h)
      · rintro (h | h | h)
        · exact Or.inl (Or.inl h)
        · exact Or.inl (Or.inr h)
        · exact Or.inr h

theorem nodup_dedupAcc (seen ks : List PStr) (h : seen.Nodup) : (dedupAcc seen ks).Nodup := by
  induction ks generalizing seen with
  | nil => simpa [dedupAcc] using h
  | cons k ks ih =>
    simp only [dedupAcc]
    split
    · exact ih seen h
    · rename_i hc
      apply ih
      have : k ∉ seen := by simpa using hc
      exact List.nodup_append.mpr ⟨h, by simp, by
        intro a ha b hb; simp at hb; subst hb; exact fun e => this (e ▸ ha)⟩

theorem copyInto_strOrList (md : Nat) (cls : DictClass) (d acc : Items) (hnd : (keys (acc ++ d)).Nodup)
    (hd : ∀ p ∈ d, StrOrList p.2 ∨ cls = .plain) :
    copyInto md cls d acc = .ok (acc ++ d) := by
  induction d generalizing acc with
  | nil => simp [copyInto]
  | cons p rest ih =>
    obtain ⟨k, v⟩ := p
    have hk : dictHas acc k = false := by
      cases hh : dictHas acc k with
      | false => rfl
      | true =>
        have hm := (dictHas_iff_mem acc k).mp hh
        simp only [keys, List.map_append, List.map_cons] at hnd hm
        have := (List.nodup_append.mp hnd).2.2 k hm k (by simp)
        exact absurd rfl this
    have hset : dictSet acc k v = acc ++ [(k, v)] := by
      clear ih hnd
      induction acc with
      | nil => simp [dictSet]
      | cons q acc ih2 =>
        simp only [dictHas, List.any_cons, Bool.or_eq_false_iff] at hk
        simp only [dictSet, hk.1, Bool.false_eq_true, if_false, List.cons_append, List.cons.injEq, true_and]
        exact ih2 (by simpa [dictHas] using hk.2)
    have hst : setItem md cls acc (.plain k) v = .ok (dictSet acc k v) := by
      rcases hd (k, v) (by simp) with h | h
      · exact setItem_strOrList md cls acc k v h
      · subst h; rfl
    simp only [copyInto, hst, Res.bind, hset]
    rw [ih (acc ++ [(k, v)]) (by simpa using hnd) (fun p hp => hd p (by simp [hp]))]
    simp

theorem copyInto_plain (md : Nat) (d acc : Items) (hnd : (keys (acc ++ d)).Nodup) :
    copyInto md .plain d acc = .ok (acc ++ d) :=
  copyInto_strOrList md .plain d acc hnd (fun _ _ => Or.inr rfl)

theorem dictGet_of_mem (d : Items) (hnd : (keys d).Nodup) (p : PStr × PyVal) (hp : p ∈ d) :
    dictGet d p.1 = some p.2 := by
  induction d with
  | nil => simp at hp
  | cons q rest ih =>
    obtain ⟨k0, v0⟩ := q
    simp only [keys, List.map_cons, List.nodup_cons] at hnd
    rcases List.mem_cons.mp hp with rfl | hp
    · simp [dictGet, List.lookup]
    · have hne : p.1 ≠ k0 := by
        intro e; apply hnd.1; rw [← e]; exact List.mem_map.mpr ⟨p, hp, rfl⟩
      have : (p.1 == k0) = false := by simpa using hne
      simp only [dictGet, List.lookup, this]
      exact ih (by simpa [keys] using hnd.2) hp

/-! ### histories -/

theorem getElem?_modifyAt {α : Type} (l : List α) (i j : Nat) (f : α → α) :
    (modifyAt l i f)[j]? = if j = i then l[j]?.map f else l[j]? := by
  induction l generalizing i j with
  | nil => simp [modifyAt]
  | cons a l ih => cases i <;> cases j <;> simp [modifyAt, ih]

theorem length_modifyAt {α : Type} (l : List α) (i : Nat) (f : α → α) : (modifyAt l i f).length = l.length := by
  induction l generalizing i with
  | nil => simp [modifyAt]
  | cons a l ih => cases i <;> simp [modifyAt, ih]

theorem mutateTag_get_other (t : TagAttrs) (k k' : PStr) (op : ListOp) (h : k' ≠ k) :
    dictGet (mutateTag t k op).items k' = dictGet t.items k' := by
  unfold mutateTag
  cases hg : dictGet t.items k with
  | none => rfl
  | some v => exact dictGet_set_other _ _ _ _ h

theorem mutateTag_get_self (t : TagAttrs) (k : PStr) (op : ListOp) :
    dictGet (mutateTag t k op).items k = (dictGet t.items k).map (mutateValue op) := by
  unfold mutateTag
  cases hg : dictGet t.items k with
  | none => simp [hg]
  | some v => simp [dictGet_set_self]

theorem mutateTag_cls (t : TagAttrs) (k : PStr) (op : ListOp) :
    (mutateTag t k op).cls = t.cls ∧ (mutateTag t k op).listCls = t.listCls ∧
    keys (mutateTag t k op).items = keys t.items := by
  unfold mutateTag
  cases hg : dictGet t.items k with
  | none => exact ⟨rfl, rfl, rfl⟩
  | some v =>
    refine ⟨rfl, rfl, ?_⟩
    show keys (dictSet t.items k (mutateValue op v)) = keys t.items
    rw [keys_dictSet, has_of_get _ _ _ hg]; simp

/-! ### splitting distributes over whitespace-separated concatenation -/

theorem splitGo_ws_mid (s t cur : PStr) (w : Nat) (hw : isWs w = true) :
    splitGo (s ++ w :: t) cur = splitGo s cur ++ splitGo t [] := by
  induction s generalizing cur with
  | nil =>
    cases cur with
    | nil => simp [splitGo, hw]
    | cons a as => simp [splitGo, hw]
  | cons c s ih =>
    cases hc : isWs c with
    | true =>
      cases cur with
      | nil => simp only [List.cons_append, splitGo, hc, if_true, List.isEmpty_nil]; exact ih []
      | cons a as =>
        simp only [List.cons_append, splitGo, hc, if_true, List.isEmpty_cons, Bool.false_eq_true, if_false,
          List.cons_append]
        rw [ih []]
    | false =>
      simp only [List.cons_append, splitGo, hc, Bool.false_eq_true, if_false]
      exact ih _

theorem splitWs_append_ws (s t : PStr) (w : Nat) (hw : isWs w = true) :
    splitWs (s ++ w :: t) = splitWs s ++ splitWs t := splitGo_ws_mid s t [] w hw

theorem splitWs_joinSp_flat (l : List PStr) : splitWs (joinSp l) = l.flatMap splitWs := by
  induction l with
  | nil => simp [joinSp, splitWs, splitGo]
  | cons t ts ih =>
    cases ts with
    | nil => simp [joinSp]
    | cons t' ts' =>
      simp only [joinSp] at ih ⊢
      rw [splitWs_append_ws _ _ 32 isWs_space, List.flatMap_cons, ih]

/-! ### the table, generically -/

theorem lookup_of_mem_nodup (m : CdataMap) (hnd : (m.map (·.1)).Nodup) (e : PStr × List PStr) (he : e ∈ m) :
    m.lookup e.1 = some e.2 := by
  induction m with
  | nil => simp at he
  | cons q rest ih =>
    obtain ⟨k0, v0⟩ := q
    simp only [List.map_cons, List.nodup_cons] at hnd
    rcases List.mem_cons.mp he with rfl | he
    · simp [List.lookup]
    · have hne : e.1 ≠ k0 := by
        intro h; apply hnd.1; rw [← h]; exact List.mem_map.mpr ⟨e, he, rfl⟩
      have : (e.1 == k0) = false := by simpa using hne
      simp only [List.lookup, this]
      exact ih hnd.2 he

theorem mem_of_lookup (m : CdataMap) (k : PStr) (set : List PStr) (h : m.lookup k = some set) : (k, set) ∈ m := by
  induction m with
  | nil => simp [List.lookup] at h
  | cons q rest ih =>
    obtain ⟨k0, v0⟩ := q
    by_cases hk : k = k0
    · subst hk; simp [List.lookup] at h; subst h; simp
    · have : (k == k0) = false := by simpa using hk
      simp only [List.lookup, this] at h
      exact List.mem_cons_of_mem _ (ih h)

/-- an attribute no entry lists is never multi-valued, whatever the element -/
theorem isMulti_false_of_not_listed (m : CdataMap) (lower : PStr → PStr) (tag a : PStr)
    (h : ∀ e ∈ m, a ∉ e.2) : isMulti m lower tag a = false := by
  unfold isMulti
  have h1 : ∀ k set, m.lookup k = some set → a ∉ set := by
    intro k set hl
    exact h _ (mem_of_lookup m k set hl)
  cases hs : m.lookup star with
  | none =>
    cases ht : m.lookup (lower tag) with
    | none => simp
    | some set => simp; exact h1 _ _ ht
  | some su =>
    cases ht : m.lookup (lower tag) with
    | none => simp; exact h1 _ _ hs
    | some set => simp; exact ⟨h1 _ _ hs, h1 _ _ ht⟩

theorem isMulti_of_entry (m : CdataMap) (lower : PStr → PStr) (tag a : PStr) (hnd : (m.map (·.1)).Nodup)
    (e : PStr × List PStr) (he : e ∈ m) (ha : a ∈ e.2) (hk : e.1 = star ∨ e.1 = lower tag) :
    isMulti m lower tag a = true := by
  have hl := lookup_of_mem_nodup m hnd e he
  unfold isMulti
  rcases hk with hk | hk
  · rw [hk] at hl; simp [hl, ha]
  · rw [hk] at hl; simp [hl, ha]

theorem entry_of_isMulti (m : CdataMap) (lower : PStr → PStr) (tag a : PStr) (h : isMulti m lower tag a = true) :
    ∃ e ∈ m, a ∈ e.2 ∧ (e.1 = star ∨ e.1 = lower tag) := by
  unfold isMulti at h
  cases hs : m.lookup star with
  | none =>
    cases ht : m.lookup (lower tag) with
    | none => simp [hs, ht] at h
    | some set =>
      simp [hs, ht] at h
      exact ⟨_, mem_of_lookup m _ _ ht, h, Or.inr rfl⟩
  | some su =>
    cases ht : m.lookup (lower tag) with
    | none =>
      simp [hs, ht] at h
      exact ⟨_, mem_of_lookup m _ _ hs, h, Or.inl rfl⟩
    | some set =>
      simp [hs, ht] at h
      rcases h with h | h
      · exact ⟨_, mem_of_lookup m _ _ hs, h, Or.inl rfl⟩
      · exact ⟨_, mem_of_lookup m _ _ ht, h, Or.inr rfl⟩

/-! ### `str.lower` on ASCII -/

theorem lowerCp_ascii : ∀ c, c < 128 → lowerCp c = [asciiLowerCp c] := by decide +kernel

theorem pyLower_ascii (s : PStr) (h : ∀ c ∈ s, c < 128) : pyLower s = asciiLower s := by
  induction s with
  | nil => rfl
  | cons c s ih =>
    simp only [pyLower, List.flatMap_cons, asciiLower, List.map_cons] at ih ⊢
    rw [lowerCp_ascii c (h c (by simp)), ih (fun x hx => h x (by simp [hx]))]
    rfl

/-! ### output -/

theorem lexLe_total (a b : PStr) : lexLe a b = true ∨ lexLe b a = true := by
  induction a generalizing b with
  | nil => left; simp [lexLe]
  | cons x xs ih =>
    cases b with
    | nil => right; simp [lexLe]
    | cons y ys =>
      simp only [lexLe]
      by_cases h1 : x < y
      · left; simp [h1]
      · by_cases h2 : y < x
        · right; simp [h2]
        · simp only [h1, h2, if_false]; exact ih ys

/-- adjacent elements are in key order -/
def SortedAdj : Items → Prop
  | [] => True
  | [_] => True
  | a :: b :: rest => lexLe a.1 b.1 = true ∧ SortedAdj (b :: rest)

theorem insertItem_perm (p : PStr × PyVal) (d : Items) : (insertItem p d).Perm (p :: d) := by
  induction d with
  | nil => simp [insertItem]
  | cons q qs ih =>
    simp only [insertItem]
    split
    · exact List.Perm.refl _
    · exact (List.Perm.cons q ih).trans (List.Perm.swap p q qs)

theorem sortItems_perm (d : Items) : (sortItems d).Perm d := by
  induction d with
  | nil => simp [sortItems]
  | cons p ps ih => exact (insertItem_perm p (sortItems ps)).trans (List.Perm.cons p ih)

theorem insertItem_sorted (p : PStr × PyVal) (d : Items) (h : SortedAdj d) : SortedAdj (insertItem p d) := by
  induction d with
  | nil => simp [insertItem, SortedAdj]
  | cons q qs ih =>
    simp only [insertItem]
    by_cases hpq : lexLe p.1 q.1 = true
    · simp only [hpq, if_true]; exact ⟨hpq, h⟩
    · simp only [hpq, Bool.false_eq_true, if_false]
      have hqp : lexLe q.1 p.1 = true := by
        rcases lexLe_total p.1 q.1 with h1 | h1
        · exact absurd h1 hpq
        · exact h1
      cases qs with
      | nil => simp [insertItem, SortedAdj, hqp]
      | cons r rs =>
        have hs : SortedAdj (r :: rs) := h.2
        have ih' := ih hs
        simp only [insertItem] at ih' ⊢
        by_cases hpr : lexLe p.1 r.1 = true
        · simp only [hpr, if_true] at ih' ⊢
          exact ⟨hqp, ih'⟩
        · simp only [hpr, Bool.false_eq_true, if_false] at ih' ⊢
          exact ⟨h.1, ih'⟩

theorem sortItems_sorted (d : Items) : SortedAdj (sortItems d) := by
  induction d with
  | nil => simp [sortItems, SortedAdj]
  | cons p ps ih => exact insertItem_sorted p _ ih

theorem quoted_delimits (v : PStr) :
    ∃ q body, (q = 34 ∨ q = 39) ∧ quotedAttributeValue v = q :: body ++ [q] ∧ q ∉ body := by
  by_cases h1 : v.contains 34 = true
  · by_cases h2 : v.contains 39 = true
    · refine ⟨34, v.flatMap (fun c => if c == 34 then quotEntity else [c]), Or.inl rfl, ?_, ?_⟩
      · simp only [quotedAttributeValue, h1, h2, if_true]
      · intro hm
        obtain ⟨c, _, hc⟩ := List.mem_flatMap.mp hm
        by_cases h34 : c = 34
        · simp [h34, quotEntity] at hc
        · have : (c == 34) = false := by simpa using h34
          simp [this] at hc; exact h34 hc.symm
    · have h2' : v.contains 39 = false := by simpa using h2
      refine ⟨39, v, Or.inr rfl, ?_, ?_⟩
      · simp only [quotedAttributeValue, h1, h2', if_true, Bool.false_eq_true, if_false]
      · intro hm; apply h2; simpa using hm
  · have h1' : v.contains 34 = false := by simpa using h1
    refine ⟨34, v, Or.inl rfl, ?_, ?_⟩
    · simp only [quotedAttributeValue, h1', Bool.false_eq_true, if_false]
    · intro hm; apply h1; simpa using hm

theorem mem_fmtAttributes (e : Bool) (items : Items) (p : PStr × PyVal) :
    p ∈ fmtAttributes e items ↔
      ∃ q ∈ items, p = (q.1, if e && q.2 == PyVal.str [] then PyVal.none else q.2) := by
  unfold fmtAttributes
  rw [(sortItems_perm _).mem_iff, List.mem_map]
  constructor
  · rintro ⟨q, hq, rfl⟩; exact ⟨q, hq, rfl⟩
  · rintro ⟨q, hq, rfl⟩; exact ⟨q, hq, rfl⟩

theorem length_formatAttrs (md : Nat) (f : FmtCfg) (d : Items) (l : List PStr) (h : formatAttrs md f d = .ok l) :
    l.length = d.length := by
  induction d generalizing l with
  | nil => simp only [formatAttrs, Res.ok.injEq] at h; subst h; rfl
  | cons p ps ih =>
    simp only [formatAttrs] at h
    cases h1 : formatAttr md f p with
    | valueError => simp [h1, Res.bind] at h
    | ok a =>
      cases h2 : formatAttrs md f ps with
      | valueError => simp [h1, h2, Res.bind] at h
      | ok as =>
        simp only [h1, h2, Res.bind, Res.ok.injEq] at h
        subst h
        simp [ih as h2]

/-! ### reading and deleting -/

theorem tagDel_get_self (t : TagAttrs) (k : PStr) (d : PyVal) : tagGet (tagDel t k) k d = d := by
  simp [tagGet, tagDel, dictGet_del_self]

theorem tagDel_get_other (t : TagAttrs) (k k' : PStr) (d : PyVal) (h : k' ≠ k) :
    tagGet (tagDel t k) k' d = tagGet t k' d := by
  simp [tagGet, tagDel, dictGet_del_other _ _ _ h]

theorem hasAttr_tagDel (t : TagAttrs) (k k' : PStr) :
    hasAttr (tagDel t k) k' = (hasAttr t k' && !(k' == k)) := by
  simp only [hasAttr, tagDel, dictHas_eq_isSome]
  by_cases h : k' = k
  · subst h; simp [dictGet_del_self]
  · have : (k' == k) = false := by simpa using h
    simp [dictGet_del_other _ _ _ h, this]

theorem dictDel_idem (d : Items) (k : PStr) : dictDel (dictDel d k) k = dictDel d k := by
  simp [dictDel, List.filter_filter]

end BS.Attrs
