import BSModel.Model.Reparse
/-! C05 helper lemmas: the attribute normalisation of a re-parse (`normAttrs`: sort by key, `None` → `""`, duplicate
    keys folded as a dict does, multi-valued attributes split) is idempotent for every attribute list. -/
namespace BS.Render

/-! ### `str.__lt__` is a strict total order -/

theorem ltL_irrefl : ∀ (a : PStr), ltL a a = false
  | [] => rfl
  | x :: xs => by simp [ltL, ltL_irrefl xs]

theorem ltL_trans : ∀ (a b c : PStr), ltL a b = true → ltL b c = true → ltL a c = true
  | [], [], _, h, _ => by simp [ltL] at h
  | [], _ :: _, [], _, h => by simp [ltL] at h
  | [], _ :: _, _ :: _, _, _ => by simp [ltL]
  | _ :: _, [], _, h, _ => by simp [ltL] at h
  | _ :: _, _ :: _, [], _, h => by simp [ltL] at h
  | x :: xs, y :: ys, z :: zs, h1, h2 => by
    simp only [ltL] at h1 h2 ⊢
    by_cases hxy : x < y
    · by_cases hyz : y < z
      · have : x < z := by omega
        simp [this]
      · by_cases hzy : z < y
        · simp [hyz, hzy] at h2
        · have : y = z := by omega
          subst this; simp [hxy]
    · by_cases hyx : y < x
      · simp [hxy, hyx] at h1
      · have : x = y := by omega
        subst this
        simp only [hxy, if_false] at h1
        by_cases hyz : x < z
        · simp [hyz]
        · by_cases hzy : z < x
          · simp [hyz, hzy] at h2
          · simp only [hyz, hzy, if_false] at h2 ⊢
            exact ltL_trans xs ys zs (by simpa using h1) (by simpa using h2)

theorem ltL_total : ∀ (a b : PStr), ltL a b = false → ltL b a = false → a = b
  | [], [], _, _ => rfl
  | [], _ :: _, h, _ => by simp [ltL] at h
  | _ :: _, [], _, h => by simp [ltL] at h
  | x :: xs, y :: ys, h1, h2 => by
    simp only [ltL] at h1 h2
    by_cases hxy : x < y
    · simp [hxy] at h1
    · by_cases hyx : y < x
      · simp [hyx] at h2
      · have : x = y := by omega
        subst this
        simp only [hxy, if_false] at h1 h2
        rw [ltL_total xs ys (by simpa using h1) (by simpa using h2)]

theorem ltL_asymm (a b : PStr) (h : ltL a b = true) : ltL b a = false := by
  cases hb : ltL b a with
  | false => rfl
  | true => have := ltL_trans a b a h hb; simp [ltL_irrefl] at this

/-- `a ≤ b` and `b < c` give `a < c` -/
theorem le_lt_trans (a b c : PStr) (h1 : ltL b a = false) (h2 : ltL b c = true) : ltL a c = true := by
  cases hab : ltL a b with
  | true => exact ltL_trans a b c hab h2
  | false => have := ltL_total a b hab h1; subst this; exact h2

/-- `a < b` and `b ≤ c` give `a < c` -/
theorem lt_le_trans (a b c : PStr) (h1 : ltL a b = true) (h2 : ltL c b = false) : ltL a c = true := by
  cases hbc : ltL b c with
  | true => exact ltL_trans a b c h1 hbc
  | false => have := ltL_total b c hbc h2; subst this; exact h1

/-! ### sorting -/

/-- keys in non-decreasing order -/
def SortedK (l : List (PStr × AVal)) : Prop := l.Pairwise fun x y => ltL y.1 x.1 = false

/-- keys in strictly increasing order -/
def StrictK {β} (l : List (PStr × β)) : Prop := l.Pairwise fun x y => ltL x.1 y.1 = true

theorem mem_insertAttr (x : PStr × AVal) : ∀ (l : List (PStr × AVal)) (z : PStr × AVal), z ∈ insertAttr x l → z = x ∨ z ∈ l
  | [], z, h => by simp [insertAttr] at h; exact Or.inl h
  | y :: ys, z, h => by
    simp only [insertAttr] at h
    split at h
    · simp only [List.mem_cons] at h ⊢; exact h
    · simp only [List.mem_cons] at h ⊢
      rcases h with h | h
      · exact Or.inr (Or.inl h)
      · rcases mem_insertAttr x ys z h with h | h
        · exact Or.inl h
        · exact Or.inr (Or.inr h)

theorem sortedK_insert (x : PStr × AVal) : ∀ (l : List (PStr × AVal)), SortedK l → SortedK (insertAttr x l)
  | [], _ => by simp [insertAttr, SortedK]
  | y :: ys, h => by
    have hy : ∀ z ∈ ys, ltL z.1 y.1 = false := (List.pairwise_cons.mp h).1
    have hys : SortedK ys := (List.pairwise_cons.mp h).2
    simp only [insertAttr]
    split
    · rename_i hlt
      refine List.pairwise_cons.mpr ⟨?_, h⟩
      intro z hz
      simp only [List.mem_cons] at hz
      rcases hz with hz | hz
      · subst hz; exact ltL_asymm _ _ hlt
      · have := lt_le_trans x.1 y.1 z.1 hlt (hy z hz)
        exact ltL_asymm _ _ this
    · rename_i hlt
      have hlt' : ltL x.1 y.1 = false := by simpa using hlt
      refine List.pairwise_cons.mpr ⟨?_, sortedK_insert x ys hys⟩
      intro z hz
      rcases mem_insertAttr x ys z hz with hz | hz
      · subst hz; exact hlt'
      · exact hy z hz

theorem sortedK_sort : ∀ (l : List (PStr × AVal)), SortedK (sortAttrs l)
  | [] => by simp [sortAttrs, SortedK]
  | x :: xs => by simp only [sortAttrs]; exact sortedK_insert x _ (sortedK_sort xs)

/-- insertion sort leaves a strictly sorted list alone -/
theorem sort_strict : ∀ (l : List (PStr × AVal)), StrictK l → sortAttrs l = l
  | [], _ => rfl
  | [x], _ => by simp [sortAttrs, insertAttr]
  | x :: y :: ys, h => by
    have h1 := (List.pairwise_cons.mp h).1
    have h2 := (List.pairwise_cons.mp h).2
    simp only [sortAttrs] at *
    have ih := sort_strict (y :: ys) h2
    simp only [sortAttrs] at ih
    rw [ih]
    simp [insertAttr, h1 y (by simp)]

/-! ### the dict of `handle_starttag` -/

theorem dictSet_keys (d : List (PStr × PStr)) (k v : PStr) :
    (dictSet d k v).map (·.1) = if k ∈ d.map (·.1) then d.map (·.1) else d.map (·.1) ++ [k] := by
  induction d with
  | nil => simp [dictSet]
  | cons a rest ih =>
    obtain ⟨a1, a2⟩ := a
    simp only [dictSet]
    by_cases h : a1 = k
    · subst h; simp
    · simp only [h, if_false, List.map_cons, ih, List.mem_cons]
      have hk : ¬ k = a1 := fun e => h e.symm
      by_cases hm : k ∈ rest.map (·.1)
      · simp [hm]
      · simp [hm, hk]

theorem dictSet_append (d : List (PStr × PStr)) (k v : PStr) (h : k ∉ d.map (·.1)) : dictSet d k v = d ++ [(k, v)] := by
  induction d with
  | nil => simp [dictSet]
  | cons a rest ih =>
    obtain ⟨a1, a2⟩ := a
    simp only [List.map_cons, List.mem_cons, not_or] at h
    have : ¬ a1 = k := fun e => h.1 e.symm
    simp [dictSet, this, ih h.2]

theorem strictK_iff_keys {β} (l : List (PStr × β)) : StrictK l ↔ (l.map (·.1)).Pairwise (fun a b => ltL a b = true) := by
  simp [StrictK, List.pairwise_map]

def adaptStep (d : List (PStr × PStr)) (kv : PStr × Option PStr) : List (PStr × PStr) := dictSet d kv.1 (kv.2.getD [])

theorem adaptAttrs_eq (evs : List (PStr × Option PStr)) : adaptAttrs evs = evs.foldl adaptStep [] := rfl

/-- folding key-sorted pairs into the dict gives strictly increasing keys -/
theorem fold_strict : ∀ (evs : List (PStr × Option PStr)) (d : List (PStr × PStr)), StrictK d →
    evs.Pairwise (fun x y => ltL y.1 x.1 = false) → (∀ a ∈ d, ∀ e ∈ evs, ltL e.1 a.1 = false) →
    StrictK (evs.foldl adaptStep d)
  | [], d, hd, _, _ => hd
  | e :: rest, d, hd, hs, hle => by
    simp only [List.foldl_cons]
    have hs1 := (List.pairwise_cons.mp hs).1
    have hs2 := (List.pairwise_cons.mp hs).2
    have hkeys := dictSet_keys d e.1 (e.2.getD [])
    apply fold_strict rest _ _ hs2
    · -- keys of the new dict are below the remaining keys
      intro a ha e' he'
      have hak : a.1 ∈ (adaptStep d e).map (·.1) := List.mem_map.mpr ⟨a, ha, rfl⟩
      simp only [adaptStep, hkeys] at hak
      split at hak
      · obtain ⟨a', ha', hfa⟩ := List.mem_map.mp hak
        rw [← hfa]; exact hle a' ha' e' (by simp [he'])
      · simp only [List.mem_append, List.mem_singleton] at hak
        rcases hak with hak | hak
        · obtain ⟨a', ha', hfa⟩ := List.mem_map.mp hak
          rw [← hfa]; exact hle a' ha' e' (by simp [he'])
        · rw [hak]; exact hs1 e' he'
    · -- the new dict is strictly sorted
      rw [strictK_iff_keys]
      simp only [adaptStep, hkeys]
      split
      · exact (strictK_iff_keys d).mp hd
      · rename_i hnm
        refine List.pairwise_append.mpr ⟨(strictK_iff_keys d).mp hd, by simp, ?_⟩
        intro ka hka kb hkb
        simp only [List.mem_singleton] at hkb
        subst hkb
        obtain ⟨a, ha, hfa⟩ := List.mem_map.mp hka
        have h1 : ltL e.1 a.1 = false := hle a ha e (by simp)
        cases h2 : ltL ka e.1 with
        | true => rfl
        | false =>
          rw [← hfa] at h2
          have := ltL_total a.1 e.1 h2 h1
          exact absurd (this ▸ List.mem_map.mpr ⟨a, ha, rfl⟩ : e.1 ∈ d.map (·.1)) hnm

theorem adaptAttrs_strict (evs : List (PStr × Option PStr)) (hs : evs.Pairwise (fun x y => ltL y.1 x.1 = false)) :
    StrictK (adaptAttrs evs) :=
  fold_strict evs [] (by simp [StrictK]) hs (by simp)

/-- with distinct keys nothing is replaced -/
theorem fold_nodup : ∀ (evs : List (PStr × Option PStr)) (d : List (PStr × PStr)),
    (evs.map (·.1)).Nodup → (∀ k ∈ evs.map (·.1), k ∉ d.map (·.1)) →
    evs.foldl adaptStep d = d ++ evs.map (fun kv => (kv.1, kv.2.getD []))
  | [], d, _, _ => by simp
  | e :: rest, d, hn, hd => by
    simp only [List.map_cons, List.nodup_cons] at hn
    have he : e.1 ∉ d.map (·.1) := hd e.1 (by simp)
    simp only [List.foldl_cons, adaptStep, dictSet_append d e.1 _ he]
    rw [fold_nodup rest _ hn.2]
    · simp
    · intro k hk
      simp only [List.map_append, List.map_cons, List.map_nil, List.mem_append, List.mem_singleton, not_or]
      refine ⟨hd k (by simp [hk]), ?_⟩
      intro e'; subst e'; exact hn.1 hk

theorem strictK_nodup {β} (l : List (PStr × β)) (h : StrictK l) : (l.map (·.1)).Nodup := by
  rw [strictK_iff_keys] at h
  exact h.imp (fun {a b} hab e => by subst e; simp [ltL_irrefl] at hab)

theorem adaptAttrs_nodup (evs : List (PStr × Option PStr)) (h : StrictK evs) :
    adaptAttrs evs = evs.map (fun kv => (kv.1, kv.2.getD [])) := by
  rw [adaptAttrs_eq, fold_nodup evs [] (strictK_nodup evs h) (by simp)]
  simp

/-! ### splitting a joined list of words -/

def nonSp (sp : List Nat) (w : PStr) : Prop := ∀ c ∈ w, sp.contains c = false
def Word (sp : List Nat) (w : PStr) : Prop := w ≠ [] ∧ nonSp sp w

theorem splitWsAux_word (sp : List Nat) : ∀ (w rest cur : PStr), nonSp sp w →
    splitWsAux sp (w ++ rest) cur = splitWsAux sp rest (w.reverse ++ cur)
  | [], _, _, _ => by simp
  | c :: w, rest, cur, h => by
    have hc : sp.contains c = false := h c (by simp)
    have hw : nonSp sp w := fun x hx => h x (by simp [hx])
    simp only [List.cons_append, splitWsAux, hc, Bool.false_eq_true, if_false]
    rw [splitWsAux_word sp w rest (c :: cur) hw]
    simp

theorem splitWs_join (sp : List Nat) (h32 : sp.contains 32 = true) : ∀ (l : List PStr), (∀ w ∈ l, Word sp w) →
    splitWsAux sp (joinSp l) [] = l
  | [], _ => by simp [joinSp, splitWsAux]
  | [a], h => by
    have ha := h a (by simp)
    have := splitWsAux_word sp a [] [] ha.2
    simp only [List.append_nil] at this
    simp only [joinSp, this, splitWsAux]
    have hne : a.reverse.isEmpty = false := by
      cases a with
      | nil => exact absurd rfl ha.1
      | cons x xs => simp
    simp [hne]
  | a :: b :: rest, h => by
    have ha := h a (by simp)
    have ih := splitWs_join sp h32 (b :: rest) (fun w hw => h w (by simp [hw]))
    simp only [joinSp]
    rw [splitWsAux_word sp a _ [] ha.2]
    have hne : a.reverse.isEmpty = false := by
      cases a with
      | nil => exact absurd rfl ha.1
      | cons x xs => simp
    simp only [List.append_nil, splitWsAux, h32, if_true, hne, Bool.false_eq_true, if_false, List.reverse_reverse, ih]

theorem splitWsAux_words (sp : List Nat) : ∀ (s cur : PStr), nonSp sp cur → ∀ w ∈ splitWsAux sp s cur, Word sp w
  | [], cur, hc, w, hw => by
    simp only [splitWsAux] at hw
    split at hw
    · simp at hw
    · rename_i hne
      simp only [List.mem_singleton] at hw
      subst hw
      refine ⟨?_, fun c hcm => hc c (by simpa using hcm)⟩
      intro h0
      have : cur = [] := by simpa using h0
      simp [this] at hne
  | c :: cs, cur, hc, w, hw => by
    simp only [splitWsAux] at hw
    split at hw
    · split at hw
      · exact splitWsAux_words sp cs [] (by simp [nonSp]) w hw
      · rename_i hne
        simp only [List.mem_cons] at hw
        rcases hw with hw | hw
        · subst hw
          refine ⟨?_, fun c hcm => hc c (by simpa using hcm)⟩
          intro h0
          have : cur = [] := by simpa using h0
          simp [this] at hne
        · exact splitWsAux_words sp cs [] (by simp [nonSp]) w hw
    · rename_i hsp
      have hsp' : sp.contains c = false := by simpa using hsp
      refine splitWsAux_words sp cs (c :: cur) ?_ w hw
      intro x hx
      simp only [List.mem_cons] at hx
      rcases hx with hx | hx
      · subst hx; exact hsp'
      · exact hc x hx

/-- `nonwhitespace_re.findall(" ".join(nonwhitespace_re.findall(v))) == nonwhitespace_re.findall(v)` -/
theorem splitWs_idem (p : PCfg) (h32 : p.reSpace.contains 32 = true) (v : PStr) :
    splitWs p (joinSp (splitWs p v)) = splitWs p v := by
  unfold splitWs
  exact splitWs_join p.reSpace h32 _ (splitWsAux_words p.reSpace v [] (by simp [nonSp]))

/-! ### the attribute normalisation is idempotent -/

/-- what one re-parse does to an attribute that already has its normal shape -/
def reAttr (p : PCfg) (f : Fmt) (nm : PStr) (kv : PStr × AVal) : PStr × AVal :=
  let v1 := if f.emptyBool && kv.2 == AVal.str [] then AVal.none else kv.2
  let v2 : Option PStr := match v1 with | .none => none | v => some (valText v)
  let v3 := v2.getD []
  (kv.1, if isCdataListAttr p nm kv.1 then AVal.list (splitWs p v3) else AVal.str v3)

theorem normAttrs_strict (p : PCfg) (f : Fmt) (nm : PStr) (a : List (PStr × AVal)) : StrictK (normAttrs p f nm a) := by
  have hE : (evAttrs f a).Pairwise (fun x y => ltL y.1 x.1 = false) := by
    unfold evAttrs fmtAttributes
    rw [List.pairwise_map]
    exact sortedK_sort _
  have := adaptAttrs_strict (evAttrs f a) hE
  rw [strictK_iff_keys] at this ⊢
  simpa [normAttrs, buildAttrs, List.map_map, Function.comp_def] using this

theorem normAttrs_of_strict (p : PCfg) (f : Fmt) (nm : PStr) (l : List (PStr × AVal)) (h : StrictK l) :
    normAttrs p f nm l = l.map (reAttr p f nm) := by
  have h1 : StrictK (l.map fun kv => (kv.1, if f.emptyBool && kv.2 == AVal.str [] then AVal.none else kv.2)) := by
    rw [strictK_iff_keys] at h ⊢
    simpa [List.map_map, Function.comp_def] using h
  have h2 : StrictK (evAttrs f l) := by
    unfold evAttrs fmtAttributes
    rw [sort_strict _ h1]
    rw [strictK_iff_keys] at h ⊢
    simpa [List.map_map, Function.comp_def] using h
  unfold normAttrs buildAttrs
  rw [adaptAttrs_nodup _ h2]
  unfold evAttrs fmtAttributes
  rw [sort_strict _ h1]
  simp only [List.map_map]
  apply List.map_congr_left
  intro x _
  rfl

/-- **`normAttrs` is idempotent**, for every attribute list, tag name, formatter and configuration in which the space
    is a whitespace character -/
theorem normAttrs_idem (p : PCfg) (h32 : p.reSpace.contains 32 = true) (f : Fmt) (nm : PStr) (a : List (PStr × AVal)) :
    normAttrs p f nm (normAttrs p f nm a) = normAttrs p f nm a := by
  rw [normAttrs_of_strict p f nm _ (normAttrs_strict p f nm a)]
  conv => rhs; rw [← List.map_id (normAttrs p f nm a)]
  apply List.map_congr_left
  intro x hx
  -- the shape of a normalised attribute
  unfold normAttrs buildAttrs at hx
  obtain ⟨y, _, hy⟩ := List.mem_map.mp hx
  subst hy
  simp only [reAttr, id]
  by_cases hl : isCdataListAttr p nm y.1 = true
  · simp [hl, valText, splitWs_idem p h32]
  · simp only [hl, Bool.false_eq_true, if_false]
    by_cases he : (f.emptyBool && (AVal.str y.2 == AVal.str [])) = true
    · simp only [Bool.and_eq_true, beq_iff_eq, AVal.str.injEq] at he
      simp [he.1, he.2]
    · simp [he, valText]

/-! ### what the normalisation does to the attributes of a real `dict` (distinct keys) -/

theorem insertAttr_perm (x : PStr × AVal) : ∀ (l : List (PStr × AVal)), (insertAttr x l).Perm (x :: l)
  | [] => by simp [insertAttr]
  | y :: ys => by
    simp only [insertAttr]
    split
    · exact List.Perm.refl _
    · exact ((insertAttr_perm x ys).cons y).trans (List.Perm.swap x y ys)

theorem sortAttrs_perm : ∀ (l : List (PStr × AVal)), (sortAttrs l).Perm l
  | [] => by simp [sortAttrs]
  | x :: xs => by
    simp only [sortAttrs]
    exact (insertAttr_perm x _).trans ((sortAttrs_perm xs).cons x)

theorem insertAttr_map (φ : PStr × AVal → PStr × AVal) (hφ : ∀ x, (φ x).1 = x.1) (x : PStr × AVal) :
    ∀ (l : List (PStr × AVal)), insertAttr (φ x) (l.map φ) = (insertAttr x l).map φ
  | [] => by simp [insertAttr]
  | y :: ys => by
    simp only [List.map_cons, insertAttr, hφ]
    split
    · simp
    · simp [insertAttr_map φ hφ x ys]

/-- a key-preserving map commutes with the sort -/
theorem sortAttrs_map (φ : PStr × AVal → PStr × AVal) (hφ : ∀ x, (φ x).1 = x.1) :
    ∀ (l : List (PStr × AVal)), sortAttrs (l.map φ) = (sortAttrs l).map φ
  | [] => by simp [sortAttrs]
  | x :: xs => by simp only [List.map_cons, sortAttrs, sortAttrs_map φ hφ xs, insertAttr_map φ hφ]

theorem keysNodup_iff : ∀ (ks : List PStr), keysNodup ks = true ↔ ks.Nodup
  | [] => by simp [keysNodup]
  | k :: ks => by simp [keysNodup, keysNodup_iff ks]

/-- sorted with distinct keys is strictly sorted -/
theorem strict_of_sorted_nodup (l : List (PStr × AVal)) (hs : SortedK l) (hn : (l.map (·.1)).Nodup) : StrictK l := by
  have hn' : l.Pairwise (fun x y => x.1 ≠ y.1) := by
    simpa [List.Nodup, List.pairwise_map] using hn
  refine (hs.and hn').imp ?_
  intro x y h
  cases hlt : ltL x.1 y.1 with
  | true => rfl
  | false => exact absurd (ltL_total x.1 y.1 hlt h.1) h.2

/-- the text a value is written as and read back as -/
def valRead : AVal → PStr
  | .none => []
  | v => valText v

/-- the value a re-parse gives an attribute: the written text, split if the attribute is multi-valued for the tag -/
def normVal (p : PCfg) (nm : PStr) (kv : PStr × AVal) : PStr × AVal :=
  (kv.1, if isCdataListAttr p nm kv.1 then AVal.list (splitWs p (valRead kv.2)) else AVal.str (valRead kv.2))

/-- **same attributes**: for the attributes of a dict (distinct keys) the normal form is: the same keys, sorted, each
    with the text its value is written as (`None` → `""`, a list joined by spaces) — split again on whitespace when
    the attribute is multi-valued for the tag. Whether `""` is written as a bare key makes no difference. -/
theorem normAttrs_spec (p : PCfg) (f : Fmt) (nm : PStr) (a : List (PStr × AVal)) (hn : keysNodup (a.map (·.1)) = true) :
    normAttrs p f nm a = (sortAttrs a).map (normVal p nm) := by
  have hN : (a.map (·.1)).Nodup := (keysNodup_iff _).mp hn
  have hS : StrictK (sortAttrs a) := by
    apply strict_of_sorted_nodup _ (sortedK_sort a)
    exact ((sortAttrs_perm a).map _).nodup_iff.mpr hN
  let e : PStr × AVal → PStr × AVal := fun kv => (kv.1, if f.emptyBool && kv.2 == AVal.str [] then AVal.none else kv.2)
  have he : fmtAttributes f a = (sortAttrs a).map e := sortAttrs_map e (fun _ => rfl) a
  have hE : StrictK (evAttrs f a) := by
    unfold evAttrs
    rw [he]
    rw [strictK_iff_keys] at hS ⊢
    simpa [List.map_map, Function.comp_def, e] using hS
  unfold normAttrs buildAttrs
  rw [adaptAttrs_nodup _ hE]
  unfold evAttrs
  rw [he]
  simp only [List.map_map]
  apply List.map_congr_left
  intro x _
  simp only [Function.comp, normVal, e]
  by_cases hb : (f.emptyBool && x.2 == AVal.str []) = true
  · simp only [Bool.and_eq_true, beq_iff_eq] at hb
    simp [hb.1, hb.2, valRead, valText]
  · simp only [hb, Bool.false_eq_true, if_false]
    cases hv : x.2 <;> simp [valRead, valText]

end BS.Render
