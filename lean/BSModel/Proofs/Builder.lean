import BSModel.Model.Builder
/-! # Helper lemmas for C03: counter, context stacks, invariant of the code-mirror builder state machine -/
namespace BS.Builder

/-! ### Counter reads -/

/-- the value a `Counter` reads for a key (0 when absent) -/
def gd (c : List (Name × Nat)) (n : Name) : Nat := (cget c n).getD 0

theorem cget_cset (c : List (Name × Nat)) (n m : Name) (v : Nat) :
    cget (cset c n v) m = if n = m then some v else cget c m := by
  induction c with
  | nil => simp [cset, cget, List.find?_cons]; split <;> simp_all
  | cons e es ih =>
    simp only [cget] at ih
    simp only [cset, cget]
    split <;> simp_all [List.find?_cons] <;> grind

theorem gd_cinc (c : List (Name × Nat)) (n m : Name) :
    gd (cinc c n) m = if n = m then gd c n + 1 else gd c m := by
  simp only [gd, cinc, cget_cset]; split <;> simp

theorem gd_cdec (c : List (Name × Nat)) (n m : Name) :
    gd (cdec c n) m = if n = m then gd c n - 1 else gd c m := by
  simp only [gd, cdec]
  cases h : cget c n with
  | none => simp only []; split <;> simp_all
  | some v => simp only [cget_cset]; split <;> simp_all

/-! ### The invariant -/

/-- the BeautifulSoup object's own name is neither whitespace-preserving nor a string container -/
def CfgOK (cfg : Cfg) : Prop := cfg.preserve cfg.rootName = false ∧ cfg.container cfg.rootName = none

instance (cfg : Cfg) : Decidable (CfgOK cfg) := by unfold CfgOK; infer_instance

/-- how many open frames have the name `n` (a tag called like the root object is never counted) -/
def cnt (cfg : Cfg) (s : List Frame) (n : Name) : Nat :=
  if n == cfg.rootName then 0 else (s.filter (fun f => f.name == n)).length

/-- depths of the open whitespace-preserving frames, innermost first -/
def pd (cfg : Cfg) : List Frame → List Nat
  | [] => []
  | f :: rest => if cfg.preserve f.name then (rest.length + 1) :: pd cfg rest else pd cfg rest

/-- depths and names of the open string-container frames, innermost first -/
def sd (cfg : Cfg) : List Frame → List (Nat × Name)
  | [] => []
  | f :: rest =>
    if (cfg.container f.name).isSome then (rest.length + 1, f.name) :: sd cfg rest else sd cfg rest

/-- the stack is non-empty and its last frame is the BeautifulSoup object -/
def RootLast (cfg : Cfg) : List Frame → Prop
  | [] => False
  | [r] => r.name = cfg.rootName ∧ r.pfx = none
  | _ :: b :: rest => RootLast cfg (b :: rest)

structure Inv (cfg : Cfg) (st : St) : Prop where
  root : RootLast cfg st.stack
  counter : ∀ n, gd st.counter n = cnt cfg st.stack n
  pws : st.pws = pd cfg st.stack
  scs : st.scs = sd cfg st.stack

theorem RootLast.ne_nil {cfg : Cfg} {s : List Frame} (h : RootLast cfg s) : s ≠ [] := by
  cases s <;> simp_all [RootLast]

theorem RootLast.getLast? {cfg : Cfg} : ∀ {s : List Frame}, RootLast cfg s →
    ∃ r, s.getLast? = some r ∧ r.name = cfg.rootName ∧ r.pfx = none
  | [], h => by simp [RootLast] at h
  | [r], h => ⟨r, by simp, h.1, h.2⟩
  | _ :: b :: rest, h => by
    have := RootLast.getLast? (s := b :: rest) h
    simpa [List.getLast?_cons_cons] using this

theorem RootLast.cons {cfg : Cfg} {s : List Frame} (f : Frame) (h : RootLast cfg s) : RootLast cfg (f :: s) := by
  cases s with
  | nil => simp [RootLast] at h
  | cons b rest => simpa [RootLast] using h

theorem RootLast.setKids {cfg : Cfg} {top : Frame} {rest : List Frame} (k : List Doc)
    (h : RootLast cfg (top :: rest)) : RootLast cfg ({ top with kids := k } :: rest) := by
  cases rest with
  | nil => simpa [RootLast] using h
  | cons b rest => simpa [RootLast] using h

theorem cnt_cons (cfg : Cfg) (f : Frame) (s : List Frame) (n : Name) :
    cnt cfg (f :: s) n = if n = cfg.rootName then 0 else (if f.name = n then 1 else 0) + cnt cfg s n := by
  simp only [cnt, List.filter_cons, beq_iff_eq]
  split
  · rfl
  · split <;> simp_all <;> omega

theorem cnt_root (cfg : Cfg) (s : List Frame) : cnt cfg s cfg.rootName = 0 := by simp [cnt]

theorem pd_le (cfg : Cfg) : ∀ (s : List Frame), ∀ p ∈ pd cfg s, p ≤ s.length
  | [], p, h => by simp [pd] at h
  | f :: rest, p, h => by
    have ih := pd_le cfg rest p
    simp only [pd] at h
    split at h <;> simp_all <;> grind

theorem sd_le (cfg : Cfg) : ∀ (s : List Frame), ∀ p ∈ sd cfg s, p.1 ≤ s.length
  | [], p, h => by simp [sd] at h
  | f :: rest, p, h => by
    have ih := sd_le cfg rest p
    simp only [sd] at h
    split at h <;> simp_all <;> grind

/-- a counted name is open strictly above the root frame -/
theorem two_of_cnt_pos {cfg : Cfg} {s : List Frame} {n : Name} (hr : RootLast cfg s) (h : 0 < cnt cfg s n) :
    ∃ top below rest, s = top :: below :: rest := by
  match s, hr with
  | [r], hr =>
    simp only [RootLast] at hr
    simp only [cnt_cons] at h
    split at h
    · omega
    · simp_all [cnt]; grind
  | t :: b :: rest, _ => exact ⟨t, b, rest, rfl⟩

/-! ### The invariant is kept by every primitive -/

theorem Inv.init {cfg : Cfg} (h : CfgOK cfg) : Inv cfg (St.init cfg) := by
  refine ⟨?_, ?_, ?_, ?_⟩
  · simp [St.init, RootLast]
  · intro n; simp [St.init, gd, cget, cnt]; grind
  · simp [St.init, pd, h.1]
  · simp [St.init, sd, h.2]

theorem Inv.pushTag {cfg : Cfg} {st : St} (h : Inv cfg st) (name : Name) (pfx : Option Name) :
    Inv cfg (pushTag cfg st name pfx) := by
  refine ⟨?_, ?_, ?_, ?_⟩
  · exact RootLast.cons _ h.root
  · intro n
    have := h.counter n
    have hn := h.counter name
    simp only [BS.Builder.pushTag, cnt_cons, beq_iff_eq]
    have hr := cnt_root cfg st.stack
    split
    · grind
    · simp only [gd_cinc]; grind
  · simp [BS.Builder.pushTag, pd, h.pws]
  · simp [BS.Builder.pushTag, sd, h.scs]

theorem Inv.endData {cfg : Cfg} {st : St} (h : Inv cfg st) (cls : Option Cls) :
    Inv cfg (endData cfg st cls) := by
  unfold BS.Builder.endData
  split
  · exact h
  · have hr := h.root
    match hs : st.stack with
    | [] => simp [hs, RootLast] at hr
    | top :: rest =>
      simp only []
      refine ⟨?_, ?_, ?_, ?_⟩
      · simp only; rw [hs] at hr; exact hr.setKids _
      · intro n; have := h.counter n; rw [hs] at this; simpa [cnt_cons] using this
      · have := h.pws; rw [hs] at this; simpa [pd] using this
      · have := h.scs; rw [hs] at this; simpa [sd] using this

theorem popTag_stack (st : St) (top below : Frame) (rest : List Frame) (hs : st.stack = top :: below :: rest) :
    (popTag st).stack = sClose1 st.stack := by
  simp [popTag, hs, sClose1]

theorem popTag_buf (st : St) : (popTag st).buf = st.buf := by
  unfold popTag; split <;> rfl

theorem pd_setKids (cfg : Cfg) (f : Frame) (k : List Doc) (rest : List Frame) :
    pd cfg ({ f with kids := k } :: rest) = pd cfg (f :: rest) := by simp [pd]

theorem sd_setKids (cfg : Cfg) (f : Frame) (k : List Doc) (rest : List Frame) :
    sd cfg ({ f with kids := k } :: rest) = sd cfg (f :: rest) := by simp [sd]

theorem pd_pop (cfg : Cfg) (top : Frame) (X : List Frame) :
    (match pd cfg (top :: X) with
      | p :: ps => if p = X.length + 1 then ps else pd cfg (top :: X)
      | [] => []) = pd cfg X := by
  have hle := pd_le cfg X
  by_cases hp : cfg.preserve top.name = true
  · simp [pd, hp]
  · have e : pd cfg (top :: X) = pd cfg X := by simp [pd, hp]
    rw [e]
    cases hq : pd cfg X with
    | nil => rfl
    | cons p ps =>
      have := hle p (by simp [hq])
      simp only []
      rw [if_neg (by omega)]

theorem sd_pop (cfg : Cfg) (top : Frame) (X : List Frame) :
    (match sd cfg (top :: X) with
      | (p, _) :: ss => if p = X.length + 1 then ss else sd cfg (top :: X)
      | [] => []) = sd cfg X := by
  have hle := sd_le cfg X
  by_cases hp : (cfg.container top.name).isSome = true
  · simp [sd, hp]
  · have e : sd cfg (top :: X) = sd cfg X := by simp [sd, hp]
    rw [e]
    cases hq : sd cfg X with
    | nil => rfl
    | cons p ps =>
      have := hle p (by simp [hq])
      simp only []
      rw [if_neg (by omega)]

theorem Inv.popTag {cfg : Cfg} {st : St} (h : Inv cfg st) (top below : Frame) (rest : List Frame)
    (hs : st.stack = top :: below :: rest) : Inv cfg (popTag st) := by
  have hr := h.root
  have hp := h.pws
  have hc := h.scs
  rw [hs] at hr hp hc
  refine ⟨?_, ?_, ?_, ?_⟩
  · simp only [BS.Builder.popTag, hs]
    simp only [RootLast] at hr
    exact hr.setKids _
  · intro n
    have := h.counter n
    have ht := h.counter top.name
    have hr := cnt_root cfg (below :: rest)
    rw [hs] at this ht
    simp only [BS.Builder.popTag, hs, gd_cdec]
    simp only [cnt_cons] at this ht ⊢
    grind
  · simp only [BS.Builder.popTag, hs, hp, pd_setKids]
    exact pd_pop cfg top (below :: rest)
  · simp only [BS.Builder.popTag, hs, hc, sd_setKids]
    exact sd_pop cfg top (below :: rest)

/-- under the invariant the counter guard of `_popToTag` reads "some frame of that name is open" -/
theorem guard_iff {cfg : Cfg} {st : St} (h : Inv cfg st) (name : Name) :
    (cget st.counter name = none ∨ cget st.counter name = some 0) ↔ cnt cfg st.stack name = 0 := by
  have := h.counter name
  simp only [gd] at this
  cases hc : cget st.counter name with
  | none => simp_all
  | some v => simp_all

theorem Inv.popLoop {cfg : Cfg} (name : Name) (pfx : Option Name) : ∀ (fuel : Nat) {st : St}, Inv cfg st →
    Inv cfg (popLoop st name pfx fuel)
  | 0, st, h => by simpa [BS.Builder.popLoop] using h
  | fuel + 1, st, h => by
    unfold BS.Builder.popLoop
    have hc := h.counter name
    split
    · exact h
    · exact h
    · rename_i v hv1 hv2
      have hpos : 0 < cnt cfg st.stack name := by
        rw [← hc]; simp only [gd, hv2, Option.getD_some]
        exact Nat.pos_of_ne_zero hv1
      obtain ⟨top, below, rest, hs⟩ := two_of_cnt_pos h.root hpos
      have hp := h.popTag top below rest hs
      simp only [hs]
      split
      · exact hp
      · exact Inv.popLoop name pfx fuel hp

theorem Inv.popToTag {cfg : Cfg} {st : St} (h : Inv cfg st) (name : Name) (pfx : Option Name) :
    Inv cfg (popToTag cfg st name pfx) := by
  unfold BS.Builder.popToTag
  split
  · exact h
  · exact Inv.popLoop name pfx _ h

theorem Inv.step {cfg : Cfg} {st : St} (h : Inv cfg st) (ev : Ev) : Inv cfg (step cfg st ev) := by
  cases ev with
  | start name pfx => exact (h.endData none).pushTag name pfx
  | stop name pfx => exact (h.endData none).popToTag name pfx
  | data s => exact ⟨h.root, h.counter, h.pws, h.scs⟩
  | endData cls => exact h.endData cls

theorem Inv.run {cfg : Cfg} (evs : List Ev) : ∀ {st : St}, Inv cfg st → Inv cfg (BS.Builder.run cfg st evs) := by
  induction evs with
  | nil => intro st h; exact h
  | cons e es ih => intro st h; exact ih (h.step e)

theorem Inv.reachable {cfg : Cfg} (hc : CfgOK cfg) (evs : List Ev) : Inv cfg (BS.Builder.run cfg (St.init cfg) evs) :=
  Inv.run evs (Inv.init hc)

end BS.Builder
