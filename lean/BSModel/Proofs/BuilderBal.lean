import BSModel.Proofs.BuilderText
/-! # C03 helper lemmas: net effect of a balanced block of events on the documented fold -/
namespace BS.Builder

mutual
/-- the events a well-behaved tree builder emits for a finished node -/
def events : Doc → List Ev
  | .elem n p ks => Ev.start n p :: (eventsL ks ++ [Ev.stop n p])
  | .text c s => if c = 0 then [Ev.data s] else [Ev.endData none, Ev.data s, Ev.endData (some c)]
/-- … and for a forest -/
def eventsL : List Doc → List Ev
  | [] => []
  | d :: ds => events d ++ eventsL ds
end

mutual
/-- normal form: what the machine appends to the innermost open element for a forest `ds`, and the text left
    pending, given the names `ctx` of the open elements (innermost first) and the pending chunks `b` -/
def absorb (cfg : Cfg) : List Name → List PStr → List Doc → List Doc × List PStr
  | _, b, [] => ([], b)
  | ctx, b, d :: ds =>
    let r := absorb1 cfg ctx b d
    let r2 := absorb cfg ctx r.2 ds
    (r.1 ++ r2.1, r2.2)
/-- … for one node -/
def absorb1 (cfg : Cfg) : List Name → List PStr → Doc → List Doc × List PStr
  | ctx, b, .text c s =>
    if c = 0 then ([], b ++ [s]) else (txtN cfg ctx b none ++ txtN cfg ctx [s] (some c), [])
  | ctx, b, .elem n p ks =>
    let r := absorb cfg (n :: ctx) [] ks
    (txtN cfg ctx b none ++ [Doc.elem n p (r.1 ++ txtN cfg (n :: ctx) r.2 none)], [])
end

mutual
/-- no element of the tree is named like the BeautifulSoup object (whose end tag the machine ignores) -/
def noRoot (cfg : Cfg) : Doc → Bool
  | .elem n _ ks => n != cfg.rootName && noRootL cfg ks
  | .text _ _ => true
def noRootL (cfg : Cfg) : List Doc → Bool
  | [] => true
  | d :: ds => noRoot cfg d && noRootL cfg ds
end

theorem sRun_cons (cfg : Cfg) (s : SSt) (e : Ev) (es : List Ev) :
    sRun cfg s (e :: es) = sRun cfg (sStep cfg s e) es := rfl

theorem sRun_nil (cfg : Cfg) (s : SSt) : sRun cfg s [] = s := rfl

theorem sStep_start (cfg : Cfg) (top : Frame) (rest : List Frame) (b : List PStr) (n : Name) (p : Option Name) :
    sStep cfg ⟨top :: rest, b⟩ (.start n p) =
      ⟨⟨n, p, []⟩ :: { top with kids := top.kids ++ txtN cfg ((top :: rest).map (·.name)) b none } :: rest, []⟩ := by
  simp only [sStep, sFlush_eq]

/-- an end tag directly inside its own element closes exactly that element -/
theorem sStep_stop_top (cfg : Cfg) (n : Name) (p : Option Name) (k : List Doc) (below : Frame) (rest : List Frame)
    (b : List PStr) (hn : n ≠ cfg.rootName) :
    sStep cfg ⟨⟨n, p, k⟩ :: below :: rest, b⟩ (.stop n p) =
      ⟨{ below with kids := below.kids ++
          [Doc.elem n p (k ++ txtN cfg (n :: (below :: rest).map (·.name)) b none)] } :: rest, []⟩ := by
  have hn' : (n == cfg.rootName) = false := by simpa using hn
  simp only [sStep, sFlush_eq, hn', Bool.false_eq_true, if_false, List.dropLast_cons_cons, closeCount_cons]
  simp [sCloseN, sClose1]

mutual
theorem run_forest (cfg : Cfg) : ∀ (ds : List Doc), noRootL cfg ds = true →
    ∀ (top : Frame) (rest : List Frame) (b : List PStr),
    sRun cfg ⟨top :: rest, b⟩ (eventsL ds) =
      ⟨{ top with kids := top.kids ++ (absorb cfg ((top :: rest).map (·.name)) b ds).1 } :: rest,
        (absorb cfg ((top :: rest).map (·.name)) b ds).2⟩
  | [], _, top, rest, b => by simp [eventsL, sRun_nil, absorb]
  | d :: ds, hok, top, rest, b => by
    simp only [noRootL, Bool.and_eq_true] at hok
    simp only [eventsL, sRun_append, absorb]
    rw [run_doc cfg d hok.1 top rest b, run_forest cfg ds hok.2 _ rest _]
    simp [List.append_assoc]
theorem run_doc (cfg : Cfg) : ∀ (d : Doc), noRoot cfg d = true →
    ∀ (top : Frame) (rest : List Frame) (b : List PStr),
    sRun cfg ⟨top :: rest, b⟩ (events d) =
      ⟨{ top with kids := top.kids ++ (absorb1 cfg ((top :: rest).map (·.name)) b d).1 } :: rest,
        (absorb1 cfg ((top :: rest).map (·.name)) b d).2⟩
  | .text c s, _, top, rest, b => by
    by_cases hc : c = 0
    · simp [events, absorb1, hc, sRun_cons, sRun_nil, sStep]
    · simp only [events, absorb1, hc, if_false, sRun_cons, sRun_nil, sStep, sFlush_eq, List.nil_append]
      simp [List.append_assoc]
  | .elem n p ks, hok, top, rest, b => by
    simp only [noRoot, Bool.and_eq_true, bne_iff_ne, ne_eq] at hok
    simp only [events, absorb1, sRun_cons, sRun_append, sStep_start]
    rw [run_forest cfg ks hok.2 ⟨n, p, []⟩ _ []]
    simp only [sRun_nil, List.nil_append, List.map_cons]
    rw [sStep_stop_top cfg n p _ _ rest _ hok.1]
    simp [List.append_assoc]
end

end BS.Builder
