import BSModel.Proofs.Builder
/-! # C03 helper lemmas: the counter-guarded loop of `_popToTag` closes `closeCount` frames -/
namespace BS.Builder

theorem closeCount_cons (name : Name) (pfx : Option Name) (f : Frame) (rest : List Frame) :
    closeCount name pfx (f :: rest) =
      if (f.name == name && f.pfx == pfx) = true then 1
      else if rest.any (fun g => g.name == name) = true then 1 + closeCount name pfx rest
      else if (f.name == name) = true then 1 else 0 := by
  by_cases hm : (f.name == name && f.pfx == pfx) = true
  · simp [closeCount, List.findIdx?_cons, hm]
  · rw [if_neg hm]
    by_cases ha : rest.any (fun g => g.name == name) = true
    · rw [if_pos ha]
      have hrev : (rest.reverse.findIdx? (fun g => g.name == name)).isSome = true := by
        rw [List.findIdx?_isSome, List.any_reverse]; exact ha
      obtain ⟨j, hj⟩ := Option.isSome_iff_exists.mp hrev
      have hjl : j < rest.length := by
        have := (List.findIdx?_eq_some_iff_findIdx_eq.mp hj).1
        simpa using this
      simp only [closeCount, List.findIdx?_cons, hm, List.reverse_cons, List.findIdx?_append, hj]
      cases hi : rest.findIdx? (fun f => f.name == name && f.pfx == pfx) with
      | some i => simp; omega
      | none => simp; omega
    · rw [if_neg ha]
      have hnone : rest.findIdx? (fun f => f.name == name && f.pfx == pfx) = none := by
        rw [List.findIdx?_eq_none_iff]
        intro x hx
        have : (x.name == name) = false := by
          simp only [List.any_eq_true, not_exists, not_and] at ha
          simpa using ha x hx
        simp [this]
      have hrev : rest.reverse.findIdx? (fun g => g.name == name) = none := by
        rw [List.findIdx?_eq_none_iff]
        intro x hx
        simp only [List.any_eq_true, not_exists, not_and] at ha
        simpa using ha x (by simpa using hx)
      simp only [closeCount, List.findIdx?_cons, hm, List.reverse_cons, List.findIdx?_append, hnone, hrev]
      by_cases hn : (f.name == name) = true
      · simp [hn]
      · simp [hn]

theorem closeCount_nil (name : Name) (pfx : Option Name) : closeCount name pfx [] = 0 := by
  simp [closeCount]

theorem closeCount_eq_zero (name : Name) (pfx : Option Name) (s : List Frame)
    (h : s.any (fun g => g.name == name) = false) : closeCount name pfx s = 0 := by
  cases s with
  | nil => exact closeCount_nil name pfx
  | cons f rest =>
    simp only [List.any_cons, Bool.or_eq_false_iff] at h
    rw [closeCount_cons]
    simp [h.1, h.2]

/-- the frames above the root frame contain the name iff it is counted -/
theorem any_dropLast_iff {cfg : Cfg} {name : Name} (hn : name ≠ cfg.rootName) : ∀ {s : List Frame}, RootLast cfg s →
    (s.dropLast.any (fun g => g.name == name) = true ↔ 0 < cnt cfg s name)
  | [], h => by simp [RootLast] at h
  | [r], h => by
    simp only [RootLast] at h
    simp [cnt, hn, h.1]
    intro e; exact hn e.symm
  | t :: b :: rest, h => by
    have ih := any_dropLast_iff hn (s := b :: rest) h
    rw [List.dropLast_cons_cons, List.any_cons, cnt_cons, if_neg hn, Bool.or_eq_true, ih]
    by_cases ht : t.name = name <;> simp [ht]
    omega

theorem closeCount_dropLast_setKids (name : Name) (pfx : Option Name) (b : Frame) (k : List Doc) (rest : List Frame) :
    closeCount name pfx (List.dropLast ({ b with kids := k } :: rest)) = closeCount name pfx (List.dropLast (b :: rest)) := by
  cases rest with
  | nil => rfl
  | cons c rest => simp only [List.dropLast_cons_cons, closeCount_cons]

theorem sCloseN_succ' (k : Nat) (s : List Frame) : sCloseN (1 + k) s = sCloseN k (sClose1 s) := by
  rw [Nat.add_comm]; rfl

theorem popLoop_stack {cfg : Cfg} {name : Name} (pfx : Option Name) (hn : name ≠ cfg.rootName) :
    ∀ (fuel : Nat) {st : St}, Inv cfg st → st.stack.length ≤ fuel + 1 →
      (popLoop st name pfx fuel).stack = sCloseN (closeCount name pfx st.stack.dropLast) st.stack
  | 0, st, h, hl => by
    have hr := h.root
    match hs : st.stack, hr with
    | [r], _ => simp [closeCount_nil, sCloseN]
    | t :: b :: rest, _ => simp [hs] at hl
  | fuel + 1, st, h, hl => by
    have hc := h.counter name
    have hany := any_dropLast_iff hn h.root
    unfold popLoop
    split
    · rename_i hv
      have : cnt cfg st.stack name = 0 := by rw [← hc]; simp [gd, hv]
      rw [closeCount_eq_zero]; · rfl
      · cases hb : st.stack.dropLast.any (fun g => g.name == name) with
        | false => rfl
        | true => have := hany.mp hb; omega
    · rename_i hv
      have : cnt cfg st.stack name = 0 := by rw [← hc]; simp [gd, hv]
      rw [closeCount_eq_zero]; · rfl
      · cases hb : st.stack.dropLast.any (fun g => g.name == name) with
        | false => rfl
        | true => have := hany.mp hb; omega
    · rename_i v hv1 hv2
      have hpos : 0 < cnt cfg st.stack name := by
        rw [← hc]; simp only [gd, hv2, Option.getD_some]
        exact Nat.pos_of_ne_zero hv1
      obtain ⟨top, below, rest, hs⟩ := two_of_cnt_pos h.root hpos
      have hp := h.popTag top below rest hs
      have hps := popTag_stack st top below rest hs
      have hr := h.root
      rw [hs] at hr
      simp only [RootLast] at hr
      have hany' := any_dropLast_iff hn hr
      simp only [hs]
      rw [List.dropLast_cons_cons, closeCount_cons]
      split
      · rename_i hm
        rw [hps, hs]; rfl
      · rename_i hm
        have ih := popLoop_stack pfx hn fuel hp (by rw [hps, hs]; simp [sClose1]; simp [hs] at hl; omega)
        rw [ih, hps, hs]
        simp only [sClose1, closeCount_dropLast_setKids]
        rw [hs, cnt_cons, if_neg hn] at hpos
        by_cases ha : (below :: rest).dropLast.any (fun g => g.name == name) = true
        · rw [if_pos ha, sCloseN_succ']; rfl
        · rw [if_neg ha]
          have h0 : cnt cfg (below :: rest) name = 0 := by
            cases hz : cnt cfg (below :: rest) name with
            | zero => rfl
            | succ k => exact absurd (hany'.mpr (by omega)) ha
          have ht : top.name = name := by
            rw [h0] at hpos; by_cases ht : top.name = name; exact ht; simp [ht] at hpos
          rw [closeCount_eq_zero _ _ _ (by simpa using ha)]
          simp [ht, sCloseN, sClose1]

theorem popToTag_stack {cfg : Cfg} {st : St} (h : Inv cfg st) (name : Name) (pfx : Option Name) :
    (popToTag cfg st name pfx).stack =
      if name == cfg.rootName then st.stack
      else sCloseN (closeCount name pfx st.stack.dropLast) st.stack := by
  unfold popToTag
  split
  · rfl
  · rename_i hn
    exact popLoop_stack pfx (by simpa using hn) _ h (by have := h.root.ne_nil; cases hs : st.stack <;> simp_all)

theorem popLoop_buf (name : Name) (pfx : Option Name) : ∀ (fuel : Nat) (st : St),
    (popLoop st name pfx fuel).buf = st.buf
  | 0, st => rfl
  | fuel + 1, st => by
    unfold popLoop
    split
    · rfl
    · rfl
    · split
      · rfl
      · split
        · exact popTag_buf st
        · rw [popLoop_buf name pfx fuel, popTag_buf]

theorem popToTag_buf (cfg : Cfg) (st : St) (name : Name) (pfx : Option Name) :
    (popToTag cfg st name pfx).buf = st.buf := by
  unfold popToTag; split
  · rfl
  · exact popLoop_buf name pfx _ st

/-- without prefixes `closeCount` is "index of the most recent open element of that name, plus one" -/
theorem closeCount_noprefix (name : Name) (s : List Frame) (hp : ∀ f ∈ s, f.pfx = none) :
    closeCount name none s =
      match s.findIdx? (fun f => f.name == name) with
      | some i => i + 1
      | none => 0 := by
  have e : s.findIdx? (fun f => f.name == name && f.pfx == none) = s.findIdx? (fun f => f.name == name) := by
    induction s with
    | nil => rfl
    | cons f rest ih =>
      have h1 : f.pfx = none := hp f (by simp)
      have h2 := ih (fun g hg => hp g (by simp [hg]))
      simp only [List.findIdx?_cons, h1, h2]
      simp
  simp only [closeCount, e]
  cases hi : s.findIdx? (fun f => f.name == name) with
  | some i => rfl
  | none =>
    have : s.reverse.findIdx? (fun f => f.name == name) = none := by
      rw [List.findIdx?_eq_none_iff] at hi ⊢
      intro x hx; exact hi x (by simpa using hx)
    simp [this]

end BS.Builder
