import BSModel.Proofs.BuilderPop
/-! # C03 helper lemmas: the code-mirror refines the documented fold -/
namespace BS.Builder

/-- abstraction: forget the counter and the two context stacks -/
def abs (st : St) : SSt := ⟨st.stack, st.buf⟩

theorem pd_isEmpty (cfg : Cfg) (s : List Frame) : (pd cfg s).isEmpty = !(preserving cfg s) := by
  induction s with
  | nil => rfl
  | cons f rest ih =>
    simp only [pd, preserving, List.any_cons] at ih ⊢
    by_cases hp : cfg.preserve f.name = true
    · simp [hp]
    · simp [hp, ih]

/-- the container class of the nearest enclosing string-container element -/
def nearest (cfg : Cfg) (s : List Frame) : Option Cls :=
  (s.find? (fun f => (cfg.container f.name).isSome)).bind (fun f => cfg.container f.name)

theorem classFor_eq (cfg : Cfg) (s : List Frame) (base : Option Cls) :
    classFor cfg s base = if base.getD 0 = 0 then (nearest cfg s).getD 0 else base.getD 0 := by
  cases base with
  | none => simp [classFor, nearest]
  | some c => simp only [classFor, nearest, Option.getD_some]

theorem sd_head (cfg : Cfg) (s : List Frame) (c : Cls) :
    (match sd cfg s with
      | (_, n) :: _ => if c = 0 then (cfg.container n).getD c else c
      | [] => c) = if c = 0 then (nearest cfg s).getD 0 else c := by
  induction s with
  | nil => simp [sd, nearest]
  | cons f rest ih =>
    by_cases hc : (cfg.container f.name).isSome = true
    · simp only [sd, hc, if_true, nearest, List.find?_cons, Option.bind_some]
      split <;> simp_all
    · have e : sd cfg (f :: rest) = sd cfg rest := by simp [sd, hc]
      have e2 : nearest cfg (f :: rest) = nearest cfg rest := by
        simp only [nearest, List.find?_cons]
        simp [hc]
      rw [e, e2, ih]

theorem stringContainer_eq {cfg : Cfg} {st : St} (h : st.scs = sd cfg st.stack) (cls : Option Cls) :
    stringContainer cfg st cls = classFor cfg st.stack cls := by
  simp only [stringContainer, h, classFor_eq]
  exact sd_head cfg st.stack _

theorem abs_endData {cfg : Cfg} {st : St} (h : Inv cfg st) (cls : Option Cls) :
    abs (endData cfg st cls) = sFlush cfg (abs st) cls := by
  have hne := h.root.ne_nil
  have hsc := stringContainer_eq h.scs cls
  have hpw : st.pws.isEmpty = !(preserving cfg st.stack) := by rw [h.pws]; exact pd_isEmpty cfg _
  cases hb : st.buf with
  | nil => simp [endData, sFlush, abs, hb]
  | cons x xs =>
    cases hs : st.stack with
    | nil => exact absurd hs hne
    | cons top rest =>
      rw [hs] at hsc hpw
      simp only [endData, sFlush, abs, hb, hs, hsc, hpw, List.isEmpty_cons, Bool.false_eq_true, if_false]
      cases hpr : preserving cfg (top :: rest) <;> simp

theorem abs_step {cfg : Cfg} {st : St} (h : Inv cfg st) (ev : Ev) :
    abs (step cfg st ev) = sStep cfg (abs st) ev := by
  cases ev with
  | start name pfx =>
    have := abs_endData h none
    simp only [step, sStep, ← this]
    simp [abs, pushTag]
  | stop name pfx =>
    have he := abs_endData h none
    have hi := h.endData none
    simp only [step, sStep, ← he]
    have h1 := popToTag_stack hi name pfx
    have h2 := popToTag_buf cfg (endData cfg st none) name pfx
    simp only [abs] at h1 h2 ⊢
    rw [h1, h2]
    split <;> rfl
  | data s => rfl
  | endData cls => exact abs_endData h cls

theorem abs_run {cfg : Cfg} (evs : List Ev) : ∀ {st : St}, Inv cfg st →
    abs (run cfg st evs) = sRun cfg (abs st) evs := by
  induction evs with
  | nil => intro st _; rfl
  | cons e es ih =>
    intro st h
    simp only [run, sRun, List.foldl_cons] at ih ⊢
    rw [← abs_step h e]
    exact ih (h.step e)

theorem sClose1_length (s : List Frame) : (sClose1 s).length = if s.length ≤ 1 then s.length else s.length - 1 := by
  match s with
  | [] => rfl
  | [_] => rfl
  | _ :: _ :: _ => simp [sClose1]

theorem closeAll_spec {cfg : Cfg} : ∀ (fuel : Nat) {st : St}, Inv cfg st → st.stack.length ≤ fuel + 1 →
    Inv cfg (closeAll st fuel) ∧ (closeAll st fuel).stack = sCloseN (st.stack.length - 1) st.stack ∧
      (closeAll st fuel).buf = st.buf
  | 0, st, h, hl => by
    have : st.stack.length - 1 = 0 := by omega
    simp [closeAll, this, sCloseN, h]
  | fuel + 1, st, h, hl => by
    unfold closeAll
    split
    · rename_i t b rest hs
      have hp := h.popTag t b rest hs
      have hps := popTag_stack st t b rest hs
      have hlen : (popTag st).stack.length = st.stack.length - 1 := by
        rw [hps, sClose1_length, hs]; simp
      have ih := closeAll_spec fuel hp (by omega)
      refine ⟨ih.1, ?_, ?_⟩
      · rw [ih.2.1, hlen, hps]
        have : st.stack.length - 1 = (st.stack.length - 1 - 1) + 1 := by rw [hs]; simp
        rw [this]; rfl
      · rw [ih.2.2, popTag_buf]
    · rename_i hs
      have : st.stack.length - 1 = 0 := by
        match hst : st.stack with
        | [] => rfl
        | [_] => rfl
        | a :: b :: r => exact absurd hst (hs a b r)
      simp [this, sCloseN, h]

theorem sCloseN_length : ∀ (k : Nat) (s : List Frame), s ≠ [] → s.length - 1 ≤ k → (sCloseN k s).length = 1
  | 0, s, hne, hk => by
    cases s with
    | nil => exact absurd rfl hne
    | cons a r => simp at hk; simp [sCloseN, hk]
  | k + 1, s, hne, hk => by
    simp only [sCloseN]
    apply sCloseN_length k
    · match s with
      | [] => exact absurd rfl hne
      | [_] => simp [sClose1]
      | _ :: _ :: _ => simp [sClose1]
    · rw [sClose1_length]; split <;> omega

theorem endData_buf (cfg : Cfg) (st : St) (cls : Option Cls) : (endData cfg st cls).buf = [] := by
  unfold endData
  by_cases hb : st.buf.isEmpty = true
  · rw [if_pos hb]; simpa using hb
  · rw [if_neg hb]
    cases hs : st.stack <;> rfl

theorem finish_spec {cfg : Cfg} {st : St} (h : Inv cfg st) :
    Inv cfg (finish cfg st) ∧
    (finish cfg st).stack =
      sCloseN ((sFlush cfg (abs st) none).stack.length - 1) (sFlush cfg (abs st) none).stack ∧
    (finish cfg st).buf = [] := by
  have hi := h.endData none
  have ha := abs_endData h none
  have hc := closeAll_spec (endData cfg st none).stack.length hi (by omega)
  simp only [finish]
  refine ⟨hc.1, ?_, ?_⟩
  · rw [hc.2.1, ← ha]; rfl
  · rw [hc.2.2, endData_buf]

theorem build_eq_buildSpec {cfg : Cfg} (hc : CfgOK cfg) (evs : List Ev) : build cfg evs = buildSpec cfg evs := by
  have hi := Inv.reachable hc evs
  have hr := abs_run evs (Inv.init hc)
  have hf := finish_spec hi
  simp only [build, buildSpec, result, hf.2.1, hr]
  rfl

theorem pd_single {cfg : Cfg} (hc : CfgOK cfg) : ∀ {s : List Frame}, RootLast cfg s → s.length = 1 →
    pd cfg s = [] ∧ sd cfg s = []
  | [r], h, _ => by
    simp only [RootLast] at h
    simp [pd, sd, h.1, hc.1, hc.2]
  | [], h, _ => by simp [RootLast] at h
  | _ :: _ :: _, _, hl => by simp at hl

theorem finish_closed {cfg : Cfg} (hc : CfgOK cfg) {st : St} (h : Inv cfg st) :
    (finish cfg st).stack.length = 1 ∧ (finish cfg st).pws = [] ∧ (finish cfg st).scs = [] ∧
      (finish cfg st).buf = [] := by
  have hf := finish_spec h
  have hne : (sFlush cfg (abs st) none).stack ≠ [] := by
    rw [← abs_endData h none]; exact (h.endData none).root.ne_nil
  have hl : (finish cfg st).stack.length = 1 := by
    rw [hf.2.1]; exact sCloseN_length _ _ hne (Nat.le_refl _)
  have hp := pd_single hc hf.1.root hl
  exact ⟨hl, by rw [hf.1.pws, hp.1], by rw [hf.1.scs, hp.2], hf.2.2⟩

end BS.Builder
