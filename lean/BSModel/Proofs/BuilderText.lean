import BSModel.Proofs.BuilderRefine
/-! # C03 helper lemmas: what one flush appends; chunking of data events is irrelevant -/
namespace BS.Builder

/-- the value rule: whitespace-only text outside whitespace-preserving elements collapses -/
def wsVal (cfg : Cfg) (pres : Bool) (s : PStr) : PStr :=
  if !pres && s.all (fun c => cfg.asciiSpaces.contains c) then (if s.contains 10 then [10] else [32]) else s

/-- the class rule on the names of the enclosing open elements (innermost first) -/
def classN (cfg : Cfg) (ctx : List Name) (base : Option Cls) : Cls :=
  if base.getD 0 = 0 then
    ((ctx.find? (fun n => (cfg.container n).isSome)).bind cfg.container).getD 0
  else base.getD 0

/-- what a flush of pending chunks `b` appends when the enclosing open elements are named `ctx` -/
def txtN (cfg : Cfg) (ctx : List Name) (b : List PStr) (cls : Option Cls) : List Doc :=
  match b with
  | [] => []
  | _ :: _ => [Doc.text (classN cfg ctx cls) (wsVal cfg (ctx.any cfg.preserve) b.flatten)]

theorem preserving_names (cfg : Cfg) (s : List Frame) :
    preserving cfg s = (s.map (·.name)).any cfg.preserve := by
  simp [preserving, List.any_map, Function.comp_def]

theorem nearest_names (cfg : Cfg) (s : List Frame) :
    nearest cfg s = ((s.map (·.name)).find? (fun n => (cfg.container n).isSome)).bind cfg.container := by
  induction s with
  | nil => rfl
  | cons f rest ih =>
    simp only [nearest, List.map_cons, List.find?_cons] at ih ⊢
    by_cases hc : (cfg.container f.name).isSome = true
    · simp [hc]
    · simp only [hc]; exact ih

theorem classFor_names (cfg : Cfg) (s : List Frame) (base : Option Cls) :
    classFor cfg s base = classN cfg (s.map (·.name)) base := by
  rw [classFor_eq, nearest_names]; rfl

theorem sFlush_eq (cfg : Cfg) (top : Frame) (rest : List Frame) (b : List PStr) (cls : Option Cls) :
    sFlush cfg ⟨top :: rest, b⟩ cls =
      ⟨{ top with kids := top.kids ++ txtN cfg ((top :: rest).map (·.name)) b cls } :: rest, []⟩ := by
  cases b with
  | nil => simp [sFlush, txtN]
  | cons x xs =>
    simp only [sFlush, txtN, classFor_names, preserving_names, wsVal]

theorem nearest_of_split (cfg : Cfg) (pre : List Frame) (f : Frame) (post : List Frame) (k : Cls)
    (hpre : ∀ g ∈ pre, cfg.container g.name = none) (hf : cfg.container f.name = some k) :
    nearest cfg (pre ++ f :: post) = some k := by
  induction pre with
  | nil => simp [nearest, hf]
  | cons g pre ih =>
    have hg := hpre g (by simp)
    have := ih (fun x hx => hpre x (by simp [hx]))
    simp only [nearest, List.cons_append, List.find?_cons, hg] at this ⊢
    simpa using this

theorem nearest_none (cfg : Cfg) (s : List Frame) (h : ∀ g ∈ s, cfg.container g.name = none) :
    nearest cfg s = none := by
  have : s.find? (fun f => (cfg.container f.name).isSome) = none := by
    rw [List.find?_eq_none]; intro x hx; simp [h x hx]
  simp [nearest, this]

theorem wsVal_keep (cfg : Cfg) (pres : Bool) (s : PStr)
    (h : pres = true ∨ ¬ (∀ c ∈ s, c ∈ cfg.asciiSpaces)) : wsVal cfg pres s = s := by
  unfold wsVal
  rcases h with h | h
  · simp [h]
  · have : s.all (fun c => cfg.asciiSpaces.contains c) = false := by
      cases hb : s.all (fun c => cfg.asciiSpaces.contains c) with
      | false => rfl
      | true => exact absurd (by simpa using hb) h
    simp only [this, Bool.and_false, Bool.false_eq_true, if_false]

theorem wsVal_collapse (cfg : Cfg) (s : PStr) (h : ∀ c ∈ s, c ∈ cfg.asciiSpaces) :
    wsVal cfg false s = if 10 ∈ s then [10] else [32] := by
  have : s.all (fun c => cfg.asciiSpaces.contains c) = true := by simpa using h
  simp only [wsVal, this, Bool.not_false, Bool.and_self, if_true, List.contains_iff_mem]

/-! ### chunking -/

/-- two spec states that differ only in how the pending text is cut into chunks -/
def SameText (s1 s2 : SSt) : Prop :=
  s1.stack = s2.stack ∧ s1.buf.flatten = s2.buf.flatten ∧ (s1.buf = [] ↔ s2.buf = [])

theorem SameText.refl (s : SSt) : SameText s s := ⟨rfl, rfl, Iff.rfl⟩

theorem sFlush_sameText {cfg : Cfg} {s1 s2 : SSt} (h : SameText s1 s2) (cls : Option Cls) :
    sFlush cfg s1 cls = sFlush cfg s2 cls := by
  obtain ⟨st1, b1⟩ := s1
  obtain ⟨st2, b2⟩ := s2
  obtain ⟨h1, h2, h3⟩ := h
  simp only at h1 h2 h3
  subst h1
  cases b1 with
  | nil =>
    have : b2 = [] := h3.mp rfl
    subst this; rfl
  | cons x xs =>
    cases b2 with
    | nil => simp at h3
    | cons y ys =>
      cases st1 with
      | nil => rfl
      | cons top rest => simp only [sFlush, h2]

theorem sStep_sameText {cfg : Cfg} {s1 s2 : SSt} (h : SameText s1 s2) (ev : Ev) :
    SameText (sStep cfg s1 ev) (sStep cfg s2 ev) := by
  cases ev with
  | start name pfx => simp only [sStep, sFlush_sameText h]; exact SameText.refl _
  | stop name pfx => simp only [sStep, sFlush_sameText h]; exact SameText.refl _
  | endData cls => simp only [sStep, sFlush_sameText h]; exact SameText.refl _
  | data s =>
    obtain ⟨h1, h2, h3⟩ := h
    exact ⟨h1, by simp [sStep, h2], by simp [sStep]⟩

theorem sRun_sameText {cfg : Cfg} (evs : List Ev) : ∀ {s1 s2 : SSt}, SameText s1 s2 →
    SameText (sRun cfg s1 evs) (sRun cfg s2 evs) := by
  induction evs with
  | nil => intro _ _ h; exact h
  | cons e es ih => intro _ _ h; exact ih (sStep_sameText h e)

theorem sRun_append (cfg : Cfg) (s : SSt) (a b : List Ev) : sRun cfg s (a ++ b) = sRun cfg (sRun cfg s a) b := by
  simp [sRun, List.foldl_append]

theorem buildSpec_chunking (cfg : Cfg) (pre post : List Ev) (a b : PStr) :
    buildSpec cfg (pre ++ [.data a, .data b] ++ post) = buildSpec cfg (pre ++ [.data (a ++ b)] ++ post) := by
  have key : ∀ s : SSt, SameText (sRun cfg s [.data a, .data b]) (sRun cfg s [.data (a ++ b)]) := by
    intro s
    exact ⟨rfl, by simp [sRun, sStep], by simp [sRun, sStep]⟩
  have h := sRun_sameText (cfg := cfg) post (key (sRun cfg ⟨[⟨cfg.rootName, none, []⟩], []⟩ pre))
  simp only [buildSpec, sRun_append, sFlush_sameText h]

end BS.Builder
