import BSModel.Model.Construct
/-! helper lemmas for C06 (core Lean only) -/
namespace BS.Construct

/-! ### attribute assignment -/

theorem assignAll_off {V : Type} (fs : List (Field × V)) (o : Obj V) (f : Field)
    (h : f ∉ fs.map Prod.fst) : assignAll fs o f = o f := by
  induction fs generalizing o with
  | nil => rfl
  | cons p rest ih =>
    simp only [List.map_cons, List.mem_cons, not_or] at h
    show assignAll rest (o.set p.1 p.2) f = o f
    rw [ih _ h.2]
    simp [Obj.set, h.1]

theorem assignAll_on {V : Type} (fs : List (Field × V)) (o o' : Obj V) (f : Field)
    (h : f ∈ fs.map Prod.fst) : assignAll fs o f = assignAll fs o' f := by
  induction fs generalizing o o' with
  | nil => simp at h
  | cons p rest ih =>
    show assignAll rest (o.set p.1 p.2) f = assignAll rest (o'.set p.1 p.2) f
    by_cases hr : f ∈ rest.map Prod.fst
    · exact ih _ _ hr
    · rw [assignAll_off _ _ _ hr, assignAll_off _ _ _ hr]
      have : f = p.1 := by
        simp only [List.map_cons, List.mem_cons] at h
        rcases h with h | h
        · exact h
        · exact absurd h hr
      simp [Obj.set, this]

theorem AgreeOff.refl {V : Type} (X : List Field) (a : Obj V) : AgreeOff X a a := fun _ _ => rfl

theorem AgreeOff.trans {V : Type} {X : List Field} {a b c : Obj V} (h1 : AgreeOff X a b) (h2 : AgreeOff X b c) :
    AgreeOff X a c := fun f hf => (h1 f hf).trans (h2 f hf)

theorem AgreeOff.symm {V : Type} {X : List Field} {a b : Obj V} (h : AgreeOff X a b) : AgreeOff X b a :=
  fun f hf => (h f hf).symm

/-- the object a feed starts from is a function of the strategy and of the fields no attempt writes -/
theorem fed_state_eq {V : Type} (m : Machine V) (R H : List Field) (wf : m.WF R H) (o o0 : Obj V) (s : Strategy)
    (h : AgreeOff (R ++ H) o o0) :
    assignAll (m.fresh (assignAll (m.header s) o)) (assignAll (m.header s) o)
      = assignAll (m.fresh (assignAll (m.header s) o0)) (assignAll (m.header s) o0) := by
  -- after the header assignment the two objects agree off R
  have h1 : AgreeOff R (assignAll (m.header s) o) (assignAll (m.header s) o0) := by
    intro f hf
    by_cases hH : f ∈ H
    · exact assignAll_on _ _ _ _ (by rw [wf.headerKeys]; exact hH)
    · have hk : f ∉ (m.header s).map Prod.fst := by rw [wf.headerKeys]; exact hH
      rw [assignAll_off _ _ _ hk, assignAll_off _ _ _ hk]
      exact h f (by simp [hf, hH])
  have hfr := wf.freshFrame _ _ h1
  funext f
  by_cases hR : f ∈ R
  · rw [hfr]
    exact assignAll_on _ _ _ _ (by rw [wf.freshKeys]; exact hR)
  · have hk : ∀ x, f ∉ (m.fresh x).map Prod.fst := by intro x; rw [wf.freshKeys]; exact hR
    rw [assignAll_off _ _ _ (hk _), assignAll_off _ _ _ (hk _)]
    exact h1 f hR

theorem attempt_eq_of_agree {V : Type} (m : Machine V) (R H : List Field) (wf : m.WF R H) (o o0 : Obj V)
    (s : Strategy) (h : AgreeOff (R ++ H) o o0) : attempt m o s = attempt m o0 s := by
  unfold attempt
  simp only
  rw [fed_state_eq m R H wf o o0 s h]

/-- an attempt, however it ends, leaves every field outside `R ++ H` as it was -/
theorem attempt_agree {V : Type} (m : Machine V) (R H : List Field) (wf : m.WF R H) (o : Obj V) (s : Strategy) :
    AgreeOff (R ++ H) (attempt m o s).1 o := by
  intro f hf
  unfold attempt
  simp only
  rw [wf.feedFrame _ f hf]
  have hR : f ∉ R := fun h => hf (by simp [h])
  have hH : f ∉ H := fun h => hf (by simp [h])
  rw [assignAll_off _ _ _ (by rw [wf.freshKeys]; exact hR), assignAll_off _ _ _ (by rw [wf.headerKeys]; exact hH)]

/-- the loop from any object that agrees with `o0` on the fields no attempt writes: rejected attempts leave no
    trace in what the next attempt starts from -/
theorem retry_skip_rejected {V : Type} (m : Machine V) (R H : List Field) (wf : m.WF R H) (o0 : Obj V)
    (pre : List Strategy) (rest : List Strategy)
    (hpre : ∀ r ∈ pre, (attempt m o0 r).2 = .reject) :
    ∀ o, AgreeOff (R ++ H) o o0 →
      ∃ o', AgreeOff (R ++ H) o' o0 ∧ retry m o (pre ++ rest) = retry m o' rest := by
  induction pre with
  | nil => intro o h; exact ⟨o, h, rfl⟩
  | cons r pre ih =>
    intro o h
    have hr : (attempt m o0 r).2 = .reject := hpre r (by simp)
    have he := attempt_eq_of_agree m R H wf o o0 r h
    have hag : AgreeOff (R ++ H) (attempt m o r).1 o0 := (attempt_agree m R H wf o r).trans h
    obtain ⟨o', ho', hret⟩ := ih (fun x hx => hpre x (by simp [hx])) (attempt m o r).1 hag
    refine ⟨o', ho', ?_⟩
    rw [← hret]
    show retry m o (r :: (pre ++ rest)) = _
    rw [retry]
    have h2 : (attempt m o r).2 = .reject := by rw [he]; exact hr
    generalize hx : attempt m o r = x at h2 ⊢
    obtain ⟨x1, x2⟩ := x
    simp only at h2
    subst h2
    rfl

theorem retry_by_index_aux {V : Type} (m : Machine V) (R H : List Field) (wf : m.WF R H) (o0 : Obj V)
    (ss : List Strategy) : ∀ (o : Obj V) (i : Nat), AgreeOff (R ++ H) o o0 →
      (retry m o ss).2 = retryResult (retryIndex (ss.map fun s => (attempt m o0 s).2) i) := by
  induction ss with
  | nil => intro o i _; rfl
  | cons s rest ih =>
    intro o i h
    rw [retry, attempt_eq_of_agree m R H wf o o0 s h]
    have hag := attempt_agree m R H wf o0 s
    simp only [List.map_cons]
    generalize attempt m o0 s = x at hag ⊢
    obtain ⟨o', r⟩ := x
    cases r with
    | accept => rfl
    | reject => exact ih o' (i + 1) hag
    | raise e => rfl

/-! ### `hasInfix`, UTF-8 -/

theorem encodeUtf8Strict_ok_of_noSurrogate (s : PStr) (h : ∀ c ∈ s, isSurrogate c = false) :
    encodeUtf8Strict s = .ok (encodeUtf8Replace s) := by
  induction s with
  | nil => rfl
  | cons c cs ih =>
    have hc := h c (by simp)
    have ih' := ih (fun x hx => h x (by simp [hx]))
    simp [encodeUtf8Strict, encodeUtf8Replace, hc, ih'] at *

theorem encodeUtf8Strict_error_of_surrogate (s : PStr) (c : Nat) (hc : c ∈ s) (hs : isSurrogate c = true) :
    encodeUtf8Strict s = .error .unicodeEncodeError := by
  induction s with
  | nil => simp at hc
  | cons d ds ih =>
    unfold encodeUtf8Strict
    by_cases hd : isSurrogate d = true
    · simp [hd]
    · simp only [hd, Bool.false_eq_true, if_false]
      have : c ∈ ds := by
        simp only [List.mem_cons] at hc
        rcases hc with h | h
        · subst h; exact absurd hs hd
        · exact h
      rw [ih this]

/-! ### the charref conversion -/

theorem truthy_cons (c : Nat) (cs : PStr) : truthy (some (c :: cs)) = true := rfl

theorem charrefFinish_nonempty (n : Nat) (d : Option PStr) : ∃ c cs, charrefFinish n d = c :: cs := by
  unfold charrefFinish
  cases hd : truthy d with
  | true =>
    match d, hd with
    | some (c :: cs), _ => exact ⟨c, cs, by simp [truthy]⟩
    | none, h => simp [truthy] at h
    | some [], h => simp [truthy] at h
  | false =>
    by_cases hn : n ≤ Gen.C06.maxUnicode
    · exact ⟨n, [], by simp [hn, truthy]⟩
    · exact ⟨0xFFFD, [], by simp [hn, hd]⟩

theorem tryDecode_catchAll_ok (d : Option (Nat → Dec1)) (n : Nat) (data : Option PStr) :
    ∃ r, tryDecode true d n data = .ok r := by
  unfold tryDecode
  cases d with
  | none => exact ⟨_, rfl⟩
  | some f =>
    simp only
    cases f n <;> simp

theorem charrefFrom_total (orig : Option (Nat → Dec1)) (n : Nat) :
    ∃ c cs, charrefFrom true orig n = .ok (c :: cs) := by
  unfold charrefFrom
  by_cases hn : n < 256
  · simp only [hn, if_true]
    obtain ⟨r1, h1⟩ := tryDecode_catchAll_ok orig n none
    rw [h1]
    simp only
    obtain ⟨r2, h2⟩ := tryDecode_catchAll_ok (some cp1252) n r1
    rw [h2]
    simp only
    obtain ⟨c, cs, h⟩ := charrefFinish_nonempty n r2
    exact ⟨c, cs, by rw [h]⟩
  · simp only [hn, if_false]
    obtain ⟨c, cs, h⟩ := charrefFinish_nonempty n none
    exact ⟨c, cs, by rw [h]⟩

/-! ### UnicodeDammit -/

/-- invariant of the second pass: every (codec, replace) pair already tried is one that failed -/
def TriedFailed (env : DammitEnv) (st : DammitState) : Prop :=
  ∀ c, (c, true) ∈ st.tried → env.decode c true = none

theorem pass1_tried (env : DammitEnv) (encs : List Nat) (st : DammitState)
    (h : ∀ c, (c, true) ∉ st.tried) : ∀ c, (c, true) ∉ (pass1 env encs st).2.tried := by
  induction encs generalizing st with
  | nil => exact h
  | cons e es ih =>
    unfold pass1
    have key : ∀ c, (c, true) ∉ (convertFrom env st e false).2.tried := by
      intro c
      unfold convertFrom
      split
      · exact h c
      · split
        · exact h c
        · split <;> simp [h c]
    generalize hx : convertFrom env st e false = x at key ⊢
    obtain ⟨u, st'⟩ := x
    cases u with
    | none => exact ih st' key
    | some v => exact key

theorem pass2_some (env : DammitEnv) (encs : List Nat) (u : Option PStr) (st : DammitState)
    (hinv : TriedFailed env st)
    (h : ∃ e ∈ encs, env.isAscii e = false ∧ ∃ c t, env.codecOf e = some c ∧ env.decode c true = some t) :
    (pass2 env encs u st).1.isSome = true := by
  induction encs generalizing u st with
  | nil => obtain ⟨e, he, _⟩ := h; simp at he
  | cons e es ih =>
    unfold pass2
    simp only
    by_cases ha : env.isAscii e = true
    · simp only [ha, if_true]
      by_cases hs : u.isSome = true
      · simp only [hs, if_true]
      · simp only [hs, Bool.false_eq_true, if_false]
        apply ih _ _ hinv
        obtain ⟨e', he', hna, hrest⟩ := h
        simp only [List.mem_cons] at he'
        rcases he' with rfl | he'
        · rw [ha] at hna; exact absurd hna (by simp)
        · exact ⟨e', he', hna, hrest⟩
    · simp only [ha, Bool.false_eq_true, if_false]
      by_cases hs : (convertFrom env st e true).1.isSome = true
      · simp only [hs, if_true]
      · simp only [hs, Bool.false_eq_true, if_false]
        -- the conversion failed: it cannot be the good candidate, and the invariant is kept
        have hconv : (convertFrom env st e true).1 = none := by
          cases hh : (convertFrom env st e true).1 with
          | none => rfl
          | some v => rw [hh] at hs; simp at hs
        have hinv' : TriedFailed env (convertFrom env st e true).2 := by
          unfold convertFrom at hconv ⊢
          split
          · exact hinv
          · rename_i c hc
            split
            · exact hinv
            · rename_i hnt
              simp only [hc, hnt, Bool.false_eq_true, if_false] at hconv
              cases hd : env.decode c true with
              | some v => rw [hd] at hconv; simp at hconv
              | none =>
                simp only
                intro c' hc'
                simp only [List.mem_append, List.mem_singleton, Prod.mk.injEq, and_true] at hc'
                rcases hc' with h1 | h1
                · exact hinv c' h1
                · rw [h1]; exact hd
        apply ih _ _ hinv'
        obtain ⟨e', he', hna, c, t, hc, hd⟩ := h
        simp only [List.mem_cons] at he'
        rcases he' with rfl | he'
        · -- e' itself: then convertFrom would have succeeded
          exfalso
          unfold convertFrom at hconv
          simp only [hc] at hconv
          split at hconv
          · rename_i hin
            have := hinv c (by simpa using hin)
            rw [this] at hd; simp at hd
          · rw [hd] at hconv; simp at hconv
        · exact ⟨e', he', hna, c, t, hc, hd⟩

end BS.Construct
