import BSModel.Model.Copy
/-! helper lemmas for C12 (core Lean only) -/
namespace BS.Copy

/-! ### the copying loop = the recursion -/

theorem run_append (s : St) (a b : List Ev) : run s (a ++ b) = (run s a).bind fun s' => run s' b := by
  induction a generalizing s with
  | nil => simp [run]
  | cons e es ih =>
    simp only [List.cons_append, run]
    cases step s e with
    | none => simp
    | some s' => simp [ih]

mutual
theorem run_forest : ∀ (ks : List Node) (inh : Option Bool) (n : Nat) (top : Frame) (rest : List Frame),
    run ⟨n, top :: rest⟩ (eventsL inh ks) =
      some ⟨(copySpecL inh n ks).2, { top with kids := top.kids ++ (copySpecL inh n ks).1 } :: rest⟩
  | [], inh, n, top, rest => by simp [eventsL, run, copySpecL]
  | k :: ks, inh, n, top, rest => by
    simp only [eventsL, run_append, copySpecL]
    rw [run_node k inh n top rest]
    simp only [Option.bind_some]
    rw [run_forest ks inh _ _ rest]
    simp [List.append_assoc]
theorem run_node : ∀ (k : Node) (inh : Option Bool) (n : Nat) (top : Frame) (rest : List Frame),
    run ⟨n, top :: rest⟩ (events inh k) =
      some ⟨(copySpec inh n k).2, { top with kids := top.kids ++ [(copySpec inh n k).1] } :: rest⟩
  | .str i c v, inh, n, top, rest => by simp [events, run, step, pushKid, copySpec]
  | .tag i d ks, inh, n, top, rest => by
    simp only [events]
    split
    · rename_i h
      have hk : ks = [] := by
        simp only [isEmptyElement, Bool.and_eq_true, List.isEmpty_iff] at h
        exact h.1
      subst hk
      simp [run, step, pushKid, copySpec, copySpecL]
    · have h1 : ∀ s, run s (Ev.start d (isXml inh d) :: (eventsL (isXml inh d) ks ++ [Ev.stop])) =
          (step s (Ev.start d (isXml inh d))).bind fun s1 =>
            (run s1 (eventsL (isXml inh d) ks)).bind fun s2 => run s2 [Ev.stop] := by
        intro s
        simp only [run, run_append]
      rw [h1]
      simp only [step, Option.bind_some]
      rw [run_forest ks (isXml inh d) _ _ (top :: rest)]
      simp [run, step, Frame.close, copySpec]
end

theorem collapse_nil (top : Frame) : collapse top [] = top.close := by simp [collapse]

theorem copyImpl_eq_spec (inh : Option Bool) (next : Nat) (t : Node) :
    copyImpl inh next t = some (copySpec inh next t) := by
  cases t with
  | str i c v => simp [copyImpl, copySpec]
  | tag i d ks =>
    simp only [copyImpl, copySpec]
    rw [run_forest]
    simp [collapse, Frame.close]

theorem copySoupImpl_eq_spec (fresh : TagData) (inh : Option Bool) (next : Nat) (i : Nat) (d : TagData) (ks : List Node) :
    copySoupImpl fresh inh next (.tag i d ks) =
      some (.tag next fresh (copySpecL (isXml inh d) (next + 1) ks).1, (copySpecL (isXml inh d) (next + 1) ks).2) := by
  simp only [copySoupImpl]
  rw [run_forest]
  simp [collapse, Frame.close]

/-! ### shape -/

theorem eraseAttrs_copyAttrs (n : Nat) (l : List (PStr × AVal)) : eraseAttrs (copyAttrs n l).1 = eraseAttrs l := by
  induction l generalizing n with
  | nil => simp [copyAttrs, eraseAttrs]
  | cons kv r ih =>
    obtain ⟨k, v⟩ := kv
    cases v with
    | str s =>
      have := ih n
      simp only [eraseAttrs] at this
      simp [copyAttrs, eraseAttrs, this]
    | list lid c items =>
      have := ih (n + 1)
      simp only [eraseAttrs] at this
      simp only [copyAttrs, eraseAttrs, List.map_cons, this]
      simp [AVal.erase]

theorem isXml_copySelf (n : Nat) (d : TagData) (inh inh' : Option Bool) (h : inh = none → inh' = none) :
    isXml inh' (copySelf n d (isXml inh d)).2.1 = isXml inh d := by
  simp only [isXml, copySelf]
  cases hk : d.st.knownXml with
  | some b => simp
  | none =>
    cases inh with
    | none => simp [h rfl]
    | some b => simp

theorem shapeData_copySelf (n : Nat) (d : TagData) (xml x : Option Bool) :
    shapeData (copySelf n d xml).2.1 x = shapeData d x := by
  simp [shapeData, copySelf, eraseAttrs_copyAttrs]

mutual
theorem shape_copySpec : ∀ (t : Node) (inh inh' : Option Bool) (n : Nat), (inh = none → inh' = none) →
    shape inh' (copySpec inh n t).1 = shape inh t
  | .str i c v, inh, inh', n, _ => by simp [copySpec, shape]
  | .tag i d ks, inh, inh', n, h => by
    simp only [copySpec, shape]
    rw [isXml_copySelf n d inh inh' h, shapeData_copySelf, shapeL_copySpecL ks (isXml inh d) _]
theorem shapeL_copySpecL : ∀ (ks : List Node) (inh : Option Bool) (n : Nat),
    shapeL inh (copySpecL inh n ks).1 = shapeL inh ks
  | [], inh, n => by simp [copySpecL, shapeL]
  | k :: ks, inh, n => by
    simp only [copySpecL, shapeL]
    rw [shape_copySpec k inh inh n (fun h => h), shapeL_copySpecL ks inh _]
end

/-! ### identities of the copy: exactly the next unused ids, in pre-order -/

theorem attrIds_copyAttrs (n : Nat) (l : List (PStr × AVal)) :
    attrIds (copyAttrs n l).1 = List.range' n (attrIds (copyAttrs n l).1).length ∧
    (copyAttrs n l).2 = n + (attrIds (copyAttrs n l).1).length := by
  induction l generalizing n with
  | nil => simp [copyAttrs, attrIds]
  | cons kv r ih =>
    obtain ⟨k, v⟩ := kv
    cases v with
    | str s => simpa [copyAttrs, attrIds] using ih n
    | list lid c items =>
      obtain ⟨h1, h2⟩ := ih (n + 1)
      constructor
      · simp only [copyAttrs, attrIds, List.length_cons, List.range'_succ]
        rw [← h1]
      · simp only [copyAttrs, attrIds, List.length_cons]
        omega

theorem range'_glue {l1 l2 : List Nat} {n m : Nat} (h1 : l1 = List.range' n l1.length) (hm : m = n + l1.length)
    (h2 : l2 = List.range' m l2.length) : l1 ++ l2 = List.range' n (l1 ++ l2).length := by
  subst hm
  rw [List.length_append, ← List.range'_append (step := 1)]
  simp only [Nat.one_mul]
  rw [← h1, ← h2]

mutual
theorem ids_copySpec : ∀ (t : Node) (inh : Option Bool) (n : Nat),
    ids (copySpec inh n t).1 = List.range' n (ids (copySpec inh n t).1).length ∧
    (copySpec inh n t).2 = n + (ids (copySpec inh n t).1).length
  | .str i c v, inh, n => by simp [copySpec, ids]
  | .tag i d ks, inh, n => by
    obtain ⟨a1, a2⟩ := attrIds_copyAttrs (n + 1) d.attrs
    obtain ⟨k1, k2⟩ := idsL_copySpecL ks (isXml inh d) (copyAttrs (n + 1) d.attrs).2
    have hg := range'_glue a1 a2 k1
    simp only [copySpec, ids, copySelf] at *
    constructor
    · simp only [List.length_cons, List.range'_succ]
      rw [← hg]
    · simp only [List.length_cons, List.length_append] at *
      omega
theorem idsL_copySpecL : ∀ (ks : List Node) (inh : Option Bool) (n : Nat),
    idsL (copySpecL inh n ks).1 = List.range' n (idsL (copySpecL inh n ks).1).length ∧
    (copySpecL inh n ks).2 = n + (idsL (copySpecL inh n ks).1).length
  | [], inh, n => by simp [copySpecL, idsL]
  | k :: ks, inh, n => by
    obtain ⟨a1, a2⟩ := ids_copySpec k inh n
    obtain ⟨k1, k2⟩ := idsL_copySpecL ks inh (copySpec inh n k).2
    have hg := range'_glue a1 a2 k1
    simp only [copySpecL, idsL] at *
    constructor
    · exact hg
    · simp only [List.length_append] at *
      omega
end

end BS.Copy
