import BSModel.Model.Copy
/-! helper lemmas for C12 (core Lean only) -/
namespace BS.Copy

/-! ### the copying loop = the recursion -/

theorem run_append (s : St) (a b : List Ev) : run s (a ++ b) = (run s a).bind fun s' => run s' b := by
  induction a generalizing s with
  | nil => simp [run]
  | cons e es ih =>
    simp only [List.cons_append, run]
    cases step s e with
    | none => simp
    | some s' => simp [ih]

mutual
theorem run_forest : ∀ (ks : List Node) (inh : Option Bool) (n : Nat) (top : Frame) (rest : List Frame),
    run ⟨n, top :: rest⟩ (eventsL inh ks) =
      some ⟨(copySpecL inh n ks).2, { top with kids := top.kids ++ (copySpecL inh n ks).1 } :: rest⟩
  | [], inh, n, top, rest => by simp [eventsL, run, copySpecL]
  | k :: ks, inh, n, top, rest => by
    simp only [eventsL, run_append, copySpecL]
    rw [run_node k inh n top rest]
    simp only [Option.bind_some]
    rw [run_forest ks inh _ _ rest]
    simp [List.append_assoc]
theorem run_node : ∀ (k : Node) (inh : Option Bool) (n : Nat) (top : Frame) (rest : List Frame),
    run ⟨n, top :: rest⟩ (events inh k) =
      some ⟨(copySpec inh n k).2, { top with kids := top.kids ++ [(copySpec inh n k).1] } :: rest⟩
  | .str i c v, inh, n, top, rest => by simp [events, run, step, pushKid, copySpec]
  | .tag i d ks, inh, n, top, rest => by
    simp only [events]
    split
    · rename_i h
      have hk : ks = [] := by
        simp only [isEmptyElement, Bool.and_eq_true, List.isEmpty_iff] at h
        exact h.1
      subst hk
      simp [run, step, pushKid, copySpec, copySpecL]
    · have h1 : ∀ s, run s (Ev.start d (isXml inh d) :: (eventsL (isXml inh d) ks ++ [Ev.stop])) =
          (step s (Ev.start d (isXml inh d))).bind fun s1 =>
            (run s1 (eventsL (isXml inh d) ks)).bind fun s2 => run s2 [Ev.stop] := by
        intro s
        simp only [run, run_append]
      rw [h1]
      simp only [step, Option.bind_some]
      rw [run_forest ks (isXml inh d) _ _ (top :: rest)]
      simp [run, step, Frame.close, copySpec]
end

theorem collapse_nil (top : Frame) : collapse top [] = top.close := by simp [collapse]

theorem copyImpl_eq_spec (inh : Option Bool) (next : Nat) (t : Node) :
    copyImpl inh next t = some (copySpec inh next t) := by
  cases t with
  | str i c v => simp [copyImpl, copySpec]
  | tag i d ks =>
    simp only [copyImpl, copySpec]
    rw [run_forest]
    simp [collapse, Frame.close]

theorem copySoupImpl_eq_spec (fresh : TagData) (inh : Option Bool) (next : Nat) (i : Nat) (d : TagData) (ks : List Node) :
    copySoupImpl fresh inh next (.tag i d ks) =
      some (.tag next fresh (copySpecL (isXml inh d) (next + 1) ks).1, (copySpecL (isXml inh d) (next + 1) ks).2) := by
  simp only [copySoupImpl]
  rw [run_forest]
  simp [collapse, Frame.close]

/-! ### the attribute loop on a settled dict -/

/-- what the attribute loop does when nothing is processed away: lists re-created, everything else stored as it is -/
def copyAttrsPlain (next : Nat) : Attrs → Attrs × Nat
  | [] => ([], next)
  | (k, m, .list _ c items) :: r => let q := copyAttrsPlain (next + 1) r; ((k, m, .list next c items) :: q.1, q.2)
  | (k, m, v) :: r => let q := copyAttrsPlain next r; ((k, m, v) :: q.1, q.2)

theorem settled_cons {cls : Nat} {e : PStr × AEntry} {r : Attrs} (h : Settled cls (e :: r)) :
    coerce cls e.1 e.2.1 e.2.2 = some e.2.2 ∧ Settled cls r :=
  ⟨h e (List.mem_cons_self ..), fun x hx => h x (List.mem_cons_of_mem _ hx)⟩

theorem copyAttrs_settled (cls n : Nat) (l : Attrs) (h : Settled cls l) : copyAttrs cls n l = copyAttrsPlain n l := by
  induction l generalizing n with
  | nil => simp [copyAttrs, copyAttrsPlain]
  | cons e r ih =>
    obtain ⟨k, m, v⟩ := e
    obtain ⟨h1, h2⟩ := settled_cons h
    simp only [] at h1
    cases v with
    | list lid c items => simp [copyAttrs, copyAttrsPlain, ih _ h2]
    | str c s => simp only [copyAttrs, copyAttrsPlain, ih _ h2, h1, pushEntry]
    | int x => simp only [copyAttrs, copyAttrsPlain, ih _ h2, h1, pushEntry]
    | bool b => simp only [copyAttrs, copyAttrsPlain, ih _ h2, h1, pushEntry]
    | none => simp only [copyAttrs, copyAttrsPlain, ih _ h2, h1, pushEntry]

/-- a plain `AttributeDict` (or a custom class without processing) stores whatever it is given -/
theorem settled_plain (cls : Nat) (l : Attrs) (h1 : cls ≠ 1) (h2 : cls ≠ 2) : Settled cls l := by
  intro e _
  simp [coerce, h1, h2]

/-- strings and lists are stored unchanged by every class -/
theorem coerce_str (cls : Nat) (k : PStr) (m : KMeta) (c : Nat) (s : PStr) : coerce cls k m (.str c s) = some (.str c s) := by
  simp only [coerce]
  split
  · simp [coerceHtml]
  · split <;> simp [coerceXml]

theorem coerce_list (cls : Nat) (k : PStr) (m : KMeta) (lid c : Nat) (items : List PStr) :
    coerce cls k m (.list lid c items) = some (.list lid c items) := by
  simp only [coerce]
  split
  · simp [coerceHtml]
  · split <;> simp [coerceXml]

def AVal.isList : AVal → Bool
  | .list _ _ _ => true
  | _ => false

theorem boolName_nonlist (k : PStr) (m : KMeta) : (boolName k m).isList = false := by
  cases m with
  | none => simp [boolName, AVal.isList]
  | some nk =>
    obtain ⟨p, nm, ns⟩ := nk
    cases nm <;> simp [boolName, AVal.isList]

theorem coerceHtml_nonlist {k : PStr} {m : KMeta} {v v' : AVal} (h : coerceHtml k m v = some v')
    (hv : v.isList = false) : v'.isList = false := by
  cases v with
  | list lid c items => simp [AVal.isList] at hv
  | str c s => simp only [coerceHtml, Option.some.injEq] at h; subst h; rfl
  | int n => simp only [coerceHtml, Option.some.injEq] at h; subst h; rfl
  | none => simp [coerceHtml] at h
  | bool b =>
    cases b with
    | false => simp [coerceHtml] at h
    | true => simp only [coerceHtml, Option.some.injEq] at h; subst h; exact boolName_nonlist k m

theorem coerceXml_nonlist {v v' : AVal} (h : coerceXml v = some v') (hv : v.isList = false) : v'.isList = false := by
  cases v with
  | list lid c items => simp [AVal.isList] at hv
  | str c s => simp only [coerceXml, Option.some.injEq] at h; subst h; rfl
  | int n => simp only [coerceXml, Option.some.injEq] at h; subst h; rfl
  | none => simp only [coerceXml, Option.some.injEq] at h; subst h; rfl
  | bool b => simp only [coerceXml, Option.some.injEq] at h; subst h; rfl

/-- no class turns a value that is not a list into a list -/
theorem coerce_nonlist {cls : Nat} {k : PStr} {m : KMeta} {v v' : AVal} (h : coerce cls k m v = some v')
    (hv : v.isList = false) : v'.isList = false := by
  simp only [coerce] at h
  split at h
  · exact coerceHtml_nonlist h hv
  · split at h
    · exact coerceXml_nonlist h hv
    · simp only [Option.some.injEq] at h; subst h; exact hv

theorem attrIds_pushEntry (k : PStr) (m : KMeta) (ov : Option AVal) (q : Attrs × Nat)
    (h : ∀ v', ov = some v' → v'.isList = false) :
    attrIds (pushEntry k m ov q).1 = attrIds q.1 ∧ (pushEntry k m ov q).2 = q.2 := by
  cases ov with
  | none => simp [pushEntry]
  | some v' =>
    have := h v' rfl
    cases v' <;> simp_all [pushEntry, attrIds, AVal.isList]

/-! ### shape -/

theorem eraseAttrs_copyAttrsPlain (n : Nat) (l : Attrs) : eraseAttrs (copyAttrsPlain n l).1 = eraseAttrs l := by
  induction l generalizing n with
  | nil => simp [copyAttrsPlain, eraseAttrs]
  | cons e r ih =>
    obtain ⟨k, m, v⟩ := e
    cases v with
    | list lid c items =>
      have := ih (n + 1)
      simp only [eraseAttrs] at this
      simp only [copyAttrsPlain, eraseAttrs, List.map_cons, this]
      simp [AVal.erase]
    | _ =>
      have := ih n
      simp only [eraseAttrs] at this
      simp only [copyAttrsPlain, eraseAttrs, List.map_cons, this]

theorem isXml_copySelf (n : Nat) (d : TagData) (inh inh' : Option Bool) (h : inh = none → inh' = none) :
    isXml inh' (copySelf n d (isXml inh d)).2.1 = isXml inh d := by
  simp only [isXml, copySelf]
  cases hk : d.st.knownXml with
  | some b => simp
  | none =>
    cases inh with
    | none => simp [h rfl]
    | some b => simp

theorem shapeData_copySelf (n : Nat) (d : TagData) (xml x : Option Bool) (hs : Settled d.dictCls d.attrs) :
    shapeData (copySelf n d xml).2.1 x = shapeData d x := by
  simp [shapeData, copySelf, copyAttrs_settled _ _ _ hs, eraseAttrs_copyAttrsPlain]

mutual
/-- every attribute dict of the tree is settled -/
def SettledN : Node → Prop
  | .str _ _ _ => True
  | .tag _ d ks => Settled d.dictCls d.attrs ∧ SettledL ks
def SettledL : List Node → Prop
  | [] => True
  | k :: ks => SettledN k ∧ SettledL ks
end

mutual
theorem shape_copySpec : ∀ (t : Node) (inh inh' : Option Bool) (n : Nat), SettledN t → (inh = none → inh' = none) →
    shape inh' (copySpec inh n t).1 = shape inh t
  | .str i c v, inh, inh', n, _, _ => by simp [copySpec, shape]
  | .tag i d ks, inh, inh', n, hs, h => by
    simp only [SettledN] at hs
    simp only [copySpec, shape]
    rw [isXml_copySelf n d inh inh' h, shapeData_copySelf _ _ _ _ hs.1, shapeL_copySpecL ks (isXml inh d) _ hs.2]
theorem shapeL_copySpecL : ∀ (ks : List Node) (inh : Option Bool) (n : Nat), SettledL ks →
    shapeL inh (copySpecL inh n ks).1 = shapeL inh ks
  | [], inh, n, _ => by simp [copySpecL, shapeL]
  | k :: ks, inh, n, hs => by
    simp only [SettledL] at hs
    simp only [copySpecL, shapeL]
    rw [shape_copySpec k inh inh n hs.1 (fun h => h), shapeL_copySpecL ks inh _ hs.2]
end

/-! ### identities of the copy: exactly the next unused ids, in pre-order -/

theorem attrIds_copyAttrs (cls n : Nat) (l : Attrs) :
    attrIds (copyAttrs cls n l).1 = List.range' n (attrIds (copyAttrs cls n l).1).length ∧
    (copyAttrs cls n l).2 = n + (attrIds (copyAttrs cls n l).1).length := by
  induction l generalizing n with
  | nil => simp [copyAttrs, attrIds]
  | cons e r ih =>
    obtain ⟨k, m, v⟩ := e
    have hnl : v.isList = false → attrIds (pushEntry k m (coerce cls k m v) (copyAttrs cls n r)).1 = attrIds (copyAttrs cls n r).1 ∧
        (pushEntry k m (coerce cls k m v) (copyAttrs cls n r)).2 = (copyAttrs cls n r).2 :=
      fun hv => attrIds_pushEntry k m _ _ (fun v' hc => coerce_nonlist hc hv)
    cases v with
    | list lid c items =>
      obtain ⟨h1, h2⟩ := ih (n + 1)
      constructor
      · simp only [copyAttrs, attrIds, List.length_cons, List.range'_succ]
        rw [← h1]
      · simp only [copyAttrs, attrIds, List.length_cons]
        omega
    | str c s => obtain ⟨a, b⟩ := hnl rfl; simp only [copyAttrs]; rw [a, b]; exact ih n
    | int x => obtain ⟨a, b⟩ := hnl rfl; simp only [copyAttrs]; rw [a, b]; exact ih n
    | bool x => obtain ⟨a, b⟩ := hnl rfl; simp only [copyAttrs]; rw [a, b]; exact ih n
    | none => obtain ⟨a, b⟩ := hnl rfl; simp only [copyAttrs]; rw [a, b]; exact ih n

theorem range'_glue {l1 l2 : List Nat} {n m : Nat} (h1 : l1 = List.range' n l1.length) (hm : m = n + l1.length)
    (h2 : l2 = List.range' m l2.length) : l1 ++ l2 = List.range' n (l1 ++ l2).length := by
  subst hm
  rw [List.length_append, ← List.range'_append (step := 1)]
  simp only [Nat.one_mul]
  rw [← h1, ← h2]

mutual
theorem ids_copySpec : ∀ (t : Node) (inh : Option Bool) (n : Nat),
    ids (copySpec inh n t).1 = List.range' n (ids (copySpec inh n t).1).length ∧
    (copySpec inh n t).2 = n + (ids (copySpec inh n t).1).length
  | .str i c v, inh, n => by simp [copySpec, ids]
  | .tag i d ks, inh, n => by
    obtain ⟨a1, a2⟩ := attrIds_copyAttrs d.dictCls (n + 1) d.attrs
    obtain ⟨k1, k2⟩ := idsL_copySpecL ks (isXml inh d) (copyAttrs d.dictCls (n + 1) d.attrs).2
    have hg := range'_glue a1 a2 k1
    simp only [copySpec, ids, copySelf] at *
    constructor
    · simp only [List.length_cons, List.range'_succ]
      rw [← hg]
    · simp only [List.length_cons, List.length_append] at *
      omega
theorem idsL_copySpecL : ∀ (ks : List Node) (inh : Option Bool) (n : Nat),
    idsL (copySpecL inh n ks).1 = List.range' n (idsL (copySpecL inh n ks).1).length ∧
    (copySpecL inh n ks).2 = n + (idsL (copySpecL inh n ks).1).length
  | [], inh, n => by simp [copySpecL, idsL]
  | k :: ks, inh, n => by
    obtain ⟨a1, a2⟩ := ids_copySpec k inh n
    obtain ⟨k1, k2⟩ := idsL_copySpecL ks inh (copySpec inh n k).2
    have hg := range'_glue a1 a2 k1
    simp only [copySpecL, idsL] at *
    constructor
    · exact hg
    · simp only [List.length_append] at *
      omega
end

end BS.Copy
