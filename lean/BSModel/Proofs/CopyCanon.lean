import BSModel.Proofs.Copy
import BSModel.Proofs.CopyEq
/-! helper lemmas for C12: a copy has the normal form of its original (core Lean only) -/
namespace BS.Copy

theorem lookup_copyAttrsPlain (n : Nat) (l : Attrs) (k : PStr) :
    ((copyAttrsPlain n l).1.lookup k).map (fun e => e.2.val) = (l.lookup k).map (fun e => e.2.val) := by
  induction l generalizing n with
  | nil => simp [copyAttrsPlain]
  | cons kv r ih =>
    obtain ⟨k', m, v⟩ := kv
    cases v with
    | list lid c items =>
      simp only [copyAttrsPlain, List.lookup_cons]
      cases (k == k') with
      | true => simp [AVal.val]
      | false => exact ih (n + 1)
    | _ =>
      simp only [copyAttrsPlain, List.lookup_cons]
      cases (k == k') with
      | true => rfl
      | false => exact ih n

theorem keys_copyAttrsPlain (n : Nat) (l : Attrs) : (copyAttrsPlain n l).1.map Prod.fst = l.map Prod.fst := by
  induction l generalizing n with
  | nil => simp [copyAttrsPlain]
  | cons kv r ih =>
    obtain ⟨k', m, v⟩ := kv
    cases v <;> simp [copyAttrsPlain, ih]

mutual
theorem canon_copySpec : ∀ (t : Node) (inh : Option Bool) (n : Nat), SettledN t → canon (copySpec inh n t).1 = canon t
  | .str i c v, inh, n, _ => by simp [copySpec, canon]
  | .tag i d ks, inh, n, hs => by
    simp only [SettledN] at hs
    simp only [copySpec, canon]
    rw [canonL_copySpecL ks _ _ hs.2]
    have : attrMap (copySelf n d (isXml inh d)).2.1.attrs = attrMap d.attrs := by
      funext k
      simp only [attrMap, copySelf, copyAttrs_settled _ _ _ hs.1]
      exact lookup_copyAttrsPlain _ _ _
    rw [this]
    simp [copySelf]
theorem canonL_copySpecL : ∀ (ks : List Node) (inh : Option Bool) (n : Nat), SettledL ks →
    canonL (copySpecL inh n ks).1 = canonL ks
  | [], inh, n, _ => by simp [copySpecL, canonL]
  | k :: ks, inh, n, hs => by
    simp only [SettledL] at hs
    simp only [copySpecL, canonL]
    rw [canon_copySpec k _ _ hs.1, canonL_copySpecL ks _ _ hs.2]
end

mutual
theorem dictOK_copySpec : ∀ (t : Node) (inh : Option Bool) (n : Nat), SettledN t → DictOK t → DictOK (copySpec inh n t).1
  | .str i c v, inh, n, _, _ => by simp [copySpec, DictOK]
  | .tag i d ks, inh, n, hs, h => by
    simp only [SettledN] at hs
    simp only [DictOK] at h
    simp only [copySpec, DictOK]
    exact ⟨by simpa [copySelf, copyAttrs_settled _ _ _ hs.1, keys_copyAttrsPlain] using h.1, dictOKL_copySpecL ks _ _ hs.2 h.2⟩
theorem dictOKL_copySpecL : ∀ (ks : List Node) (inh : Option Bool) (n : Nat), SettledL ks → DictOKL ks →
    DictOKL (copySpecL inh n ks).1
  | [], inh, n, _, _ => by simp [copySpecL, DictOKL]
  | k :: ks, inh, n, hs, h => by
    simp only [SettledL] at hs
    simp only [DictOKL] at h
    simp only [copySpecL, DictOKL]
    exact ⟨dictOK_copySpec k _ _ hs.1 h.1, dictOKL_copySpecL ks _ _ hs.2 h.2⟩
end

end BS.Copy
