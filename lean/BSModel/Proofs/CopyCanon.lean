import BSModel.Proofs.Copy
import BSModel.Proofs.CopyEq
/-! helper lemmas for C12: a copy has the normal form of its original (core Lean only) -/
namespace BS.Copy

theorem lookup_copyAttrsPlain (n : Nat) (l : Attrs) (k : PStr) :
    ((copyAttrsPlain n l).1.lookup k).map (fun e => e.2.val) = (l.lookup k).map (fun e => e.2.val) := by
  induction l generalizing n with
  | nil => simp [copyAttrsPlain]
  | cons kv r ih =>
    obtain ⟨k', m, v⟩ := kv
    cases v with
    | list lid c items =>
      simp only [copyAttrsPlain, List.lookup_cons]
      cases (k == k') with
      | true => simp [AVal.val]
      | false => exact ih (n + 1)
    | _ =>
      simp only [copyAttrsPlain, List.lookup_cons]
      cases (k == k') with
      | true => rfl
      | false => exact ih n

theorem keys_copyAttrsPlain (n : Nat) (l : Attrs) : (copyAttrsPlain n l).1.map Prod.fst = l.map Prod.fst := by
  induction l generalizing n with
  | nil => simp [copyAttrsPlain]
  | cons kv r ih =>
    obtain ⟨k', m, v⟩ := kv
    cases v <;> simp [copyAttrsPlain, ih]

mutual
theorem canon_copySpec : ∀ (t : Node) (inh : Option Bool) (n : Nat), SettledN t → canon (copySpec inh n t).1 = canon t
  | .str i c v, inh, n, _ => by simp [copySpec, canon]
  | .tag i d ks, inh, n, hs => by
    simp only [SettledN] at hs
    simp only [copySpec, canon]
    rw [canonL_copySpecL ks _ _ hs.2]
    have : attrMap (copySelf n d (isXml inh d)).2.1.attrs = attrMap d.attrs := by
      funext k
      simp only [attrMap, copySelf, copyAttrs_settled _ _ _ hs.1]
      exact lookup_copyAttrsPlain _ _ _
    rw [this]
    simp [copySelf]
theorem canonL_copySpecL : ∀ (ks : List Node) (inh : Option Bool) (n : Nat), SettledL ks →
    canonL (copySpecL inh n ks).1 = canonL ks
  | [], inh, n, _ => by simp [copySpecL, canonL]
  | k :: ks, inh, n, hs => by
    simp only [SettledL] at hs
    simp only [copySpecL, canonL]
    rw [canon_copySpec k _ _ hs.1, canonL_copySpecL ks _ _ hs.2]
end

mutual
theorem dictOK_copySpec : ∀ (t : Node) (inh : Option Bool) (n : Nat), SettledN t → DictOK t → DictOK (copySpec inh n t).1
  | .str i c v, inh, n, _, _ => by simp [copySpec, DictOK]
  | .tag i d ks, inh, n, hs, h => by
    simp only [SettledN] at hs
    simp only [DictOK] at h
    simp only [copySpec, DictOK]
    exact ⟨by simpa [copySelf, copyAttrs_settled _ _ _ hs.1, keys_copyAttrsPlain] using h.1, dictOKL_copySpecL ks _ _ hs.2 h.2⟩
theorem dictOKL_copySpecL : ∀ (ks : List Node) (inh : Option Bool) (n : Nat), SettledL ks → DictOKL ks →
    DictOKL (copySpecL inh n ks).1
  | [], inh, n, _, _ => by simp [copySpecL, DictOKL]
  | k :: ks, inh, n, hs, h => by
    simp only [SettledL] at hs
    simp only [DictOKL] at h
    simp only [copySpecL, DictOKL]
    exact ⟨dictOK_copySpec k _ _ hs.1 h.1, dictOKL_copySpecL ks _ _ hs.2 h.2⟩
end

/-! ### executable checkers for the hypotheses (for examples and the driver) -/

mutual
def allPlainB : Node → Bool
  | .str _ _ _ => true
  | .tag _ d ks => (d.dictCls != 1 && d.dictCls != 2) && allPlainLB ks
def allPlainLB : List Node → Bool
  | [] => true
  | k :: ks => allPlainB k && allPlainLB ks
end

mutual
theorem settledN_of_plain : ∀ (t : Node), allPlainB t = true → SettledN t
  | .str _ _ _, _ => by simp [SettledN]
  | .tag _ d ks, h => by
    simp only [allPlainB, Bool.and_eq_true, bne_iff_ne, ne_eq] at h
    simp only [SettledN]
    exact ⟨settled_plain _ _ h.1.1 h.1.2, settledL_of_plain ks h.2⟩
theorem settledL_of_plain : ∀ (ks : List Node), allPlainLB ks = true → SettledL ks
  | [], _ => by simp [SettledL]
  | k :: ks, h => by
    simp only [allPlainLB, Bool.and_eq_true] at h
    simp only [SettledL]
    exact ⟨settledN_of_plain k h.1, settledL_of_plain ks h.2⟩
end

def nodupB : List PStr → Bool
  | [] => true
  | x :: xs => !(xs.contains x) && nodupB xs

theorem nodup_of_b : ∀ (l : List PStr), nodupB l = true → l.Nodup
  | [], _ => List.nodup_nil
  | x :: xs, h => by
    simp only [nodupB, Bool.and_eq_true, Bool.not_eq_true', List.contains_eq_mem, decide_eq_false_iff_not] at h
    exact List.nodup_cons.mpr ⟨h.1, nodup_of_b xs h.2⟩

mutual
def dictOKB : Node → Bool
  | .str _ _ _ => true
  | .tag _ d ks => nodupB (d.attrs.map Prod.fst) && dictOKLB ks
def dictOKLB : List Node → Bool
  | [] => true
  | k :: ks => dictOKB k && dictOKLB ks
end

mutual
theorem dictOK_of_b : ∀ (t : Node), dictOKB t = true → DictOK t
  | .str _ _ _, _ => by simp [DictOK]
  | .tag _ d ks, h => by
    simp only [dictOKB, Bool.and_eq_true] at h
    simp only [DictOK]
    exact ⟨nodup_of_b _ h.1, dictOKL_of_b ks h.2⟩
theorem dictOKL_of_b : ∀ (ks : List Node), dictOKLB ks = true → DictOKL ks
  | [], _ => by simp [DictOKL]
  | k :: ks, h => by
    simp only [dictOKLB, Bool.and_eq_true] at h
    simp only [DictOKL]
    exact ⟨dictOK_of_b k h.1, dictOKL_of_b ks h.2⟩
end

end BS.Copy
