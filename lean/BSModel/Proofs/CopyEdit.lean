import BSModel.Model.Copy
/-! helper lemmas for C12: an in-place mutation leaves every tree unchanged that does not contain the mutated object -/
namespace BS.Copy

theorem editVal_frame (e : Edit) (v : AVal) (h : ∀ lid c items, v = .list lid c items → e.target ≠ lid) :
    editVal e v = v := by
  cases v with
  | list lid c items =>
    have := h lid c items rfl
    cases e <;> simp_all [editVal, Edit.target]
  | _ => simp [editVal]

theorem editAttrs_frame (e : Edit) (l : Attrs) (h : e.target ∉ attrIds l) : editAttrs e l = l := by
  induction l with
  | nil => simp [editAttrs]
  | cons kv r ih =>
    obtain ⟨k, m, v⟩ := kv
    cases v with
    | list lid c items =>
      simp only [attrIds, List.mem_cons, not_or] at h
      have := ih h.2
      simp only [editAttrs] at this
      simp only [editAttrs, List.map_cons, this]
      rw [editVal_frame e _ (by intro l' c' i' he; cases he; exact h.1)]
    | _ =>
      simp only [attrIds] at h
      have := ih h
      simp only [editAttrs] at this
      simp only [editAttrs, List.map_cons, this]
      simp [editVal]

theorem editData_frame (e : Edit) (i : Nat) (d : TagData) (hi : e.target ≠ i) (h : e.target ∉ attrIds d.attrs) :
    editData e i d = d := by
  simp only [editData, editAttrs_frame e d.attrs h]
  cases e <;> simp_all [Edit.target]

theorem id_mem_ids (k : Node) : k.id ∈ ids k := by
  cases k <;> simp [Node.id, ids]

theorem editKids_frame (e : Edit) (i : Nat) (ks : List Node) (hi : e.target ≠ i) (h : e.target ∉ idsL ks) :
    editKids e i ks = ks := by
  have hk : ∀ k ∈ ks, k.id ≠ e.target := by
    intro k hk heq
    apply h
    clear hi
    induction ks with
    | nil => simp at hk
    | cons x xs ih =>
      simp only [idsL, List.mem_append]
      rcases List.mem_cons.mp hk with rfl | hk
      · exact Or.inl (heq ▸ id_mem_ids k)
      · exact Or.inr (ih (fun hc => h (by simp only [idsL, List.mem_append]; exact Or.inr hc)) hk)
  cases e with
  | insertKid t pos n => simp_all [editKids, Edit.target]
  | clear t => simp_all [editKids, Edit.target]
  | remove x =>
    simp only [editKids, Edit.target] at *
    apply List.filter_eq_self.mpr
    intro k hkm
    simpa using hk k hkm
  | replace x n =>
    simp only [editKids, Edit.target] at *
    conv => rhs; rw [← List.map_id ks]
    apply List.map_congr_left
    intro k hkm
    simp [hk k hkm]
  | _ => simp [editKids]

mutual
theorem applyEdit_frame : ∀ (t : Node) (e : Edit), e.target ∉ ids t → applyEdit e t = t
  | .str i c v, e, _ => by simp [applyEdit]
  | .tag i d ks, e, h => by
    simp only [ids, List.mem_cons, List.mem_append, not_or] at h
    simp only [applyEdit]
    rw [applyEditL_frame ks e h.2.2, editData_frame e i d h.1 h.2.1, editKids_frame e i ks h.1 h.2.2]
theorem applyEditL_frame : ∀ (ks : List Node) (e : Edit), e.target ∉ idsL ks → applyEditL e ks = ks
  | [], e, _ => by simp [applyEditL]
  | k :: ks, e, h => by
    simp only [idsL, List.mem_append, not_or] at h
    simp only [applyEditL]
    rw [applyEdit_frame k e h.1, applyEditL_frame ks e h.2]
end

end BS.Copy
