import BSModel.Model.Copy
/-! helper lemmas for C12: `==` against the structural definition (core Lean only) -/
namespace BS.Copy

/-! ### pigeonhole on duplicate-free lists -/

theorem nodup_subset_length_le : ∀ (a b : List PStr), a.Nodup → a ⊆ b → a.length ≤ b.length
  | [], _, _, _ => by simp
  | x :: a, b, hn, hs => by
    have hx : x ∈ b := hs (List.mem_cons_self ..)
    obtain ⟨hxa, hna⟩ := List.nodup_cons.mp hn
    have hsub : a ⊆ b.erase x := by
      intro y hy
      have hne : y ≠ x := fun h => hxa (h ▸ hy)
      exact (List.mem_erase_of_ne hne).mpr (hs (List.mem_cons_of_mem _ hy))
    have ih := nodup_subset_length_le a (b.erase x) hna hsub
    have hl := List.length_erase_of_mem hx
    have hpos : 0 < b.length := List.length_pos_of_mem hx
    simp only [List.length_cons]
    omega

theorem nodup_subset_full : ∀ (a b : List PStr), a.Nodup → a ⊆ b → b.length ≤ a.length → b ⊆ a
  | [], b, _, _, hl => by
    have : b = [] := List.eq_nil_of_length_eq_zero (by simpa using hl)
    simp [this]
  | x :: a, b, hn, hs, hl => by
    have hx : x ∈ b := hs (List.mem_cons_self ..)
    obtain ⟨hxa, hna⟩ := List.nodup_cons.mp hn
    have hsub : a ⊆ b.erase x := by
      intro y hy
      have hne : y ≠ x := fun h => hxa (h ▸ hy)
      exact (List.mem_erase_of_ne hne).mpr (hs (List.mem_cons_of_mem _ hy))
    have hle := List.length_erase_of_mem hx
    have hpos : 0 < b.length := List.length_pos_of_mem hx
    have ih := nodup_subset_full a (b.erase x) hna hsub (by simp only [List.length_cons] at hl; omega)
    intro y hy
    by_cases hyx : y = x
    · simp [hyx]
    · exact List.mem_cons_of_mem _ (ih ((List.mem_erase_of_ne hyx).mpr hy))

/-! ### lookup in association lists -/

theorem lookup_none_iff {β : Type} (k : PStr) (l : List (PStr × β)) : l.lookup k = none ↔ k ∉ l.map Prod.fst := by
  induction l with
  | nil => simp
  | cons kv r ih =>
    obtain ⟨k', v⟩ := kv
    simp only [List.lookup_cons, List.map_cons, List.mem_cons, not_or]
    by_cases h : k = k'
    · subst h; simp
    · have : (k == k') = false := by simpa using h
      simp [this, ih, h]

theorem lookup_some_mem {β : Type} {k : PStr} {v : β} {l : List (PStr × β)} (h : l.lookup k = some v) : (k, v) ∈ l := by
  induction l with
  | nil => simp at h
  | cons kv r ih =>
    obtain ⟨k', w⟩ := kv
    simp only [List.lookup_cons] at h
    by_cases hk : k = k'
    · subst hk
      simp at h
      simp [h]
    · have : (k == k') = false := by simpa using hk
      simp only [this] at h
      exact List.mem_cons_of_mem _ (ih h)

theorem mem_lookup_of_nodup {β : Type} {k : PStr} {v : β} : ∀ {l : List (PStr × β)}, (l.map Prod.fst).Nodup → (k, v) ∈ l →
    l.lookup k = some v
  | [], _, h => by simp at h
  | (k', w) :: r, hn, h => by
    simp only [List.map_cons, List.nodup_cons] at hn
    simp only [List.lookup_cons]
    rcases List.mem_cons.mp h with h | h
    · cases h; simp
    · have hk : k ∈ r.map Prod.fst := List.mem_map.mpr ⟨(k, v), h, rfl⟩
      have hne : k ≠ k' := fun e => hn.1 (e ▸ hk)
      have : (k == k') = false := by simpa using hne
      simp only [this]
      exact mem_lookup_of_nodup hn.2 h

theorem valEq_iff (v w : AVal) : valEq v w = true ↔ v.val = w.val := by
  cases v <;> cases w <;> simp [valEq, AVal.val, numOf] <;> (try split) <;> (try split) <;> simp_all <;> omega

theorem mem_keys_iff (k : PStr) (l : Attrs) : k ∈ l.map Prod.fst ↔ attrMap l k ≠ none := by
  have := lookup_none_iff k l
  simp only [attrMap, ne_eq, Option.map_eq_none_iff]
  constructor
  · intro h hn; exact (this.mp hn) h
  · intro h
    exact Classical.byContradiction fun hk => h (this.mpr hk)

/-- `dict.__eq__` on two dicts = equality of the finite maps -/
theorem dictEq_iff (a b : Attrs) (ha : (a.map Prod.fst).Nodup) (hb : (b.map Prod.fst).Nodup) :
    dictEq a b = true ↔ attrMap a = attrMap b := by
  constructor
  · intro h
    simp only [dictEq, Bool.and_eq_true, beq_iff_eq, List.all_eq_true] at h
    obtain ⟨hlen, hall⟩ := h
    have hsub : a.map Prod.fst ⊆ b.map Prod.fst := by
      intro k hk
      obtain ⟨kv, hkv, rfl⟩ := List.mem_map.mp hk
      have := hall kv hkv
      cases hl : b.lookup kv.1 with
      | none => simp [hl] at this
      | some w =>
        exact Classical.byContradiction fun hc => by
          have := (lookup_none_iff kv.1 b).mpr hc
          simp [hl] at this
    have hfull := nodup_subset_full _ _ ha hsub (by simp [hlen])
    funext k
    cases hl : a.lookup k with
    | none =>
      have hk : k ∉ a.map Prod.fst := (lookup_none_iff k a).mp hl
      have hk' : k ∉ b.map Prod.fst := fun h => hk (hfull h)
      simp [attrMap, hl, (lookup_none_iff k b).mpr hk']
    | some v =>
      have := hall (k, v) (lookup_some_mem hl)
      cases hl' : b.lookup k with
      | none => simp [hl'] at this
      | some w =>
        simp only [hl'] at this
        simp [attrMap, hl, hl', (valEq_iff v.2 w.2).mp this]
  · intro h
    have hkeys : ∀ k, k ∈ a.map Prod.fst ↔ k ∈ b.map Prod.fst := by
      intro k; rw [mem_keys_iff, mem_keys_iff, h]
    have l1 := nodup_subset_length_le _ _ ha (fun k hk => (hkeys k).mp hk)
    have l2 := nodup_subset_length_le _ _ hb (fun k hk => (hkeys k).mpr hk)
    simp only [List.length_map] at l1 l2
    simp only [dictEq, Bool.and_eq_true, beq_iff_eq, List.all_eq_true]
    refine ⟨by omega, ?_⟩
    intro kv hkv
    have hl := mem_lookup_of_nodup (k := kv.1) (v := kv.2) ha hkv
    have hk := congrFun h kv.1
    simp only [attrMap, hl, Option.map_some] at hk
    cases hl' : b.lookup kv.1 with
    | none => simp [hl'] at hk
    | some w =>
      simp only [hl', Option.map_some, Option.some.injEq] at hk
      exact (valEq_iff _ _).mpr hk

/-! ### `is` -/

mutual
theorem same_eq : ∀ (a b : Node), same a b = true → a = b
  | .str i c v, .str j d w, h => by
    simp only [same, Bool.and_eq_true, beq_iff_eq] at h
    obtain ⟨⟨h1, h2⟩, h3⟩ := h
    subst h1 h2 h3; rfl
  | .tag i a ks, .tag j b ls, h => by
    simp only [same, Bool.and_eq_true, beq_iff_eq, decide_eq_true_eq] at h
    obtain ⟨⟨h1, h2⟩, h3⟩ := h
    have := sameL_eq ks ls h3
    subst h1 h2 this; rfl
  | .str _ _ _, .tag _ _ _, h => by simp [same] at h
  | .tag _ _ _, .str _ _ _, h => by simp [same] at h
theorem sameL_eq : ∀ (ks ls : List Node), sameL ks ls = true → ks = ls
  | [], [], _ => rfl
  | k :: ks, l :: ls, h => by
    simp only [sameL, Bool.and_eq_true] at h
    rw [same_eq k l h.1, sameL_eq ks ls h.2]
  | [], _ :: _, h => by simp [sameL] at h
  | _ :: _, [], h => by simp [sameL] at h
end

mutual
theorem same_refl : ∀ (a : Node), same a a = true
  | .str i c v => by simp [same]
  | .tag i a ks => by simp [same, sameL_refl ks]
theorem sameL_refl : ∀ (ks : List Node), sameL ks ks = true
  | [] => by simp [sameL]
  | k :: ks => by simp [sameL, same_refl k, sameL_refl ks]
end

/-! ### `==` = equality of normal forms -/

theorem canonL_length : ∀ (ks : List Node), (canonL ks).length = ks.length
  | [] => by simp [canonL]
  | k :: ks => by simp [canonL, canonL_length ks]

mutual
theorem eqImpl_iff : ∀ (a b : Node), DictOK a → DictOK b → (eqImpl a b = true ↔ canon a = canon b)
  | .str i c v, .str j d w, _, _ => by simp [eqImpl, canon]
  | .str _ _ _, .tag _ _ _, _, _ => by simp [eqImpl, canon]
  | .tag _ _ _, .str _ _ _, _, _ => by simp [eqImpl, canon]
  | .tag i a ks, .tag j b ls, ha, hb => by
    simp only [DictOK] at ha hb
    have hd := dictEq_iff a.attrs b.attrs ha.1 hb.1
    constructor
    · intro h
      simp only [eqImpl] at h
      split at h
      · rename_i hs
        rw [same_eq _ _ hs]
      · split at h
        · simp at h
        · rename_i hc
          simp only [Bool.or_eq_true, Bool.not_eq_true', beq_eq_false_iff_ne, ne_eq, not_or, Decidable.not_not,
            Bool.not_eq_false] at hc
          obtain ⟨⟨hn, hdict⟩, hlen⟩ := hc
          have hk := (kidsEq_iff ks ls ha.2 hb.2 (by simpa using hlen)).mp h
          simp only [canon]
          rw [hn, hd.mp hdict, hk]
    · intro h
      simp only [canon, Canon.tag.injEq] at h
      obtain ⟨hn, hm, hk⟩ := h
      have hlen : ks.length = ls.length := by
        have := congrArg List.length hk
        simpa [canonL_length] using this
      simp only [eqImpl]
      split
      · rfl
      · have h1 : (a.name == b.name) = true := by simpa using hn
        have h2 := hd.mpr hm
        have h3 : (ks.length == ls.length) = true := by simpa using hlen
        simp only [h1, h2, h3, Bool.not_true, Bool.or_self, Bool.false_eq_true, ↓reduceIte]
        exact (kidsEq_iff ks ls ha.2 hb.2 hlen).mpr hk
theorem kidsEq_iff : ∀ (ks ls : List Node), DictOKL ks → DictOKL ls → ks.length = ls.length →
    (kidsEq ks ls = true ↔ canonL ks = canonL ls)
  | [], [], _, _, _ => by simp [kidsEq, canonL]
  | [], _ :: _, _, _, h => by simp at h
  | _ :: _, [], _, _, h => by simp at h
  | k :: ks, l :: ls, ha, hb, h => by
    simp only [DictOKL] at ha hb
    have h1 := eqImpl_iff k l ha.1 hb.1
    have h2 := kidsEq_iff ks ls ha.2 hb.2 (by simpa using h)
    simp only [kidsEq, canonL, List.cons.injEq]
    cases he : eqImpl k l with
    | true =>
      simp only [Bool.not_true, Bool.false_eq_true, ↓reduceIte]
      rw [h2]
      simp [h1.mp he]
    | false =>
      simp only [Bool.not_false, ↓reduceIte, Bool.false_eq_true, false_iff, not_and]
      intro hc
      rw [h1.mpr hc] at he
      simp at he
end

/-! ### equal trees have the same number of nodes -/

mutual
def csize : Canon → Nat
  | .str _ => 1
  | .tag _ _ ks => 1 + csizeL ks
def csizeL : List Canon → Nat
  | [] => 0
  | k :: ks => csize k + csizeL ks
end

mutual
theorem csize_canon : ∀ (t : Node), csize (canon t) = sizeN t
  | .str _ _ _ => by simp [canon, csize, sizeN]
  | .tag _ _ ks => by simp [canon, csize, sizeN, csizeL_canonL ks]
theorem csizeL_canonL : ∀ (ks : List Node), csizeL (canonL ks) = sizeL ks
  | [] => by simp [canonL, csizeL, sizeL]
  | k :: ks => by simp [canonL, csizeL, sizeL, csize_canon k, csizeL_canonL ks]
end

theorem sizeL_mem {k : Node} : ∀ {ks : List Node}, k ∈ ks → sizeN k ≤ sizeL ks
  | [], h => by simp at h
  | x :: xs, h => by
    simp only [sizeL]
    rcases List.mem_cons.mp h with rfl | h
    · omega
    · have := sizeL_mem h; omega

theorem below_size {a x : Node} (h : Below a x) : sizeN x < sizeN a := by
  induction h with
  | kid hk => simp only [sizeN]; have := sizeL_mem hk; omega
  | deeper hk _ ih => simp only [sizeN]; have := sizeL_mem hk; omega

/-! ### attribute order -/

theorem perm_keys_nodup {β : Type} {a b : List (PStr × β)} (p : a.Perm b) (h : (a.map Prod.fst).Nodup) :
    (b.map Prod.fst).Nodup := (p.map Prod.fst).nodup_iff.mp h

theorem perm_lookup {β : Type} {a b : List (PStr × β)} (p : a.Perm b) : (a.map Prod.fst).Nodup → ∀ k, a.lookup k = b.lookup k := by
  induction p with
  | nil => intros; rfl
  | cons x _ ih =>
    intro hn k
    simp only [List.map_cons, List.nodup_cons] at hn
    obtain ⟨k', v⟩ := x
    simp only [List.lookup_cons]
    rw [ih hn.2 k]
  | swap x y l =>
    intro hn k
    obtain ⟨kx, vx⟩ := x
    obtain ⟨ky, vy⟩ := y
    simp only [List.map_cons, List.nodup_cons, List.mem_cons, not_or] at hn
    have hne : ky ≠ kx := hn.1.1
    simp only [List.lookup_cons]
    by_cases h1 : k = ky
    · subst h1
      have : (k == kx) = false := by simpa using hne
      simp [this]
    · have : (k == ky) = false := by simpa using h1
      simp [this]
  | trans p1 _ ih1 ih2 =>
    intro hn k
    rw [ih1 hn k, ih2 (perm_keys_nodup p1 hn) k]

theorem attrMap_perm {a b : Attrs} (p : a.Perm b) (h : (a.map Prod.fst).Nodup) : attrMap a = attrMap b := by
  funext k
  simp [attrMap, perm_lookup p h k]

end BS.Copy
