import BSModel.Proofs.CopyEq
/-! helper lemmas for C12: when `==` implies equal hashes (core Lean only) -/
namespace BS.Copy

theorem lookup_map_snd {β γ : Type} (f : β → γ) (k : PStr) (l : List (PStr × β)) :
    (l.map fun kv => (kv.1, f kv.2)).lookup k = (l.lookup k).map f := by
  induction l with
  | nil => simp
  | cons kv r ih =>
    obtain ⟨k', v⟩ := kv
    simp only [List.map_cons, List.lookup_cons]
    cases (k == k') <;> simp [ih]

theorem erase_of_val_decor (v w : AVal) (h1 : v.val = w.val) (h2 : v.decor = w.decor) : v.erase = w.erase := by
  cases v <;> cases w <;> simp_all [AVal.val, AVal.decor, AVal.erase]
  rename_i a b
  cases a <;> cases b <;> simp_all

theorem eraseAttrs_lookup (l : Attrs) (k : PStr) :
    (eraseAttrs l).lookup k = (l.lookup k).map fun e => (e.1, e.2.erase) := by
  simp only [eraseAttrs]
  exact lookup_map_snd (fun e : AEntry => (e.1, e.2.erase)) k l

/-- the attribute part: same values for `==`, same kinds and classes ⇒ the same attribute map in the shape -/
theorem attrs_of_canon_decor (a b : Attrs) (h1 : attrMap a = attrMap b)
    (h2 : (fun k => (a.lookup k).map fun e : AEntry => (e.1, e.2.decor)) = fun k => (b.lookup k).map fun e : AEntry => (e.1, e.2.decor)) :
    (fun k => (eraseAttrs a).lookup k) = fun k => (eraseAttrs b).lookup k := by
  funext k
  have e1 := congrFun h1 k
  have e2 := congrFun h2 k
  simp only [attrMap] at e1
  rw [eraseAttrs_lookup, eraseAttrs_lookup]
  cases ha : a.lookup k with
  | none =>
    cases hb : b.lookup k with
    | none => rfl
    | some y => simp [ha, hb] at e1
  | some x =>
    cases hb : b.lookup k with
    | none => simp [ha, hb] at e1
    | some y =>
      simp only [ha, hb, Option.map_some, Option.some.injEq, Prod.mk.injEq] at e1 e2 ⊢
      exact ⟨e2.1, erase_of_val_decor _ _ e1 e2.2⟩

mutual
theorem rshape_of_canon_decor : ∀ (a b : Node) (inh inh' : Option Bool), canon a = canon b → decor inh a = decor inh' b →
    rshapeOf (shape inh a) = rshapeOf (shape inh' b)
  | .str i c v, .str j d w, _, _, h1, h2 => by
    simp only [canon, Canon.str.injEq] at h1
    simp only [decor, Decor.str.injEq] at h2
    simp [shape, rshapeOf, h1, h2]
  | .str _ _ _, .tag _ _ _, _, _, h1, _ => by simp [canon] at h1
  | .tag _ _ _, .str _ _ _, _, _, h1, _ => by simp [canon] at h1
  | .tag i a ks, .tag j b ls, inh, inh', h1, h2 => by
    simp only [canon, Canon.tag.injEq] at h1
    simp only [decor, Decor.tag.injEq] at h2
    obtain ⟨hn, hm, hk⟩ := h1
    obtain ⟨hd, hf, hkd⟩ := h2
    have hx : isXml inh a = isXml inh' b := by
      have := congrArg SData.xml hd
      simpa [shapeData] using this
    simp only [shape, rshapeOf, RShape.tag.injEq]
    refine ⟨?_, ?_, ?_⟩
    · simp only [shapeData, SData.mk.injEq] at hd ⊢
      simp_all
    · simp only [shapeData]
      exact attrs_of_canon_decor a.attrs b.attrs hm hf
    · exact rshapeL_of_canon_decor ks ls _ _ hk hkd
theorem rshapeL_of_canon_decor : ∀ (ks ls : List Node) (inh inh' : Option Bool), canonL ks = canonL ls →
    decorL inh ks = decorL inh' ls → rshapeOfL (shapeL inh ks) = rshapeOfL (shapeL inh' ls)
  | [], [], _, _, _, _ => by simp [shapeL, rshapeOfL]
  | [], _ :: _, _, _, h, _ => by simp [canonL] at h
  | _ :: _, [], _, _, h, _ => by simp [canonL] at h
  | k :: ks, l :: ls, inh, inh', h1, h2 => by
    simp only [canonL, List.cons.injEq] at h1
    simp only [decorL, List.cons.injEq] at h2
    simp only [shapeL, rshapeOfL, List.cons.injEq]
    exact ⟨rshape_of_canon_decor k l _ _ h1.1 h2.1, rshapeL_of_canon_decor ks ls _ _ h1.2 h2.2⟩
end

end BS.Copy
