import BSModel.Proofs.Copy
import BSModel.Proofs.CopyHash
/-! helper lemmas for C12: the copy of ANY tree has the shape of the tree with its dicts re-processed; `==` and the dict
    invariant are functions of the shape (core Lean only) -/
namespace BS.Copy

theorem erase_pushEntry (k : PStr) (m : KMeta) (ov : Option AVal) (q q' : Attrs × Nat)
    (h : eraseAttrs q.1 = eraseAttrs q'.1) : eraseAttrs (pushEntry k m ov q).1 = eraseAttrs (pushEntry k m ov q').1 := by
  cases ov with
  | none => simpa [pushEntry] using h
  | some v' =>
    simp only [eraseAttrs] at h
    simp [pushEntry, eraseAttrs, h]

theorem eraseAttrs_copyAttrs_general (cls n : Nat) (l : Attrs) :
    eraseAttrs (copyAttrs cls n l).1 = eraseAttrs (settleAttrs cls l) := by
  induction l generalizing n with
  | nil => simp [copyAttrs, settleAttrs, eraseAttrs]
  | cons e r ih =>
    obtain ⟨k, m, v⟩ := e
    cases v with
    | list lid c items =>
      have := ih (n + 1)
      simp only [eraseAttrs] at this
      simp only [copyAttrs, settleAttrs, coerce_list, pushEntry, eraseAttrs, List.map_cons, this]
      simp [AVal.erase]
    | str c s => simp only [copyAttrs, settleAttrs]; exact erase_pushEntry _ _ _ _ _ (ih n)
    | int x => simp only [copyAttrs, settleAttrs]; exact erase_pushEntry _ _ _ _ _ (ih n)
    | bool x => simp only [copyAttrs, settleAttrs]; exact erase_pushEntry _ _ _ _ _ (ih n)
    | none => simp only [copyAttrs, settleAttrs]; exact erase_pushEntry _ _ _ _ _ (ih n)

theorem settleAttrs_of_settled (cls : Nat) (l : Attrs) (h : Settled cls l) : settleAttrs cls l = l := by
  induction l with
  | nil => rfl
  | cons e r ih =>
    obtain ⟨k, m, v⟩ := e
    obtain ⟨h1, h2⟩ := settled_cons h
    simp only [] at h1
    simp [settleAttrs, h1, ih h2, pushEntry]

mutual
theorem settle_of_settled : ∀ t : Node, SettledN t → settle t = t
  | .str _ _ _, _ => rfl
  | .tag i d ks, h => by
    simp only [SettledN] at h
    simp only [settle, settleAttrs_of_settled _ _ h.1, settleL_of_settled ks h.2]
theorem settleL_of_settled : ∀ ks : List Node, SettledL ks → settleL ks = ks
  | [], _ => rfl
  | k :: ks, h => by
    simp only [SettledL] at h
    simp only [settleL, settle_of_settled k h.1, settleL_of_settled ks h.2]
end

theorem isXml_settle (inh : Option Bool) (d : TagData) (a : Attrs) : isXml inh { d with attrs := a } = isXml inh d := rfl

mutual
theorem shape_copySpec_general : ∀ (t : Node) (inh inh' : Option Bool) (n : Nat), (inh = none → inh' = none) →
    shape inh' (copySpec inh n t).1 = shape inh (settle t)
  | .str i c v, inh, inh', n, _ => by simp [copySpec, shape, settle]
  | .tag i d ks, inh, inh', n, h => by
    simp only [copySpec, shape, settle]
    have hx : isXml inh { d with attrs := settleAttrs d.dictCls d.attrs } = isXml inh d := rfl
    rw [isXml_copySelf n d inh inh' h, hx, shapeL_copySpecL_general ks (isXml inh d) _]
    congr 1
    simp [shapeData, copySelf, eraseAttrs_copyAttrs_general]
theorem shapeL_copySpecL_general : ∀ (ks : List Node) (inh : Option Bool) (n : Nat),
    shapeL inh (copySpecL inh n ks).1 = shapeL inh (settleL ks)
  | [], inh, n => by simp [copySpecL, shapeL, settleL]
  | k :: ks, inh, n => by
    simp only [copySpecL, shapeL, settleL]
    rw [shape_copySpec_general k inh inh n (fun h => h), shapeL_copySpecL_general ks inh _]
end

def SVal.toE : SVal → EVal
  | .str _ s => .str s
  | .list _ xs => .list xs
  | .int n => .num n
  | .bool b => .num (if b then 1 else 0)
  | .none => .none

theorem val_eq_toE (v : AVal) : v.val = v.erase.toE := by cases v <;> rfl

theorem attrMap_of_erase (a b : Attrs) (h : eraseAttrs a = eraseAttrs b) : attrMap a = attrMap b := by
  funext k
  have := congrArg (fun l => List.lookup k l) h
  simp only [eraseAttrs_lookup] at this
  simp only [attrMap]
  cases ha : a.lookup k with
  | none => cases hb : b.lookup k with
    | none => rfl
    | some y => simp [ha, hb] at this
  | some x => cases hb : b.lookup k with
    | none => simp [ha, hb] at this
    | some y =>
      simp only [ha, hb, Option.map_some, Option.some.injEq, Prod.mk.injEq] at this
      simp [val_eq_toE, this.2]

theorem keys_of_erase (a b : Attrs) (h : eraseAttrs a = eraseAttrs b) : a.map Prod.fst = b.map Prod.fst := by
  have := congrArg (List.map Prod.fst) h
  simpa [eraseAttrs, List.map_map, Function.comp_def] using this

mutual
theorem canon_of_shape : ∀ (a b : Node) (i j : Option Bool), shape i a = shape j b → canon a = canon b
  | .str _ _ _, .str _ _ _, _, _, h => by simp only [shape, Shape.str.injEq] at h; simp [canon, h.2]
  | .str _ _ _, .tag _ _ _, _, _, h => by simp [shape] at h
  | .tag _ _ _, .str _ _ _, _, _, h => by simp [shape] at h
  | .tag _ a ks, .tag _ b ls, i, j, h => by
    simp only [shape, Shape.tag.injEq] at h
    have hn : a.name = b.name := by have := congrArg SData.name h.1; simpa [shapeData] using this
    have ha : eraseAttrs a.attrs = eraseAttrs b.attrs := by have := congrArg SData.attrs h.1; simpa [shapeData] using this
    simp only [canon, hn, attrMap_of_erase _ _ ha, canonL_of_shape ks ls _ _ h.2]
theorem canonL_of_shape : ∀ (ks ls : List Node) (i j : Option Bool), shapeL i ks = shapeL j ls → canonL ks = canonL ls
  | [], [], _, _, _ => rfl
  | [], _ :: _, _, _, h => by simp [shapeL] at h
  | _ :: _, [], _, _, h => by simp [shapeL] at h
  | k :: ks, l :: ls, i, j, h => by
    simp only [shapeL, List.cons.injEq] at h
    simp only [canonL, canon_of_shape k l _ _ h.1, canonL_of_shape ks ls _ _ h.2]
end

mutual
theorem dictOK_of_shape : ∀ (a b : Node) (i j : Option Bool), shape i a = shape j b → DictOK a → DictOK b
  | .str _ _ _, .str _ _ _, _, _, _, _ => by simp [DictOK]
  | .str _ _ _, .tag _ _ _, _, _, h, _ => by simp [shape] at h
  | .tag _ _ _, .str _ _ _, _, _, h, _ => by simp [shape] at h
  | .tag _ a ks, .tag _ b ls, i, j, h, hd => by
    simp only [shape, Shape.tag.injEq] at h
    have ha : eraseAttrs a.attrs = eraseAttrs b.attrs := by have := congrArg SData.attrs h.1; simpa [shapeData] using this
    simp only [DictOK] at hd ⊢
    exact ⟨keys_of_erase _ _ ha ▸ hd.1, dictOKL_of_shape ks ls _ _ h.2 hd.2⟩
theorem dictOKL_of_shape : ∀ (ks ls : List Node) (i j : Option Bool), shapeL i ks = shapeL j ls → DictOKL ks → DictOKL ls
  | [], [], _, _, _, _ => by simp [DictOKL]
  | [], _ :: _, _, _, h, _ => by simp [shapeL] at h
  | _ :: _, [], _, _, h, _ => by simp [shapeL] at h
  | k :: ks, l :: ls, i, j, h, hd => by
    simp only [shapeL, List.cons.injEq] at h
    simp only [DictOKL] at hd ⊢
    exact ⟨dictOK_of_shape k l _ _ h.1 hd.1, dictOKL_of_shape ks ls _ _ h.2 hd.2⟩
end

theorem settle_keys_sublist (cls : Nat) (l : Attrs) : ((settleAttrs cls l).map Prod.fst).Sublist (l.map Prod.fst) := by
  induction l with
  | nil => simp [settleAttrs]
  | cons e r ih =>
    obtain ⟨k, m, v⟩ := e
    simp only [settleAttrs]
    cases coerce cls k m v with
    | none => exact List.Sublist.cons _ ih
    | some v' => simpa [pushEntry] using List.Sublist.cons_cons k ih

mutual
theorem dictOK_settle : ∀ t : Node, DictOK t → DictOK (settle t)
  | .str _ _ _, _ => by simp [settle, DictOK]
  | .tag i d ks, h => by
    simp only [DictOK] at h
    simp only [settle, DictOK]
    exact ⟨List.Nodup.sublist (settle_keys_sublist _ _) h.1, dictOKL_settle ks h.2⟩
theorem dictOKL_settle : ∀ ks : List Node, DictOKL ks → DictOKL (settleL ks)
  | [], _ => by simp [settleL, DictOKL]
  | k :: ks, h => by
    simp only [DictOKL] at h
    simp only [settleL, DictOKL]
    exact ⟨dictOK_settle k h.1, dictOKL_settle ks h.2⟩
end

end BS.Copy
