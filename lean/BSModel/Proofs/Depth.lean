import BSModel.Model.Depth
/-! helper lemmas for C11 (call-depth accounting) -/
namespace BS.Depth

/-! ### the combinators -/

theorem loopMax_le {α : Type} (xs : List α) (body : α → Nat) (k : Nat) (h : ∀ x ∈ xs, body x ≤ k) :
    loopMax xs body ≤ k := by
  induction xs with
  | nil => simp [loopMax]
  | cons x rest ih =>
    simp only [loopMax]
    have h1 := h x (by simp)
    have h2 := ih (fun y hy => h y (by simp [hy]))
    omega

theorem le_loopMax {α : Type} (xs : List α) (body : α → Nat) (x : α) (hx : x ∈ xs) : body x ≤ loopMax xs body := by
  induction xs with
  | nil => simp at hx
  | cons y rest ih =>
    simp only [loopMax]
    rcases List.mem_cons.mp hx with h | h
    · subst h; omega
    · have := ih h; omega

theorem loop0_eq {α : Type} (xs : List α) : loop0 xs = 0 := by
  have : loopMax xs (fun _ => 0) ≤ 0 := loopMax_le xs _ 0 (fun _ _ => Nat.le_refl 0)
  unfold loop0; omega

theorem loopMax_zero {α : Type} (xs : List α) (body : α → Nat) (h : ∀ x ∈ xs, body x = 0) : loopMax xs body = 0 := by
  have : loopMax xs body ≤ 0 := loopMax_le xs body 0 (fun x hx => by rw [h x hx]; exact Nat.le_refl 0)
  omega

/-! ### primitives that are constants -/

theorem lastDescDepth_eq (t : Node) : lastDescDepth t = 1 := by simp [lastDescDepth, loop0_eq, call]
theorem descGenDepth_eq (l : Loc) : descGenDepth l = 2 := by simp [descGenDepth, lastDescDepth_eq, loop0_eq, call]
/-- a test that makes no call (the identity test in particular) -/
def FreeTest (ts : Test) : Prop := ∀ a b, ts a b = 0

theorem idTest_free : FreeTest idTest := fun _ _ => rfl

theorem indexDepth_eq (ts : Test) (hT : FreeTest ts) (s : List Node) (x : Node) : indexDepth ts s x = 1 := by
  have : loopMax s (fun y => ts y x) = 0 := loopMax_zero _ _ (fun y _ => hT y x)
  simp [indexDepth, this, call]
theorem extractDepth_eq (ts : Test) (hT : FreeTest ts) (l : Loc) : extractDepth ts l = 2 := by
  simp [extractDepth, indexDepth_eq ts hT, lastDescDepth_eq, call]

theorem insertOneDepth_le (ts : Test) (hT : FreeTest ts) (l c : Loc) : insertOneDepth ts l c ≤ 4 := by
  have h := loopMax_le (kidsOf l.node) lastDescDepth 1 (fun x _ => by rw [lastDescDepth_eq]; exact Nat.le_refl 1)
  simp only [insertOneDepth, indexDepth_eq ts hT, extractDepth_eq ts hT, lastDescDepth_eq, loop0_eq, call, cStrNew, hT c.node l.node]
  omega

theorem insertDepth_le (ts : Test) (hT : FreeTest ts) (l : Loc) (args : List Loc) (d : Bool) : insertDepth ts l args d ≤ 7 := by
  have h := loopMax_le args (fun a => max (insertOneDepth ts l a) (indexDepth ts (a.node :: kidsOf l.node) a.node)) 4
    (fun c _ => by have := insertOneDepth_le ts hT l c; simp only [indexDepth_eq ts hT]; omega)
  unfold insertDepth
  simp only [call]
  split <;> omega

theorem appendDepth_le (ts : Test) (hT : FreeTest ts) (l a : Loc) (d : Bool) : appendDepth ts l a d ≤ 8 := by
  have := insertDepth_le ts hT l [a] d
  simp only [appendDepth, call]; omega

theorem replaceWithDepth_le (ts : Test) (hT : FreeTest ts) (p l : Loc) (args : List Loc) : replaceWithDepth ts p l args ≤ 8 := by
  have := insertDepth_le ts hT p args false
  have h1 : loopMax (args.take 1) (fun a => ts a.node l.node) = 0 := loopMax_zero _ _ (fun a _ => hT _ _)
  have h2 : loopMax args (fun a => ts a.node p.node) = 0 := loopMax_zero _ _ (fun a _ => hT _ _)
  simp only [replaceWithDepth, indexDepth_eq ts hT, extractDepth_eq ts hT, call, h1, h2]; omega

theorem decomposeDepth_eq (ts : Test) (hT : FreeTest ts) (l : Loc) : decomposeDepth ts l = 3 := by
  simp [decomposeDepth, extractDepth_eq ts hT, loop0_eq, call]

theorem smoothWork_le (l : Loc) : smoothWork l ≤ 8 := by
  have := replaceWithDepth_le idTest idTest_free l ⟨kxOf l.node :: l.anc, kidsOf l.node, .str 0⟩ [⟨kxOf l.node :: l.anc, kidsOf l.node, .str 0⟩]
  simp only [smoothWork, extractDepth_eq idTest idTest_free, call, cStrNew]; omega

/-! ### `_event_stream` with the identity test makes no calls -/

mutual
theorem evCmp_id (cfg : Cfg) (h : cfg.neIdentity = true) (t : Node) : evCmp cfg t = 0 := by
  cases t with
  | str v => simp [evCmp]
  | tag n a kx v ks => simp only [evCmp]; exact evKids_id cfg h _ [] ks
theorem evKids_id (cfg : Cfg) (h : cfg.neIdentity = true) (p : Node) (s l : List Node) : evKids cfg p s l = 0 := by
  cases l with
  | nil => simp [evKids]
  | cons k ks =>
    have : loopMax s (cmpCost cfg p) = 0 := loopMax_zero _ _ (fun x _ => by simp [cmpCost, h])
    simp [evKids, this, sameCost, h, evCmp_id cfg h k, evKids_id cfg h p (spineD k) ks]
end

theorem evKidsTop_id (cfg : Cfg) (h : cfg.neIdentity = true) (p : Node) (s l : List Node) : evKidsTop cfg p s l = 0 := by
  induction l generalizing s with
  | nil => simp [evKidsTop]
  | cons k ks ih =>
    have : loopMax s (cmpCost cfg p) = 0 := loopMax_zero _ _ (fun x _ => by simp [cmpCost, h])
    simp [evKidsTop, this, evCmp_id cfg h k, ih]

theorem eventStreamContentsDepth_id (cfg : Cfg) (h : cfg.neIdentity = true) (l : Loc) : eventStreamContentsDepth cfg l = 3 := by
  simp [eventStreamContentsDepth, evCmpContents, evKidsTop_id cfg h, descGenDepth_eq, call]

theorem eventStreamDepth_id (cfg : Cfg) (h : cfg.neIdentity = true) (l : Loc) : eventStreamDepth cfg l = 4 := by
  simp [eventStreamDepth, evCmp_id cfg h, descGenDepth_eq, call]

theorem isXmlDepth_loop (cfg : Cfg) (h : cfg.isXmlLoop = true) (kx : Bool) (anc : List Bool) : isXmlDepth cfg kx anc = 1 := by
  simp [isXmlDepth, h, loop0_eq, call]

theorem renderPiece_le (l : Loc) : renderPiece l ≤ 5 := by
  unfold renderPiece; split <;> simp [call, cOutputReady, cFormatTag]

theorem copySelfDepth_le (cfg : Cfg) (h : cfg.isXmlLoop = true) (d : Bool) (l : Loc) : copySelfDepth cfg d l ≤ 14 := by
  simp only [copySelfDepth, isXmlDepth_loop cfg h, call, cSoupInit, cTagInit]; split <;> omega

theorem deepcopyPiece_le (cfg : Cfg) (h : cfg.isXmlLoop = true) (d : Loc) : deepcopyPiece cfg d ≤ 15 := by
  have h1 := copySelfDepth_le cfg h false d
  have h2 := appendDepth_le idTest idTest_free ⟨[], [], .tag 0 0 true false []⟩ ⟨[], [], .str 0⟩ false
  unfold deepcopyPiece
  split <;> simp only [call, cStrNew] <;> omega

/-! ### the `.string` getter and matching -/

theorem stringDepth_loop (cfg : Cfg) (h : cfg.stringLoop = true) (t : Node) : stringDepth cfg t = 1 := by
  simp [stringDepth, h, loop0_eq, call]

theorem matchesTagDepth_le (cfg : Cfg) (h : cfg.stringLoop = true) (q : Query) (t : Node) : matchesTagDepth cfg q t ≤ 5 := by
  cases t with
  | str v => simp [matchesTagDepth]
  | tag n a kx v ks =>
    simp only [matchesTagDepth, stringDepth_loop cfg h, call, cRuleMatch]
    repeat' split
    all_goals omega

theorem matchDepth_le (cfg : Cfg) (h : cfg.stringLoop = true) (q : Query) (t : Node) : matchDepth cfg q t ≤ 6 := by
  have := matchesTagDepth_le cfg h q t
  unfold matchDepth
  split <;> simp only [call, cRuleMatch] <;> omega

theorem searchDepth_le (cfg : Cfg) (h : cfg.stringLoop = true) (q : Query) (gen : Nat) (hg : gen ≤ 2) (vis : List Node) :
    searchDepth cfg q gen vis ≤ 9 := by
  have := loopMax_le vis (matchDepth cfg q) 6 (fun t _ => matchDepth_le cfg h q t)
  simp only [searchDepth, call, cStrainerInit]; omega

/-! ### recursive forms: exact values on chains -/

theorem stringRec_pureChain (n : Nat) : stringRec (pureChain n) = n + 1 := by
  induction n with
  | zero => simp [pureChain, stringRec]
  | succ n ih =>
    have : pureChain (n + 1) = .tag 1 0 true false [pureChain n] := rfl
    rw [this]
    cases hp : pureChain n with
    | str v => cases n <;> simp [pureChain] at hp
    | tag n' a kx v ks =>
      simp only [stringRec]
      rw [← hp, ih]; omega

theorem stringPoly_loop (t : Node) : stringPoly (fun _ => false) t = 1 := by
  match t with
  | .str _ => simp [stringPoly]
  | .tag _ _ _ _ [] => simp [stringPoly]
  | .tag _ _ _ _ (_ :: _ :: _) => simp [stringPoly]
  | .tag _ _ _ _ [.str _] => simp [stringPoly]
  | .tag _ _ _ _ [.tag n a kx v ks] =>
    simp only [stringPoly, Bool.false_eq_true, ↓reduceIte]
    exact stringPoly_loop (.tag n a kx v ks)

theorem stringPoly_pureChain (n : Nat) : stringPoly (fun _ => true) (pureChain n) = n + 1 := by
  induction n with
  | zero => simp [pureChain, stringPoly]
  | succ n ih =>
    have : pureChain (n + 1) = .tag 1 0 true false [pureChain n] := rfl
    rw [this]
    cases hp : pureChain n with
    | str v => cases n <;> simp [pureChain] at hp
    | tag n' a kx v ks =>
      simp only [stringPoly, ↓reduceIte]
      rw [← hp, ih]; omega

theorem smoothRec_ge_pureChain (anc : List Bool) (n : Nat) : n + 1 ≤ smoothRec anc (pureChain n) := by
  induction n generalizing anc with
  | zero => simp [pureChain, smoothRec, call]
  | succ n ih =>
    have : pureChain (n + 1) = .tag 1 0 true false [pureChain n] := rfl
    rw [this]
    simp only [smoothRec, smoothRecL, call]
    have := ih (true :: anc)
    omega

theorem isXmlRec_replicate (n : Nat) : isXmlRec false (List.replicate n false) = n + 1 := by
  induction n with
  | zero => simp [isXmlRec]
  | succ n ih => simp only [List.replicate_succ, isXmlRec]; omega

mutual
theorem sizeN_pos (t : Node) : 1 ≤ sizeN t := by
  cases t <;> simp [sizeN]
end

theorem sizeN_chainTT (n : Nat) : n + 1 ≤ sizeN (chainWithTrailingText n) := by
  induction n with
  | zero => simp [chainWithTrailingText, sizeN, sizeL]
  | succ n ih => simp only [chainWithTrailingText, sizeN, sizeL]; omega

/-- `==` between a deep chain and an equal copy of it walks both all the way down: two frames per level -/
theorem eqDepth_pureChain_self (n : Nat) : 2 * n + 1 ≤ eqDepth (pureChain n) (pureChain n) := by
  induction n with
  | zero => simp [pureChain, eqDepth]
  | succ n ih =>
    have e : pureChain (n + 1) = .tag 1 0 true false [pureChain n] := rfl
    rw [e]
    simp only [eqDepth, List.length_cons, List.length_nil, ne_eq, not_true_eq_false, or_self, ↓reduceIte, eqKids]
    cases hp : pureChain n with
    | str v => cases n <;> simp [pureChain] at hp
    | tag n' a kx v ks =>
      rw [hp] at ih
      simp only []
      split <;> omega

/-! ### `!=` between a level of a trailing-content chain and the level below recurses all the way down -/

theorem eqDepth_chainTT (n : Nat) :
    2 * n + 1 ≤ eqDepth (chainWithTrailingText (n + 1)) (chainWithTrailingText n) := by
  induction n with
  | zero => simp [chainWithTrailingText, eqDepth]
  | succ n ih =>
    have e1 : chainWithTrailingText (n + 2) = .tag 1 0 true false [chainWithTrailingText (n + 1), .str 2] := rfl
    have e2 : chainWithTrailingText (n + 1) = .tag 1 0 true false [chainWithTrailingText n, .str 2] := rfl
    rw [e1]
    conv => rhs; arg 2; rw [e2]
    simp only [eqDepth, List.length_cons, List.length_nil, ne_eq, not_true_eq_false, or_self, ↓reduceIte, eqKids]
    rw [e2] at ih ⊢
    simp only [] at ih ⊢
    split <;> omega

theorem eqDepth_chainTS (n : Nat) :
    2 * n + 1 ≤ eqDepth (chainWithTrailingSibling (n + 1)) (chainWithTrailingSibling n) := by
  induction n with
  | zero => simp [chainWithTrailingSibling, eqDepth]
  | succ n ih =>
    have e1 : chainWithTrailingSibling (n + 2) = .tag 1 0 true false [chainWithTrailingSibling (n + 1), .tag 2 0 true false []] := rfl
    have e2 : chainWithTrailingSibling (n + 1) = .tag 1 0 true false [chainWithTrailingSibling n, .tag 2 0 true false []] := rfl
    rw [e1]
    conv => rhs; arg 2; rw [e2]
    simp only [eqDepth, List.length_cons, List.length_nil, ne_eq, not_true_eq_false, or_self, ↓reduceIte, eqKids]
    rw [e2] at ih ⊢
    simp only [] at ih ⊢
    split <;> omega

/-- the comparison `_event_stream` makes at the trailing text of the outermost level -/
theorem evCmp_chainTT (cfg : Cfg) (h : cfg.neIdentity = false) (n : Nat) :
    2 * n + 2 ≤ evCmp cfg (chainWithTrailingText (n + 1)) := by
  have e : chainWithTrailingText (n + 1) = .tag 1 0 true false [chainWithTrailingText n, .str 2] := rfl
  have hs : chainWithTrailingText n ∈ spineD (chainWithTrailingText n) := by
    cases n <;> simp [chainWithTrailingText, spineD]
  have h1 := le_loopMax (spineD (chainWithTrailingText n)) (cmpCost cfg (chainWithTrailingText (n + 1))) _ hs
  have h2 := eqDepth_chainTT n
  simp only [cmpCost, h, neDepth] at h1
  rw [e] at h1 ⊢
  simp only [evCmp, evKids]
  simp only [Bool.false_eq_true, ↓reduceIte] at h1 ⊢
  rw [e] at h2
  omega

theorem evCmp_chainTS (cfg : Cfg) (h : cfg.neIdentity = false) (n : Nat) :
    2 * n + 2 ≤ evCmp cfg (chainWithTrailingSibling (n + 1)) := by
  have e : chainWithTrailingSibling (n + 1) = .tag 1 0 true false [chainWithTrailingSibling n, .tag 2 0 true false []] := rfl
  have hs : chainWithTrailingSibling n ∈ spineD (chainWithTrailingSibling n) := by
    cases n <;> simp [chainWithTrailingSibling, spineD]
  have h1 := le_loopMax (spineD (chainWithTrailingSibling n)) (cmpCost cfg (chainWithTrailingSibling (n + 1))) _ hs
  have h2 := eqDepth_chainTS n
  simp only [cmpCost, h, neDepth] at h1
  rw [e] at h1 ⊢
  simp only [evCmp, evKids]
  simp only [Bool.false_eq_true, ↓reduceIte] at h1 ⊢
  rw [e] at h2
  omega

theorem evCmpContents_chainTT (cfg : Cfg) (h : cfg.neIdentity = false) (n : Nat) :
    2 * n + 2 ≤ evCmpContents cfg (chainWithTrailingText (n + 1)) := by
  have e : chainWithTrailingText (n + 1) = .tag 1 0 true false [chainWithTrailingText n, .str 2] := rfl
  have hs : chainWithTrailingText n ∈ spineD (chainWithTrailingText n) := by
    cases n <;> simp [chainWithTrailingText, spineD]
  have h1 := le_loopMax (spineD (chainWithTrailingText n)) (cmpCost cfg (chainWithTrailingText (n + 1))) _ hs
  have h2 := eqDepth_chainTT n
  simp only [cmpCost, h, neDepth] at h1
  rw [e] at h1 ⊢
  simp only [evCmpContents, kidsOf, evKidsTop]
  simp only [Bool.false_eq_true, ↓reduceIte] at h1 ⊢
  rw [e] at h2
  omega

theorem evCmpContents_chainTS (cfg : Cfg) (h : cfg.neIdentity = false) (n : Nat) :
    2 * n + 2 ≤ evCmpContents cfg (chainWithTrailingSibling (n + 1)) := by
  have e : chainWithTrailingSibling (n + 1) = .tag 1 0 true false [chainWithTrailingSibling n, .tag 2 0 true false []] := rfl
  have hs : chainWithTrailingSibling n ∈ spineD (chainWithTrailingSibling n) := by
    cases n <;> simp [chainWithTrailingSibling, spineD]
  have h1 := le_loopMax (spineD (chainWithTrailingSibling n)) (cmpCost cfg (chainWithTrailingSibling (n + 1))) _ hs
  have h2 := eqDepth_chainTS n
  simp only [cmpCost, h, neDepth] at h1
  rw [e] at h1 ⊢
  simp only [evCmpContents, kidsOf, evKidsTop]
  simp only [Bool.false_eq_true, ↓reduceIte] at h1 ⊢
  rw [e] at h2
  omega

/-! ### parsing: the side stacks are the filtered tag stack, so `popTag`'s `==` never leaves its first two exits -/

def Inv (nm : Names) (s : PState) : Prop :=
  s.pre = s.stack.filter (fun t => nm.isPre t.name) ∧ s.sc = s.stack.filter (fun t => nm.isSc t.name)

theorem popEq_filter (deep : Nat) (f : Nat → Bool) (t : PTag) (rest : List PTag) :
    popEqCost deep t ((t :: rest).filter (fun x => f x.name)) ≤ 1 ∧
    popEqPops t ((t :: rest).filter (fun x => f x.name)) = rest.filter (fun x => f x.name) := by
  by_cases hf : f t.name = true
  · simp [hf, popEqCost, popEqPops]
  · simp only [List.filter_cons, hf, Bool.false_eq_true, ↓reduceIte]
    cases hr : rest.filter (fun x => f x.name) with
    | nil => simp [popEqCost, popEqPops]
    | cons p ps =>
      have hp : p ∈ rest.filter (fun x => f x.name) := by rw [hr]; simp
      have hfp : f p.name = true := by simpa using (List.mem_filter.mp hp).2
      have hne : p.name ≠ t.name := fun e => hf (e ▸ hfp)
      have hne' : p ≠ t := fun e => hne (e ▸ rfl)
      simp [popEqCost, popEqPops, hne, hne']

theorem popTag_inv (nm : Names) (hE : nm.scElif = false) (deep : Nat) (s : PState) (h : Inv nm s) :
    Inv nm (popTag nm deep s).1 ∧ (popTag nm deep s).2 ≤ 2 ∧ (popTag nm deep s).1.stack = s.stack.tail := by
  obtain ⟨stack, pre, sc, next⟩ := s
  obtain ⟨h1, h2⟩ := h
  simp only at h1 h2
  cases stack with
  | nil => simp [popTag, Inv, h1, h2, call]
  | cons t rest =>
    have a := popEq_filter deep nm.isPre t rest
    have b := popEq_filter deep nm.isSc t rest
    subst h1 h2
    simp only [popTag, Inv, call, List.tail_cons, hE, Bool.false_and, Bool.false_eq_true, ↓reduceIte]
    refine ⟨⟨a.2, b.2⟩, ?_, trivial⟩
    have := a.1; have := b.1; omega

theorem popTo_inv (nm : Names) (hE : nm.scElif = false) (deep name : Nat) (fuel : Nat) (s : PState) (h : Inv nm s) :
    Inv nm (popTo nm deep name fuel s).1 ∧ (popTo nm deep name fuel s).2 ≤ 2 := by
  induction fuel generalizing s with
  | zero => simp [popTo, h]
  | succ fuel ih =>
    unfold popTo
    cases hs : s.stack with
    | nil => simp [h]
    | cons t rest =>
      have hp := popTag_inv nm hE deep s h
      simp only
      split
      · exact ⟨hp.1, hp.2.1⟩
      · have hi := ih (popTag nm deep s).1 hp.1
        refine ⟨hi.1, ?_⟩
        have := hp.2.1; have := hi.2
        simp only; omega

theorem popToTag_inv (nm : Names) (hE : nm.scElif = false) (deep name : Nat) (s : PState) (h : Inv nm s) :
    Inv nm (popToTag nm deep name s).1 ∧ (popToTag nm deep name s).2 ≤ 3 := by
  unfold popToTag
  split
  · have := popTo_inv nm hE deep name s.stack.length s h
    simp only [call]; exact ⟨this.1, by omega⟩
  · simp [h, call]

theorem pushTag_inv (nm : Names) (h0 : nm.outermostOnly = false) (name : Nat) (s : PState) (h : Inv nm s) :
    Inv nm (pushTag nm name s) := by
  obtain ⟨h1, h2⟩ := h
  unfold pushTag Inv
  simp only [List.filter_cons, h0, Bool.not_false, Bool.true_or, Bool.and_true]
  constructor
  · split <;> simp_all
  · split <;> simp_all

theorem endDataDepth_eq (s : PState) : endDataDepth s = 4 := by simp [endDataDepth, loop0_eq, call]

theorem step_inv (nm : Names) (h0 : nm.outermostOnly = false) (hE : nm.scElif = false) (deep : Nat) (s : PState) (e : Ev) (h : Inv nm s) :
    Inv nm (step nm deep s e).1 ∧ (step nm deep s e).2 ≤ 11 := by
  cases e with
  | text => simp [step, h, cTokenizer, call]
  | close name =>
    have := popToTag_inv nm hE deep name s h
    simp only [step, endDataDepth_eq, cTokenizer, call]
    exact ⟨this.1, by omega⟩
  | «open» name void =>
    have hp := pushTag_inv nm h0 name s h
    have := popToTag_inv nm hE deep name (pushTag nm name s) hp
    simp only [step, endDataDepth_eq, cTokenizer, cTagInit, call]
    split
    · exact ⟨this.1, by omega⟩
    · exact ⟨hp, by omega⟩

theorem run_inv (nm : Names) (h0 : nm.outermostOnly = false) (hE : nm.scElif = false) (deep : Nat) (evs : List Ev) (s : PState) (h : Inv nm s) :
    Inv nm (run nm deep s evs).1 ∧ (run nm deep s evs).2 ≤ 11 := by
  induction evs generalizing s with
  | nil => simp [run, h]
  | cons e es ih =>
    have h1 := step_inv nm h0 hE deep s e h
    have h2 := ih (step nm deep s e).1 h1.1
    simp only [run]
    exact ⟨h2.1, by have := h1.2; have := h2.2; omega⟩

theorem popAll_le (nm : Names) (hE : nm.scElif = false) (deep : Nat) (fuel : Nat) (s : PState) (h : Inv nm s) : popAll nm deep fuel s ≤ 2 := by
  induction fuel generalizing s with
  | zero => simp [popAll]
  | succ fuel ih =>
    unfold popAll
    cases hs : s.stack with
    | nil => simp
    | cons t rest =>
      have hp := popTag_inv nm hE deep s h
      have := ih (popTag nm deep s).1 hp.1
      have := hp.2.1
      simp only; omega

theorem feedDepth_le (nm : Names) (h0 : nm.outermostOnly = false) (hE : nm.scElif = false) (deep : Nat) (evs : List Ev) : feedDepth nm deep evs ≤ 12 := by
  have hI : Inv nm initState := by simp [Inv, initState]
  have hr := run_inv nm h0 hE deep evs initState hI
  have hp := popAll_le nm hE deep (run nm deep initState evs).1.stack.length (run nm deep initState evs).1 hr.1
  simp only [feedDepth, endDataDepth_eq, call]
  have := hr.2
  omega

/-! ### what `__getstate__` leaves in the dict -/

theorem refs_flat : Val.flat.refs = 0 := rfl
theorem refs_self : Val.self.refs = 0 := rfl
theorem refs_tree (k : Nat) : (Val.tree k).refs = k := rfl

theorem ofRefs_refs (k : Nat) : (Val.ofRefs k .self).refs = k ∧ (Val.ofRefs k).refs = k := by
  unfold Val.ofRefs
  constructor <;> split <;> simp_all [Val.refs]

/-- the state dict references tree objects exactly through the root's own links (when linked and not dropped) and
    through whatever the parse left on the three parser stacks (`tagStack` and `currentTag` both see the tag stack) -/
theorem stateRefs_eq (cfg : Cfg) (lk : Bool) (ps : PState) :
    stateRefs cfg lk ps = (if lk && !cfg.dropLinks then 1 else 0) + 2 * ps.stack.length + ps.pre.length + ps.sc.length := by
  have h1 := (ofRefs_refs ps.stack.length).1
  have h2 := (ofRefs_refs ps.pre.length).2
  have h3 := (ofRefs_refs ps.sc.length).2
  cases hd : cfg.dropLinks <;> cases lk <;>
    simp [stateRefs, soupDict, getstateImpl, dictRefs, hd, refs_flat, refs_self, refs_tree, h1, h2, h3] <;> omega

/-! ### after the parse: nothing is left on the parser's stacks -/

theorem closeAll_spec (nm : Names) (hE : nm.scElif = false) (deep : Nat) (fuel : Nat) (s : PState) (h : Inv nm s)
    (hf : s.stack.length ≤ fuel) :
    Inv nm (closeAll nm deep fuel s) ∧ (closeAll nm deep fuel s).stack = [] := by
  induction fuel generalizing s with
  | zero =>
    have : s.stack = [] := List.eq_nil_of_length_eq_zero (by omega)
    simp [closeAll, h, this]
  | succ fuel ih =>
    unfold closeAll
    cases hs : s.stack with
    | nil => simp [h, hs]
    | cons t rest =>
      have hp := popTag_inv nm hE deep s h
      simp only
      apply ih _ hp.1
      rw [hp.2.2, hs]; simp only [List.tail_cons]
      rw [hs] at hf; simp only [List.length_cons] at hf; omega

/-- After `_feed`, for every event sequence and every pair of tables (disjoint or not): the tag stack is back to the
    document object and both side stacks are empty — no parser attribute references a tree object. -/
theorem feedState_clean (nm : Names) (h0 : nm.outermostOnly = false) (hE : nm.scElif = false) (deep : Nat) (evs : List Ev) :
    leftover (feedState nm deep evs) = [] := by
  have hI : Inv nm initState := by simp [Inv, initState]
  have hr := run_inv nm h0 hE deep evs initState hI
  have hc := closeAll_spec nm hE deep (run nm deep initState evs).1.stack.length (run nm deep initState evs).1 hr.1 (Nat.le_refl _)
  obtain ⟨⟨h1, h2⟩, h3⟩ := hc
  simp only [feedState, leftover]
  rw [h1, h2, h3]; simp

end BS.Depth
