import BSModel.Proofs.Depth
/-! C11 — the code mirror of `_event_stream` (a loop with an explicit tag stack, `Model/Depth.lean` `eventStreamImpl`)
    refines the recursive skeleton (`evSpecN`) and its deepest comparison is exactly the recursive characterisation
    `evCmp` the accounting of decode / deepcopy / pickle uses. -/
namespace BS.Depth

mutual
/-- the events of a subtree with the ENDs of its still-open right spine withheld (they are yielded only when the next
    element arrives, or at the very end) -/
def openN (i : Nat) : Node → List Evt
  | .str _ => [Evt.string i]
  | .tag _ _ _ v ks => if v && ks.isEmpty then [Evt.empty i] else Evt.start i :: evsL [] (i + 1) ks
/-- the events yielded while the children `ks` arrive, `s` being what the previous child left open -/
def evsL (s : TagStack) (j : Nat) : List Node → List Evt
  | [] => []
  | k :: ks => ends s ++ openN j k ++ evsL (spineS j k) (j + sizeN k) ks
/-- what a subtree leaves on `tag_stack` (top first) -/
def spineS (i : Nat) : Node → TagStack
  | .str _ => []
  | .tag n a kx v ks => if v && ks.isEmpty then [] else lastSpine [] (i + 1) ks ++ [(i, .tag n a kx v ks)]
def lastSpine (s : TagStack) (j : Nat) : List Node → TagStack
  | [] => s
  | k :: ks => lastSpine (spineS j k) (j + sizeN k) ks
end

theorem ends_append (a b : TagStack) : ends (a ++ b) = ends a ++ ends b := by simp [ends]

/-! ### pure facts about the withheld form -/

mutual
theorem openN_spec (i : Nat) (t : Node) : openN i t ++ ends (spineS i t) = evSpecN i t := by
  cases t with
  | str v => simp [openN, spineS, evSpecN, ends]
  | tag n a kx v ks =>
    simp only [openN, spineS, evSpecN]
    split
    · simp [ends]
    · have := evsL_spec [] (i + 1) ks
      simp only [ends_append, List.cons_append, ← List.append_assoc, this]
      simp [ends]
theorem evsL_spec (s : TagStack) (j : Nat) (ks : List Node) :
    evsL s j ks ++ ends (lastSpine s j ks) = ends s ++ evSpecL j ks := by
  cases ks with
  | nil => simp [evsL, lastSpine, evSpecL]
  | cons k ks =>
    simp only [evsL, lastSpine, evSpecL, List.append_assoc]
    rw [evsL_spec (spineS j k) (j + sizeN k) ks, ← List.append_assoc (openN j k), openN_spec j k]
end

mutual
theorem spineS_nodes (i : Nat) (t : Node) : (spineS i t).map (·.2) = spineD t := by
  cases t with
  | str v => simp [spineS, spineD]
  | tag n a kx v ks =>
    simp only [spineS, spineD]
    split
    · rfl
    · rw [List.map_append, lastSpine_nodes [] (i + 1) ks]
      cases ks <;> simp_all [spineDL]
theorem lastSpine_nodes (s : TagStack) (j : Nat) (ks : List Node) :
    (lastSpine s j ks).map (·.2) = if ks.isEmpty then s.map (·.2) else spineDL ks := by
  cases ks with
  | nil => simp [lastSpine]
  | cons k ks =>
    simp only [lastSpine, spineDL, List.isEmpty_cons, Bool.false_eq_true, ↓reduceIte]
    rw [lastSpine_nodes (spineS j k) (j + sizeN k) ks, spineS_nodes j k]
end

mutual
theorem spineS_ids (i : Nat) (t : Node) : ∀ x ∈ spineS i t, i ≤ x.1 := by
  cases t with
  | str v => simp [spineS]
  | tag n a kx v ks =>
    simp only [spineS]
    split
    · simp
    · intro x hx
      rcases List.mem_append.mp hx with h | h
      · rcases lastSpine_ids [] (i + 1) ks x h with h' | h'
        · simp at h'
        · omega
      · simp at h; rw [h]; exact Nat.le_refl i
theorem lastSpine_ids (s : TagStack) (j : Nat) (ks : List Node) : ∀ x ∈ lastSpine s j ks, x ∈ s ∨ j ≤ x.1 := by
  cases ks with
  | nil => intro x hx; left; simpa [lastSpine] using hx
  | cons k ks =>
    intro x hx
    simp only [lastSpine] at hx
    rcases lastSpine_ids (spineS j k) (j + sizeN k) ks x hx with h | h
    · right; exact spineS_ids j k x h
    · right; omega
end

/-! ### the loop -/

theorem closeWhile_top (cfg : Cfg) (c : Elem) (pn : Node) (st : TagStack) (S : TagStack) (hS : ∀ x ∈ S, x.1 ≠ c.parent) :
    closeWhile cfg c (S ++ (c.parent, pn) :: st) =
      ((c.parent, pn) :: st, ends S, max (loopMax (S.map (·.2)) (cmpCost cfg c.parentNode)) (sameCost cfg)) := by
  induction S with
  | nil => simp [closeWhile, ends, loopMax]
  | cons x S ih =>
    obtain ⟨xid, xn⟩ := x
    have hx : c.parent ≠ xid := fun e => hS (xid, xn) (by simp) e.symm
    have ih' := ih (fun y hy => hS y (by simp [hy]))
    simp only [List.cons_append, closeWhile, hx, ↓reduceIte, ih', ends, List.map_cons, loopMax]
    refine Prod.ext rfl (Prod.ext rfl ?_)
    first | rfl | omega | (simp only; omega)

theorem evRun_append (cfg : Cfg) (st : TagStack) (l1 l2 : List Elem) :
    evRun cfg st (l1 ++ l2) =
      ((evRun cfg (evRun cfg st l1).1 l2).1, (evRun cfg st l1).2.1 ++ (evRun cfg (evRun cfg st l1).1 l2).2.1,
       max (evRun cfg st l1).2.2 (evRun cfg (evRun cfg st l1).1 l2).2.2) := by
  induction l1 generalizing st with
  | nil => simp [evRun]
  | cons c cs ih =>
    simp only [List.cons_append, evRun]
    rcases evStep cfg st c with ⟨st1, e1, c1⟩
    simp only [ih]
    rcases evRun cfg st1 cs with ⟨st2, e2, c2⟩
    rcases evRun cfg st2 l2 with ⟨st3, e3, c3⟩
    simp [Nat.max_assoc]

mutual
/-- one subtree, its parent `(pid, pn)` on the stack below what the previous sibling left open (`S`) -/
theorem evRun_node (cfg : Cfg) (t : Node) (pid : Nat) (pn : Node) (i : Nat) (S st : TagStack)
    (hS : ∀ x ∈ S, x.1 ≠ pid) (hi : pid < i) :
    evRun cfg (S ++ (pid, pn) :: st) (flatN pid pn i t) =
      (spineS i t ++ (pid, pn) :: st, ends S ++ openN i t,
       max (max (loopMax (S.map (·.2)) (cmpCost cfg pn)) (sameCost cfg)) (evCmp cfg t)) := by
  cases t with
  | str v =>
    have hc := closeWhile_top cfg ⟨i, pid, .str v, pn⟩ pn st S hS
    simp only [flatN, evRun, evStep, hc, spineS, openN, evCmp]
    refine Prod.ext rfl (Prod.ext (by simp) ?_)
    first | rfl | omega | (simp only; omega)
  | tag n a kx v ks =>
    have hc := closeWhile_top cfg ⟨i, pid, .tag n a kx v ks, pn⟩ pn st S hS
    simp only [flatN, evRun, evStep, hc]
    by_cases hv : (v && ks.isEmpty) = true
    · have hk : ks = [] := by
        cases ks with
        | nil => rfl
        | cons _ _ => simp at hv
      subst hk
      simp only [hv, ↓reduceIte, flatL, evRun, spineS, openN, evCmp, evKids]
      refine Prod.ext (by simp) (Prod.ext (by simp) ?_)
      first | rfl | omega | (simp only; omega)
    · have hl := evRun_kids cfg ks (.tag n a kx v ks) i (i + 1) [] ((pid, pn) :: st) (by simp) (by omega)
      simp only [List.nil_append] at hl
      simp only [hv, Bool.false_eq_true, ↓reduceIte, hl, spineS, openN, evCmp, List.map_nil]
      refine Prod.ext (by simp) (Prod.ext (by simp) ?_)
      first | rfl | omega | (simp only; omega)
/-- the children `ks` of `P` (identity `i`), `P` on the stack below `S` -/
theorem evRun_kids (cfg : Cfg) (ks : List Node) (P : Node) (i j : Nat) (S st : TagStack)
    (hS : ∀ x ∈ S, x.1 ≠ i) (hj : i < j) :
    evRun cfg (S ++ (i, P) :: st) (flatL i P j ks) =
      (lastSpine S j ks ++ (i, P) :: st, evsL S j ks, evKids cfg P (S.map (·.2)) ks) := by
  cases ks with
  | nil => simp [flatL, evRun, lastSpine, evsL, evKids]
  | cons k ks =>
    have hn := evRun_node cfg k i P j S st hS hj
    have hS' : ∀ x ∈ spineS j k, x.1 ≠ i := fun x hx => by have := spineS_ids j k x hx; omega
    have hl := evRun_kids cfg ks P i (j + sizeN k) (spineS j k) st hS' (by omega)
    simp only [flatL, evRun_append, hn, hl, lastSpine, evsL, evKids, spineS_nodes]
    refine Prod.ext rfl (Prod.ext (by simp) ?_)
    first | rfl | omega | (simp only; omega)
end

/-! ### the contents form: the root of the iteration is never on the stack -/

theorem closeWhile_all (cfg : Cfg) (c : Elem) (S : TagStack) (hS : ∀ x ∈ S, x.1 ≠ c.parent) :
    closeWhile cfg c S = ([], ends S, loopMax (S.map (·.2)) (cmpCost cfg c.parentNode)) := by
  induction S with
  | nil => simp [closeWhile, ends, loopMax]
  | cons x S ih =>
    obtain ⟨xid, xn⟩ := x
    have hx : c.parent ≠ xid := fun e => hS (xid, xn) (by simp) e.symm
    have ih' := ih (fun y hy => hS y (by simp [hy]))
    simp only [closeWhile, hx, ↓reduceIte, ih', ends, List.map_cons, loopMax]

theorem evRun_node_top (cfg : Cfg) (t : Node) (pid : Nat) (pn : Node) (i : Nat) (S : TagStack)
    (hS : ∀ x ∈ S, x.1 ≠ pid) (hi : pid < i) :
    evRun cfg S (flatN pid pn i t) =
      (spineS i t, ends S ++ openN i t, max (loopMax (S.map (·.2)) (cmpCost cfg pn)) (evCmp cfg t)) := by
  cases t with
  | str v =>
    have hc := closeWhile_all cfg ⟨i, pid, .str v, pn⟩ S hS
    simp only [flatN, evRun, evStep, hc, spineS, openN, evCmp]
    refine Prod.ext rfl (Prod.ext (by simp) ?_)
    first | rfl | omega | (simp only; omega)
  | tag n a kx v ks =>
    have hc := closeWhile_all cfg ⟨i, pid, .tag n a kx v ks, pn⟩ S hS
    simp only [flatN, evRun, evStep, hc]
    by_cases hv : (v && ks.isEmpty) = true
    · have hk : ks = [] := by
        cases ks with
        | nil => rfl
        | cons _ _ => simp at hv
      subst hk
      simp only [hv, ↓reduceIte, flatL, evRun, spineS, openN, evCmp, evKids]
      refine Prod.ext (by simp) (Prod.ext (by simp) ?_)
      first | rfl | omega | (simp only; omega)
    · have hl := evRun_kids cfg ks (.tag n a kx v ks) i (i + 1) [] [] (by simp) (by omega)
      simp only [List.nil_append] at hl
      simp only [hv, Bool.false_eq_true, ↓reduceIte, hl, spineS, openN, evCmp, List.map_nil]
      refine Prod.ext (by simp) (Prod.ext (by simp) ?_)
      first | rfl | omega | (simp only; omega)

theorem evRun_kids_top (cfg : Cfg) (ks : List Node) (P : Node) (i j : Nat) (S : TagStack)
    (hS : ∀ x ∈ S, x.1 ≠ i) (hj : i < j) :
    evRun cfg S (flatL i P j ks) = (lastSpine S j ks, evsL S j ks, evKidsTop cfg P (S.map (·.2)) ks) := by
  induction ks generalizing S j with
  | nil => simp [flatL, evRun, lastSpine, evsL, evKidsTop]
  | cons k ks ih =>
    have hn := evRun_node_top cfg k i P j S hS hj
    have hS' : ∀ x ∈ spineS j k, x.1 ≠ i := fun x hx => by have := spineS_ids j k x hx; omega
    have hl := ih (j + sizeN k) (spineS j k) hS' (by omega)
    simp only [flatL, evRun_append, hn, hl, lastSpine, evsL, evKidsTop, spineS_nodes]
    refine Prod.ext rfl (Prod.ext (by simp) ?_)
    first | rfl | omega | (simp only; omega)

/-- the contents form (decode_contents; hidden receivers such as the document object) -/
theorem eventStreamContentsImpl_spec (cfg : Cfg) (t : Node) :
    (eventStreamContentsImpl cfg t).1 = evSpecL 1 (kidsOf t) ∧ (eventStreamContentsImpl cfg t).2 = evCmpContents cfg t := by
  have hl := evRun_kids_top cfg (kidsOf t) t 0 1 [] (by simp) (by omega)
  have hs := evsL_spec [] 1 (kidsOf t)
  simp only [eventStreamContentsImpl, evCmpContents, hl, List.map_nil, and_true]
  rw [hs]; simp [ends]

/-- **Refinement.** For every tree and both variants of the test, the loop with its tag stack yields exactly the
    recursive skeleton (START, the children's events in order, END; EMPTY for an empty-element tag; STRING), … -/
theorem eventStreamImpl_events (cfg : Cfg) (t : Node) : (eventStreamImpl cfg t).1 = evSpecN 0 t := by
  cases t with
  | str v => simp [eventStreamImpl, flatN, evRun, evStep, closeWhile, evSpecN, ends]
  | tag n a kx v ks =>
    simp only [eventStreamImpl, flatN, evRun, evStep, closeWhile]
    by_cases hv : (v && ks.isEmpty) = true
    · have hk : ks = [] := by
        cases ks with
        | nil => rfl
        | cons _ _ => simp at hv
      subst hk
      have hv' : v = true := by simpa using hv
      simp [hv', flatL, evRun, evSpecN, evSpecL, ends]
    · have hl := evRun_kids cfg ks (.tag n a kx v ks) 0 1 [] [] (by simp) (by omega)
      simp only [List.nil_append] at hl
      have hs := evsL_spec [] 1 ks
      simp only [hv, Bool.false_eq_true, ↓reduceIte, hl, evSpecN, List.nil_append, List.cons_append, ends_append,
        Nat.zero_add]
      rw [← List.append_assoc, hs]
      simp [ends]

/-- … and the deepest comparison it makes is the recursive characterisation `evCmp` the accounting uses. -/
theorem eventStreamImpl_cost (cfg : Cfg) (t : Node) : (eventStreamImpl cfg t).2 = evCmp cfg t := by
  cases t with
  | str v => simp [eventStreamImpl, flatN, evRun, evStep, closeWhile, evCmp]
  | tag n a kx v ks =>
    simp only [eventStreamImpl, flatN, evRun, evStep, closeWhile]
    by_cases hv : (v && ks.isEmpty) = true
    · have hk : ks = [] := by
        cases ks with
        | nil => rfl
        | cons _ _ => simp at hv
      subst hk
      have hv' : v = true := by simpa using hv
      simp [hv', flatL, evRun, evCmp, evKids]
    · have hl := evRun_kids cfg ks (.tag n a kx v ks) 0 1 [] [] (by simp) (by omega)
      simp only [List.nil_append] at hl
      simp [hv, hl, evCmp]

/-! ### structural equality of two trees forces equal sizes (why the structural `!=` and `is not` agree on the pairs
    `_event_stream` compares: an element's parent properly contains every tag still open below it) -/

mutual
theorem beqN_sizeN (a b : Node) (h : beqN a b = true) : sizeN a = sizeN b := by
  cases a with
  | str v => cases b <;> simp_all [beqN, sizeN]
  | tag n x kx v ks =>
    cases b with
    | str _ => simp [beqN] at h
    | tag n' x' kx' v' ks' =>
      simp only [beqN, Bool.and_eq_true] at h
      simp only [sizeN, beqL_sizeL ks ks' h.2]
theorem beqL_sizeL (a b : List Node) (h : beqL a b = true) : sizeL a = sizeL b := by
  cases a with
  | nil => cases b <;> simp_all [beqL, sizeL]
  | cons k ks =>
    cases b with
    | nil => simp [beqL] at h
    | cons k' ks' =>
      simp only [beqL, Bool.and_eq_true] at h
      simp only [sizeL, beqN_sizeN k k' h.1, beqL_sizeL ks ks' h.2]
end

end BS.Depth
