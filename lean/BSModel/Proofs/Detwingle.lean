import BSModel.Model.Detwingle
/-! Helper lemmas for C19 (smart quotes, detwingle). Core Lean only. -/
namespace BS.Detwingle
open BS

/-! ## What the scan needs from the class attributes -/

/-- Number of bytes the UTF-8 lead byte `b` announces. -/
def stdSize (b : Nat) : Nat :=
  if 0xC2 ≤ b ∧ b ≤ 0xDF then 2 else if 0xE0 ≤ b ∧ b ≤ 0xEF then 3 else if 0xF0 ≤ b ∧ b ≤ 0xF4 then 4 else 0

/-- The minimal facts about `MULTIBYTE_MARKERS_AND_SIZES`/`FIRST`/`LAST` under which `detwingle`
    steps over well-formed UTF-8 character by character. -/
structure Cfg.Sound (c : Cfg) : Prop where
  lead : ∀ b, 0xC2 ≤ b → b ≤ 0xF4 → c.isMarker b = true ∧ c.sizeOf? b = some (stdSize b)
  ascii : ∀ b, b < 0x80 → c.isMarker b = false

/-- Decidable form of `Cfg.Sound`. -/
def Cfg.soundCheck (c : Cfg) : Bool :=
  (List.range 256).all fun b =>
    (if 0xC2 ≤ b ∧ b ≤ 0xF4 then c.isMarker b && c.sizeOf? b == some (stdSize b) else true) &&
    (if b < 0x80 then !c.isMarker b else true)

theorem Cfg.sound_of_check (c : Cfg) (h : c.soundCheck = true) : c.Sound := by
  unfold Cfg.soundCheck at h
  rw [List.all_eq_true] at h
  constructor
  · intro b h1 h2
    have := h b (by simp; omega)
    simp only [h1, h2, and_self, if_true, Bool.and_eq_true, beq_iff_eq] at this
    exact this.1
  · intro b hb
    have := h b (by simp; omega)
    simp only [hb, if_true, Bool.and_eq_true] at this
    simpa using this.2

/-- Every byte taken as a lead byte is covered by a range with a positive size (else the loop hangs). -/
def Cfg.Total (c : Cfg) : Prop := ∀ b, c.isMarker b = true → ∃ n, c.sizeOf? b = some (n + 1)

def Cfg.totalCheck (c : Cfg) : Bool :=
  (List.range (c.last + 1)).all fun b =>
    !c.isMarker b || (match c.sizeOf? b with | some (_ + 1) => true | _ => false)

theorem Cfg.total_of_check (c : Cfg) (h : c.totalCheck = true) : c.Total := by
  unfold Cfg.totalCheck at h
  rw [List.all_eq_true] at h
  intro b hb
  have hle : b ≤ c.last := by
    unfold Cfg.isMarker at hb; simp only [Bool.and_eq_true, decide_eq_true_eq] at hb; exact hb.2
  have := h b (by simp; omega)
  simp only [hb, Bool.not_true, Bool.false_or] at this
  split at this
  · rename_i n hn; exact ⟨n, hn⟩
  · exact absurd this (by simp)

/-! ## The structural scan -/

theorem scan_skip_append (c : Cfg) (s r : Bytes) :
    scan c s.length (s ++ r) = (scan c 0 r).map (s ++ ·) := by
  induction s with
  | nil => simp
  | cons b s ih =>
    simp only [List.length_cons, List.cons_append, scan, ih, Option.map_map]
    rfl

theorem scan_skip_short (c : Cfg) (s : Bytes) (k : Nat) (h : s.length ≤ k) : scan c k s = some s := by
  induction s generalizing k with
  | nil => simp [scan]
  | cons b s ih =>
    cases k with
    | zero => simp at h
    | succ k => simp only [scan, ih k (by simpa using h)]; rfl

theorem scan_total (c : Cfg) (ht : c.Total) (k : Nat) (s : Bytes) : (scan c k s).isSome = true := by
  induction s generalizing k with
  | nil => simp [scan]
  | cons b s ih =>
    cases k with
    | succ k => simp [scan, ih k]
    | zero =>
      unfold scan
      split
      · rename_i hm
        obtain ⟨n, hn⟩ := ht b hm
        simp [hn, ih n]
      · split <;> simp [ih 0]

/-- a lead byte with its announced number of following bytes is copied and stepped over -/
theorem scan_lead (c : Cfg) (b n : Nat) (s r : Bytes) (hm : c.isMarker b = true)
    (hs : c.sizeOf? b = some (n + 1)) (hl : s.length = n) :
    scan c 0 (b :: s ++ r) = (scan c 0 r).map (b :: s ++ ·) := by
  subst hl
  simp only [List.cons_append, scan, hm, if_true, hs, scan_skip_append, Option.map_map]
  rfl

/-- a byte that is neither a lead byte nor convertible is copied -/
theorem scan_plain (c : Cfg) (b : Nat) (r : Bytes) (hm : c.isMarker b = false) (hc : c.conv? b = none) :
    scan c 0 (b :: r) = (scan c 0 r).map (b :: ·) := by
  simp [scan, hm, hc]

/-- a convertible byte is replaced -/
theorem scan_conv (c : Cfg) (b : Nat) (rep r : Bytes) (hm : c.isMarker b = false) (hc : c.conv? b = some rep) :
    scan c 0 (b :: r) = (scan c 0 r).map (rep ++ ·) := by
  simp [scan, hm, hc]

theorem conv_ascii (c : Cfg) (b : Nat) (h : b < 0x80) : c.conv? b = none := by
  unfold Cfg.conv?; simp; omega

/-- one encoded character (any code point below 0x110000, surrogates included: the scan only looks at
    lead bytes) is stepped over -/
theorem scan_char (c : Cfg) (hs : c.Sound) (ch : Nat) (hch : ch < 0x110000) (r : Bytes) :
    scan c 0 (encodeUtf8 ch ++ r) = (scan c 0 r).map (encodeUtf8 ch ++ ·) := by
  unfold encodeUtf8
  split
  · rename_i h
    exact scan_plain c ch r (hs.ascii ch h) (conv_ascii c ch h)
  · split
    · have := hs.lead (0xC0 + ch / 64) (by omega) (by omega)
      have hsz : stdSize (0xC0 + ch / 64) = 1 + 1 := by unfold stdSize; rw [if_pos (by omega)]
      exact scan_lead c _ 1 [_] r this.1 (hsz ▸ this.2) rfl
    · split
      · have := hs.lead (0xE0 + ch / 4096) (by omega) (by omega)
        have hsz : stdSize (0xE0 + ch / 4096) = 2 + 1 := by
          unfold stdSize; rw [if_neg (by omega), if_pos (by omega)]
        exact scan_lead c _ 2 [_, _] r this.1 (hsz ▸ this.2) rfl
      · have := hs.lead (0xF0 + ch / 262144) (by omega) (by omega)
        have hsz : stdSize (0xF0 + ch / 262144) = 3 + 1 := by
          unfold stdSize; rw [if_neg (by omega), if_neg (by omega), if_pos (by omega)]
        exact scan_lead c _ 3 [_, _, _] r this.1 (hsz ▸ this.2) rfl

theorem scan_utf8 (c : Cfg) (hs : c.Sound) (s : PStr) (h : ∀ ch ∈ s, ch < 0x110000) (r : Bytes) :
    scan c 0 (utf8 s ++ r) = (scan c 0 r).map (utf8 s ++ ·) := by
  induction s with
  | nil => simp [utf8]
  | cons ch s ih =>
    have h1 := h ch (by simp)
    have h2 : ∀ x ∈ s, x < 0x110000 := fun x hx => h x (by simp [hx])
    have : utf8 (ch :: s) = encodeUtf8 ch ++ utf8 s := by simp [utf8]
    rw [this, List.append_assoc, scan_char c hs ch h1, ih h2, Option.map_map]
    congr 1; funext x; simp

theorem scalar_lt {c : Nat} (h : IsScalar c) : c < 0x110000 := by unfold IsScalar at h; omega

/-! ## Pieces: UTF-8 characters and embedded single bytes -/

/-- A segment of the input: an encoded character or a single embedded Windows-1252 byte. -/
inductive Piece
  | ch (c : Nat)
  | emb (b : Nat)
  deriving Repr, DecidableEq

/-- The bytes of the segment in the input. -/
def Piece.src : Piece → Bytes
  | .ch c => encodeUtf8 c
  | .emb b => [b]

/-- What `detwingle` makes of the segment. -/
def Piece.out (cfg : Cfg) : Piece → Bytes
  | .ch c => encodeUtf8 c
  | .emb b => (cfg.conv? b).getD [b]

/-- The byte is convertible: it has an entry in `WINDOWS_1252_TO_UTF8`, is ≥ 0x80, and is not in the
    range the scan takes for UTF-8 lead bytes. -/
def Cfg.Convertible (cfg : Cfg) (b : Nat) : Prop := cfg.isMarker b = false ∧ (cfg.conv? b).isSome = true

instance (cfg : Cfg) : DecidablePred cfg.Convertible := fun b => by unfold Cfg.Convertible; exact inferInstance

def Piece.Ok (cfg : Cfg) : Piece → Prop
  | .ch c => c < 0x110000
  | .emb b => cfg.Convertible b

theorem scan_pieces (c : Cfg) (hs : c.Sound) (ps : List Piece) (h : ∀ p ∈ ps, p.Ok c) :
    scan c 0 (ps.flatMap Piece.src) = some (ps.flatMap (Piece.out c)) := by
  induction ps with
  | nil => simp [scan]
  | cons p ps ih =>
    have hp := h p (by simp)
    have ih := ih (fun q hq => h q (by simp [hq]))
    simp only [List.flatMap_cons]
    cases p with
    | ch x =>
      rw [show (Piece.ch x).src = encodeUtf8 x from rfl, scan_char c hs x hp, ih]; rfl
    | emb b =>
      obtain ⟨hm, hc⟩ := hp
      obtain ⟨rep, hrep⟩ := Option.isSome_iff_exists.mp hc
      rw [show (Piece.emb b).src = [b] from rfl, List.singleton_append, scan_conv c b rep _ hm hrep, ih]
      simp [Piece.out, hrep]

/-! ## The table agrees with Windows-1252 wherever it is reachable -/

def cp1252At (b : Nat) : Option Nat := tableByte Gen.Detwingle.cp1252 b

/-- Decidable: every reachable entry (key not a lead byte) is the UTF-8 of the byte's cp1252 character. -/
def Cfg.tableCheck (c : Cfg) : Bool :=
  c.table.all (fun kv => kv.1 < 256) &&
  (List.range 256).all fun b =>
    match c.conv? b with
    | none => true
    | some v => c.isMarker b ||
        (match cp1252At b with
         | some ch => v == encodeUtf8 ch && decide (IsScalar ch)
         | none => false)

theorem lookup_key_lt {α} (l : List (Nat × α)) (n : Nat) (h : l.all (fun kv => kv.1 < n) = true) (b : Nat) (v : α)
    (hv : l.lookup b = some v) : b < n := by
  induction l with
  | nil => simp at hv
  | cons kv l ih =>
    obtain ⟨k, w⟩ := kv
    simp only [List.all_cons, Bool.and_eq_true, decide_eq_true_eq] at h
    simp only [List.lookup_cons] at hv
    split at hv
    · rename_i heq; have : b = k := by simpa using heq
      omega
    · exact ih h.2 hv

theorem Cfg.table_of_check (c : Cfg) (h : c.tableCheck = true) (b : Nat) (hb : c.Convertible b) :
    ∃ ch, cp1252At b = some ch ∧ IsScalar ch ∧ c.conv? b = some (encodeUtf8 ch) := by
  unfold Cfg.tableCheck at h
  simp only [Bool.and_eq_true] at h
  obtain ⟨hk, hall⟩ := h
  rw [List.all_eq_true] at hall
  obtain ⟨hm, hc⟩ := hb
  obtain ⟨v, hv⟩ := Option.isSome_iff_exists.mp hc
  have hlt : b < 256 := by
    unfold Cfg.conv? at hv
    split at hv
    · exact lookup_key_lt c.table 256 hk b v hv
    · simp at hv
  have := hall b (by simp; omega)
  simp only [hv, hm, Bool.false_or] at this
  split at this
  · rename_i ch hch
    simp only [Bool.and_eq_true, beq_iff_eq, decide_eq_true_eq] at this
    exact ⟨ch, hch, this.2, by rw [hv, this.1]⟩
  · exact absurd this (by simp)

/-! ## The index loop of the Python computes the structural scan -/

theorem slice_extend (l : Bytes) (cs pos n : Nat) (h : cs ≤ pos) :
    slice l cs (pos + n) = slice l cs pos ++ (l.drop pos).take n := by
  unfold slice
  have : pos + n - cs = (pos - cs) + n := by omega
  rw [this, List.take_add, List.drop_drop]
  congr 3; omega

theorem slice_all (l : Bytes) (cs pos : Nat) (h : l.length ≤ pos) : slice l cs pos = l.drop cs := by
  unfold slice
  apply List.take_of_length_le
  simp; omega

theorem drop_eq_getD_cons (l : Bytes) (pos : Nat) (h : pos < l.length) :
    l.drop pos = l.getD pos 0 :: l.drop (pos + 1) := by
  rw [List.drop_eq_getElem_cons h]
  simp [List.getD_eq_getElem?_getD, h]

/-- result of the loop state, ignoring the `chunk_start == 0` shortcut -/
def fin (inb : Bytes) (st : Nat × List Bytes) : Bytes := st.2.flatten ++ inb.drop st.1

theorem loop_stuck (c : Cfg) (inb : Bytes) (fuel pos cs : Nat) (chunks : List Bytes)
    (hp : pos < inb.length) (hm : c.isMarker (inb.getD pos 0) = true)
    (hs : c.sizeOf? (inb.getD pos 0) = some 0) : loopImpl c inb fuel pos cs chunks = none := by
  induction fuel with
  | zero => simp [loopImpl, hp]
  | succ fuel ih => simp only [loopImpl, hp, if_true, hm, hs, Nat.add_zero, ih]

theorem scan_take_drop (c : Cfg) (n : Nat) (l : Bytes) :
    scan c n l = (scan c 0 (l.drop n)).map (l.take n ++ ·) := by
  by_cases h : n ≤ l.length
  · have := scan_skip_append c (l.take n) (l.drop n)
    rw [List.take_append_drop, List.length_take, Nat.min_eq_left h] at this
    exact this
  · have h' : l.length ≤ n := by omega
    rw [scan_skip_short c l n h', List.drop_of_length_le h', List.take_of_length_le h']
    simp [scan]

theorem loop_spec (c : Cfg) (inb : Bytes) (fuel pos cs : Nat) (chunks : List Bytes)
    (hcs : cs ≤ pos) (hf : inb.length < fuel + pos) :
    (loopImpl c inb fuel pos cs chunks).map (fin inb)
      = (scan c 0 (inb.drop pos)).map (fun r => chunks.flatten ++ slice inb cs pos ++ r) := by
  induction fuel generalizing pos cs chunks with
  | zero =>
    have : ¬ pos < inb.length := by omega
    have hd : inb.drop pos = [] := List.drop_of_length_le (by omega)
    simp only [loopImpl, this, if_false, Option.map_some, fin]
    rw [hd, slice_all inb cs pos (by omega)]
    simp [scan]
  | succ fuel ih =>
    unfold loopImpl
    by_cases hp : pos < inb.length
    · simp only [hp, if_true]
      rw [drop_eq_getD_cons inb pos hp]
      generalize hb : inb.getD pos 0 = byte
      by_cases hm : c.isMarker byte = true
      · simp only [hm, if_true]
        cases hsz : c.sizeOf? byte with
        | none => simp [scan, hm, hsz]
        | some size =>
          cases size with
          | zero =>
            have := loop_stuck c inb fuel pos cs chunks hp (hb ▸ hm) (hb ▸ hsz)
            simp [scan, hm, hsz, this]
          | succ n =>
            simp only []
            rw [ih (pos + (n + 1)) cs chunks (by omega) (by omega)]
            simp only [scan, hm, if_true, hsz]
            rw [scan_take_drop c n (inb.drop (pos + 1)), List.drop_drop, Option.map_map, Option.map_map]
            have e1 : pos + (n + 1) = pos + 1 + n := by omega
            rw [e1]
            congr 1; funext r
            simp only [Function.comp]
            rw [show pos + 1 + n = pos + (1 + n) by omega, slice_extend inb cs pos (1 + n) hcs,
              drop_eq_getD_cons inb pos hp, hb, List.take_add]
            simp [List.append_assoc]
      · simp only [hm, Bool.false_eq_true, if_false]
        have hm' : c.isMarker byte = false := by simpa using hm
        cases hcv : c.conv? byte with
        | none =>
          simp only []
          rw [ih (pos + 1) cs chunks (by omega) (by omega)]
          simp only [scan, hm', Bool.false_eq_true, if_false, hcv, Option.map_map]
          congr 1; funext r
          simp only [Function.comp]
          rw [slice_extend inb cs pos 1 hcs, drop_eq_getD_cons inb pos hp, hb]
          simp [List.append_assoc]
        | some rep =>
          simp only []
          rw [ih (pos + 1) (pos + 1) _ (by omega) (by omega)]
          simp only [scan, hm', Bool.false_eq_true, if_false, hcv, Option.map_map]
          congr 1; funext r
          simp [Function.comp, slice, List.append_assoc]
    · have hd : inb.drop pos = [] := List.drop_of_length_le (by omega)
      simp only [hp, if_false, Option.map_some, fin]
      rw [hd, slice_all inb cs pos (by omega)]
      simp [scan]

/-- `chunk_start == 0` exactly when nothing was replaced so far -/
theorem loop_cs_zero (c : Cfg) (inb : Bytes) (fuel pos cs : Nat) (chunks : List Bytes)
    (h0 : cs = 0 → chunks = []) (cs' : Nat) (chunks' : List Bytes)
    (h : loopImpl c inb fuel pos cs chunks = some (cs', chunks')) : cs' = 0 → chunks' = [] := by
  induction fuel generalizing pos cs chunks with
  | zero =>
    unfold loopImpl at h
    split at h
    · simp at h
    · simp only [Option.some.injEq, Prod.mk.injEq] at h; obtain ⟨rfl, rfl⟩ := h; exact h0
  | succ fuel ih =>
    unfold loopImpl at h
    split at h
    · simp only [] at h
      split at h
      · split at h
        · exact ih _ _ _ h0 h
        · simp at h
      · split at h
        · exact ih _ _ _ (by omega) h
        · exact ih _ _ _ h0 h
    · simp only [Option.some.injEq, Prod.mk.injEq] at h; obtain ⟨rfl, rfl⟩ := h; exact h0

theorem detwingleImplWith_eq (c : Cfg) (inb : Bytes) : detwingleImplWith c inb = detwingleWith c inb := by
  unfold detwingleImplWith detwingleWith
  have hs := loop_spec c inb (inb.length + 1) 0 0 [] (by omega) (by omega)
  simp only [List.drop_zero, List.flatten_nil, List.nil_append, slice, Nat.sub_self, List.take_zero] at hs
  cases hl : loopImpl c inb (inb.length + 1) 0 0 [] with
  | none => rw [hl] at hs; simp only [Option.map_none] at hs; simp only []; cases hsc : scan c 0 inb <;> simp_all
  | some st =>
    obtain ⟨cs, chunks⟩ := st
    rw [hl] at hs
    simp only [Option.map_some, fin] at hs
    have hz := loop_cs_zero c inb _ 0 0 [] (fun _ => rfl) cs chunks hl
    simp only []
    cases hsc : scan c 0 inb with
    | none => rw [hsc] at hs; simp at hs
    | some r =>
      rw [hsc] at hs
      simp only [Option.map_some, Option.some.injEq] at hs
      split
      · rename_i h0; subst h0; simp [hz rfl] at hs; rw [hs]
      · simp [← hs]

/-! ## Strict decoding undoes encoding -/

theorem decodeUtf8_encode (ch : Nat) (h : IsScalar ch) (r : Bytes) :
    decodeUtf8 (encodeUtf8 ch ++ r) = (decodeUtf8 r).map (ch :: ·) := by
  unfold IsScalar at h
  unfold encodeUtf8
  split
  · rename_i h1
    simp only [List.cons_append, List.nil_append]
    rw [decodeUtf8.eq_def]; simp [h1]
  · split
    · rename_i h1 h2
      have a1 : ¬ (0xC0 + ch / 64 < 0x80) := by omega
      have a2 : 0xC2 ≤ 0xC0 + ch / 64 ∧ 0xC0 + ch / 64 ≤ 0xDF := by omega
      have a3 : isCont (0x80 + ch % 64) = true := by unfold isCont; simp; omega
      have a4 : (0xC0 + ch / 64 - 0xC0) * 64 + (0x80 + ch % 64 - 0x80) = ch := by omega
      simp only [List.cons_append, List.nil_append, decodeUtf8, a1, if_false, a2, decide_true, Bool.and_self,
        if_true, a3, a4]
    · split
      · rename_i h1 h2 h3
        have a1 : ¬ (0xE0 + ch / 4096 < 0x80) := by omega
        have a2 : ¬ (0xC2 ≤ 0xE0 + ch / 4096 ∧ 0xE0 + ch / 4096 ≤ 0xDF) := by omega
        have a3 : 0xE0 ≤ 0xE0 + ch / 4096 ∧ 0xE0 + ch / 4096 ≤ 0xEF := by omega
        have a4 : isCont (0x80 + ch % 64) = true := by unfold isCont; simp; omega
        have a5 : (if 0xE0 + ch / 4096 = 0xE0 then 0xA0 else 0x80) ≤ 0x80 + ch / 64 % 64 := by split <;> omega
        have a6 : 0x80 + ch / 64 % 64 ≤ (if 0xE0 + ch / 4096 = 0xED then 0x9F else 0xBF) := by split <;> omega
        have a7 : (0xE0 + ch / 4096 - 0xE0) * 4096 + (0x80 + ch / 64 % 64 - 0x80) * 64 + (0x80 + ch % 64 - 0x80) = ch := by
          omega
        simp only [List.cons_append, List.nil_append, decodeUtf8, a1, if_false]
        simp only [Bool.and_eq_true, decide_eq_true_eq, a2, a3, a4, a5, a6, a7, and_self, if_true, if_false]
      · rename_i h1 h2 h3
        have a1 : ¬ (0xF0 + ch / 262144 < 0x80) := by omega
        have a2 : ¬ (0xC2 ≤ 0xF0 + ch / 262144 ∧ 0xF0 + ch / 262144 ≤ 0xDF) := by omega
        have a3 : ¬ (0xE0 ≤ 0xF0 + ch / 262144 ∧ 0xF0 + ch / 262144 ≤ 0xEF) := by omega
        have a3' : 0xF0 ≤ 0xF0 + ch / 262144 ∧ 0xF0 + ch / 262144 ≤ 0xF4 := by omega
        have a4 : isCont (0x80 + ch % 64) = true := by unfold isCont; simp; omega
        have a4' : isCont (0x80 + ch / 64 % 64) = true := by unfold isCont; simp; omega
        have a5 : (if 0xF0 + ch / 262144 = 0xF0 then 0x90 else 0x80) ≤ 0x80 + ch / 4096 % 64 := by split <;> omega
        have a6 : 0x80 + ch / 4096 % 64 ≤ (if 0xF0 + ch / 262144 = 0xF4 then 0x8F else 0xBF) := by split <;> omega
        have a7 : (0xF0 + ch / 262144 - 0xF0) * 262144 + (0x80 + ch / 4096 % 64 - 0x80) * 4096
            + (0x80 + ch / 64 % 64 - 0x80) * 64 + (0x80 + ch % 64 - 0x80) = ch := by omega
        simp only [List.cons_append, List.nil_append, decodeUtf8, a1, if_false]
        simp only [Bool.and_eq_true, decide_eq_true_eq, a2, a3, a3', a4, a4', a5, a6, a7, and_self, if_true, if_false]

theorem decodeUtf8_utf8 (s : PStr) (h : ∀ c ∈ s, IsScalar c) : decodeUtf8 (utf8 s) = some s := by
  induction s with
  | nil => simp [utf8, decodeUtf8]
  | cons ch s ih =>
    have : utf8 (ch :: s) = encodeUtf8 ch ++ utf8 s := by simp [utf8]
    rw [this, decodeUtf8_encode ch (h ch (by simp)), ih (fun c hc => h c (by simp [hc]))]
    rfl

/-! ## Smart quotes: decoding is compositional -/

theorem decodeTable_append (t : List (Option Nat)) (xs ys : Bytes) (a b : PStr)
    (hx : decodeTable t xs = some a) (hy : decodeTable t ys = some b) :
    decodeTable t (xs ++ ys) = some (a ++ b) := by
  induction xs generalizing a with
  | nil => simp [decodeTable] at hx; subst hx; simpa using hy
  | cons x xs ih =>
    simp only [decodeTable, List.cons_append] at hx ⊢
    split at hx
    · simp at hx
    · rename_i ch hch
      cases hd : decodeTable t xs with
      | none => simp [hd] at hx
      | some a' =>
        simp only [hd, Option.map_some, Option.some.injEq] at hx
        subst hx
        simp [ih a' hd]

theorem isSmart_mem (b : Nat) (h : isSmart b = true) : b ∈ (List.range 32).map (· + 0x80) := by
  unfold isSmart at h
  simp only [Bool.and_eq_true, decide_eq_true_eq] at h
  simp only [List.mem_map, List.mem_range]
  exact ⟨b - 0x80, by omega, by omega⟩

theorem substituteWith_cons (T : MsTables) (mode : Mode) (b : Nat) (bs : Bytes) :
    substituteWith T mode (b :: bs) = substituteWith T mode [b] ++ substituteWith T mode bs := by
  simp [substituteWith]

/-- conversion by a single-byte codec is byte-wise -/
theorem convertWith_cons (T : MsTables) (enc : PStr) (t : List (Option Nat)) (mode : Mode) (b : Nat) (bs : Bytes)
    (p q : PStr) (hc : codecOf enc = some (.table t))
    (hp : convertWith T enc mode false [b] = some p) (hq : convertWith T enc mode false bs = some q) :
    convertWith T enc mode false (b :: bs) = some (p ++ q) := by
  unfold convertWith at *
  simp only [hc, Bool.false_eq_true, if_false, decodeStrict] at *
  split
  · rename_i h
    simp only [h, if_true] at hp hq
    rw [substituteWith_cons]
    exact decodeTable_append t _ _ p q hp hq
  · rename_i h
    simp only [h] at hp hq
    exact decodeTable_append t [b] bs p q hp hq

theorem convertWith_nil (T : MsTables) (enc : PStr) (t : List (Option Nat)) (mode : Mode)
    (hc : codecOf enc = some (.table t)) : convertWith T enc mode false [] = some [] := by
  unfold convertWith
  simp only [hc, Bool.false_eq_true, if_false, decodeStrict]
  split <;> simp [substituteWith, decodeTable]

/-- `pieces` lists, in order, one output piece per input byte, each related to its byte by `R`. -/
inductive Bytewise (R : Nat → PStr → Prop) : Bytes → List PStr → Prop
  | nil : Bytewise R [] []
  | cons {b : Nat} {p : PStr} {bs : Bytes} {ps : List PStr} : R b p → Bytewise R bs ps → Bytewise R (b :: bs) (p :: ps)

theorem Bytewise.mono {R S : Nat → PStr → Prop} {bs : Bytes} {ps : List PStr} (h : Bytewise R bs ps)
    (hRS : ∀ b p, b ∈ bs → R b p → S b p) : Bytewise S bs ps := by
  induction h with
  | nil => exact .nil
  | cons hr _ ih =>
    exact .cons (hRS _ _ (by simp) hr) (ih (fun b p hb => hRS b p (by simp [hb])))

theorem Bytewise.of_total {R : Nat → PStr → Prop} (f : Nat → PStr) (bs : Bytes) (h : ∀ b ∈ bs, R b (f b)) :
    Bytewise R bs (bs.map f) := by
  induction bs with
  | nil => exact .nil
  | cons b bs ih => exact .cons (h b (by simp)) (ih (fun x hx => h x (by simp [hx])))

theorem convertWith_bytewise (T : MsTables) (enc : PStr) (t : List (Option Nat)) (mode : Mode)
    (hc : codecOf enc = some (.table t)) (markup : Bytes) (pieces : List PStr)
    (h : Bytewise (fun b p => convertWith T enc mode false [b] = some p) markup pieces) :
    convertWith T enc mode false markup = some pieces.flatten := by
  induction h with
  | nil => simpa using convertWith_nil T enc t mode hc
  | cons hp _ ih => simpa using convertWith_cons T enc t mode _ _ _ _ hc hp ih

/-! ### decidable table obligations for the smart-quote tables -/

def carriers : List PStr := Gen.Detwingle.encodingsWithSmartQuotes
def smartBytes : List Nat := (List.range 32).map (· + 0x80)

/-- the reference emitted for `b` un-escapes to the byte's Windows-1252 character (bytes that cp1252
    leaves undefined are outside the claim) -/
def refCheck (T : MsTables) (mode : Mode) (enc : PStr) (b : Nat) : Bool :=
  match cp1252At b with
  | some ch => (convertWith T enc mode false [b]).bind unescapeRef == some ch
  | none => true

/-- for a byte undefined in cp1252 the code emits the table's plain placeholder, which is no reference -/
def placeholderCheck (T : MsTables) (mode : Mode) (enc : PStr) (b : Nat) : Bool :=
  match cp1252At b with
  | some _ => true
  | none =>
    match T.msChars.lookup b with
    | some (.inl s) => convertWith T enc mode false [b] == some s && !s.contains 38
    | _ => false

/-- ascii mode: the table's substitute, non-empty printable ASCII without `&` -/
def asciiCheck (T : MsTables) (enc : PStr) (b : Nat) : Bool :=
  match T.toAscii.lookup b with
  | some s => convertWith T enc .ascii false [b] == some s && !s.isEmpty &&
      s.all (fun c => 0x20 ≤ c && c < 0x7F && c != 38)
  | none => false

/-- evaluate a predicate on every (index, entry) of a 256-entry table in one pass -/
def tableAll (t : List (Option Nat)) (P : Nat → Option Nat → Bool) : Bool :=
  t.length == 256 && t.zipIdx.all fun vi => P vi.2 vi.1

theorem tableAll_spec (t : List (Option Nat)) (P : Nat → Option Nat → Bool) (h : tableAll t P = true) (b : Nat) (hb : b < 256) :
    P b (tableByte t b) = true := by
  unfold tableAll at h
  simp only [Bool.and_eq_true, beq_iff_eq, List.all_eq_true] at h
  obtain ⟨hl, hall⟩ := h
  have hlt : b < t.length := by omega
  have hm : (t[b], b) ∈ t.zipIdx := by
    rw [List.mem_zipIdx_iff_getElem?]
    simp [hlt]
  have := hall _ hm
  simp only at this
  unfold tableByte
  simp [List.getElem?_eq_getElem hlt, this]

/-- a byte outside 0x80–0x9F is converted by the codec's table alone, whatever the mode -/
theorem convertWith_nonsmart (T : MsTables) (enc : PStr) (t : List (Option Nat)) (mode : Mode) (b : Nat)
    (hc : codecOf enc = some (.table t)) (hs : isSmart b = false) :
    convertWith T enc mode false [b] = (tableByte t b).map ([·]) := by
  unfold convertWith
  simp only [hc, Bool.false_eq_true, if_false, decodeStrict]
  have : substituteWith T mode [b] = [b] := by simp [substituteWith, hs]
  split <;> (try rw [this]) <;> (simp only [decodeTable]; cases tableByte t b <;> rfl)

/-- every byte converts under a carrier codec once a mode is set (bytes outside 0x80–0x9F: the table
    defines them; `convertWith_nonsmart`) -/
def totalCheck (T : MsTables) (mode : Mode) (enc : PStr) : Bool :=
  match codecOf enc with
  | some (.table t) =>
    tableAll t fun b v => if isSmart b then (convertWith T enc mode false [b]).isSome else v.isSome
  | _ => false

theorem totalCheck_spec (T : MsTables) (mode : Mode) (enc : PStr) (h : totalCheck T mode enc = true) (b : Nat) (hb : b < 256) :
    (∃ t, codecOf enc = some (.table t)) ∧ (convertWith T enc mode false [b]).isSome = true := by
  unfold totalCheck at h
  split at h
  · rename_i t ht
    refine ⟨⟨t, ht⟩, ?_⟩
    have := tableAll_spec t _ h b hb
    by_cases hs : isSmart b = true
    · simpa [hs] using this
    · have hs' : isSmart b = false := by simpa using hs
      simp only [hs', Bool.false_eq_true, if_false] at this
      rw [convertWith_nonsmart T enc t mode b ht hs']
      simpa using this
  · exact absurd h (by simp)

theorem all_smart {P : Nat → Bool} (h : smartBytes.all P = true) (b : Nat) (hb : isSmart b = true) : P b = true :=
  List.all_eq_true.mp h b (isSmart_mem b hb)

theorem all_carriers_smart {P : PStr → Nat → Bool} (h : carriers.all (fun e => smartBytes.all (P e)) = true)
    (enc : PStr) (he : enc ∈ carriers) (b : Nat) (hb : isSmart b = true) : P enc b = true :=
  all_smart (List.all_eq_true.mp h enc he) b hb

/-! ### chunks the scan passes over unchanged -/

/-- A stretch of input the scan copies verbatim: a byte that is neither a lead byte nor convertible, or
    a lead byte followed by exactly as many (arbitrary) bytes as its range announces. -/
inductive Chunk (c : Cfg) : Bytes → Prop
  | plain (b : Nat) : c.isMarker b = false → c.conv? b = none → Chunk c [b]
  | multi (b n : Nat) (s : Bytes) : c.isMarker b = true → c.sizeOf? b = some (n + 1) → s.length = n → Chunk c (b :: s)

/-- What may follow the last complete chunk: nothing, or a lead byte with fewer bytes than announced. -/
inductive Tail (c : Cfg) : Bytes → Prop
  | nil : Tail c []
  | trunc (b n : Nat) (s : Bytes) : c.isMarker b = true → c.sizeOf? b = some (n + 1) → s.length ≤ n → Tail c (b :: s)

theorem scan_chunks (c : Cfg) (chunks : List Bytes) (tail : Bytes) (h : ∀ s ∈ chunks, Chunk c s) (ht : Tail c tail) :
    scan c 0 (chunks.flatten ++ tail) = some (chunks.flatten ++ tail) := by
  induction chunks with
  | nil =>
    cases ht with
    | nil => simp [scan]
    | trunc b n s hm hs hl => simp [scan, hm, hs, scan_skip_short c s n hl]
  | cons s chunks ih =>
    have ih := ih (fun x hx => h x (by simp [hx]))
    simp only [List.flatten_cons, List.append_assoc]
    cases h s (by simp) with
    | plain b hm hc => rw [List.singleton_append, scan_plain c b _ hm hc, ih]; rfl
    | multi b n s hm hs hl =>
      have := scan_lead c b n s (chunks.flatten ++ tail) hm hs hl
      simp only [List.cons_append] at this ⊢
      rw [this, ih]; rfl

/-- the scan reads the table only at bytes that are not lead bytes -/
theorem scan_congr (c c' : Cfg) (h1 : c.markers = c'.markers) (h2 : c.first = c'.first) (h3 : c.last = c'.last)
    (h : ∀ b, c.isMarker b = false → c.conv? b = c'.conv? b) (k : Nat) (s : Bytes) : scan c k s = scan c' k s := by
  have hm : ∀ b, c.isMarker b = c'.isMarker b := by intro b; simp [Cfg.isMarker, h2, h3]
  have hs : ∀ b, c.sizeOf? b = c'.sizeOf? b := by intro b; simp [Cfg.sizeOf?, h1]
  induction s generalizing k with
  | nil => simp [scan]
  | cons b s ih =>
    cases k with
    | succ k => simp [scan, ih k]
    | zero =>
      unfold scan
      rw [← hm b, ← hs b]
      split
      · split
        · rw [ih]
        · rfl
      · rename_i hmb
        rw [← h b (by simpa using hmb), ih 0]

theorem flatMap_ext {α β} (l : List α) (f g : α → List β) (h : ∀ x ∈ l, f x = g x) : l.flatMap f = l.flatMap g := by
  induction l with
  | nil => rfl
  | cons a l ih => simp [List.flatMap_cons, h a (by simp), ih (fun x hx => h x (by simp [hx]))]

/-! ### the candidate loop -/
theorem dedupLower_head (a : PStr) (acc : List PStr) (seen : List PStr) (l : List PStr) :
    ∃ tl, (l.foldl (fun (acc : List PStr × List PStr) e =>
      if acc.2.contains (asciiLower e) then acc else (acc.1 ++ [e], acc.2 ++ [asciiLower e])) (a :: acc, seen)).1 = a :: tl := by
  induction l generalizing acc seen with
  | nil => exact ⟨acc, rfl⟩
  | cons e l ih =>
    simp only [List.foldl_cons]
    split
    · exact ih acc seen
    · exact ih (acc ++ [e]) _

/-- the first known encoding is the first candidate, whatever BOM or declaration there is -/
theorem detectorEncodingsU_head (enc : PStr) (rest : List PStr) (sniffed : Option PStr) (user : List PStr)
    (declared : Option PStr) : ∃ tl, detectorEncodingsU (enc :: rest) sniffed user declared = enc :: tl := by
  unfold detectorEncodingsU
  simp only [List.cons_append, List.foldl_cons, List.contains_nil, Bool.false_eq_true, if_false, List.nil_append]
  exact dedupLower_head enc [] _ _

/-- without known encodings and without a byte-order mark, the first user encoding is the first candidate -/
theorem detectorEncodingsU_user_head (enc : PStr) (rest : List PStr) (declared : Option PStr) :
    ∃ tl, detectorEncodingsU [] none (enc :: rest) declared = enc :: tl := by
  unfold detectorEncodingsU
  simp only [Option.toList, List.nil_append, List.cons_append, List.foldl_cons, List.contains_nil, Bool.false_eq_true,
    if_false]
  exact dedupLower_head enc [] _ _

/-- a successful conversion by a codec the model decodes is `.ok` -/
theorem attempt_ok (T : MsTables) (r : PStr) (mode : Mode) (data : Bytes) (u : PStr)
    (h : convertWith T r mode false data = some u) : attempt T r mode false data = .ok u := by
  unfold attempt
  by_cases hd : data = []
  · subst hd
    simp only [if_true]
    unfold convertWith at h
    cases hco : codecOf r with
    | none => simp [hco] at h
    | some c =>
      simp only [hco, Bool.false_eq_true, if_false] at h
      have hs : substituteWith T mode [] = [] := rfl
      have hu : u = [] := by
        cases c <;> (split at h <;> simp_all [decodeStrict, decodeTable, decodeUtf8])
      subst hu
      unfold codecOf at hco
      split at hco <;> simp_all
  simp only [hd, if_false]
  have hc : (codecOf r).isSome = true := by
    unfold convertWith at h
    cases hco : codecOf r with
    | none => simp [hco] at h
    | some c => rfl
  unfold codecOf at hc
  split <;> simp_all

/-- when the first known encoding is found by `find_codec` and converts, that conversion is the result:
    no later candidate (BOM, declaration, utf-8, windows-1252) is consulted -/
theorem unicodeDammitWithU_first (T : MsTables) (enc r : PStr) (rest user : List PStr) (declared : Option PStr) (mode : Mode)
    (markup : Bytes) (u : PStr) (hne : markup ≠ []) (hf : findCodec enc = some r)
    (h : convertWith T r mode false (stripBom markup).1 = some u) :
    unicodeDammitWithU T (enc :: rest) user declared mode markup = .ok u false (some r) := by
  unfold unicodeDammitWithU
  simp only [hne, if_false]
  obtain ⟨tl, htl⟩ := detectorEncodingsU_head enc rest (stripBom markup).2 user declared
  simp only [htl, pass1, convertFromSt, hf, List.contains_nil, Bool.false_eq_true, if_false, List.nil_append,
    attempt_ok T r mode _ u h]

theorem unicodeDammitWith_first (T : MsTables) (enc r : PStr) (rest : List PStr) (declared : Option PStr) (mode : Mode)
    (markup : Bytes) (u : PStr) (hne : markup ≠ []) (hf : findCodec enc = some r)
    (h : convertWith T r mode false (stripBom markup).1 = some u) :
    unicodeDammitWith T (enc :: rest) declared mode markup = .ok u false (some r) :=
  unicodeDammitWithU_first T enc r rest [] declared mode markup u hne hf h

/-- no known encodings, no byte-order mark: the first `user_encodings` entry that `find_codec` resolves and that
    converts is the result -/
theorem unicodeDammitWithU_user_first (T : MsTables) (enc r : PStr) (rest : List PStr) (declared : Option PStr) (mode : Mode)
    (markup : Bytes) (u : PStr) (hne : markup ≠ []) (hb : stripBom markup = (markup, none)) (hf : findCodec enc = some r)
    (h : convertWith T r mode false markup = some u) :
    unicodeDammitWithU T [] (enc :: rest) declared mode markup = .ok u false (some r) := by
  unfold unicodeDammitWithU
  simp only [hne, if_false, hb]
  obtain ⟨tl, htl⟩ := detectorEncodingsU_user_head enc rest declared
  simp only [htl, pass1, convertFromSt, hf, List.contains_nil, Bool.false_eq_true, if_false, List.nil_append,
    attempt_ok T r mode _ u h]

/-- the default route: no encodings given, no byte-order mark, no declaration, input that is not valid UTF-8 —
    `utf-8` is tried and fails, `windows-1252` converts -/
theorem unicodeDammitWithU_default_route (T : MsTables) (mode : Mode) (markup : Bytes) (u : PStr)
    (hfu : findCodec nUtf8 = some nUtf8) (hiu : codecInfo nUtf8 = .utf8) (hcu : isCarrier nUtf8 = false)
    (hfw : findCodec nWindows1252 = some nWindows1252)
    (hb : stripBom markup = (markup, none)) (hd : decodeUtf8 markup = none)
    (h : convertWith T nWindows1252 mode false markup = some u) :
    unicodeDammitWithU T [] [] none mode markup = .ok u false (some nWindows1252) := by
  have hne : markup ≠ [] := by intro e; subst e; simp [decodeUtf8] at hd
  have hcs : detectorEncodingsU [] none [] none = [nUtf8, nWindows1252] := by decide
  have hcu' : codecOf nUtf8 = some .utf8 := by unfold codecOf; rw [hiu]
  have hau : attempt T nUtf8 mode false markup = .fail := by
    unfold attempt
    simp only [hne, if_false, hiu, Bool.false_eq_true]
    unfold convertWith
    simp [hcu', hcu, decodeStrict, hd]
  have hnc : ([(nUtf8, false)] : Tried).contains (nWindows1252, false) = false := by decide
  unfold unicodeDammitWithU
  simp only [hne, if_false, hb, hcs, pass1, convertFromSt, hfu, List.contains_nil, Bool.false_eq_true, List.nil_append, hau,
    hfw, hnc, attempt_ok T nWindows1252 mode markup u h]

theorem runCallsFrom_eq_map (st : ProcState) (cs : List DammitCall) : runCallsFrom st cs = cs.map runCall := by
  induction cs generalizing st with
  | nil => rfl
  | cons c cs ih => simp [runCallsFrom, stepCall, ih]

theorem runCalls_eq_map (cs : List DammitCall) : runCalls cs = cs.map runCall := runCallsFrom_eq_map _ cs

/-! ### the strict decoder accepts exactly the encodings of scalar values -/
theorem enc2 (b0 b1 : Nat) (h0 : 194 ≤ b0) (h0' : b0 ≤ 223) (h1 : 128 ≤ b1) (h1' : b1 ≤ 191) :
    encodeUtf8 ((b0 - 0xC0) * 64 + (b1 - 0x80)) = [b0, b1] ∧ IsScalar ((b0 - 0xC0) * 64 + (b1 - 0x80)) := by
  generalize hc : (b0 - 0xC0) * 64 + (b1 - 0x80) = c
  refine ⟨?_, by unfold IsScalar; omega⟩
  unfold encodeUtf8
  rw [if_neg (by omega), if_pos (by omega)]
  have e0 : 0xC0 + c / 64 = b0 := by omega
  have e1 : 0x80 + c % 64 = b1 := by omega
  rw [e0, e1]

theorem enc3 (b0 b1 b2 : Nat) (h0 : 224 ≤ b0) (h0' : b0 ≤ 239)
    (hlo : (if b0 = 224 then 160 else 128) ≤ b1) (hhi : b1 ≤ if b0 = 237 then 159 else 191)
    (h2 : 128 ≤ b2) (h2' : b2 ≤ 191) :
    encodeUtf8 ((b0 - 0xE0) * 4096 + (b1 - 0x80) * 64 + (b2 - 0x80)) = [b0, b1, b2] ∧
    IsScalar ((b0 - 0xE0) * 4096 + (b1 - 0x80) * 64 + (b2 - 0x80)) := by
  generalize hc : (b0 - 0xE0) * 4096 + (b1 - 0x80) * 64 + (b2 - 0x80) = c
  have hb1 : 128 ≤ b1 ∧ b1 ≤ 191 := by split at hlo <;> split at hhi <;> omega
  have hge : 0x800 ≤ c := by split at hlo <;> omega
  have hsur : c < 0xD800 ∨ 0xE000 ≤ c := by split at hhi <;> omega
  refine ⟨?_, by unfold IsScalar; omega⟩
  unfold encodeUtf8
  rw [if_neg (by omega), if_neg (by omega), if_pos (by omega)]
  have e0 : 0xE0 + c / 4096 = b0 := by omega
  have e1 : 0x80 + c / 64 % 64 = b1 := by omega
  have e2 : 0x80 + c % 64 = b2 := by omega
  rw [e0, e1, e2]

theorem enc4 (b0 b1 b2 b3 : Nat) (h0 : 240 ≤ b0) (h0' : b0 ≤ 244)
    (hlo : (if b0 = 240 then 144 else 128) ≤ b1) (hhi : b1 ≤ if b0 = 244 then 143 else 191)
    (h2 : 128 ≤ b2) (h2' : b2 ≤ 191) (h3 : 128 ≤ b3) (h3' : b3 ≤ 191) :
    encodeUtf8 ((b0 - 0xF0) * 262144 + (b1 - 0x80) * 4096 + (b2 - 0x80) * 64 + (b3 - 0x80)) = [b0, b1, b2, b3] ∧
    IsScalar ((b0 - 0xF0) * 262144 + (b1 - 0x80) * 4096 + (b2 - 0x80) * 64 + (b3 - 0x80)) := by
  generalize hc : (b0 - 0xF0) * 262144 + (b1 - 0x80) * 4096 + (b2 - 0x80) * 64 + (b3 - 0x80) = c
  have hb1 : 128 ≤ b1 ∧ b1 ≤ 191 := by split at hlo <;> split at hhi <;> omega
  have hge : 0x10000 ≤ c := by split at hlo <;> omega
  have hlt : c < 0x110000 := by split at hhi <;> omega
  refine ⟨?_, by unfold IsScalar; omega⟩
  unfold encodeUtf8
  rw [if_neg (by omega), if_neg (by omega), if_neg (by omega)]
  have e0 : 0xF0 + c / 262144 = b0 := by omega
  have e1 : 0x80 + c / 4096 % 64 = b1 := by omega
  have e2 : 0x80 + c / 64 % 64 = b2 := by omega
  have e3 : 0x80 + c % 64 = b3 := by omega
  rw [e0, e1, e2, e3]

theorem isCont_iff (b : Nat) : isCont b = true ↔ 128 ≤ b ∧ b ≤ 191 := by
  unfold isCont; simp

/-- helper: the shape of the successful cases -/
theorem sound_step (pre : Bytes) (c : Nat) (r : Bytes) (s : PStr) (henc : encodeUtf8 c = pre) (hsc : IsScalar c)
    (ih : ∀ s', decodeUtf8 r = some s' → r = utf8 s' ∧ ∀ x ∈ s', IsScalar x)
    (h : (decodeUtf8 r).map (c :: ·) = some s) : pre ++ r = utf8 s ∧ ∀ x ∈ s, IsScalar x := by
  cases hd : decodeUtf8 r with
  | none => simp [hd] at h
  | some s' =>
    simp only [hd, Option.map_some, Option.some.injEq] at h
    subst h
    obtain ⟨h1, h2⟩ := ih s' hd
    refine ⟨by rw [h1]; simp [utf8, henc], ?_⟩
    intro x hx
    simp only [List.mem_cons] at hx
    rcases hx with rfl | hx
    · exact hsc
    · exact h2 x hx

theorem decodeUtf8_sound (bs : Bytes) (s : PStr) (h : decodeUtf8 bs = some s) :
    bs = utf8 s ∧ ∀ c ∈ s, IsScalar c := by
  fun_induction decodeUtf8 bs generalizing s with
  | case1 => simp at h; subst h; simp [utf8]
  | case2 b0 rest hb ih =>
    have henc : encodeUtf8 b0 = [b0] := by simp [encodeUtf8, hb]
    exact sound_step [b0] b0 rest s henc (by unfold IsScalar; omega) ih h
  | case3 b0 hn hb b1 r hc ih =>
    simp only [Bool.and_eq_true, decide_eq_true_eq] at hb
    rw [isCont_iff] at hc
    obtain ⟨e, sc⟩ := enc2 b0 b1 hb.1 hb.2 hc.1 hc.2
    exact sound_step [b0, b1] _ r s e sc ih h
  | case6 b0 hn hn2 hb b1 b2 r hc ih =>
    simp only [Bool.and_eq_true, decide_eq_true_eq, isCont_iff] at hb hc
    obtain ⟨e, sc⟩ := enc3 b0 b1 b2 hb.1 hb.2 hc.1.1 hc.1.2 hc.2.1 hc.2.2
    exact sound_step [b0, b1, b2] _ r s e sc ih h
  | case9 b0 hn hn2 hn3 hb b1 b2 b3 r hc ih =>
    simp only [Bool.and_eq_true, decide_eq_true_eq, isCont_iff] at hb hc
    obtain ⟨e, sc⟩ := enc4 b0 b1 b2 b3 hb.1 hb.2 hc.1.1.1 hc.1.1.2 hc.1.2.1 hc.1.2.2 hc.2.1 hc.2.2
    exact sound_step [b0, b1, b2, b3] _ r s e sc ih h
  | case4 => simp at h
  | case5 => simp at h
  | case7 => simp at h
  | case8 => simp at h
  | case10 => simp at h
  | case11 => simp at h
  | case12 => simp at h

/-! ### standards-based notion of an embedded Windows-1252 byte -/

/-- A byte that can stand for a Windows-1252 character inside UTF-8 text: ≥ 0x80, defined by
    Windows-1252 (CPython's cp1252), and not a possible UTF-8 lead byte (C2–F4: those are read as UTF-8).
    Fixed by the two standards, not by the library's tables. -/
def Embeddable (b : Nat) : Prop := 0x80 ≤ b ∧ ¬ (0xC2 ≤ b ∧ b ≤ 0xF4) ∧ (cp1252At b).isSome = true

instance : DecidablePred Embeddable := fun b => by unfold Embeddable; exact inferInstance

/-- Decidable whole-range obligation: every embeddable byte is not taken as a lead byte and is mapped to
    the UTF-8 of its cp1252 character; every byte the scan converts is embeddable. -/
def Cfg.embedCheck (c : Cfg) : Bool :=
  Gen.Detwingle.cp1252.length == 256 &&
  (List.range 256).all fun b =>
    if Embeddable b then
      !c.isMarker b &&
      (match cp1252At b with
       | some ch => c.conv? b == some (encodeUtf8 ch) && decide (IsScalar ch)
       | none => false)
    else c.isMarker b || (c.conv? b).isNone

theorem cp1252At_lt (b : Nat) (hl : Gen.Detwingle.cp1252.length = 256) (h : (cp1252At b).isSome = true) : b < 256 := by
  unfold cp1252At tableByte at h
  cases hg : Gen.Detwingle.cp1252[b]? with
  | none => simp [hg] at h
  | some x =>
    have := (List.getElem?_eq_some_iff.mp hg).1
    omega

theorem Cfg.embed_of_check (c : Cfg) (h : c.embedCheck = true) (b : Nat) (hb : Embeddable b) :
    c.isMarker b = false ∧ ∃ ch, cp1252At b = some ch ∧ IsScalar ch ∧ c.conv? b = some (encodeUtf8 ch) := by
  unfold Cfg.embedCheck at h
  simp only [Bool.and_eq_true, beq_iff_eq] at h
  obtain ⟨hl, hall⟩ := h
  rw [List.all_eq_true] at hall
  have hlt := cp1252At_lt b hl hb.2.2
  have := hall b (by simp; omega)
  simp only [hb, if_true, Bool.and_eq_true, Bool.not_eq_true'] at this
  obtain ⟨hm, hrest⟩ := this
  refine ⟨hm, ?_⟩
  split at hrest
  · rename_i ch hch
    simp only [Bool.and_eq_true, beq_iff_eq, decide_eq_true_eq] at hrest
    exact ⟨ch, hch, hrest.2, hrest.1⟩
  · exact absurd hrest (by simp)

/-- conversely: whatever the scan converts is an embeddable byte -/
theorem Cfg.convertible_embeddable (c : Cfg) (h : c.embedCheck = true) (hk : c.table.all (fun kv => kv.1 < 256) = true)
    (b : Nat) (hb : c.Convertible b) : Embeddable b := by
  unfold Cfg.embedCheck at h
  simp only [Bool.and_eq_true, beq_iff_eq] at h
  obtain ⟨_, hall⟩ := h
  rw [List.all_eq_true] at hall
  obtain ⟨hm, hc⟩ := hb
  obtain ⟨v, hv⟩ := Option.isSome_iff_exists.mp hc
  have hlt : b < 256 := by
    unfold Cfg.conv? at hv
    split at hv
    · exact lookup_key_lt c.table 256 hk b v hv
    · simp at hv
  have := hall b (by simp; omega)
  by_cases he : Embeddable b
  · exact he
  · simp only [he, if_false, hm, hv, Bool.false_or] at this
    simp at this

/-! ### what the scan does to an arbitrary byte list -/

/-- `out` is `bs` with some of its convertible bytes replaced by their table value — nothing is dropped,
    reordered or otherwise altered. -/
inductive Replaced (c : Cfg) : Bytes → Bytes → Prop
  | nil : Replaced c [] []
  | keep (b : Nat) {bs out : Bytes} : Replaced c bs out → Replaced c (b :: bs) (b :: out)
  | conv (b : Nat) (rep : Bytes) {bs out : Bytes} : c.isMarker b = false → c.conv? b = some rep →
      Replaced c bs out → Replaced c (b :: bs) (rep ++ out)

theorem scan_replaced (c : Cfg) (k : Nat) (bs out : Bytes) (h : scan c k bs = some out) : Replaced c bs out := by
  induction bs generalizing k out with
  | nil => simp [scan] at h; subst h; exact .nil
  | cons b rest ih =>
    cases k with
    | succ k =>
      simp only [scan] at h
      cases hr : scan c k rest with
      | none => simp [hr] at h
      | some o => simp only [hr, Option.map_some, Option.some.injEq] at h; subst h; exact .keep b (ih k o hr)
    | zero =>
      unfold scan at h
      split at h
      · split at h
        · rename_i n _
          cases hr : scan c n rest with
          | none => simp [hr] at h
          | some o => simp only [hr, Option.map_some, Option.some.injEq] at h; subst h; exact .keep b (ih n o hr)
        · simp at h
      · rename_i hm
        split at h
        · rename_i rep hrep
          cases hr : scan c 0 rest with
          | none => simp [hr] at h
          | some o =>
            simp only [hr, Option.map_some, Option.some.injEq] at h; subst h
            exact .conv b rep (by simpa using hm) hrep (ih 0 o hr)
        · cases hr : scan c 0 rest with
          | none => simp [hr] at h
          | some o => simp only [hr, Option.map_some, Option.some.injEq] at h; subst h; exact .keep b (ih 0 o hr)

/-- every table value the scan can emit is itself stepped over unchanged by the scan -/
def Cfg.SelfInert (c : Cfg) : Prop :=
  ∀ b rep, c.isMarker b = false → c.conv? b = some rep → ∀ r, scan c 0 (rep ++ r) = (scan c 0 r).map (rep ++ ·)

theorem scan_idem (c : Cfg) (hi : c.SelfInert) (k : Nat) (bs out : Bytes) (h : scan c k bs = some out) :
    scan c k out = some out := by
  induction bs generalizing k out with
  | nil => simp [scan] at h; subst h; simp [scan]
  | cons b rest ih =>
    cases k with
    | succ k =>
      simp only [scan] at h
      cases hr : scan c k rest with
      | none => simp [hr] at h
      | some o =>
        simp only [hr, Option.map_some, Option.some.injEq] at h; subst h
        simp [scan, ih k o hr]
    | zero =>
      unfold scan at h
      split at h
      · rename_i hm
        split at h
        · rename_i n hn
          cases hr : scan c n rest with
          | none => simp [hr] at h
          | some o =>
            simp only [hr, Option.map_some, Option.some.injEq] at h; subst h
            simp [scan, hm, hn, ih n o hr]
        · simp at h
      · rename_i hm
        split at h
        · rename_i rep hrep
          cases hr : scan c 0 rest with
          | none => simp [hr] at h
          | some o =>
            simp only [hr, Option.map_some, Option.some.injEq] at h; subst h
            rw [hi b rep (by simpa using hm) hrep o, ih 0 o hr]; rfl
        · rename_i hc
          cases hr : scan c 0 rest with
          | none => simp [hr] at h
          | some o =>
            simp only [hr, Option.map_some, Option.some.injEq] at h; subst h
            simp [scan, hm, hc, ih 0 o hr]

/-- shape of the encoding of a non-ASCII scalar value -/
theorem encode_lead (ch : Nat) (h : IsScalar ch) (hge : ¬ ch < 0x80) :
    ∃ lead tl, encodeUtf8 ch = lead :: tl ∧ 0xC2 ≤ lead ∧ lead ≤ 0xF4 ∧ tl.length + 1 = stdSize lead := by
  unfold IsScalar at h
  unfold encodeUtf8
  rw [if_neg hge]
  split
  · refine ⟨_, _, rfl, by omega, by omega, ?_⟩
    unfold stdSize; rw [if_pos (by omega)]; rfl
  · split
    · refine ⟨_, _, rfl, by omega, by omega, ?_⟩
      unfold stdSize; rw [if_neg (by omega), if_pos (by omega)]; rfl
    · refine ⟨_, _, rfl, by omega, by omega, ?_⟩
      unfold stdSize; rw [if_neg (by omega), if_neg (by omega), if_pos (by omega)]; rfl

/-- what a successful strict decoding says about the first byte -/
theorem decode_head (b : Nat) (l : Bytes) (t : PStr) (h : decodeUtf8 (b :: l) = some t) :
    ∃ ch t' l', IsScalar ch ∧ t = ch :: t' ∧ b :: l = encodeUtf8 ch ++ l' ∧ decodeUtf8 l' = some t' ∧
      ((ch < 0x80 ∧ b = ch) ∨ (0xC2 ≤ b ∧ b ≤ 0xF4 ∧ (encodeUtf8 ch).length = stdSize b)) := by
  obtain ⟨h1, h2⟩ := decodeUtf8_sound _ _ h
  cases t with
  | nil => simp [utf8] at h1
  | cons ch t' =>
    have hsc := h2 ch (by simp)
    have ht' : ∀ x ∈ t', IsScalar x := fun x hx => h2 x (by simp [hx])
    have hu : utf8 (ch :: t') = encodeUtf8 ch ++ utf8 t' := by simp [utf8]
    rw [hu] at h1
    refine ⟨ch, t', utf8 t', hsc, rfl, h1, decodeUtf8_utf8 t' ht', ?_⟩
    by_cases hlt : ch < 0x80
    · left
      have : encodeUtf8 ch = [ch] := by simp [encodeUtf8, hlt]
      rw [this] at h1
      simp only [List.cons_append, List.nil_append, List.cons.injEq] at h1
      exact ⟨hlt, h1.1⟩
    · right
      obtain ⟨lead, tl, he, g1, g2, g3⟩ := encode_lead ch hsc hlt
      rw [he] at h1
      simp only [List.cons_append, List.cons.injEq] at h1
      rw [h1.1, he]
      exact ⟨g1, g2, by simp [g3]⟩

/-- what the property needs from the class attributes to characterise when the output is valid UTF-8 -/
structure Cfg.Exact (c : Cfg) : Prop where
  sound : c.Sound
  marker_range : ∀ b, c.isMarker b = true → 0xC2 ≤ b ∧ b ≤ 0xF4
  conv_ok : ∀ b, c.Convertible b → ∃ ch, IsScalar ch ∧ c.conv? b = some (encodeUtf8 ch)

def Piece.Good (c : Cfg) : Piece → Prop
  | .ch x => IsScalar x
  | .emb b => c.Convertible b

theorem scan_valid_inv (c : Cfg) (hx : c.Exact) (n : Nat) : ∀ (bs out : Bytes) (t : PStr), bs.length ≤ n →
    scan c 0 bs = some out → decodeUtf8 out = some t →
    ∃ ps : List Piece, (∀ p ∈ ps, p.Good c) ∧ bs = ps.flatMap Piece.src := by
  induction n with
  | zero =>
    intro bs out t hl _ _
    have : bs = [] := by cases bs <;> simp_all
    exact ⟨[], by simp, by simp [this]⟩
  | succ n ih =>
    intro bs out t hl hs hd
    cases bs with
    | nil => exact ⟨[], by simp, by simp⟩
    | cons b rest =>
      have hl' : rest.length ≤ n := by simpa using hl
      by_cases hm : c.isMarker b = true
      · -- a lead byte: the announced bytes are copied
        obtain ⟨r1, r2⟩ := hx.marker_range b hm
        have hsz := (hx.sound.lead b r1 r2).2
        have hpos : ∃ k, stdSize b = k + 1 := by
          unfold stdSize; split
          · exact ⟨1, rfl⟩
          · split
            · exact ⟨2, rfl⟩
            · split
              · exact ⟨3, rfl⟩
              · omega
        obtain ⟨k, hk⟩ := hpos
        rw [hk] at hsz
        simp only [scan, hm, if_true, hsz] at hs
        rw [scan_take_drop c k rest, Option.map_map] at hs
        cases hr : scan c 0 (rest.drop k) with
        | none => simp [hr] at hs
        | some o =>
          simp only [hr, Option.map_some, Option.some.injEq, Function.comp] at hs
          subst hs
          obtain ⟨ch, t', l', hsc, _, hsplit, hdl, hcase⟩ := decode_head b _ t hd
          rcases hcase with ⟨hlt, hbe⟩ | ⟨_, _, hlen⟩
          · omega
          · -- the character occupies exactly b and the k copied bytes
            have hfull : (rest.take k).length = k := by
              by_cases hk' : k ≤ rest.length
              · simp [hk']
              · have hdrop : rest.drop k = [] := List.drop_of_length_le (by omega)
                rw [hdrop] at hr
                simp [scan] at hr
                subst hr
                have := congrArg List.length hsplit
                simp only [List.length_cons, List.length_append, List.length_take, List.append_nil] at this
                rw [hlen, hk] at this
                omega
            have hsplit' : (b :: rest.take k) ++ o = encodeUtf8 ch ++ l' := by simpa using hsplit
            have hlen' : (b :: rest.take k).length = (encodeUtf8 ch).length := by
              rw [hlen, hk]; simp [hfull]
            obtain ⟨e1, e2⟩ := List.append_inj hsplit' hlen'
            subst e2
            obtain ⟨ps, hps, hbs⟩ := ih (rest.drop k) o t' (by simp; omega) hr hdl
            refine ⟨.ch ch :: ps, ?_, ?_⟩
            · intro p hp
              simp only [List.mem_cons] at hp
              rcases hp with rfl | hp
              · exact hsc
              · exact hps p hp
            · simp only [List.flatMap_cons, Piece.src, ← e1, ← hbs, List.cons_append, List.take_append_drop]
      · have hm' : c.isMarker b = false := by simpa using hm
        cases hc : c.conv? b with
        | some rep =>
          have hconv : c.Convertible b := ⟨hm', by simp [hc]⟩
          obtain ⟨ch, hsc, hrep⟩ := hx.conv_ok b hconv
          rw [hc] at hrep
          simp only [Option.some.injEq] at hrep
          subst hrep
          rw [scan_conv c b _ rest hm' hc] at hs
          cases hr : scan c 0 rest with
          | none => simp [hr] at hs
          | some o =>
            simp only [hr, Option.map_some, Option.some.injEq] at hs
            subst hs
            rw [decodeUtf8_encode ch hsc] at hd
            cases hdo : decodeUtf8 o with
            | none => simp [hdo] at hd
            | some t' =>
              obtain ⟨ps, hps, hbs⟩ := ih rest o t' hl' hr hdo
              refine ⟨.emb b :: ps, ?_, ?_⟩
              · intro p hp
                simp only [List.mem_cons] at hp
                rcases hp with rfl | hp
                · exact hconv
                · exact hps p hp
              · simp [List.flatMap_cons, Piece.src, ← hbs]
        | none =>
          rw [scan_plain c b rest hm' hc] at hs
          cases hr : scan c 0 rest with
          | none => simp [hr] at hs
          | some o =>
            simp only [hr, Option.map_some, Option.some.injEq] at hs
            subst hs
            obtain ⟨ch, t', l', hsc, _, hsplit, hdl, hcase⟩ := decode_head b o t hd
            rcases hcase with ⟨hlt, hbe⟩ | ⟨r1, r2, _⟩
            · subst hbe
              have he : encodeUtf8 b = [b] := by simp [encodeUtf8, hlt]
              rw [he] at hsplit
              simp only [List.cons_append, List.nil_append, List.cons.injEq, true_and] at hsplit
              subst hsplit
              obtain ⟨ps, hps, hbs⟩ := ih rest o t' hl' hr hdl
              refine ⟨.ch b :: ps, ?_, ?_⟩
              · intro p hp
                simp only [List.mem_cons] at hp
                rcases hp with rfl | hp
                · exact hsc
                · exact hps p hp
              · simp [List.flatMap_cons, Piece.src, he, ← hbs]
            · have := (hx.sound.lead b r1 r2).1
              rw [hm'] at this; exact absurd this (by simp)

theorem Cfg.selfInert_of_exact (c : Cfg) (hx : c.Exact) : c.SelfInert := by
  intro b rep hm hc r
  obtain ⟨ch, hsc, hrep⟩ := hx.conv_ok b ⟨hm, by simp [hc]⟩
  rw [hc] at hrep
  simp only [Option.some.injEq] at hrep
  subst hrep
  exact scan_char c hx.sound ch (scalar_lt hsc) r

theorem marker_range_of (c : Cfg) (h1 : c.first = 0xC2) (h2 : c.last = 0xF4) (b : Nat) (hb : c.isMarker b = true) :
    0xC2 ≤ b ∧ b ≤ 0xF4 := by
  unfold Cfg.isMarker at hb
  simp only [Bool.and_eq_true, decide_eq_true_eq] at hb
  omega

/-! ### un-escaping whole strings -/
theorem go_plain (p r : PStr) (h : ∀ x ∈ p, x ≠ 38) : unescapeGo none (p ++ r) = p ++ unescapeGo none r := by
  induction p with
  | nil => rfl
  | cons c p ih =>
    have hc : c ≠ 38 := h c (by simp)
    simp only [List.cons_append, unescapeGo, hc, if_false, ih (fun x hx => h x (by simp [hx]))]

theorem go_body (buf body r : PStr) (h : ∀ x ∈ body, x ≠ 38 ∧ x ≠ 59) :
    unescapeGo (some buf) (body ++ r) = unescapeGo (some (buf ++ body)) r := by
  induction body generalizing buf with
  | nil => simp
  | cons c body ih =>
    obtain ⟨h1, h2⟩ := h c (by simp)
    simp only [List.cons_append, unescapeGo, h1, h2, if_false]
    rw [ih (buf ++ [c]) (fun x hx => h x (by simp [hx]))]
    simp

/-- a well-formed reference in front of anything is replaced by what it denotes -/
theorem go_ref (body r : PStr) (ch : Nat) (h : ∀ x ∈ body, x ≠ 38 ∧ x ≠ 59)
    (hu : unescapeRef (38 :: body ++ [59]) = some ch) :
    unescapeGo none ((38 :: body ++ [59]) ++ r) = ch :: unescapeGo none r := by
  have : (38 :: body ++ [59]) ++ r = 38 :: (body ++ (59 :: r)) := by simp
  rw [this]
  simp only [unescapeGo, if_true]
  rw [go_body [38] body (59 :: r) h]
  simp only [unescapeGo, if_true]
  have e : [38] ++ body ++ [59] = 38 :: body ++ [59] := by simp
  rw [e, hu]

/-- decidable per-byte obligation behind the whole-string un-escaping theorem -/
def unescCheck (T : MsTables) (mode : Mode) (enc : PStr) (b : Nat) (v : Option Nat) : Bool :=
  if isSmart b then
    match cp1252At b with
    | some ch =>
      match convertWith T enc mode false [b] with
      | some p =>
        let body := (p.drop 1).dropLast
        p == 38 :: body ++ [59] && body.all (fun x => x != 38 && x != 59) && unescapeRef p == some ch
      | none => false
    | none => true
  else if b = 38 then true
  else
    match v with
    | some c => c != 38
    | none => false

/-- the character the property assigns to a byte of the input: Windows-1252 for 0x80–0x9F, the carrier
    codec for everything else -/
def meantChar (t : List (Option Nat)) (b : Nat) : Nat :=
  if isSmart b then (cp1252At b).getD 0xFFFD else (tableByte t b).getD 0xFFFD

theorem unescape_flatten (T : MsTables) (mode : Mode) (enc : PStr) (t : List (Option Nat))
    (htab : codecOf enc = some (.table t))
    (hall : tableAll t (unescCheck T mode enc) = true) (markup : Bytes)
    (h : ∀ b ∈ markup, b < 256 ∧ b ≠ 38 ∧ (isSmart b = true → (cp1252At b).isSome = true)) :
    unescapeGo none ((markup.map fun b => (convertWith T enc mode false [b]).getD []).flatten) = markup.map (meantChar t) := by
  induction markup with
  | nil => rfl
  | cons b rest ih =>
    obtain ⟨hlt, h38, hdef⟩ := h b (by simp)
    have ih := ih (fun x hx => h x (by simp [hx]))
    have hc := tableAll_spec t _ hall b hlt
    simp only [List.map_cons, List.flatten_cons]
    unfold unescCheck at hc
    by_cases hs : isSmart b = true
    · obtain ⟨ch, hch⟩ := Option.isSome_iff_exists.mp (hdef hs)
      simp only [hs, if_true, hch] at hc
      split at hc
      · rename_i p hp
        simp only [Bool.and_eq_true, beq_iff_eq, List.all_eq_true, bne_iff_ne, ne_eq] at hc
        obtain ⟨⟨hshape, hbody⟩, hun⟩ := hc
        rw [hp, Option.getD_some, hshape]
        rw [hshape] at hun
        rw [go_ref _ _ ch (fun x hx => hbody x hx) hun, ih]
        simp [meantChar, hs, hch]
      · exact absurd hc (by simp)
    · simp only [hs, Bool.false_eq_true, if_false, h38] at hc
      split at hc
      · rename_i c hcb
        simp only [bne_iff_ne, ne_eq] at hc
        rw [convertWith_nonsmart T enc t mode b htab (by simpa using hs), hcb]
        simp only [Option.map_some, Option.getD_some]
        rw [go_plain [c] _ (by simp [hc]), ih]
        simp [meantChar, hs, hcb]
      · exact absurd hc (by simp)

/-- table obligation for all carriers at once -/
def unescCheckAll (T : MsTables) (mode : Mode) : Bool :=
  carriers.all fun enc =>
    match codecOf enc with
    | some (.table t) => tableAll t (unescCheck T mode enc)
    | _ => false

theorem decodeTable_map (t : List (Option Nat)) (bs : Bytes) (h : ∀ b ∈ bs, (tableByte t b).isSome = true) :
    decodeTable t bs = some (bs.map fun b => (tableByte t b).getD 0xFFFD) := by
  induction bs with
  | nil => rfl
  | cons b bs ih =>
    obtain ⟨c, hc⟩ := Option.isSome_iff_exists.mp (h b (by simp))
    simp [decodeTable, hc, ih (fun x hx => h x (by simp [hx]))]

/-- For closed examples: evaluate both sides with `==` in the kernel (much faster than deciding `=`). -/
def evalsTo {α} [BEq α] (a b : α) : Bool := a == b

theorem of_evalsTo {α} [BEq α] [LawfulBEq α] {a b : α} (h : evalsTo a b = true) : a = b := by
  unfold evalsTo at h; exact eq_of_beq h

end BS.Detwingle
