import BSModel.Model.EncodingIn
/-! helper lemmas about the declaration matchers (`xmlMatch`, `htmlSearch`) on well-formed shapes -/
namespace BS.EncodingIn

theorem take_append_le {α} (a b : List α) (n : Nat) (h : a.length ≤ n) :
    (a ++ b).take n = a ++ b.take (n - a.length) := by
  rw [List.take_append, List.take_of_length_le h]

theorem dropWhile_append_all {α} (p : α → Bool) (ws l : List α) (h : ∀ c ∈ ws, p c = true) :
    (ws ++ l).dropWhile p = l.dropWhile p := by
  induction ws with
  | nil => rfl
  | cons c t ih =>
    have hc := h c List.mem_cons_self
    simp only [List.cons_append, List.dropWhile_cons, hc, if_true]
    exact ih (fun x hx => h x (List.mem_cons_of_mem _ hx))

theorem takeWhile_append_stop {α} (p : α → Bool) (l t : List α) (h : ∀ c ∈ l, p c = true)
    (ht : t = [] ∨ ∃ c r, t = c :: r ∧ p c = false) : (l ++ t).takeWhile p = l := by
  induction l with
  | nil =>
    rcases ht with rfl | ⟨c, r, rfl, hc⟩
    · rfl
    · simp [List.takeWhile_cons, hc]
  | cons c r ih =>
    have hc := h c List.mem_cons_self
    simp only [List.cons_append, List.takeWhile_cons, hc, if_true]
    rw [ih (fun x hx => h x (List.mem_cons_of_mem _ hx))]

/-! ## XML declaration -/

theorem lastEncoding_append_some (pre l : Bytes) (g : Bytes) (h : lastEncoding l = some g) :
    lastEncoding (pre ++ l) = some g := by
  induction pre with
  | nil => exact h
  | cons c t ih => simp only [List.cons_append, lastEncoding, ih]

theorem lowerC_eq_61 (c : Nat) (h : lowerC c = 61) : c = 61 := by
  unfold lowerC at h; split at h <;> omega

theorem startsCI_mem (lit l : Bytes) (h : startsCI lit l = true) : ∀ a ∈ lit, ∃ c ∈ l, lowerC c = a := by
  induction lit generalizing l with
  | nil => intro a ha; cases ha
  | cons x xs ih =>
    cases l with
    | nil => simp [startsCI] at h
    | cons b bs =>
      simp only [startsCI, Bool.and_eq_true, beq_iff_eq] at h
      intro a ha
      rcases List.mem_cons.mp ha with rfl | ha
      · exact ⟨b, List.mem_cons_self, h.1⟩
      · obtain ⟨c, hc, hca⟩ := ih bs h.2 a ha
        exact ⟨c, List.mem_cons_of_mem _ hc, hca⟩

theorem encHere_none_of_no_eq (l : Bytes) (h : ∀ c ∈ l, c ≠ 61) : encHere l = none := by
  unfold encHere
  split
  · rename_i hs
    obtain ⟨c, hc, hce⟩ := startsCI_mem _ _ hs 61 (by decide)
    exact absurd (lowerC_eq_61 c hce) (h c hc)
  · rfl

theorem lastEncoding_none_of_no_eq (l : Bytes) (h : ∀ c ∈ l, c ≠ 61) : lastEncoding l = none := by
  induction l with
  | nil => rfl
  | cons c t ih =>
    simp only [lastEncoding, ih (fun x hx => h x (List.mem_cons_of_mem _ hx))]
    exact encHere_none_of_no_eq _ h

theorem containsQmGt_cons_cons (t : Bytes) : containsQmGt (63 :: 62 :: t) = true := by
  simp [containsQmGt]

theorem lazyQuote_name (name t acc : Bytes) (q : Nat) (hq : isQuote q = true)
    (hn : ∀ c ∈ name, isQuote c = false) (ht : containsQmGt t = true) :
    lazyQuote (name ++ q :: t) acc = some (acc.reverse ++ name) := by
  induction name generalizing acc with
  | nil => simp [lazyQuote, hq, ht]
  | cons c r ih =>
    have hc := hn c List.mem_cons_self
    simp only [List.cons_append, lazyQuote, hc, Bool.false_and, Bool.false_eq_true, if_false]
    rw [ih (c :: acc) (fun x hx => hn x (List.mem_cons_of_mem _ hx))]
    simp

theorem lastEncoding_cons_of_tail_none (c : Nat) (t : Bytes) (h : lastEncoding t = none) :
    lastEncoding (c :: t) = encHere (c :: t) := by
  simp only [lastEncoding, h]

theorem encHere_none_of_head (c : Nat) (t : Bytes) (h : lowerC c ≠ 101) : encHere (c :: t) = none := by
  simp [encHere, litEncodingEq, startsCI, h]

/-- `encoding=` + quote + name + quote + `?>` + rest-of-line, where neither name nor the rest of the
    line contains `=`: the match is here and the group is the name -/
theorem lastEncoding_decl (name restLine : Bytes) (q1 q2 : Nat) (hq1 : isQuote q1 = true) (hq2 : isQuote q2 = true)
    (hn : ∀ c ∈ name, isQuote c = false ∧ c ≠ 61) (hr : ∀ c ∈ restLine, c ≠ 61) :
    lastEncoding (litEncodingEq ++ q1 :: (name ++ q2 :: 63 :: 62 :: restLine)) = some name := by
  have hq1' : q1 ≠ 61 := by intro h; rw [h] at hq1; simp [isQuote] at hq1
  have hq2' : q2 ≠ 61 := by intro h; rw [h] at hq2; simp [isQuote] at hq2
  have htail : lastEncoding (q1 :: (name ++ q2 :: 63 :: 62 :: restLine)) = none := by
    apply lastEncoding_none_of_no_eq
    intro c hc
    simp only [List.mem_cons, List.mem_append] at hc
    rcases hc with rfl | hc | rfl | rfl | rfl | hc
    · exact hq1'
    · exact (hn c hc).2
    · exact hq2'
    · decide
    · decide
    · exact hr c hc
  have step : ∀ (c : Nat) (t : Bytes), lowerC c ≠ 101 → lastEncoding t = none → lastEncoding (c :: t) = none := by
    intro c t hc ht
    rw [lastEncoding_cons_of_tail_none c t ht, encHere_none_of_head c t hc]
  have h8 := step 61 _ (by decide) htail
  have h7 := step 103 _ (by decide) h8
  have h6 := step 110 _ (by decide) h7
  have h5 := step 105 _ (by decide) h6
  have h4 := step 100 _ (by decide) h5
  have h3 := step 111 _ (by decide) h4
  have h2 := step 99 _ (by decide) h3
  have h1 := step 110 _ (by decide) h2
  show lastEncoding (101 :: 110 :: 99 :: 111 :: 100 :: 105 :: 110 :: 103 :: 61 :: q1 :: (name ++ q2 :: 63 :: 62 :: restLine)) = some name
  rw [lastEncoding_cons_of_tail_none _ _ h1]
  have hs : startsCI litEncodingEq (101 :: 110 :: 99 :: 111 :: 100 :: 105 :: 110 :: 103 :: 61 :: q1 :: (name ++ q2 :: 63 :: 62 :: restLine)) = true := by
    simp [startsCI, litEncodingEq, lowerC]
  simp only [encHere, hs, if_true, List.drop_succ_cons, List.drop_zero, hq1]
  rw [lazyQuote_name name _ [] q2 hq2 (fun c hc => (hn c hc).1) (containsQmGt_cons_cons _)]
  simp

/-- `xmlMatch` on: white space, `<?`, anything without newline, `encoding=`, quoted name, `?>`,
    rest of the line without `=`, then end of input or a newline — all within the first 1024 bytes. -/
theorem xmlMatch_decl (ws pre name restLine tail : Bytes) (q1 q2 : Nat)
    (hws : ∀ c ∈ ws, isSpace c = true) (hpre : ∀ c ∈ pre, c ≠ 10)
    (hq1 : isQuote q1 = true) (hq2 : isQuote q2 = true)
    (hn : ∀ c ∈ name, isQuote c = false ∧ c ≠ 61 ∧ c ≠ 10)
    (hr : ∀ c ∈ restLine, c ≠ 61 ∧ c ≠ 10)
    (ht : tail = [] ∨ ∃ r, tail = 10 :: r)
    (hlen : (ws ++ 60 :: 63 :: (pre ++ (litEncodingEq ++ q1 :: (name ++ q2 :: 63 :: 62 :: restLine)))).length ≤ 1024) :
    xmlMatch (ws ++ 60 :: 63 :: (pre ++ (litEncodingEq ++ q1 :: (name ++ q2 :: 63 :: 62 :: restLine))) ++ tail) = some name := by
  unfold xmlMatch
  rw [take_append_le _ _ _ hlen]
  generalize htk : tail.take (1024 - _) = tail'
  have ht' : tail' = [] ∨ ∃ c r, tail' = c :: r ∧ (c != 10) = false := by
    rcases ht with rfl | ⟨r, rfl⟩
    · left; simpa using htk.symm
    · cases hk : 1024 - (ws ++ 60 :: 63 :: (pre ++ (litEncodingEq ++ q1 :: (name ++ q2 :: 63 :: 62 :: restLine)))).length with
      | zero => left; rw [hk] at htk; simpa using htk.symm
      | succ k => right; rw [hk] at htk; exact ⟨10, r.take k, by simpa using htk.symm, by decide⟩
  rw [List.append_assoc, dropWhile_append_all isSpace ws _ hws]
  simp only [List.cons_append, List.dropWhile_cons]
  have h60 : isSpace 60 = false := by decide
  simp only [h60, Bool.false_eq_true, if_false]
  have hq1' : q1 ≠ 10 := by intro h; rw [h] at hq1; simp [isQuote] at hq1
  have hq2' : q2 ≠ 10 := by intro h; rw [h] at hq2; simp [isQuote] at hq2
  rw [takeWhile_append_stop (· != 10) _ tail' ?_ ht']
  · apply lastEncoding_append_some
    exact lastEncoding_decl name restLine q1 q2 hq1 hq2 (fun c hc => ⟨(hn c hc).1, (hn c hc).2.1⟩) (fun c hc => (hr c hc).1)
  · intro c hc
    simp only [litEncodingEq, List.mem_append, List.mem_cons, List.not_mem_nil, or_false] at hc
    simp only [bne_iff_ne, ne_eq]
    rcases hc with hc | hc
    · exact hpre c hc
    · rcases hc with (rfl | rfl | rfl | rfl | rfl | rfl | rfl | rfl | rfl) | rfl | hc | rfl | rfl | rfl | hc
      all_goals first | decide | exact hq1' | exact hq2' | exact (hn c hc).2.2 | exact (hr c hc).2

/-! ## `<meta … charset=…>` -/

/-- every `<` in the text is directly followed by a character that is neither white space nor
    `m`/`M` (so no `<meta` can start there), and the text does not end in `<` -/
def tagsNotMeta : Bytes → Bool
  | [] => true
  | c :: t => (c != 60 || (match t with | [] => false | d :: _ => !isSpace d && lowerC d != 109)) && tagsNotMeta t

theorem metaAt_none_of_head (d : Nat) (t : Bytes) (h1 : isSpace d = false) (h2 : lowerC d ≠ 109) :
    metaAt (d :: t) = none := by
  simp [metaAt, List.dropWhile_cons, h1, startsCI, litMeta, h2]

theorem htmlSearch_skip (pre X : Bytes) (h : tagsNotMeta pre = true) :
    htmlSearch (pre ++ 60 :: X) = htmlSearch (60 :: X) := by
  induction pre with
  | nil => rfl
  | cons c t ih =>
    simp only [tagsNotMeta, Bool.and_eq_true, Bool.or_eq_true] at h
    obtain ⟨hc, ht⟩ := h
    rw [List.cons_append, htmlSearch]
    by_cases h60 : (c == 60) = true
    · simp only [h60, if_true]
      cases t with
      | nil =>
        rcases hc with hc | hc
        · simp [bne, h60] at hc
        · simp at hc
      | cons d t' =>
        rcases hc with hc | hc
        · simp [bne, h60] at hc
        · simp only [Bool.and_eq_true, Bool.not_eq_true', bne_iff_ne, ne_eq] at hc
          rw [List.cons_append, metaAt_none_of_head d _ hc.1 hc.2]
          exact ih ht
    · simp only [h60, Bool.false_eq_true, if_false]
      exact ih ht

theorem lastCharset_append_some (a l g : Bytes) (ha : ∀ c ∈ a, c ≠ 62) (h : lastCharset l = some g) :
    lastCharset (a ++ l) = some g := by
  induction a with
  | nil => exact h
  | cons c t ih =>
    have hc : (c == 62) = false := by simpa using ha c List.mem_cons_self
    simp only [List.cons_append, lastCharset, hc, Bool.false_eq_true, if_false,
      ih (fun x hx => ha x (List.mem_cons_of_mem _ hx))]

theorem startsCI_split (lit x : Bytes) (h : startsCI lit x = true) :
    ∃ p y, x = p ++ y ∧ p.length = lit.length ∧ p.map lowerC = lit := by
  induction lit generalizing x with
  | nil => exact ⟨[], x, rfl, rfl, rfl⟩
  | cons a as ih =>
    cases x with
    | nil => simp [startsCI] at h
    | cons b bs =>
      simp only [startsCI, Bool.and_eq_true, beq_iff_eq] at h
      obtain ⟨p, y, rfl, hl, hm⟩ := ih bs h.2
      exact ⟨b :: p, y, rfl, by simp [hl], by simp [h.1, hm]⟩

theorem prefix_of_no_gt (p y l r : Bytes) (h : l ++ 62 :: r = p ++ y) (hp : ∀ c ∈ p, c ≠ 62) :
    ∃ l', l = p ++ l' ∧ y = l' ++ 62 :: r := by
  induction p generalizing l with
  | nil => exact ⟨l, rfl, by simpa using h.symm⟩
  | cons a as ih =>
    cases l with
    | nil =>
      simp only [List.nil_append, List.cons_append, List.cons.injEq] at h
      exact absurd h.1.symm (hp a List.mem_cons_self)
    | cons b bs =>
      simp only [List.cons_append, List.cons.injEq] at h
      obtain ⟨l', rfl, hy⟩ := ih bs h.2 (fun c hc => hp c (List.mem_cons_of_mem _ hc))
      exact ⟨l', by rw [h.1]; rfl, hy⟩

theorem dropWhile_space_ne_eq (l r r' : Bytes) (h : ∀ c ∈ l, c ≠ 61) :
    (l ++ 62 :: r).dropWhile isSpace ≠ 61 :: r' := by
  induction l with
  | nil => simp [List.dropWhile_cons, isSpace]
  | cons c t ih =>
    simp only [List.cons_append, List.dropWhile_cons]
    split
    · exact ih (fun x hx => h x (List.mem_cons_of_mem _ hx))
    · intro hh
      simp only [List.cons.injEq] at hh
      exact h c List.mem_cons_self hh.1

theorem lowerC_ne_62 (c : Nat) (a : Nat) (h : lowerC c = a) (ha : a ≠ 62) : c ≠ 62 := by
  intro hc; subst hc; exact ha (by simpa [lowerC] using h.symm)

/-- no `=` before the first `>`: `charset\s*=` cannot match here -/
theorem charsetHere_none_of_no_eq (l r : Bytes) (h : ∀ c ∈ l, c ≠ 61 ∧ c ≠ 62) :
    charsetHere (l ++ 62 :: r) = none := by
  unfold charsetHere
  split
  · rename_i hs
    obtain ⟨p, y, hx, hl, hm⟩ := startsCI_split _ _ hs
    have hp : ∀ c ∈ p, c ≠ 62 := by
      intro c hc
      have : lowerC c ∈ litCharset := by rw [← hm]; exact List.mem_map.mpr ⟨c, hc, rfl⟩
      refine lowerC_ne_62 c _ rfl ?_
      intro h62; rw [h62] at this; revert this; decide
    obtain ⟨l', rfl, hy⟩ := prefix_of_no_gt p y l r hx hp
    have hd : (p ++ l' ++ 62 :: r).drop 7 = l' ++ 62 :: r := by
      have : p.length = 7 := by rw [hl]; rfl
      rw [List.append_assoc, List.drop_append, this]; simp [← this]
    rw [hd]
    split
    · rename_i r' heq
      exact absurd heq (dropWhile_space_ne_eq l' r r' (fun c hc => (h c (List.mem_append_right _ hc)).1))
    · rfl
  · rfl

theorem lastCharset_none_of_no_eq (l r : Bytes) (h : ∀ c ∈ l, c ≠ 61 ∧ c ≠ 62) :
    lastCharset (l ++ 62 :: r) = none := by
  induction l with
  | nil =>
    simp only [List.nil_append, lastCharset, beq_self_eq_true, if_true]
    exact charsetHere_none_of_no_eq [] r (fun c hc => nomatch hc)
  | cons c t ih =>
    have hc : (c == 62) = false := by simpa using (h c List.mem_cons_self).2
    simp only [List.cons_append, lastCharset, hc, Bool.false_eq_true, if_false,
      ih (fun x hx => h x (List.mem_cons_of_mem _ hx))]
    exact charsetHere_none_of_no_eq (c :: t) r h

theorem splitTerm_name (name more acc : Bytes) (t : Nat) (ht : isTerm t = true)
    (hn : ∀ c ∈ name, isTerm c = false) :
    splitTerm (name ++ t :: more) acc = some (acc.reverse ++ name) := by
  induction name generalizing acc with
  | nil => simp [splitTerm, ht]
  | cons c r ih =>
    have hc := hn c List.mem_cons_self
    simp only [List.cons_append, splitTerm, hc, Bool.false_eq_true, if_false]
    rw [ih (c :: acc) (fun x hx => hn x (List.mem_cons_of_mem _ hx))]
    simp

theorem isQuote_isTerm (q : Nat) (h : isQuote q = true) : isTerm q = true := by
  simp only [isQuote, Bool.or_eq_true, beq_iff_eq] at h
  rcases h with rfl | rfl <;> decide

/-- the value after `charset=`: optional quote, a name without closing-class characters or white
    space, then a closing-class character -/
theorem htmlValue_name (qs name more : Bytes) (t : Nat) (ht : isTerm t = true)
    (hqs : qs = [] ∨ ∃ q, qs = [q] ∧ isQuote q = true) (hne : name ≠ [])
    (hn : ∀ c ∈ name, isTerm c = false ∧ isSpace c = false) :
    htmlValue (qs ++ (name ++ t :: more)) = some name := by
  have hsp : ∀ q, isQuote q = true → isSpace q = false := by
    intro q hq
    simp only [isQuote, Bool.or_eq_true, beq_iff_eq] at hq
    rcases hq with rfl | rfl <;> decide
  rcases hqs with rfl | ⟨q, rfl, hq⟩
  · cases name with
    | nil => exact absurd rfl hne
    | cons n0 name' =>
      have h0 := hn n0 List.mem_cons_self
      have hq0 : isQuote n0 = false := by
        cases hq : isQuote n0 with
        | false => rfl
        | true => rw [isQuote_isTerm n0 hq] at h0; exact absurd h0.1 (by simp)
      unfold htmlValue
      simp only [List.nil_append, List.cons_append, List.dropWhile_cons, h0.2, Bool.false_eq_true, if_false, hq0]
      have := splitTerm_name (n0 :: name') more [] t ht (fun c hc => (hn c hc).1)
      simp only [List.cons_append, List.reverse_nil, List.nil_append] at this
      rw [this]
  · unfold htmlValue
    simp only [List.cons_append, List.nil_append, List.dropWhile_cons, hsp q hq, Bool.false_eq_true, if_false, hq, if_true]
    rw [splitTerm_name name more [] t ht (fun c hc => (hn c hc).1)]
    simp

/-- the whole tag: `meta`, at least one character, anything without `>`, `charset=`, value, and no
    `=` between the value and the closing `>` -/
theorem metaAt_decl (m0 : Nat) (mid qs name close rest : Bytes)
    (hm0 : m0 ≠ 62) (hmid : ∀ c ∈ mid, c ≠ 62)
    (hqs : qs = [] ∨ ∃ q, qs = [q] ∧ isQuote q = true) (hne : name ≠ [])
    (hn : ∀ c ∈ name, isTerm c = false ∧ isSpace c = false ∧ c ≠ 61)
    (hclose : ∀ c ∈ close, c ≠ 61 ∧ c ≠ 62)
    (hterm : close = [] ∨ ∃ t r, close = t :: r ∧ isTerm t = true) :
    metaAt (litMeta ++ m0 :: (mid ++ (litCharset ++ 61 :: (qs ++ (name ++ (close ++ 62 :: rest)))))) = some name := by
  have hm0' : (m0 == 62) = false := by simpa using hm0
  have hqne : ∀ q, isQuote q = true → q ≠ 61 ∧ q ≠ 62 := by
    intro q hq
    simp only [isQuote, Bool.or_eq_true, beq_iff_eq] at hq
    rcases hq with rfl | rfl <;> decide
  have hn62 : ∀ c ∈ name, c ≠ 62 := by
    intro c hc h62; subst h62
    have := (hn 62 hc).1; revert this; decide
  -- the value
  obtain ⟨t, more, hsplit, ht⟩ : ∃ t more, close ++ 62 :: rest = t :: more ∧ isTerm t = true := by
    rcases hterm with rfl | ⟨t, r, rfl, ht⟩
    · exact ⟨62, rest, rfl, by decide⟩
    · exact ⟨t, r ++ 62 :: rest, rfl, ht⟩
  have hval : htmlValue (qs ++ (name ++ (close ++ 62 :: rest))) = some name := by
    rw [hsplit]
    exact htmlValue_name qs name more t ht hqs hne (fun c hc => ⟨(hn c hc).1, (hn c hc).2.1⟩)
  -- nothing matches later
  have hV : lastCharset (qs ++ (name ++ (close ++ 62 :: rest))) = none := by
    have : qs ++ (name ++ (close ++ 62 :: rest)) = (qs ++ name ++ close) ++ 62 :: rest := by simp
    rw [this]
    apply lastCharset_none_of_no_eq
    intro c hc
    simp only [List.mem_append] at hc
    rcases hc with (hc | hc) | hc
    · rcases hqs with rfl | ⟨q, rfl, hq⟩
      · cases hc
      · simp only [List.mem_singleton] at hc; subst hc; exact hqne c hq
    · exact ⟨(hn c hc).2.2, hn62 c hc⟩
    · exact hclose c hc
  have step : ∀ (c : Nat) (l : Bytes), c ≠ 62 → lowerC c ≠ 99 → lastCharset l = none → lastCharset (c :: l) = none := by
    intro c l h1 h2 h3
    have h1' : (c == 62) = false := by simpa using h1
    simp only [lastCharset, h1', Bool.false_eq_true, if_false, h3]
    simp [charsetHere, startsCI, litCharset, h2]
  have h7 := step 61 _ (by decide) (by decide) hV
  have h6 := step 116 _ (by decide) (by decide) h7
  have h5 := step 101 _ (by decide) (by decide) h6
  have h4 := step 115 _ (by decide) (by decide) h5
  have h3 := step 114 _ (by decide) (by decide) h4
  have h2 := step 97 _ (by decide) (by decide) h3
  have h1 := step 104 _ (by decide) (by decide) h2
  have hCS : lastCharset (litCharset ++ 61 :: (qs ++ (name ++ (close ++ 62 :: rest)))) = some name := by
    show lastCharset (99 :: 104 :: 97 :: 114 :: 115 :: 101 :: 116 :: 61 :: (qs ++ (name ++ (close ++ 62 :: rest)))) = some name
    have h99 : ((99 : Nat) == 62) = false := by decide
    simp only [lastCharset, h99, Bool.false_eq_true, if_false] at h1 ⊢
    rw [h1]
    have hs : startsCI litCharset (99 :: 104 :: 97 :: 114 :: 115 :: 101 :: 116 :: 61 :: (qs ++ (name ++ (close ++ 62 :: rest)))) = true := by
      simp [startsCI, litCharset, lowerC]
    simp only [charsetHere, hs, if_true, List.drop_succ_cons, List.drop_zero, List.dropWhile_cons]
    have h61 : isSpace 61 = false := by decide
    simp only [h61, Bool.false_eq_true, if_false]
    exact hval
  unfold metaAt
  have hnosp : (litMeta ++ m0 :: (mid ++ (litCharset ++ 61 :: (qs ++ (name ++ (close ++ 62 :: rest)))))).dropWhile isSpace
      = litMeta ++ m0 :: (mid ++ (litCharset ++ 61 :: (qs ++ (name ++ (close ++ 62 :: rest))))) := by
    simp [litMeta, List.dropWhile_cons, isSpace]
  simp only [hnosp]
  have hs : startsCI litMeta (litMeta ++ m0 :: (mid ++ (litCharset ++ 61 :: (qs ++ (name ++ (close ++ 62 :: rest)))))) = true := by
    simp [startsCI, litMeta, lowerC]
  simp only [hs, if_true]
  simp only [litMeta, List.cons_append, List.nil_append, List.drop_succ_cons, List.drop_zero, hm0', Bool.false_eq_true, if_false]
  exact lastCharset_append_some mid _ name hmid hCS

/-! ## nothing is found without the markers -/

/-- some `<` in the text is followed (after optional white space) by `meta`, in any case -/
def hasMetaOpen : Bytes → Bool
  | [] => false
  | c :: t => (c == 60 && startsCI litMeta (t.dropWhile isSpace)) || hasMetaOpen t

/-- `lit` occurs in `l`, ignoring case -/
def containsCI (lit : Bytes) : Bytes → Bool
  | [] => startsCI lit []
  | c :: t => startsCI lit (c :: t) || containsCI lit t

theorem htmlSearch_none_of_no_meta (w : Bytes) (h : hasMetaOpen w = false) : htmlSearch w = none := by
  induction w with
  | nil => rfl
  | cons c t ih =>
    simp only [hasMetaOpen, Bool.or_eq_false_iff, Bool.and_eq_false_iff] at h
    rw [htmlSearch]
    by_cases hc : (c == 60) = true
    · simp only [hc, if_true]
      have hs : startsCI litMeta (t.dropWhile isSpace) = false := by
        rcases h.1 with h1 | h1
        · rw [hc] at h1; cases h1
        · exact h1
      have : metaAt t = none := by simp [metaAt, hs]
      rw [this]
      exact ih h.2
    · simp only [hc, Bool.false_eq_true, if_false]
      exact ih h.2

theorem lastCharset_none_of_no_charset (l : Bytes) (h : containsCI litCharset l = false) : lastCharset l = none := by
  induction l with
  | nil => rfl
  | cons c t ih =>
    simp only [containsCI, Bool.or_eq_false_iff] at h
    have hh : charsetHere (c :: t) = none := by simp [charsetHere, h.1]
    rw [lastCharset]
    by_cases hc : (c == 62) = true
    · simp [hc, hh]
    · simp only [hc, Bool.false_eq_true, if_false, ih h.2, hh]

theorem containsCI_drop (lit l : Bytes) (n : Nat) (h : containsCI lit l = false) (hl : lit ≠ []) :
    containsCI lit (l.drop n) = false := by
  induction n generalizing l with
  | zero => simpa using h
  | succ k ih =>
    cases l with
    | nil => simpa using h
    | cons c t =>
      simp only [containsCI, Bool.or_eq_false_iff] at h
      simpa using ih t h.2

theorem containsCI_dropWhile (lit l : Bytes) (p : Nat → Bool) (h : containsCI lit l = false) :
    containsCI lit (l.dropWhile p) = false := by
  induction l with
  | nil => simpa using h
  | cons c t ih =>
    simp only [List.dropWhile_cons]
    split
    · simp only [containsCI, Bool.or_eq_false_iff] at h
      exact ih h.2
    · exact h

theorem htmlSearch_none_of_no_charset (w : Bytes) (h : containsCI litCharset w = false) : htmlSearch w = none := by
  induction w with
  | nil => rfl
  | cons c t ih =>
    have ht : containsCI litCharset t = false := by
      simp only [containsCI, Bool.or_eq_false_iff] at h; exact h.2
    rw [htmlSearch]
    have hm : metaAt t = none := by
      unfold metaAt
      dsimp only
      split
      · have h1 := containsCI_dropWhile litCharset t isSpace ht
        have h2 := containsCI_drop litCharset _ 4 h1 (by decide)
        cases hd : (t.dropWhile isSpace).drop 4 with
        | nil => rfl
        | cons x u =>
          rw [hd] at h2
          simp only [containsCI, Bool.or_eq_false_iff] at h2
          simp only [lastCharset_none_of_no_charset u h2.2]
          split <;> rfl
      · rfl
    simp only [hm, ih ht]
    split <;> rfl

theorem lastEncoding_none_of_no_encoding (l : Bytes) (h : containsCI litEncodingEq l = false) : lastEncoding l = none := by
  induction l with
  | nil => rfl
  | cons c t ih =>
    simp only [containsCI, Bool.or_eq_false_iff] at h
    have hh : encHere (c :: t) = none := by simp [encHere, h.1]
    simp only [lastEncoding, ih h.2, hh]

/-! ## the general well-formed shapes (conditions in terms of `containsCI`) -/

theorem lastEncoding_decl_gen (name after : Bytes) (q1 q2 : Nat) (hq1 : isQuote q1 = true) (hq2 : isQuote q2 = true)
    (hn : ∀ c ∈ name, isQuote c = false) (hqm : containsQmGt after = true)
    (hno : containsCI litEncodingEq (name ++ q2 :: after) = false) :
    lastEncoding (litEncodingEq ++ q1 :: (name ++ q2 :: after)) = some name := by
  have hq1e : lowerC q1 ≠ 101 := by
    simp only [isQuote, Bool.or_eq_true, beq_iff_eq] at hq1
    rcases hq1 with rfl | rfl <;> decide
  have step : ∀ (c : Nat) (t : Bytes), lowerC c ≠ 101 → lastEncoding t = none → lastEncoding (c :: t) = none := by
    intro c t hc ht
    rw [lastEncoding_cons_of_tail_none c t ht, encHere_none_of_head c t hc]
  have htail := step q1 _ hq1e (lastEncoding_none_of_no_encoding _ hno)
  have h8 := step 61 _ (by decide) htail
  have h7 := step 103 _ (by decide) h8
  have h6 := step 110 _ (by decide) h7
  have h5 := step 105 _ (by decide) h6
  have h4 := step 100 _ (by decide) h5
  have h3 := step 111 _ (by decide) h4
  have h2 := step 99 _ (by decide) h3
  have h1 := step 110 _ (by decide) h2
  show lastEncoding (101 :: 110 :: 99 :: 111 :: 100 :: 105 :: 110 :: 103 :: 61 :: q1 :: (name ++ q2 :: after)) = some name
  rw [lastEncoding_cons_of_tail_none _ _ h1]
  have hs : startsCI litEncodingEq (101 :: 110 :: 99 :: 111 :: 100 :: 105 :: 110 :: 103 :: 61 :: q1 :: (name ++ q2 :: after)) = true := by
    simp [startsCI, litEncodingEq, lowerC]
  simp only [encHere, hs, if_true, List.drop_succ_cons, List.drop_zero, hq1]
  rw [lazyQuote_name name _ [] q2 hq2 hn hqm]
  simp

/-- `xmlMatch` on: white space, `<?`, anything without newline, `encoding=`, quoted name, then a rest of
    the line that contains `?>` and no further `encoding=`, then end of input or a newline — all within
    the first 1024 bytes. -/
theorem xmlMatch_decl_gen (ws pre name after tail : Bytes) (q1 q2 : Nat)
    (hws : ∀ c ∈ ws, isSpace c = true) (hpre : ∀ c ∈ pre, c ≠ 10)
    (hq1 : isQuote q1 = true) (hq2 : isQuote q2 = true)
    (hn : ∀ c ∈ name, isQuote c = false ∧ c ≠ 10)
    (ha : ∀ c ∈ after, c ≠ 10) (hqm : containsQmGt after = true)
    (hno : containsCI litEncodingEq (name ++ q2 :: after) = false)
    (ht : tail = [] ∨ ∃ r, tail = 10 :: r)
    (hlen : (ws ++ 60 :: 63 :: (pre ++ (litEncodingEq ++ q1 :: (name ++ q2 :: after)))).length ≤ 1024) :
    xmlMatch (ws ++ 60 :: 63 :: (pre ++ (litEncodingEq ++ q1 :: (name ++ q2 :: after))) ++ tail) = some name := by
  unfold xmlMatch
  rw [take_append_le _ _ _ hlen]
  generalize htk : tail.take (1024 - _) = tail'
  have ht' : tail' = [] ∨ ∃ c r, tail' = c :: r ∧ (c != 10) = false := by
    rcases ht with rfl | ⟨r, rfl⟩
    · left; simpa using htk.symm
    · cases hk : 1024 - (ws ++ 60 :: 63 :: (pre ++ (litEncodingEq ++ q1 :: (name ++ q2 :: after)))).length with
      | zero => left; rw [hk] at htk; simpa using htk.symm
      | succ k => right; rw [hk] at htk; exact ⟨10, r.take k, by simpa using htk.symm, by decide⟩
  rw [List.append_assoc, dropWhile_append_all isSpace ws _ hws]
  simp only [List.cons_append, List.dropWhile_cons]
  have h60 : isSpace 60 = false := by decide
  simp only [h60, Bool.false_eq_true, if_false]
  have hq1' : q1 ≠ 10 := by intro h; rw [h] at hq1; simp [isQuote] at hq1
  have hq2' : q2 ≠ 10 := by intro h; rw [h] at hq2; simp [isQuote] at hq2
  rw [takeWhile_append_stop (· != 10) _ tail' ?_ ht']
  · apply lastEncoding_append_some
    exact lastEncoding_decl_gen name after q1 q2 hq1 hq2 (fun c hc => (hn c hc).1) hqm hno
  · intro c hc
    simp only [litEncodingEq, List.mem_append, List.mem_cons, List.not_mem_nil, or_false] at hc
    simp only [bne_iff_ne, ne_eq]
    rcases hc with hc | hc
    · exact hpre c hc
    · rcases hc with (rfl | rfl | rfl | rfl | rfl | rfl | rfl | rfl | rfl) | rfl | hc | rfl | hc
      all_goals first | decide | exact hq1' | exact hq2' | exact (hn c hc).2 | exact ha c hc

theorem startsCI_append_stop (lit sfx r : Bytes) (hl : ∀ a ∈ lit, a ≠ 62)
    (h : startsCI lit (sfx ++ 62 :: r) = true) : startsCI lit sfx = true := by
  induction lit generalizing sfx with
  | nil => rfl
  | cons a as ih =>
    cases sfx with
    | nil =>
      simp only [List.nil_append, startsCI, Bool.and_eq_true, beq_iff_eq] at h
      have : lowerC 62 = 62 := by decide
      rw [this] at h
      exact absurd h.1.symm (hl a List.mem_cons_self)
    | cons b bs =>
      simp only [List.cons_append, startsCI, Bool.and_eq_true] at h ⊢
      exact ⟨h.1, ih bs (fun x hx => hl x (List.mem_cons_of_mem _ hx)) h.2⟩

/-- no `charset` before the first `>`: nothing matches there -/
theorem lastCharset_none_before_gt (l r : Bytes) (h62 : ∀ c ∈ l, c ≠ 62) (h : containsCI litCharset l = false) :
    lastCharset (l ++ 62 :: r) = none := by
  induction l with
  | nil =>
    simp only [List.nil_append, lastCharset, beq_self_eq_true, if_true]
    simp [charsetHere, startsCI, litCharset, lowerC]
  | cons c t ih =>
    simp only [containsCI, Bool.or_eq_false_iff] at h
    have hc : (c == 62) = false := by simpa using h62 c List.mem_cons_self
    have hh : charsetHere ((c :: t) ++ 62 :: r) = none := by
      have : startsCI litCharset ((c :: t) ++ 62 :: r) = false := by
        cases hs : startsCI litCharset ((c :: t) ++ 62 :: r) with
        | false => rfl
        | true =>
          have := startsCI_append_stop litCharset (c :: t) r (by decide) hs
          rw [h.1] at this; cases this
      unfold charsetHere
      rw [this]
      rfl
    simp only [List.cons_append, lastCharset, hc, Bool.false_eq_true, if_false,
      ih (fun x hx => h62 x (List.mem_cons_of_mem _ hx)) h.2]
    exact hh

/-- the whole tag, general form: `meta`, at least one character, anything without `>`, `charset=`,
    value, then anything without `>` in which `charset` does not occur again -/
theorem metaAt_decl_gen (m0 : Nat) (mid qs name close rest : Bytes)
    (hm0 : m0 ≠ 62) (hmid : ∀ c ∈ mid, c ≠ 62)
    (hqs : qs = [] ∨ ∃ q, qs = [q] ∧ isQuote q = true) (hne : name ≠ [])
    (hn : ∀ c ∈ name, isTerm c = false ∧ isSpace c = false)
    (hclose : ∀ c ∈ close, c ≠ 62)
    (hno : containsCI litCharset (qs ++ name ++ close) = false)
    (hterm : close = [] ∨ ∃ t r, close = t :: r ∧ isTerm t = true) :
    metaAt (litMeta ++ m0 :: (mid ++ (litCharset ++ 61 :: (qs ++ (name ++ (close ++ 62 :: rest)))))) = some name := by
  have hm0' : (m0 == 62) = false := by simpa using hm0
  have hqne : ∀ q, isQuote q = true → q ≠ 62 := by
    intro q hq
    simp only [isQuote, Bool.or_eq_true, beq_iff_eq] at hq
    rcases hq with rfl | rfl <;> decide
  have hn62 : ∀ c ∈ name, c ≠ 62 := by
    intro c hc h62; subst h62
    have := (hn 62 hc).1; revert this; decide
  obtain ⟨t, more, hsplit, ht⟩ : ∃ t more, close ++ 62 :: rest = t :: more ∧ isTerm t = true := by
    rcases hterm with rfl | ⟨t, r, rfl, ht⟩
    · exact ⟨62, rest, rfl, by decide⟩
    · exact ⟨t, r ++ 62 :: rest, rfl, ht⟩
  have hval : htmlValue (qs ++ (name ++ (close ++ 62 :: rest))) = some name := by
    rw [hsplit]
    exact htmlValue_name qs name more t ht hqs hne hn
  have hV : lastCharset (qs ++ (name ++ (close ++ 62 :: rest))) = none := by
    have : qs ++ (name ++ (close ++ 62 :: rest)) = (qs ++ name ++ close) ++ 62 :: rest := by simp
    rw [this]
    apply lastCharset_none_before_gt _ _ _ hno
    intro c hc
    simp only [List.mem_append] at hc
    rcases hc with (hc | hc) | hc
    · rcases hqs with rfl | ⟨q, rfl, hq⟩
      · cases hc
      · simp only [List.mem_singleton] at hc; subst hc; exact hqne c hq
    · exact hn62 c hc
    · exact hclose c hc
  have step : ∀ (c : Nat) (l : Bytes), c ≠ 62 → lowerC c ≠ 99 → lastCharset l = none → lastCharset (c :: l) = none := by
    intro c l h1 h2 h3
    have h1' : (c == 62) = false := by simpa using h1
    simp only [lastCharset, h1', Bool.false_eq_true, if_false, h3]
    simp [charsetHere, startsCI, litCharset, h2]
  have h7 := step 61 _ (by decide) (by decide) hV
  have h6 := step 116 _ (by decide) (by decide) h7
  have h5 := step 101 _ (by decide) (by decide) h6
  have h4 := step 115 _ (by decide) (by decide) h5
  have h3 := step 114 _ (by decide) (by decide) h4
  have h2 := step 97 _ (by decide) (by decide) h3
  have h1 := step 104 _ (by decide) (by decide) h2
  have hCS : lastCharset (litCharset ++ 61 :: (qs ++ (name ++ (close ++ 62 :: rest)))) = some name := by
    show lastCharset (99 :: 104 :: 97 :: 114 :: 115 :: 101 :: 116 :: 61 :: (qs ++ (name ++ (close ++ 62 :: rest)))) = some name
    have h99 : ((99 : Nat) == 62) = false := by decide
    simp only [lastCharset, h99, Bool.false_eq_true, if_false] at h1 ⊢
    rw [h1]
    have hs : startsCI litCharset (99 :: 104 :: 97 :: 114 :: 115 :: 101 :: 116 :: 61 :: (qs ++ (name ++ (close ++ 62 :: rest)))) = true := by
      simp [startsCI, litCharset, lowerC]
    simp only [charsetHere, hs, if_true, List.drop_succ_cons, List.drop_zero, List.dropWhile_cons]
    have h61 : isSpace 61 = false := by decide
    simp only [h61, Bool.false_eq_true, if_false]
    exact hval
  unfold metaAt
  have hnosp : (litMeta ++ m0 :: (mid ++ (litCharset ++ 61 :: (qs ++ (name ++ (close ++ 62 :: rest)))))).dropWhile isSpace
      = litMeta ++ m0 :: (mid ++ (litCharset ++ 61 :: (qs ++ (name ++ (close ++ 62 :: rest))))) := by
    simp [litMeta, isSpace]
  simp only [hnosp]
  have hs : startsCI litMeta (litMeta ++ m0 :: (mid ++ (litCharset ++ 61 :: (qs ++ (name ++ (close ++ 62 :: rest)))))) = true := by
    simp [startsCI, litMeta, lowerC]
  simp only [hs, if_true]
  simp only [litMeta, List.cons_append, List.nil_append, List.drop_succ_cons, List.drop_zero, hm0', Bool.false_eq_true, if_false]
  exact lastCharset_append_some mid _ name hmid hCS

end BS.EncodingIn
