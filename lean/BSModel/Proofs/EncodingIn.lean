import BSModel.Model.EncodingIn
/-! helper lemmas for property C07 (core Lean only) -/
namespace BS.EncodingIn

theorem lowerC_idem (c : Nat) : lowerC (lowerC c) = lowerC c := by
  unfold lowerC
  by_cases h : 65 ≤ c ∧ c ≤ 90
  · have h2 : ¬(65 ≤ c + 32 ∧ c + 32 ≤ 90) := by omega
    rw [if_pos h, if_neg h2]
  · rw [if_neg h, if_neg h]

theorem lower_idem (s : Name) : lower (lower s) = lower s := by
  simp [lower, List.map_map, Function.comp_def, lowerC_idem]

theorem lookup_some_mem {α β} [BEq α] [LawfulBEq α] (l : List (α × β)) (k : α) (v : β) (h : l.lookup k = some v) :
    (k, v) ∈ l := by
  induction l with
  | nil => cases h
  | cons p t ih =>
    obtain ⟨a, b⟩ := p
    simp only [List.lookup] at h
    split at h
    · rename_i heq
      have : k = a := by simpa using heq
      subst this
      cases h; exact List.mem_cons_self
    · exact List.mem_cons_of_mem _ (ih h)

/-! ## the generator and the candidate list -/

theorem yieldAll_append (excl : List Name) (l1 l2 : List Name) (t : List Name) :
    yieldAll excl (l1 ++ l2) t =
      ((yieldAll excl l1 t).1 ++ (yieldAll excl l2 (yieldAll excl l1 t).2).1,
       (yieldAll excl l2 (yieldAll excl l1 t).2).2) := by
  induction l1 generalizing t with
  | nil => simp [yieldAll]
  | cons e es ih =>
    simp only [List.cons_append, yieldAll, ih]
    split <;> simp

theorem dedupLower_cons (e : Name) (es : List Name) :
    dedupLower (e :: es) = e :: dedupLower (es.filter fun x => lower x != lower e) := by
  rw [dedupLower]

theorem dedupLower_nil : dedupLower [] = [] := by rw [dedupLower]

theorem yieldAll_cons_skip (excl : List Name) (e : Name) (es tried : List Name)
    (h : excl.contains (lower e) = true ∨ tried.contains (lower e) = true) :
    yieldAll excl (e :: es) tried = yieldAll excl es tried := by
  have hu : usable excl e tried = (false, tried) := by
    unfold usable
    rcases h with h | h
    · simp only [h, if_true]
    · cases hx : excl.contains (lower e)
      · simp only [hx, Bool.false_eq_true, if_false, h, Bool.not_true]
      · simp only [hx, if_true]
  simp only [yieldAll, hu, Bool.false_eq_true, if_false]

theorem yieldAll_cons_take (excl : List Name) (e : Name) (es tried : List Name)
    (h1 : excl.contains (lower e) = false) (h2 : tried.contains (lower e) = false) :
    yieldAll excl (e :: es) tried =
      (e :: (yieldAll excl es (lower e :: tried)).1, (yieldAll excl es (lower e :: tried)).2) := by
  have hu : usable excl e tried = (true, lower e :: tried) := by
    unfold usable
    simp only [h1, h2, Bool.false_eq_true, if_false, Bool.not_false, if_true]
  simp only [yieldAll, hu, if_true]

/-- the loop with its `tried` set = de-duplication of what is neither excluded nor already tried -/
theorem yieldAll_fst (excl : List Name) (l : List Name) (tried : List Name) :
    (yieldAll excl l tried).1 =
      dedupLower ((l.filter fun e => !excl.contains (lower e)).filter fun e => !tried.contains (lower e)) := by
  induction l generalizing tried with
  | nil => simp [yieldAll, dedupLower_nil]
  | cons e es ih =>
    cases hx : excl.contains (lower e) with
    | true =>
      rw [yieldAll_cons_skip _ _ _ _ (Or.inl hx), ih, List.filter_cons]
      simp only [hx, Bool.not_true, Bool.false_eq_true, if_false]
    | false =>
      cases ht : tried.contains (lower e) with
      | true =>
        rw [yieldAll_cons_skip _ _ _ _ (Or.inr ht), ih, List.filter_cons]
        simp only [hx, Bool.not_false, if_true, List.filter_cons, ht, Bool.not_true, Bool.false_eq_true, if_false]
      | false =>
        rw [yieldAll_cons_take _ _ _ _ hx ht, ih, List.filter_cons]
        simp only [hx, Bool.not_false, if_true, List.filter_cons, ht, dedupLower_cons, List.filter_filter]
        congr 2
        apply List.filter_congr
        intro x _
        rw [List.contains_cons]
        simp only [bne]
        cases (lower x == lower e) <;> cases List.contains tried (lower x) <;>
          cases List.contains excl (lower x) <;> rfl

theorem encodingsImpl_eq_yieldAll (known : List Name) (bom : Option Name) (user : List Name)
    (declared chardet : Option Name) (excl : List Name) :
    encodingsImpl known bom user declared chardet excl = (yieldAll excl (sources known bom user declared chardet) []).1 := by
  simp only [encodingsImpl, sources, yieldAll_append, List.append_assoc]

/-! ### laws of `dedupLower` -/

theorem dedupLower_sublist (l : List Name) : (dedupLower l).Sublist l := by
  fun_induction dedupLower l with
  | case1 => exact List.Sublist.refl _
  | case2 e es ih =>
    exact List.Sublist.cons_cons e (ih.trans (List.filter_sublist))

theorem mem_of_mem_dedupLower {x : Name} {l : List Name} (h : x ∈ dedupLower l) : x ∈ l :=
  (dedupLower_sublist l).subset h

theorem dedupLower_pairwise (l : List Name) : (dedupLower l).Pairwise (fun a b => lower a ≠ lower b) := by
  fun_induction dedupLower l with
  | case1 => exact List.Pairwise.nil
  | case2 e es ih =>
    refine List.Pairwise.cons ?_ ih
    intro x hx
    have := mem_of_mem_dedupLower hx
    simp only [List.mem_filter, bne_iff_ne, ne_eq] at this
    exact fun h => this.2 h.symm

theorem dedupLower_complete (l : List Name) (x : Name) (hx : x ∈ l) :
    ∃ y ∈ dedupLower l, lower y = lower x := by
  fun_induction dedupLower l with
  | case1 => cases hx
  | case2 e es ih =>
    by_cases h : lower x = lower e
    · exact ⟨e, List.mem_cons_self, h.symm⟩
    · have hx' : x ∈ es.filter (fun y => lower y != lower e) := by
        rcases List.mem_cons.mp hx with rfl | hm
        · exact absurd rfl h
        · simp [List.mem_filter, hm, h]
      obtain ⟨y, hy, hyx⟩ := ih hx'
      exact ⟨y, List.mem_cons_of_mem _ hy, hyx⟩

/-- the representative of a name is its FIRST occurrence (ignoring case) -/
theorem dedupLower_first (pre post : List Name) (x : Name) (h : ∀ y ∈ pre, lower y ≠ lower x) :
    x ∈ dedupLower (pre ++ x :: post) := by
  generalize hn : pre.length = n
  induction n using Nat.strongRecOn generalizing pre post with
  | _ n ih =>
    cases pre with
    | nil => simp [dedupLower_cons]
    | cons e es =>
      simp only [List.cons_append, dedupLower_cons, List.mem_cons]
      right
      have he : lower e ≠ lower x := h e List.mem_cons_self
      have : (es ++ x :: post).filter (fun y => lower y != lower e)
          = es.filter (fun y => lower y != lower e) ++ x :: post.filter (fun y => lower y != lower e) := by
        simp [List.filter_append, Ne.symm he]
      rw [this]
      apply ih (es.filter fun y => lower y != lower e).length ?_ _ _ ?_ rfl
      · have := List.length_filter_le (fun y => lower y != lower e) es
        simp only [List.length_cons] at hn
        omega
      · intro y hy
        exact h y (List.mem_cons_of_mem _ (List.mem_filter.mp hy).1)

/-! ## the two passes of `UnicodeDammit.__init__` -/

/-- what `str(data, codec, errors)` gives -/
def decodeWith (C : Codecs) (data : Bytes) (replace : Bool) (r : Name) : Option PStr :=
  if replace then C.decodeReplace r data else C.decodeStrict r data

/-- invariant of `tried_encodings`: every recorded attempt was a failure (so skipping a repeat of
    it loses nothing) -/
def Inv (C : Codecs) (data : Bytes) (st : St) : Prop :=
  ∀ p ∈ st.tried, decodeWith C data p.2 p.1 = none

theorem inv_init (C : Codecs) (data : Bytes) : Inv C data {} := by
  intro p hp; cases hp

theorem attempt_eq (C : Codecs) (data : Bytes) (rep : Bool) (c : Name) :
    attempt C data rep c = (findCodec C c).bind fun r => (decodeWith C data rep r).map fun u => (r, u) := by
  unfold attempt decodeWith
  cases findCodec C c with
  | none => rfl
  | some r =>
    simp only [Option.bind_some]
    split <;> simp_all

/-- `_convert_from` succeeds exactly when the stateless `attempt` does, with the same codec name
    and text; on failure the invariant and duplicate-freeness of `tried_encodings` are kept. -/
theorem convertFrom_spec (C : Codecs) (data : Bytes) (st : St) (c : Name) (rep : Bool)
    (hinv : Inv C data st) (hnd : st.tried.Nodup) :
    (∀ r u, attempt C data rep c = some (r, u) →
        (convertFrom C data st c rep).2 = some u ∧ (convertFrom C data st c rep).1.enc = some r ∧
        (convertFrom C data st c rep).1.tried.Nodup) ∧
    (attempt C data rep c = none →
        (convertFrom C data st c rep).2 = none ∧ Inv C data (convertFrom C data st c rep).1 ∧
        (convertFrom C data st c rep).1.tried.Nodup) := by
  rw [attempt_eq]
  unfold convertFrom
  cases hf : findCodec C c with
  | none => simp [hinv, hnd]
  | some r =>
    simp only [Option.bind_some]
    by_cases hc : st.tried.contains (r, rep) = true
    · have hmem : (r, rep) ∈ st.tried := by simpa using hc
      have hnone := hinv _ hmem
      simp only at hnone
      simp only [hc, if_true, hnone, Option.map_none]
      exact ⟨fun _ _ h => (nomatch h), fun _ => ⟨trivial, hinv, hnd⟩⟩
    · have hc' : st.tried.contains (r, rep) = false := by simpa using hc
      have hnm : (r, rep) ∉ st.tried := by simpa using hc
      have hnd' : (st.tried ++ [(r, rep)]).Nodup := by
        rw [List.nodup_append]
        refine ⟨hnd, by simp, ?_⟩
        intro a ha b hb
        simp only [List.mem_singleton] at hb
        subst hb
        exact fun h => hnm (h ▸ ha)
      simp only [hc', Bool.false_eq_true, if_false]
      have hd : (if rep = true then C.decodeReplace r data else C.decodeStrict r data) = decodeWith C data rep r := rfl
      rw [hd]
      cases hdec : decodeWith C data rep r with
      | some u =>
        simp only [Option.map_some]
        refine ⟨?_, by simp⟩
        intro r' u' h
        simp only [Option.some.injEq, Prod.mk.injEq] at h
        obtain ⟨rfl, rfl⟩ := h
        exact ⟨by trivial, by trivial, hnd'⟩
      | none =>
        simp only [Option.map_none]
        refine ⟨fun _ _ h => (nomatch h), fun _ => ⟨trivial, ?_, hnd'⟩⟩
        intro p hp
        simp only [List.mem_append, List.mem_singleton] at hp
        rcases hp with hp | rfl
        · exact hinv p hp
        · exact hdec

/-- first loop = `findSome?` of the stateless attempt over the candidates -/
theorem pass1_spec (C : Codecs) (data : Bytes) (cands : List Name) (st : St)
    (hinv : Inv C data st) (hnd : st.tried.Nodup) :
    (∀ r u, cands.findSome? (attempt C data false) = some (r, u) →
        (pass1 C data cands st).2 = some u ∧ (pass1 C data cands st).1.enc = some r ∧
        (pass1 C data cands st).1.tried.Nodup) ∧
    (cands.findSome? (attempt C data false) = none →
        (pass1 C data cands st).2 = none ∧ Inv C data (pass1 C data cands st).1 ∧
        (pass1 C data cands st).1.tried.Nodup) := by
  induction cands generalizing st with
  | nil => simp [pass1, hinv, hnd]
  | cons e es ih =>
    obtain ⟨hs, hn⟩ := convertFrom_spec C data st e false hinv hnd
    simp only [List.findSome?_cons, pass1]
    cases ha : attempt C data false e with
    | some ru =>
      obtain ⟨r, u⟩ := ru
      obtain ⟨h1, h2, h3⟩ := hs r u ha
      generalize convertFrom C data st e false = cf at h1 h2 h3
      obtain ⟨st', ou⟩ := cf
      simp only at h1 h2 h3
      subst h1
      simp [h2, h3]
    | none =>
      obtain ⟨h1, h2, h3⟩ := hn ha
      generalize convertFrom C data st e false = cf at h1 h2 h3
      obtain ⟨st', ou⟩ := cf
      simp only at h1 h2 h3
      subst h1
      exact ih st' h2 h3

/-- second loop = `findSome?` of the stateless replace attempt over the candidates other than "ascii" -/
theorem pass2_spec (C : Codecs) (data : Bytes) (cands : List Name) (st : St)
    (hinv : Inv C data st) (hnd : st.tried.Nodup) :
    (∀ r u, (cands.filter (· != ascii)).findSome? (attempt C data true) = some (r, u) →
        (pass2 C data cands st).2 = some u ∧ (pass2 C data cands st).1.enc = some r ∧
        (pass2 C data cands st).1.tried.Nodup) ∧
    ((cands.filter (· != ascii)).findSome? (attempt C data true) = none →
        (pass2 C data cands st).2 = none ∧ Inv C data (pass2 C data cands st).1 ∧
        (pass2 C data cands st).1.tried.Nodup) := by
  induction cands generalizing st with
  | nil => simp [pass2, hinv, hnd]
  | cons e es ih =>
    simp only [List.filter_cons, pass2]
    by_cases hasc : (e != ascii) = true
    · simp only [hasc, if_true, List.findSome?_cons]
      obtain ⟨hs, hn⟩ := convertFrom_spec C data st e true hinv hnd
      cases ha : attempt C data true e with
      | some ru =>
        obtain ⟨r, u⟩ := ru
        obtain ⟨h1, h2, h3⟩ := hs r u ha
        generalize convertFrom C data st e true = cf at h1 h2 h3
        obtain ⟨st', ou⟩ := cf
        simp only at h1 h2 h3
        subst h1
        simp [h2, h3]
      | none =>
        obtain ⟨h1, h2, h3⟩ := hn ha
        generalize convertFrom C data st e true = cf at h1 h2 h3
        obtain ⟨st', ou⟩ := cf
        simp only at h1 h2 h3
        subst h1
        exact ih st' h2 h3
    · simp only [hasc, Bool.false_eq_true, if_false]
      exact ih st hinv hnd

/-- the whole constructor body on non-empty bytes: result triple = the documented meaning over the
    given candidate list, and `tried_encodings` has no repeats -/
theorem dammitBytes_spec (C : Codecs) (a : Args) (data : Bytes) (bom declared : Option Name) :
    ((dammitBytes C a data bom declared).text, (dammitBytes C a data bom declared).originalEncoding,
      (dammitBytes C a data bom declared).containsReplacement)
        = dammitSpec C data (detectorEncodings a bom declared (C.chardet data))
      ∧ (dammitBytes C a data bom declared).tried.Nodup := by
  unfold dammitBytes dammitSpec
  dsimp only
  generalize detectorEncodings a bom declared (C.chardet data) = cands
  obtain ⟨h1s, h1n⟩ := pass1_spec C data cands {} (inv_init C data) List.nodup_nil
  cases hf : cands.findSome? (attempt C data false) with
  | some ru =>
    obtain ⟨r0, u⟩ := ru
    obtain ⟨x1, x2, x3⟩ := h1s r0 u hf
    generalize pass1 C data cands {} = p at x1 x2 x3 ⊢
    obtain ⟨st, ou⟩ := p
    simp only at x1 x2 x3
    subst x1
    exact ⟨by simp [x2], x3⟩
  | none =>
    obtain ⟨x1, x2, x3⟩ := h1n hf
    generalize pass1 C data cands {} = p at x1 x2 x3 ⊢
    obtain ⟨st, ou⟩ := p
    simp only at x1 x2 x3
    subst x1
    simp only
    obtain ⟨h2s, h2n⟩ := pass2_spec C data cands st x2 x3
    cases hg : (cands.filter (· != ascii)).findSome? (attempt C data true) with
    | some ru =>
      obtain ⟨r0, u⟩ := ru
      obtain ⟨y1, y2, y3⟩ := h2s r0 u hg
      generalize pass2 C data cands st = p at y1 y2 y3 ⊢
      obtain ⟨st2, ou⟩ := p
      simp only at y1 y2 y3
      subst y1
      exact ⟨by simp [y2], y3⟩
    | none =>
      obtain ⟨y1, y2, y3⟩ := h2n hg
      generalize pass2 C data cands st = p at y1 y2 y3 ⊢
      obtain ⟨st2, ou⟩ := p
      simp only at y1 y2 y3
      subst y1
      exact ⟨by simp, y3⟩

end BS.EncodingIn
