import BSModel.Model.EncodingOut
/-! helper lemmas for C08 (core only) -/
namespace BS.EncodingOut
open BS BS.Gen.EncodingOut

/-! ### decimal numerals -/

theorem toDecAux_foldl (f : Nat) : ∀ (n : Nat) (acc : PStr), n < f →
    (toDecAux f n acc).foldl (fun a d => 10 * a + (d - 48)) 0 = acc.foldl (fun a d => 10 * a + (d - 48)) n := by
  induction f with
  | zero => intro n acc h; omega
  | succ f ih =>
    intro n acc h
    unfold toDecAux
    split
    · simp only [List.foldl_cons]
      congr 1; omega
    · rw [ih (n / 10) _ (by omega)]
      simp only [List.foldl_cons]
      congr 1; omega

theorem ofDec_toDec (n : Nat) : ofDec (toDec n) = n := by
  unfold ofDec toDec
  rw [toDecAux_foldl (n + 1) n [] (by omega)]
  rfl

theorem toDecAux_digits (f : Nat) : ∀ (n : Nat) (acc : PStr), (∀ d ∈ acc, isDigit d = true) →
    ∀ d ∈ toDecAux f n acc, isDigit d = true := by
  induction f with
  | zero => intro n acc h; simpa [toDecAux] using h
  | succ f ih =>
    intro n acc h
    unfold toDecAux
    split
    · intro d hd
      rcases List.mem_cons.mp hd with rfl | hd
      · simp [isDigit]; omega
      · exact h d hd
    · apply ih
      intro d hd
      rcases List.mem_cons.mp hd with rfl | hd
      · simp [isDigit]; omega
      · exact h d hd

theorem toDec_digits (n : Nat) : ∀ d ∈ toDec n, isDigit d = true :=
  toDecAux_digits (n + 1) n [] (by simp)

theorem toDecAux_length (f : Nat) : ∀ (n : Nat) (acc : PStr), acc.length ≤ (toDecAux f n acc).length := by
  induction f with
  | zero => intro n acc; simp [toDecAux]
  | succ f ih =>
    intro n acc
    unfold toDecAux
    split
    · simp
    · have := ih (n / 10) ((48 + n % 10) :: acc)
      simp only [List.length_cons] at this
      omega

theorem toDec_ne_nil (n : Nat) : toDec n ≠ [] := by
  unfold toDec toDecAux
  split
  · simp
  · intro h
    have := toDecAux_length n (n / 10) [48 + n % 10]
    rw [h] at this
    simp at this

theorem toDec_lt128 (n : Nat) : ∀ d ∈ toDec n, d < 128 := by
  intro d hd
  have := toDec_digits n d hd
  simp [isDigit] at this
  omega

theorem toDecAux_length_le (f : Nat) : ∀ (k n : Nat) (acc : PStr), n < 10 ^ (k + 1) →
    (toDecAux f n acc).length ≤ acc.length + (k + 1) := by
  induction f with
  | zero => intro k n acc _; simp [toDecAux]
  | succ f ih =>
    intro k n acc h
    unfold toDecAux
    split
    · simp
    · rename_i h10
      cases k with
      | zero => simp at h; omega
      | succ k =>
        have : n / 10 < 10 ^ (k + 1) := by
          have : 10 ^ (k + 1 + 1) = 10 * 10 ^ (k + 1) := by rw [Nat.pow_succ]; omega
          omega
        have := ih k (n / 10) ((48 + n % 10) :: acc) this
        simp only [List.length_cons] at this
        omega

/-- a reference to a code point of the Unicode range has at most 7 digits: `&#1114111;` is the longest -/
theorem toDec_length_le (n : Nat) (h : n < 0x110000) : (toDec n).length ≤ 7 := by
  have := toDecAux_length_le (n + 1) 6 n [] (by simp; omega)
  simpa [toDec] using this

/-! ### xmlcharrefreplace -/

theorem xcr_append (C : Codec) (a b : PStr) :
    xmlcharrefreplace C (a ++ b) = xmlcharrefreplace C a ++ xmlcharrefreplace C b := by
  simp [xmlcharrefreplace, List.flatMap_append]

theorem xcr_ascii (C : Codec) (h : C.AsciiOK) (a : PStr) (ha : ∀ c ∈ a, c < 128) : xmlcharrefreplace C a = a := by
  induction a with
  | nil => rfl
  | cons c cs ih =>
    have hc : C.canEnc c = true := h c (ha c (by simp))
    have := ih (fun x hx => ha x (by simp [hx]))
    simp only [xmlcharrefreplace, List.flatMap_cons, xcrChar, hc] at this ⊢
    simp [this]

theorem xcr_encodable_id (C : Codec) (s : PStr) (h : C.Encodable s) : xmlcharrefreplace C s = s := by
  induction s with
  | nil => rfl
  | cons c cs ih =>
    have hc : C.canEnc c = true := h c (by simp)
    have := ih (fun x hx => h x (by simp [hx]))
    simp only [xmlcharrefreplace, List.flatMap_cons, xcrChar, hc] at this ⊢
    simp [this]

theorem charref_lt128 (c : Nat) : ∀ d ∈ charref c, d < 128 := by
  intro d hd
  have e : charref c = 38 :: 35 :: (toDec c ++ [59]) := by simp [charref]
  rw [e] at hd
  simp only [List.mem_append, List.mem_cons, List.not_mem_nil, or_false] at hd
  rcases hd with rfl | rfl | hd | rfl
  · omega
  · omega
  · exact toDec_lt128 c d hd
  · omega

/-- the replaced string is encodable as soon as ASCII is -/
theorem xcr_encodable (C : Codec) (h : C.AsciiOK) (s : PStr) : C.Encodable (xmlcharrefreplace C s) := by
  intro d hd
  simp only [xmlcharrefreplace, List.mem_flatMap] at hd
  obtain ⟨c, _, hd⟩ := hd
  unfold xcrChar at hd
  split at hd
  · simp at hd; subst hd; assumption
  · exact h d (charref_lt128 c d hd)

theorem firstBad_none (C : Codec) : ∀ (s : PStr) (i : Nat), C.Encodable s → firstBad C i s = none := by
  intro s
  induction s with
  | nil => intro i _; rfl
  | cons c cs ih =>
    intro i h
    have hc : C.canEnc c = true := h c (by simp)
    simp only [firstBad, hc, if_true]
    exact ih (i + 1) (fun x hx => h x (by simp [hx]))

theorem firstBad_some (C : Codec) : ∀ (s : PStr) (i : Nat), (∃ c ∈ s, C.canEnc c = false) →
    ∃ p c, firstBad C i s = some (p, c) ∧ C.canEnc c = false := by
  intro s
  induction s with
  | nil => intro i ⟨c, hc, _⟩; simp at hc
  | cons c cs ih =>
    intro i ⟨x, hx, hxe⟩
    cases hc : C.canEnc c
    · exact ⟨i, c, by simp [firstBad, hc], hc⟩
    · simp only [firstBad, hc, if_true]
      rcases List.mem_cons.mp hx with rfl | hx
      · rw [hc] at hxe; cases hxe
      · exact ih (i + 1) ⟨x, hx, hxe⟩

/-! ### the other error handlers -/

theorem handled_xcr (C : Codec) (s : PStr) : handled C .xmlcharrefreplace s = xmlcharrefreplace C s := by
  simp only [handled, xmlcharrefreplace, replacementFor, Option.getD_some]
  congr 1

theorem hexDigit_lt128 (d : Nat) (h : d < 16) : hexDigit d < 128 := by
  unfold hexDigit; split <;> omega

theorem toHexFixed_lt128 (w : Nat) : ∀ (n : Nat), ∀ d ∈ toHexFixed w n, d < 128 := by
  induction w with
  | zero => intro n d hd; simp [toHexFixed] at hd
  | succ w ih =>
    intro n d hd
    simp only [toHexFixed, List.mem_append, List.mem_singleton] at hd
    rcases hd with hd | rfl
    · exact ih _ d hd
    · exact hexDigit_lt128 _ (Nat.mod_lt _ (by omega))

theorem backslashEscape_lt128 (c : Nat) : ∀ d ∈ backslashEscape c, d < 128 := by
  intro d hd
  unfold backslashEscape at hd
  split at hd
  · simp only [List.mem_append, List.mem_cons, List.not_mem_nil, or_false] at hd
    rcases hd with (rfl | rfl) | hd
    · omega
    · omega
    · exact toHexFixed_lt128 _ _ d hd
  · split at hd
    · simp only [List.mem_append, List.mem_cons, List.not_mem_nil, or_false] at hd
      rcases hd with (rfl | rfl) | hd
      · omega
      · omega
      · exact toHexFixed_lt128 _ _ d hd
    · simp only [List.mem_append, List.mem_cons, List.not_mem_nil, or_false] at hd
      rcases hd with (rfl | rfl) | hd
      · omega
      · omega
      · exact toHexFixed_lt128 _ _ d hd

theorem replacement_lt128 (h : Handler) (c : Nat) : ∀ d ∈ (replacementFor h c).getD [], d < 128 := by
  intro d hd
  cases h with
  | strict => simp [replacementFor] at hd
  | ignore => simp [replacementFor] at hd
  | replace => simp [replacementFor] at hd; omega
  | xmlcharrefreplace => exact charref_lt128 c d (by simpa [replacementFor] using hd)
  | backslashreplace => exact backslashEscape_lt128 c d (by simpa [replacementFor] using hd)

/-- whatever a handler substitutes is ASCII, so the handled string is encodable as soon as ASCII is -/
theorem handled_encodable (C : Codec) (hA : C.AsciiOK) (h : Handler) (s : PStr) : C.Encodable (handled C h s) := by
  intro d hd
  simp only [handled, List.mem_flatMap] at hd
  obtain ⟨c, _, hd⟩ := hd
  split at hd
  · simp at hd; subst hd; assumption
  · exact hA d (replacement_lt128 h c d hd)

theorem pyEncode_nonstrict (C : Codec) (hA : C.AsciiOK) (h : Handler) (hs : h ≠ .strict) (s : PStr) :
    pyEncode C h s = .bytes (C.enc (handled C h s)) := by
  cases h with
  | strict => exact absurd rfl hs
  | ignore => simp only [pyEncode, firstBad_none C _ 0 (handled_encodable C hA _ s)]
  | replace => simp only [pyEncode, firstBad_none C _ 0 (handled_encodable C hA _ s)]
  | xmlcharrefreplace => simp only [pyEncode, firstBad_none C _ 0 (handled_encodable C hA _ s)]
  | backslashreplace => simp only [pyEncode, firstBad_none C _ 0 (handled_encodable C hA _ s)]

theorem handled_encodable_id (C : Codec) (h : Handler) (s : PStr) (hs : C.Encodable s) : handled C h s = s := by
  induction s with
  | nil => rfl
  | cons c cs ih =>
    have hc : C.canEnc c = true := hs c (by simp)
    have := ih (fun x hx => hs x (by simp [hx]))
    simp only [handled, List.flatMap_cons, hc, if_true] at this ⊢
    simp [this]

/-! ### the reader on the writer's image -/

/-- what the writer makes of one character: `&amp; &lt; &gt;`, `&quot;` when the value is double-quoted and holds both
    quotes (`q`), the character itself when encodable, else its decimal reference -/
def wChar (C : Codec) (q : Bool) (c : Nat) : PStr :=
  if c = 38 then [38, 97, 109, 112, 59]
  else if c = 60 then [38, 108, 116, 59]
  else if c = 62 then [38, 103, 116, 59]
  else if q && c = 34 then [38, 113, 117, 111, 116, 59]
  else xcrChar C c

theorem readGo_skip (rule : Nat → PStr) : ∀ (pre rest : PStr), readGo rule pre.length (pre ++ rest) = readGo rule 0 rest := by
  intro pre
  induction pre with
  | nil => intro rest; rfl
  | cons c cs ih =>
    intro rest
    simp only [List.length_cons, List.cons_append]
    cases hr : cs ++ rest with
    | nil =>
      have h1 : cs = [] := by cases cs <;> simp_all
      have h2 : rest = [] := by cases cs <;> simp_all
      subst h1; subst h2; simp [readGo]
    | cons d ds =>
      rw [readGo, ← hr]
      exact ih rest

theorem takeWhile_digits (l r : PStr) (h : ∀ d ∈ l, isDigit d = true) :
    (l ++ 59 :: r).takeWhile isDigit = l := by
  rw [List.takeWhile_append_of_pos h]
  simp [List.takeWhile, isDigit]

theorem matchRef_charref (rule : Nat → PStr) (c : Nat) (rest : PStr) :
    matchRef rule (35 :: (toDec c ++ 59 :: rest)) = some (rule c, (toDec c).length + 2) := by
  simp only [matchRef]
  rw [takeWhile_digits _ _ (toDec_digits c)]
  have hne : (toDec c).isEmpty = false := by
    cases h : toDec c with
    | nil => exact absurd h (toDec_ne_nil c)
    | cons _ _ => rfl
  simp only [hne, List.drop_left, ofDec_toDec]
  rfl

theorem read_charref (rule : Nat → PStr) (c : Nat) (rest : PStr) :
    readGo rule 0 (charref c ++ rest) = rule c ++ readGo rule 0 rest := by
  have e : charref c ++ rest = 38 :: 35 :: (toDec c ++ 59 :: rest) := by simp [charref]
  rw [e, readGo]
  simp only [if_true]
  rw [matchRef_charref]
  simp only
  have := readGo_skip rule (35 :: (toDec c ++ [59])) rest
  simp only [List.length_cons, List.length_append, List.length_nil, List.cons_append, List.append_assoc,
    List.nil_append] at this
  rw [← this]

theorem read_wChar (C : Codec) (h : C.AsciiOK) (rule : Nat → PStr) (q : Bool) (c : Nat) (rest : PStr) :
    readGo rule 0 (wChar C q c ++ rest) = (if C.canEnc c then [c] else rule c) ++ readGo rule 0 rest := by
  unfold wChar
  split
  · rename_i h38; subst h38
    simp [readGo, matchRef, h 38 (by omega)]
  · split
    · rename_i _ h60; subst h60
      simp [readGo, matchRef, h 60 (by omega)]
    · split
      · rename_i _ _ h62; subst h62
        simp [readGo, matchRef, h 62 (by omega)]
      · split
        · rename_i _ _ _ hq
          have h34 : c = 34 := by simp at hq; exact hq.2
          subst h34
          simp [readGo, matchRef, h 34 (by omega)]
        · rename_i h38 _ _ _
          unfold xcrChar
          cases hc : C.canEnc c
          · simp only [Bool.false_eq_true, if_false]
            exact read_charref rule c rest
          · simp [readGo, h38]

theorem read_flatMap (C : Codec) (h : C.AsciiOK) (rule : Nat → PStr) (q : Bool) : ∀ (s rest : PStr),
    readGo rule 0 (s.flatMap (wChar C q) ++ rest)
      = s.flatMap (fun c => if C.canEnc c then [c] else rule c) ++ readGo rule 0 rest := by
  intro s
  induction s with
  | nil => intro rest; rfl
  | cons c cs ih =>
    intro rest
    simp only [List.flatMap_cons, List.append_assoc]
    rw [read_wChar C h, ih]

theorem readGo_nil (rule : Nat → PStr) (k : Nat) : readGo rule k [] = [] := by
  cases k <;> rfl

/-- reading what the writer wrote: encodable characters as they are, the others through the reader's numeric rule -/
theorem read_written (C : Codec) (h : C.AsciiOK) (rule : Nat → PStr) (q : Bool) (s : PStr) :
    readCharrefs rule (s.flatMap (wChar C q)) = s.flatMap (fun c => if C.canEnc c then [c] else rule c) := by
  have := read_flatMap C h rule q s []
  simpa [readCharrefs, readGo_nil] using this

theorem flatMap_self (s : PStr) (f : Nat → PStr) (h : ∀ c ∈ s, f c = [c]) : s.flatMap f = s := by
  induction s with
  | nil => rfl
  | cons c cs ih =>
    simp only [List.flatMap_cons, h c (by simp)]
    rw [ih (fun x hx => h x (by simp [hx]))]
    rfl

/-! ### the writer as one pass -/

theorem xcr_small (C : Codec) (h : C.AsciiOK) (a : PStr) (ha : ∀ c ∈ a, c < 128) : a.flatMap (xcrChar C) = a :=
  xcr_ascii C h a ha

theorem esc_xcr (C : Codec) (h : C.AsciiOK) (c : Nat) : (escXml c).flatMap (xcrChar C) = wChar C false c := by
  unfold escXml wChar
  split
  · exact xcr_small C h _ (by simp <;> omega)
  · split
    · exact xcr_small C h _ (by simp <;> omega)
    · split
      · exact xcr_small C h _ (by simp <;> omega)
      · simp

theorem esc_quot_xcr (C : Codec) (h : C.AsciiOK) (c : Nat) :
    ((escXml c).flatMap escQuot).flatMap (xcrChar C) = wChar C true c := by
  unfold escXml wChar
  split
  · exact xcr_small C h _ (by simp [escQuot] <;> omega)
  · split
    · exact xcr_small C h _ (by simp [escQuot] <;> omega)
    · split
      · exact xcr_small C h _ (by simp [escQuot] <;> omega)
      · by_cases h34 : c = 34
        · subst h34
          exact xcr_small C h _ (by simp [escQuot] <;> omega)
        · simp [escQuot, h34]

theorem written_text (C : Codec) (h : C.AsciiOK) (s : PStr) :
    xmlcharrefreplace C (substituteXml s) = s.flatMap (wChar C false) := by
  simp only [xmlcharrefreplace, substituteXml, List.flatMap_assoc]
  congr 1
  funext c
  exact esc_xcr C h c

theorem written_quot (C : Codec) (h : C.AsciiOK) (s : PStr) :
    xmlcharrefreplace C ((substituteXml s).flatMap escQuot) = s.flatMap (wChar C true) := by
  simp only [xmlcharrefreplace, substituteXml, List.flatMap_assoc]
  congr 1
  funext c
  have := esc_quot_xcr C h c
  simpa [List.flatMap_assoc] using this

theorem xcr_quoted (C : Codec) (h : C.AsciiOK) (q : Nat) (hq : q < 128) (body : PStr) :
    xmlcharrefreplace C ([q] ++ body ++ [q]) = [q] ++ xmlcharrefreplace C body ++ [q] := by
  rw [xcr_append, xcr_append, xcr_ascii C h [q] (by simpa using hq)]

theorem readAttr_quoted (q : Nat) (body : PStr) : readAttr ([q] ++ body ++ [q]) = readCharrefs attrCharref body := by
  simp [readAttr]

/-! ### single-byte table codecs -/

theorem tableCodec_roundTrip (tbl : List Nat) : (tableCodec tbl).RoundTrip := by
  intro s hs
  have key : ∀ c ∈ s, tbl.idxOf c < tbl.length ∧ tbl.getD (tbl.idxOf c) undef = c ∧ c < undef := by
    intro c hc
    have := hs c hc
    simp only [tableCodec, Bool.and_eq_true, decide_eq_true_eq, List.contains_iff_mem] at this
    have hl : tbl.idxOf c < tbl.length := List.idxOf_lt_length_iff.mpr this.2
    refine ⟨hl, ?_, this.1⟩
    rw [List.getD_eq_getElem?_getD, List.getElem?_eq_getElem hl]
    simp [List.getElem_idxOf hl]
  simp only [tableCodec]
  have hall : (s.map (fun c => tbl.idxOf c)).all (fun x => decide (x < tbl.length) && decide (tbl.getD x undef < undef)) = true := by
    simp only [List.all_map, List.all_eq_true]
    intro c hc
    obtain ⟨h1, h2, h3⟩ := key c hc
    simp [h1, h3]
  rw [if_pos hall]
  congr 1
  rw [List.map_map]
  conv => rhs; rw [← List.map_id s]
  apply List.map_congr_left
  intro c hc
  show tbl.getD (tbl.idxOf c) undef = c
  exact (key c hc).2.1

/-- efficient checkers for a decode table: every ASCII code point is in it / sits at its own index -/
def tableAsciiOK (tbl : List Nat) : Bool := (List.range 128).all (fun c => tbl.contains c)
def tableAsciiAt (tbl : List Nat) : Bool := (List.range 128).all (fun c => tbl.idxOf c == c)

theorem tableCodec_asciiOK (tbl : List Nat) (h : tableAsciiOK tbl = true) : (tableCodec tbl).AsciiOK := by
  intro c hc
  have := List.all_eq_true.mp h c (List.mem_range.mpr hc)
  simp only [tableCodec, Bool.and_eq_true, decide_eq_true_eq]
  exact ⟨by simp [undef]; omega, this⟩

theorem tableCodec_asciiCompat (tbl : List Nat) (h : tableAsciiAt tbl = true) : (tableCodec tbl).AsciiCompat := by
  intro a s ha _
  show (a ++ s).map (fun c => tbl.idxOf c) = a ++ s.map (fun c => tbl.idxOf c)
  rw [List.map_append]
  congr 1
  conv => rhs; rw [← List.map_id a]
  apply List.map_congr_left
  intro c hc
  have := List.all_eq_true.mp h c (List.mem_range.mpr (ha c hc))
  simpa using this

/-! ### predicates of the losslessness statement, table facts, reader rules on safe numbers -/

def isC1 (c : Nat) : Bool := 128 ≤ c && c ≤ 159
def isSurrogate (c : Nat) : Bool := 0xD800 ≤ c && c ≤ 0xDFFF
/-- U+FDD0–U+FDEF and the last two code points of every plane -/
def isNonchar (c : Nat) : Bool := (0xFDD0 ≤ c && c ≤ 0xFDEF) || (c % 0x10000 ≥ 0xFFFE)

/-- Text survives unless it holds a C1 control the target cannot carry (decidable given the codec). -/
def CharrefSafeText (C : Codec) (s : PStr) : Bool := s.all (fun c => C.canEnc c || (!isC1 c && c < undef))

/-- Attribute values: additionally no unencodable noncharacter or surrogate. -/
def CharrefSafeAttr (C : Codec) (s : PStr) : Bool :=
  s.all (fun c => C.canEnc c || (!isC1 c && c < undef && !isNonchar c && !isSurrogate c))

/-- table fact (generated windows-1252 table): outside 0x80–0x9F, byte `n` of windows-1252 is U+`n` -/
theorem cp1252_table :
    (List.range 256).all (fun n => isC1 n || cp1252Decode.getD n undef == n) = true := by decide +kernel

/-- table fact (generated `html.unescape` tables): every number it rewrites or drops is below 160 or a noncharacter -/
theorem unescape_tables :
    invalidCharrefs.all (fun kv => kv.1 < 160) = true ∧ invalidCodepoints.all (fun c => c < 160 || isNonchar c) = true := by
  constructor <;> decide +kernel

theorem textCharref_safe (orig : Nat → Option Nat) (n : Nat) (h1 : isC1 n = false) (h2 : n < undef) :
    textCharref orig n = [n] := by
  unfold textCharref
  by_cases hn : n < 256
  · have := List.all_eq_true.mp cp1252_table n (List.mem_range.mpr hn)
    simp only [h1, Bool.false_or, beq_iff_eq] at this
    simp only [hn, if_true, this, h2]
  · simp only [hn, if_false, h2, if_true]

theorem lookupCharref_none (n : Nat) : ∀ (l : List (Nat × PStr)), l.all (fun kv => kv.1 < 160) = true → 160 ≤ n →
    lookupCharref n l = none := by
  intro l
  induction l with
  | nil => intros; rfl
  | cons kv rest ih =>
    intro h hn
    obtain ⟨k, v⟩ := kv
    simp only [List.all_cons, Bool.and_eq_true, decide_eq_true_eq] at h
    have : k ≠ n := by omega
    simp only [lookupCharref, this, if_false]
    exact ih h.2 hn

theorem attrCharref_safe (n : Nat) (h0 : 160 ≤ n) (h2 : n < undef) (h3 : isNonchar n = false) (h4 : isSurrogate n = false) :
    attrCharref n = [n] := by
  unfold attrCharref
  rw [lookupCharref_none n _ unescape_tables.1 h0]
  have hs : ((0xD800 ≤ n && n ≤ 0xDFFF) || decide (n > 0x10FFFF)) = false := by
    simp only [isSurrogate] at h4
    simp only [undef] at h2
    simp only [h4, Bool.false_or, decide_eq_false_iff_not]
    omega
  have hc : invalidCodepoints.contains n = false := by
    cases hcon : invalidCodepoints.contains n
    · rfl
    · have hm := List.contains_iff_mem.mp hcon
      have := List.all_eq_true.mp unescape_tables.2 n hm
      simp only [h3, Bool.or_false, decide_eq_true_eq] at this
      omega
  simp only [hs, hc, Bool.false_eq_true, if_false]

/-! ### attribute lookup, the `CHARSET_RE.sub` scanner, the finder -/

theorem lookup_setAttr (k : PStr) (v : AttrVal) : ∀ (l : List (PStr × AttrVal)), lookupAttr k (setAttr k v l) = some v := by
  intro l
  induction l with
  | nil => simp [setAttr, lookupAttr]
  | cons a rest ih =>
    obtain ⟨k', v'⟩ := a
    by_cases hk : k' = k
    · simp [setAttr, lookupAttr, hk]
    · simp [setAttr, lookupAttr, hk, ih]

theorem lookup_setAttr_ne (k k' : PStr) (v : AttrVal) (hk : k ≠ k') :
    ∀ (l : List (PStr × AttrVal)), lookupAttr k (setAttr k' v l) = lookupAttr k l := by
  intro l
  induction l with
  | nil => simp [setAttr, lookupAttr, Ne.symm hk]
  | cons a rest ih =>
    obtain ⟨k2, v2⟩ := a
    by_cases h2 : k2 = k'
    · subst h2
      simp [setAttr, lookupAttr, Ne.symm hk]
    · by_cases h3 : k2 = k
      · subst h3
        simp [setAttr, lookupAttr, hk]
      · simp [setAttr, lookupAttr, h2, h3, ih]

theorem lookup_subCharsetStep (k : PStr) (hk : k ≠ ofS "charset") (l : List (PStr × AttrVal)) :
    lookupAttr k (subCharsetStep l) = lookupAttr k l := by
  unfold subCharsetStep
  split
  · rfl
  · exact lookup_setAttr_ne k _ _ hk l
  · rfl

theorem lookup_subContentStep (k : PStr) (hk : k ≠ ofS "content") (l : List (PStr × AttrVal)) :
    lookupAttr k (subContentStep l) = lookupAttr k l := by
  unfold subContentStep
  split
  · rfl
  · split
    · exact lookup_setAttr_ne k _ _ hk l
    · rfl
  · rfl

theorem subCharsetStep_some (attrs : List (PStr × AttrVal)) (old : AttrVal)
    (h : lookupAttr (ofS "charset") attrs = some old) (hn : old ≠ .novalue) :
    subCharsetStep attrs = setAttr (ofS "charset") (.charsetMeta old.str) attrs := by
  unfold subCharsetStep
  rw [h]
  cases old <;> first | rfl | exact absurd rfl hn

theorem subCharsetStep_none (attrs : List (PStr × AttrVal)) (h : lookupAttr (ofS "charset") attrs = none) :
    subCharsetStep attrs = attrs := by
  unfold subCharsetStep; rw [h]

theorem subContentStep_some (attrs : List (PStr × AttrVal)) (ct he : AttrVal)
    (h1 : lookupAttr (ofS "content") attrs = some ct) (hn : ct ≠ .novalue)
    (h2 : lookupAttr (ofS "http-equiv") attrs = some he) (h3 : isContentType he = true) :
    subContentStep attrs = setAttr (ofS "content") (.contentMeta ct.str) attrs := by
  unfold subContentStep
  rw [h1, h2]
  cases ct <;> first | exact absurd rfl hn | (simp only [h3, if_true])

theorem subContentStep_no_content (attrs : List (PStr × AttrVal)) (h : lookupAttr (ofS "content") attrs = none) :
    subContentStep attrs = attrs := by
  unfold subContentStep; rw [h]

theorem subContentStep_no_equiv (attrs : List (PStr × AttrVal)) (h : lookupAttr (ofS "http-equiv") attrs = none) :
    subContentStep attrs = attrs := by
  unfold subContentStep; rw [h]
  cases lookupAttr (ofS "content") attrs with
  | none => rfl
  | some ct => cases ct <;> rfl

theorem lookup_mergeAttrs_last (k : PStr) (v : AttrVal) (kw attrs : List (PStr × AttrVal)) :
    lookupAttr k (mergeAttrs kw (attrs ++ [(k, v)])) = some v := by
  simp [mergeAttrs, List.foldl_append, lookup_setAttr]

theorem lookup_mergeAttrs_absent (k : PStr) : ∀ (attrs kw : List (PStr × AttrVal)), (∀ a ∈ attrs, a.1 ≠ k) →
    lookupAttr k (mergeAttrs kw attrs) = lookupAttr k kw := by
  intro attrs
  induction attrs with
  | nil => intro kw _; rfl
  | cons a rest ih =>
    intro kw h
    have ha : k ≠ a.1 := fun e => h a (by simp) e.symm
    simp only [mergeAttrs, List.foldl_cons] at ih ⊢
    rw [ih _ (fun b hb => h b (by simp [hb])), lookup_setAttr_ne k a.1 a.2 ha]

theorem subGo_drop (repl : PStr → PStr) : ∀ (l : PStr) (b : Bool), subGo repl l.length b l = [] := by
  intro l
  induction l with
  | nil => intro b; rfl
  | cons c cs ih => intro b; simp only [List.length_cons, subGo]; exact ih _

theorem matchAt_false_ne (c : Nat) (t : PStr) (h : c ≠ 59) : matchAt false (c :: t) = none := by
  unfold matchAt
  simp only [Bool.false_eq_true, if_false]
  split
  · rename_i heq; cases heq; exact absurd rfl h
  · rfl

theorem subGo_plain (repl : PStr → PStr) : ∀ (m rest : PStr), (∀ c ∈ m, c ≠ 59 ∧ c ≠ 10) →
    subGo repl 0 false (m ++ rest) = m ++ subGo repl 0 false rest := by
  intro m
  induction m with
  | nil => intro rest _; rfl
  | cons c cs ih =>
    intro rest h
    have hc := h c (by simp)
    have h10 : (c == 10) = false := by simp [hc.2]
    simp only [List.cons_append, subGo, matchAt_false_ne c _ hc.1, h10, Bool.and_false]
    rw [ih rest (fun x hx => h x (by simp [hx]))]

/-- a media type as it stands before the `;`: no `;`, no line feed, and its first character is neither white space nor
    one the live pattern accepts for the `c` of `charset` -/
def MimeLike (m : PStr) : Prop :=
  (∀ c ∈ m, c ≠ 59 ∧ c ≠ 10) ∧ ∃ c cs, m = c :: cs ∧ isReSpace c = false ∧ (charsetReLiteral.headD []).contains c = false

/-- the key `; charset=` is accepted by the live pattern, whatever follows (as long as the value does not begin with
    white space, which the tolerant pattern counts to the key) -/
theorem key_accepted (old : PStr) (h : old.dropWhile isReSpace = old) : matchKey (ofS " charset=" ++ old) = some old := by
  simp [matchKey, ofS, List.dropWhile, isReSpace, charsetReSpace, charsetReSpaceTolerant, charsetReLiteral, matchClasses, h]

theorem matchClasses_head_none (cls : List Nat) (more : List (List Nat)) (c : Nat) (t : PStr)
    (h : cls.contains c = false) : matchClasses (cls :: more) (c :: t) = none := by
  rw [matchClasses]
  simp only [h, Bool.false_eq_true, if_false]

theorem takeWhile_all (p : Nat → Bool) (l : PStr) (h : ∀ x ∈ l, p x = true) : l.takeWhile p = l := by
  have := List.takeWhile_append_of_pos (l₂ := []) h
  simpa using this

/-- a charset name as it can stand in a declaration: ASCII, no white space, none of the characters that end the
    detector's group -/
def NameLike (e : PStr) : Prop := ∀ c ∈ e, c < 128 ∧ isTerminator c = false ∧ isAsciiSpace c = false

theorem takeWhile_name (e rest : PStr) (h : NameLike e) :
    (e ++ 34 :: rest).takeWhile (fun c => !isTerminator c) = e := by
  rw [List.takeWhile_append_of_pos (fun a ha => by simp [(h a ha).2.1])]
  simp [List.takeWhile, isTerminator]

theorem declValue_name (e rest : PStr) (h : NameLike e) : declValue (e ++ 34 :: rest) = some e := by
  simp [declValue, takeWhile_name e rest h]

theorem ascii_prefix (e : PStr) (he : NameLike e) (lit : PStr) (hl : lit.all (fun c => c < 128) = true) :
    ∀ c ∈ lit ++ e ++ [34], c < 128 := by
  intro c hc
  simp only [List.mem_append] at hc
  rcases hc with (hc | hc) | hc
  · have := List.all_eq_true.mp hl c hc; simpa using this
  · exact (he c hc).1
  · simp at hc; omega

/-! ### the finder skips a prefix in which the word `charset` does not occur -/

/-- no occurrence of the word `charset` (ASCII case-insensitively) begins inside `pre`, given that `charset=` follows -/
def quietDecl : PStr → Bool
  | [] => true
  | c :: cs => (lowerIs (ofS "charset") (c :: cs ++ ofS "charset=")).isNone && quietDecl cs

theorem lowerIs_append (a X : PStr) (h : 7 ≤ a.length) (hn : lowerIs (ofS "charset") a = none) :
    lowerIs (ofS "charset") (a ++ X) = none := by
  have hl : (ofS "charset").length = 7 := by decide
  unfold lowerIs at hn ⊢
  rw [hl] at hn ⊢
  rw [List.take_append_of_le_length h]
  split at hn
  · cases hn
  · rename_i hne; rw [if_neg hne]

theorem findDeclared_quiet : ∀ (pre Y : PStr), quietDecl pre = true →
    findDeclared (pre ++ (ofS "charset=" ++ Y)) = findDeclared (ofS "charset=" ++ Y) := by
  intro pre
  induction pre with
  | nil => intro Y _; rfl
  | cons c cs ih =>
    intro Y h
    simp only [quietDecl, Bool.and_eq_true, Option.isNone_iff_eq_none] at h
    have hl : lowerIs (ofS "charset") (c :: cs ++ (ofS "charset=" ++ Y)) = none := by
      have := lowerIs_append (c :: cs ++ ofS "charset=") Y (by simp [ofS]) h.1
      simpa using this
    simp only [List.cons_append] at hl ⊢
    rw [findDeclared, declAt, hl]
    exact ih Y h.2

theorem findDeclared_key_quoted (e rest : PStr) (he : NameLike e) :
    findDeclared (ofS "charset=" ++ (34 :: (e ++ 34 :: rest))) = some e := by
  have e1 : ofS "charset=" ++ (34 :: (e ++ 34 :: rest)) = 99 :: 104 :: 97 :: 114 :: 115 :: 101 :: 116 :: 61 :: 34 :: (e ++ 34 :: rest) := by
    simp [ofS]
  rw [e1]
  have step : ∀ X, findDeclared (99 :: 104 :: 97 :: 114 :: 115 :: 101 :: 116 :: 61 :: 34 :: X)
      = match declValue X with | some v => some v | none => findDeclared (104 :: 97 :: 114 :: 115 :: 101 :: 116 :: 61 :: 34 :: X) := by
    intro X; rfl
  rw [step, declValue_name e _ he]

theorem findDeclared_key_bare (c : Nat) (cs rest : PStr) (he : NameLike (c :: cs)) :
    findDeclared (ofS "charset=" ++ (c :: cs ++ 34 :: rest)) = some (c :: cs) := by
  have hcn := he c (by simp)
  have e1 : ofS "charset=" ++ (c :: cs ++ 34 :: rest) = 99 :: 104 :: 97 :: 114 :: 115 :: 101 :: 116 :: 61 :: (c :: (cs ++ 34 :: rest)) := by
    simp [ofS]
  rw [e1]
  have step : ∀ X, findDeclared (99 :: 104 :: 97 :: 114 :: 115 :: 101 :: 116 :: 61 :: X)
      = match declAfterKey (61 :: X) with | some v => some v | none => findDeclared (104 :: 97 :: 114 :: 115 :: 101 :: 116 :: 61 :: X) := by
    intro X; rfl
  rw [step]
  have hq : stripQuote (c :: (cs ++ 34 :: rest)) = c :: (cs ++ 34 :: rest) := by
    have h34 : c ≠ 34 := by intro h; subst h; simp [isTerminator] at hcn
    have h39 : c ≠ 39 := by intro h; subst h; simp [isTerminator] at hcn
    unfold stripQuote
    split
    · rename_i heq; cases heq; exact absurd rfl h34
    · rename_i heq; cases heq; exact absurd rfl h39
    · rfl
  have hk : declAfterKey (61 :: c :: (cs ++ 34 :: rest)) = some (c :: cs) := by
    have hd1 : (61 :: c :: (cs ++ 34 :: rest)).dropWhile isAsciiSpace = 61 :: c :: (cs ++ 34 :: rest) := by rfl
    have hd2 : (c :: (cs ++ 34 :: rest)).dropWhile isAsciiSpace = c :: (cs ++ 34 :: rest) := by
      simp [List.dropWhile, hcn.2.2]
    unfold declAfterKey
    rw [hd1]
    simp only [hd2, hq]
    exact declValue_name (c :: cs) _ he
  rw [hk]

/-! ### the rewrite is literal: whatever the name is made of, it ends up verbatim in the result -/

theorem subGo_contains (e : PStr) : ∀ (s : PStr) (bol : Bool), charsetReSearch bol s = true →
    e <:+: subGo (fun g1 => g1 ++ e) 0 bol s := by
  intro s
  induction s with
  | nil => intro bol h; simp [charsetReSearch] at h
  | cons c cs ih =>
    intro bol h
    rw [subGo]
    cases hm : matchAt bol (c :: cs) with
    | some gm =>
      obtain ⟨g1, m⟩ := gm
      exact ⟨List.take g1 (c :: cs), subGo (fun g1 => g1 ++ e) (m - 1) (charsetReMultiline && c == 10) cs, rfl⟩
    | none =>
      simp only [charsetReSearch, hm, Option.isSome_none, Bool.false_or] at h
      obtain ⟨a, b, hab⟩ := ih _ h
      exact ⟨c :: a, b, by simp [← hab]⟩

/-- every piece the scanner emits is either a character of the input or `repl` of a prefix of the rest: with the
    Python-specific replacement nothing is ever added -/
theorem subGo_empty_length (s : PStr) : ∀ (k : Nat) (bol : Bool), (subGo (fun _ => []) k bol s).length ≤ s.length := by
  induction s with
  | nil => intro k bol; cases k <;> simp [subGo]
  | cons c cs ih =>
    intro k bol
    cases k with
    | succ k => rw [subGo]; have := ih k (charsetReMultiline && c == 10); simp; omega
    | zero =>
      rw [subGo]
      cases hm : matchAt bol (c :: cs) with
      | some gm => obtain ⟨g1, m⟩ := gm; have := ih (m - 1) (charsetReMultiline && c == 10); simp; omega
      | none => have := ih 0 (charsetReMultiline && c == 10); simp; omega

end BS.EncodingOut
