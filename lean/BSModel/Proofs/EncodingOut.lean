import BSModel.Model.EncodingOut
/-! helper lemmas for C08 (core only) -/
namespace BS.EncodingOut
open BS BS.Gen.EncodingOut

/-! ### decimal numerals -/

theorem toDecAux_foldl (f : Nat) : ∀ (n : Nat) (acc : PStr), n < f →
    (toDecAux f n acc).foldl (fun a d => 10 * a + (d - 48)) 0 = acc.foldl (fun a d => 10 * a + (d - 48)) n := by
  induction f with
  | zero => intro n acc h; omega
  | succ f ih =>
    intro n acc h
    unfold toDecAux
    split
    · simp only [List.foldl_cons]
      congr 1; omega
    · rw [ih (n / 10) _ (by omega)]
      simp only [List.foldl_cons]
      congr 1; omega

theorem ofDec_toDec (n : Nat) : ofDec (toDec n) = n := by
  unfold ofDec toDec
  rw [toDecAux_foldl (n + 1) n [] (by omega)]
  rfl

theorem toDecAux_digits (f : Nat) : ∀ (n : Nat) (acc : PStr), (∀ d ∈ acc, isDigit d = true) →
    ∀ d ∈ toDecAux f n acc, isDigit d = true := by
  induction f with
  | zero => intro n acc h; simpa [toDecAux] using h
  | succ f ih =>
    intro n acc h
    unfold toDecAux
    split
    · intro d hd
      rcases List.mem_cons.mp hd with rfl | hd
      · simp [isDigit]; omega
      · exact h d hd
    · apply ih
      intro d hd
      rcases List.mem_cons.mp hd with rfl | hd
      · simp [isDigit]; omega
      · exact h d hd

theorem toDec_digits (n : Nat) : ∀ d ∈ toDec n, isDigit d = true :=
  toDecAux_digits (n + 1) n [] (by simp)

theorem toDecAux_length (f : Nat) : ∀ (n : Nat) (acc : PStr), acc.length ≤ (toDecAux f n acc).length := by
  induction f with
  | zero => intro n acc; simp [toDecAux]
  | succ f ih =>
    intro n acc
    unfold toDecAux
    split
    · simp
    · have := ih (n / 10) ((48 + n % 10) :: acc)
      simp only [List.length_cons] at this
      omega

theorem toDec_ne_nil (n : Nat) : toDec n ≠ [] := by
  unfold toDec toDecAux
  split
  · simp
  · intro h
    have := toDecAux_length n (n / 10) [48 + n % 10]
    rw [h] at this
    simp at this

theorem toDec_lt128 (n : Nat) : ∀ d ∈ toDec n, d < 128 := by
  intro d hd
  have := toDec_digits n d hd
  simp [isDigit] at this
  omega

/-! ### xmlcharrefreplace -/

theorem xcr_append (C : Codec) (a b : PStr) :
    xmlcharrefreplace C (a ++ b) = xmlcharrefreplace C a ++ xmlcharrefreplace C b := by
  simp [xmlcharrefreplace, List.flatMap_append]

theorem xcr_ascii (C : Codec) (h : C.AsciiOK) (a : PStr) (ha : ∀ c ∈ a, c < 128) : xmlcharrefreplace C a = a := by
  induction a with
  | nil => rfl
  | cons c cs ih =>
    have hc : C.canEnc c = true := h c (ha c (by simp))
    have := ih (fun x hx => ha x (by simp [hx]))
    simp only [xmlcharrefreplace, List.flatMap_cons, xcrChar, hc] at this ⊢
    simp [this]

theorem xcr_encodable_id (C : Codec) (s : PStr) (h : C.Encodable s) : xmlcharrefreplace C s = s := by
  induction s with
  | nil => rfl
  | cons c cs ih =>
    have hc : C.canEnc c = true := h c (by simp)
    have := ih (fun x hx => h x (by simp [hx]))
    simp only [xmlcharrefreplace, List.flatMap_cons, xcrChar, hc] at this ⊢
    simp [this]

theorem charref_lt128 (c : Nat) : ∀ d ∈ charref c, d < 128 := by
  intro d hd
  have e : charref c = 38 :: 35 :: (toDec c ++ [59]) := by simp [charref]
  rw [e] at hd
  simp only [List.mem_append, List.mem_cons, List.not_mem_nil, or_false] at hd
  rcases hd with rfl | rfl | hd | rfl
  · omega
  · omega
  · exact toDec_lt128 c d hd
  · omega

/-- the replaced string is encodable as soon as ASCII is -/
theorem xcr_encodable (C : Codec) (h : C.AsciiOK) (s : PStr) : C.Encodable (xmlcharrefreplace C s) := by
  intro d hd
  simp only [xmlcharrefreplace, List.mem_flatMap] at hd
  obtain ⟨c, _, hd⟩ := hd
  unfold xcrChar at hd
  split at hd
  · simp at hd; subst hd; assumption
  · exact h d (charref_lt128 c d hd)

theorem firstBad_none (C : Codec) : ∀ (s : PStr) (i : Nat), C.Encodable s → firstBad C i s = none := by
  intro s
  induction s with
  | nil => intro i _; rfl
  | cons c cs ih =>
    intro i h
    have hc : C.canEnc c = true := h c (by simp)
    simp only [firstBad, hc, if_true]
    exact ih (i + 1) (fun x hx => h x (by simp [hx]))

theorem firstBad_some (C : Codec) : ∀ (s : PStr) (i : Nat), (∃ c ∈ s, C.canEnc c = false) →
    ∃ p c, firstBad C i s = some (p, c) ∧ C.canEnc c = false := by
  intro s
  induction s with
  | nil => intro i ⟨c, hc, _⟩; simp at hc
  | cons c cs ih =>
    intro i ⟨x, hx, hxe⟩
    cases hc : C.canEnc c
    · exact ⟨i, c, by simp [firstBad, hc], hc⟩
    · simp only [firstBad, hc, if_true]
      rcases List.mem_cons.mp hx with rfl | hx
      · rw [hc] at hxe; cases hxe
      · exact ih (i + 1) ⟨x, hx, hxe⟩

/-! ### the reader on the writer's image -/

/-- what the writer makes of one character: `&amp; &lt; &gt;`, `&quot;` when the value is double-quoted and holds both
    quotes (`q`), the character itself when encodable, else its decimal reference -/
def wChar (C : Codec) (q : Bool) (c : Nat) : PStr :=
  if c = 38 then [38, 97, 109, 112, 59]
  else if c = 60 then [38, 108, 116, 59]
  else if c = 62 then [38, 103, 116, 59]
  else if q && c = 34 then [38, 113, 117, 111, 116, 59]
  else xcrChar C c

theorem readGo_skip (rule : Nat → PStr) : ∀ (pre rest : PStr), readGo rule pre.length (pre ++ rest) = readGo rule 0 rest := by
  intro pre
  induction pre with
  | nil => intro rest; rfl
  | cons c cs ih =>
    intro rest
    simp only [List.length_cons, List.cons_append]
    cases hr : cs ++ rest with
    | nil =>
      have h1 : cs = [] := by cases cs <;> simp_all
      have h2 : rest = [] := by cases cs <;> simp_all
      subst h1; subst h2; simp [readGo]
    | cons d ds =>
      rw [readGo, ← hr]
      exact ih rest

theorem takeWhile_digits (l r : PStr) (h : ∀ d ∈ l, isDigit d = true) :
    (l ++ 59 :: r).takeWhile isDigit = l := by
  rw [List.takeWhile_append_of_pos h]
  simp [List.takeWhile, isDigit]

theorem matchRef_charref (rule : Nat → PStr) (c : Nat) (rest : PStr) :
    matchRef rule (35 :: (toDec c ++ 59 :: rest)) = some (rule c, (toDec c).length + 2) := by
  simp only [matchRef]
  rw [takeWhile_digits _ _ (toDec_digits c)]
  have hne : (toDec c).isEmpty = false := by
    cases h : toDec c with
    | nil => exact absurd h (toDec_ne_nil c)
    | cons _ _ => rfl
  simp only [hne, List.drop_left, ofDec_toDec]
  rfl

theorem read_charref (rule : Nat → PStr) (c : Nat) (rest : PStr) :
    readGo rule 0 (charref c ++ rest) = rule c ++ readGo rule 0 rest := by
  have e : charref c ++ rest = 38 :: 35 :: (toDec c ++ 59 :: rest) := by simp [charref]
  rw [e, readGo]
  simp only [if_true]
  rw [matchRef_charref]
  simp only
  have := readGo_skip rule (35 :: (toDec c ++ [59])) rest
  simp only [List.length_cons, List.length_append, List.length_nil, List.cons_append, List.append_assoc,
    List.nil_append] at this
  rw [← this]

theorem read_wChar (C : Codec) (h : C.AsciiOK) (rule : Nat → PStr) (q : Bool) (c : Nat) (rest : PStr) :
    readGo rule 0 (wChar C q c ++ rest) = (if C.canEnc c then [c] else rule c) ++ readGo rule 0 rest := by
  unfold wChar
  split
  · rename_i h38; subst h38
    simp [readGo, matchRef, h 38 (by omega)]
  · split
    · rename_i _ h60; subst h60
      simp [readGo, matchRef, h 60 (by omega)]
    · split
      · rename_i _ _ h62; subst h62
        simp [readGo, matchRef, h 62 (by omega)]
      · split
        · rename_i _ _ _ hq
          have h34 : c = 34 := by simp at hq; exact hq.2
          subst h34
          simp [readGo, matchRef, h 34 (by omega)]
        · rename_i h38 _ _ _
          unfold xcrChar
          cases hc : C.canEnc c
          · simp only [Bool.false_eq_true, if_false]
            exact read_charref rule c rest
          · simp [readGo, h38]

theorem read_flatMap (C : Codec) (h : C.AsciiOK) (rule : Nat → PStr) (q : Bool) : ∀ (s rest : PStr),
    readGo rule 0 (s.flatMap (wChar C q) ++ rest)
      = s.flatMap (fun c => if C.canEnc c then [c] else rule c) ++ readGo rule 0 rest := by
  intro s
  induction s with
  | nil => intro rest; rfl
  | cons c cs ih =>
    intro rest
    simp only [List.flatMap_cons, List.append_assoc]
    rw [read_wChar C h, ih]

theorem readGo_nil (rule : Nat → PStr) (k : Nat) : readGo rule k [] = [] := by
  cases k <;> rfl

/-- reading what the writer wrote: encodable characters as they are, the others through the reader's numeric rule -/
theorem read_written (C : Codec) (h : C.AsciiOK) (rule : Nat → PStr) (q : Bool) (s : PStr) :
    readCharrefs rule (s.flatMap (wChar C q)) = s.flatMap (fun c => if C.canEnc c then [c] else rule c) := by
  have := read_flatMap C h rule q s []
  simpa [readCharrefs, readGo_nil] using this

theorem flatMap_self (s : PStr) (f : Nat → PStr) (h : ∀ c ∈ s, f c = [c]) : s.flatMap f = s := by
  induction s with
  | nil => rfl
  | cons c cs ih =>
    simp only [List.flatMap_cons, h c (by simp)]
    rw [ih (fun x hx => h x (by simp [hx]))]
    rfl

/-! ### the writer as one pass -/

theorem xcr_small (C : Codec) (h : C.AsciiOK) (a : PStr) (ha : ∀ c ∈ a, c < 128) : a.flatMap (xcrChar C) = a :=
  xcr_ascii C h a ha

theorem esc_xcr (C : Codec) (h : C.AsciiOK) (c : Nat) : (escXml c).flatMap (xcrChar C) = wChar C false c := by
  unfold escXml wChar
  split
  · exact xcr_small C h _ (by simp <;> omega)
  · split
    · exact xcr_small C h _ (by simp <;> omega)
    · split
      · exact xcr_small C h _ (by simp <;> omega)
      · simp

theorem esc_quot_xcr (C : Codec) (h : C.AsciiOK) (c : Nat) :
    ((escXml c).flatMap escQuot).flatMap (xcrChar C) = wChar C true c := by
  unfold escXml wChar
  split
  · exact xcr_small C h _ (by simp [escQuot] <;> omega)
  · split
    · exact xcr_small C h _ (by simp [escQuot] <;> omega)
    · split
      · exact xcr_small C h _ (by simp [escQuot] <;> omega)
      · by_cases h34 : c = 34
        · subst h34
          exact xcr_small C h _ (by simp [escQuot] <;> omega)
        · simp [escQuot, h34]

theorem written_text (C : Codec) (h : C.AsciiOK) (s : PStr) :
    xmlcharrefreplace C (substituteXml s) = s.flatMap (wChar C false) := by
  simp only [xmlcharrefreplace, substituteXml, List.flatMap_assoc]
  congr 1
  funext c
  exact esc_xcr C h c

theorem written_quot (C : Codec) (h : C.AsciiOK) (s : PStr) :
    xmlcharrefreplace C ((substituteXml s).flatMap escQuot) = s.flatMap (wChar C true) := by
  simp only [xmlcharrefreplace, substituteXml, List.flatMap_assoc]
  congr 1
  funext c
  have := esc_quot_xcr C h c
  simpa [List.flatMap_assoc] using this

theorem xcr_quoted (C : Codec) (h : C.AsciiOK) (q : Nat) (hq : q < 128) (body : PStr) :
    xmlcharrefreplace C ([q] ++ body ++ [q]) = [q] ++ xmlcharrefreplace C body ++ [q] := by
  rw [xcr_append, xcr_append, xcr_ascii C h [q] (by simpa using hq)]

theorem readAttr_quoted (q : Nat) (body : PStr) : readAttr ([q] ++ body ++ [q]) = readCharrefs attrCharref body := by
  simp [readAttr]

/-! ### single-byte table codecs -/

theorem tableCodec_roundTrip (tbl : List Nat) : (tableCodec tbl).RoundTrip := by
  intro s hs
  have key : ∀ c ∈ s, tbl.idxOf c < tbl.length ∧ tbl.getD (tbl.idxOf c) undef = c ∧ c < undef := by
    intro c hc
    have := hs c hc
    simp only [tableCodec, Bool.and_eq_true, decide_eq_true_eq, List.contains_iff_mem] at this
    have hl : tbl.idxOf c < tbl.length := List.idxOf_lt_length_iff.mpr this.2
    refine ⟨hl, ?_, this.1⟩
    rw [List.getD_eq_getElem?_getD, List.getElem?_eq_getElem hl]
    simp [List.getElem_idxOf hl]
  simp only [tableCodec]
  have hall : (s.map (fun c => tbl.idxOf c)).all (fun x => decide (x < tbl.length) && decide (tbl.getD x undef < undef)) = true := by
    simp only [List.all_map, List.all_eq_true]
    intro c hc
    obtain ⟨h1, h2, h3⟩ := key c hc
    simp [h1, h3]
  rw [if_pos hall]
  congr 1
  rw [List.map_map]
  conv => rhs; rw [← List.map_id s]
  apply List.map_congr_left
  intro c hc
  show tbl.getD (tbl.idxOf c) undef = c
  exact (key c hc).2.1

end BS.EncodingOut
