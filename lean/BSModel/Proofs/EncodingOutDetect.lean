import BSModel.Model.EncodingIn
import BSModel.Proofs.EncodingOutSub
/-! the output side meets the input side: on the bytes that `encode` writes for an ASCII-compatible codec, C07's model of
    dammit's `html_meta` regex (`BS.EncodingIn.htmlSearch`: leftmost `<\s*meta`, greedy `[^>]+`, LAST `charset\s*=` of that
    tag) finds the target name (core only; `Model/EncodingIn.lean` is C07's file and is only read here) -/
namespace BS.EncodingOut
open BS

/-- a charset name for the detector: ASCII, none of the closing characters ``[ /;'">]``, no white space, no `=` -/
def DetName (e : PStr) : Prop := ∀ c ∈ e, c < 128 ∧ EncodingIn.isTerm c = false ∧ EncodingIn.isSpace c = false ∧ c ≠ 61

/-- tag text in which no further `charset=` can be found and which does not close the tag: no `=`, no `>` -/
def NoEqGt (s : PStr) : Prop := ∀ c ∈ s, c ≠ 61 ∧ c ≠ 62

theorem splitTerm_name (e : PStr) (he : ∀ c ∈ e, EncodingIn.isTerm c = false) (Y acc : PStr) :
    EncodingIn.splitTerm (e ++ 34 :: Y) acc = some (acc.reverse ++ e) := by
  induction e generalizing acc with
  | nil => simp [EncodingIn.splitTerm, EncodingIn.isTerm]
  | cons c cs ih =>
    have hc := he c (by simp)
    simp only [List.cons_append, EncodingIn.splitTerm, hc, Bool.false_eq_true, if_false]
    rw [ih (fun x hx => he x (by simp [hx]))]
    simp

/-- the head of what is left after skipping white space lies in the list -/
theorem dropWhile_head_mem (p : Nat → Bool) : ∀ (l : PStr) (c : Nat) (t : PStr), l.dropWhile p = c :: t → c ∈ l := by
  intro l
  induction l with
  | nil => intro c t h; simp at h
  | cons a as ih =>
    intro c t h
    simp only [List.dropWhile_cons] at h
    split at h
    · exact List.mem_cons_of_mem _ (ih c t h)
    · cases h; simp

theorem startsCI_of_short (lit l : PStr) (x : Nat) (X : PStr) (hx : ∀ a ∈ lit, EncodingIn.lowerC x ≠ a)
    (hl : l.length < lit.length) : EncodingIn.startsCI lit (l ++ x :: X) = false := by
  induction lit generalizing l with
  | nil => simp at hl
  | cons a as ih =>
    cases l with
    | nil =>
      have := hx a (by simp)
      simp [EncodingIn.startsCI, this]
    | cons b bs =>
      simp only [List.cons_append, EncodingIn.startsCI, Bool.and_eq_false_iff]
      right
      exact ih bs (fun y hy => hx y (by simp [hy])) (by simpa using hl)

/-- where there is no `=` before the closing `>`, `charset\s*=` cannot match -/
theorem charsetHere_none (s X : PStr) (hs : NoEqGt s) : EncodingIn.charsetHere (s ++ 62 :: X) = none := by
  unfold EncodingIn.charsetHere
  split
  · rename_i hst
    by_cases hl : s.length < 7
    · have := startsCI_of_short EncodingIn.litCharset s 62 X (by decide) (by simpa [EncodingIn.litCharset] using hl)
      rw [this] at hst; cases hst
    · have hd : (s ++ 62 :: X).drop 7 = s.drop 7 ++ 62 :: X := by
        rw [List.drop_append_of_le_length (by omega)]
      rw [hd]
      have hne : (s.drop 7 ++ [62]).dropWhile EncodingIn.isSpace ≠ [] := by
        intro hnil
        have := dropWhile_nil_all EncodingIn.isSpace _ hnil 62 (by simp)
        simp [EncodingIn.isSpace] at this
      have e : s.drop 7 ++ 62 :: X = (s.drop 7 ++ [62]) ++ X := by simp
      rw [e, dropWhile_append_ne_nil _ _ _ hne]
      cases hdw : (s.drop 7 ++ [62]).dropWhile EncodingIn.isSpace with
      | nil => exact absurd hdw hne
      | cons c t =>
        have hm := dropWhile_head_mem _ _ c t hdw
        have hc : c ≠ 61 := by
          simp only [List.mem_append, List.mem_singleton] at hm
          rcases hm with hm | rfl
          · exact (hs c (List.mem_of_mem_drop hm)).1
          · decide
        simp only [List.cons_append]
        split
        · rename_i r heq; cases heq; exact absurd rfl hc
        · rfl
  · rfl

theorem lastCharset_none (s X : PStr) (hs : NoEqGt s) : EncodingIn.lastCharset (s ++ 62 :: X) = none := by
  induction s with
  | nil =>
    have := charsetHere_none [] X (by intro c hc; simp at hc)
    simp only [List.nil_append] at this ⊢
    simp [EncodingIn.lastCharset, this]
  | cons c cs ih =>
    have hc := hs c (by simp)
    have hcs : NoEqGt cs := fun x hx => hs x (by simp [hx])
    have h62 : (c == 62) = false := by simp [hc.2]
    have := charsetHere_none (c :: cs) X hs
    simp only [List.cons_append] at this ⊢
    rw [EncodingIn.lastCharset]
    simp only [h62, Bool.false_eq_true, if_false, ih hcs, this]

/-- once a later position matches, text before it (without `>`) does not change the answer: the LAST match wins -/
theorem lastCharset_prefix (A Y g : PStr) (hA : ∀ c ∈ A, c ≠ 62) (hY : EncodingIn.lastCharset Y = some g) :
    EncodingIn.lastCharset (A ++ Y) = some g := by
  induction A with
  | nil => exact hY
  | cons c cs ih =>
    have h62 : (c == 62) = false := by simp [hA c (by simp)]
    simp only [List.cons_append]
    rw [EncodingIn.lastCharset]
    simp only [h62, Bool.false_eq_true, if_false, ih (fun x hx => hA x (by simp [hx]))]

/-- the key and quoted value as `_format_tag` writes them, followed by tag text without `=` and the closing `>` -/
theorem lastCharset_key (e B X : PStr) (he : DetName e) (hB : NoEqGt B) :
    EncodingIn.lastCharset (ofS "charset=\"" ++ (e ++ 34 :: (B ++ 62 :: X))) = some e := by
  have hZ : NoEqGt (e ++ 34 :: B) := by
    intro c hc
    simp only [List.mem_append, List.mem_cons] at hc
    rcases hc with hc | rfl | hc
    · have := he c hc
      refine ⟨this.2.2.2, ?_⟩
      intro h62; subst h62; simp [EncodingIn.isTerm] at this
    · decide
    · exact hB c hc
  have hnone : EncodingIn.lastCharset (e ++ 34 :: (B ++ 62 :: X)) = none := by
    have := lastCharset_none (e ++ 34 :: B) X hZ
    simpa using this
  have hval : EncodingIn.htmlValue (34 :: (e ++ 34 :: (B ++ 62 :: X))) = some e := by
    have hs := splitTerm_name e (fun c hc => (he c hc).2.1) (B ++ 62 :: X) []
    simp only [EncodingIn.htmlValue]
    have h1 : (34 :: (e ++ 34 :: (B ++ 62 :: X))).dropWhile EncodingIn.isSpace = 34 :: (e ++ 34 :: (B ++ 62 :: X)) := by rfl
    rw [h1]
    simp only [show EncodingIn.isQuote 34 = true by decide, if_true, hs]
    simp
  have e1 : ofS "charset=\"" ++ (e ++ 34 :: (B ++ 62 :: X))
      = 99 :: 104 :: 97 :: 114 :: 115 :: 101 :: 116 :: 61 :: 34 :: (e ++ 34 :: (B ++ 62 :: X)) := by simp [ofS]
  rw [e1]
  have step : ∀ Z, EncodingIn.lastCharset Z = none →
      EncodingIn.lastCharset (99 :: 104 :: 97 :: 114 :: 115 :: 101 :: 116 :: 61 :: 34 :: Z) = EncodingIn.htmlValue (34 :: Z) := by
    intro Z hZn
    simp [EncodingIn.lastCharset, hZn, EncodingIn.charsetHere, EncodingIn.startsCI, EncodingIn.litCharset, EncodingIn.lowerC,
      EncodingIn.isSpace, List.dropWhile]
  rw [step _ hnone, hval]

/-- the same with a closing quote as the stopper: inside `e"` (no `=`) nothing matches, whatever follows the quote -/
theorem charsetHere_none_quote (s Y : PStr) (hs : NoEqGt s) : EncodingIn.charsetHere (s ++ 34 :: Y) = none := by
  unfold EncodingIn.charsetHere
  split
  · rename_i hst
    by_cases hl : s.length < 7
    · have := startsCI_of_short EncodingIn.litCharset s 34 Y (by decide) (by simpa [EncodingIn.litCharset] using hl)
      rw [this] at hst; cases hst
    · have hd : (s ++ 34 :: Y).drop 7 = s.drop 7 ++ 34 :: Y := by
        rw [List.drop_append_of_le_length (by omega)]
      rw [hd]
      have hne : (s.drop 7 ++ [34]).dropWhile EncodingIn.isSpace ≠ [] := by
        intro hnil
        have := dropWhile_nil_all EncodingIn.isSpace _ hnil 34 (by simp)
        simp [EncodingIn.isSpace] at this
      have e : s.drop 7 ++ 34 :: Y = (s.drop 7 ++ [34]) ++ Y := by simp
      rw [e, dropWhile_append_ne_nil _ _ _ hne]
      cases hdw : (s.drop 7 ++ [34]).dropWhile EncodingIn.isSpace with
      | nil => exact absurd hdw hne
      | cons c t =>
        have hm := dropWhile_head_mem _ _ c t hdw
        have hc : c ≠ 61 := by
          simp only [List.mem_append, List.mem_singleton] at hm
          rcases hm with hm | rfl
          · exact (hs c (List.mem_of_mem_drop hm)).1
          · decide
        simp only [List.cons_append]
        split
        · rename_i r heq; cases heq; exact absurd rfl hc
        · rfl
  · rfl

theorem lastCharset_skip_quote (s Y : PStr) (hs : NoEqGt s) (hY : EncodingIn.lastCharset Y = none) :
    EncodingIn.lastCharset (s ++ 34 :: Y) = none := by
  induction s with
  | nil =>
    simp only [List.nil_append]
    rw [EncodingIn.lastCharset]
    simp only [show (34 == 62) = false by decide, Bool.false_eq_true, if_false, hY]
    have := charsetHere_none_quote [] Y (by intro c hc; simp at hc)
    simpa using this
  | cons c cs ih =>
    have hc := hs c (by simp)
    have h62 : (c == 62) = false := by simp [hc.2]
    have := charsetHere_none_quote (c :: cs) Y hs
    simp only [List.cons_append] at this ⊢
    rw [EncodingIn.lastCharset]
    simp only [h62, Bool.false_eq_true, if_false, ih (fun x hx => hs x (by simp [hx])), this]

/-- the HTML4 declaration: `charset=e"` inside the `content` value, then the rest of the tag `B` in which the regex finds
    nothing more (`hB`; e.g. ` http-equiv="Content-Type"/`) -/
theorem lastCharset_key_bare (c : Nat) (cs B X : PStr) (he : DetName (c :: cs))
    (hB : EncodingIn.lastCharset (B ++ 62 :: X) = none) :
    EncodingIn.lastCharset (ofS "charset=" ++ (c :: cs ++ 34 :: (B ++ 62 :: X))) = some (c :: cs) := by
  have hcn := he c (by simp)
  have hZ : NoEqGt (c :: cs) := by
    intro x hx
    have := he x hx
    refine ⟨this.2.2.2, ?_⟩
    intro h62; subst h62; simp [EncodingIn.isTerm] at this
  have hnone : EncodingIn.lastCharset (c :: cs ++ 34 :: (B ++ 62 :: X)) = none := lastCharset_skip_quote _ _ hZ hB
  have hval : EncodingIn.htmlValue (c :: (cs ++ 34 :: (B ++ 62 :: X))) = some (c :: cs) := by
    have hs := splitTerm_name (c :: cs) (fun x hx => (he x hx).2.1) (B ++ 62 :: X) []
    simp only [EncodingIn.htmlValue]
    have h1 : (c :: (cs ++ 34 :: (B ++ 62 :: X))).dropWhile EncodingIn.isSpace = c :: (cs ++ 34 :: (B ++ 62 :: X)) := by
      simp [List.dropWhile_cons, hcn.2.2.1]
    rw [h1]
    have hq : EncodingIn.isQuote c = false := by
      have := hcn.2.1
      simp [EncodingIn.isTerm] at this
      simp [EncodingIn.isQuote]; omega
    simp only [hq, Bool.false_eq_true, if_false]
    simp only [List.cons_append] at hs
    rw [hs]; simp
  have e1 : ofS "charset=" ++ (c :: cs ++ 34 :: (B ++ 62 :: X))
      = 99 :: 104 :: 97 :: 114 :: 115 :: 101 :: 116 :: 61 :: (c :: (cs ++ 34 :: (B ++ 62 :: X))) := by simp [ofS]
  rw [e1]
  have step : ∀ Z, EncodingIn.lastCharset Z = none →
      EncodingIn.lastCharset (99 :: 104 :: 97 :: 114 :: 115 :: 101 :: 116 :: 61 :: Z) = EncodingIn.htmlValue Z := by
    intro Z hZn
    simp [EncodingIn.lastCharset, hZn, EncodingIn.charsetHere, EncodingIn.startsCI, EncodingIn.litCharset, EncodingIn.lowerC,
      EncodingIn.isSpace]
  have hnone' : EncodingIn.lastCharset (c :: (cs ++ 34 :: (B ++ 62 :: X))) = none := by simpa using hnone
  rw [step _ hnone', hval]

theorem htmlSearch_meta_bare (A : PStr) (c : Nat) (cs B X : PStr) (hA : ∀ x ∈ A, x ≠ 62) (he : DetName (c :: cs))
    (hB : EncodingIn.lastCharset (B ++ 62 :: X) = none) :
    EncodingIn.htmlSearch (ofS "<meta " ++ (A ++ (ofS "charset=" ++ (c :: cs ++ 34 :: (B ++ 62 :: X))))) = some (c :: cs) := by
  have hl := lastCharset_prefix A _ (c :: cs) hA (lastCharset_key_bare c cs B X he hB)
  have e1 : ofS "<meta " ++ (A ++ (ofS "charset=" ++ (c :: cs ++ 34 :: (B ++ 62 :: X))))
      = 60 :: 109 :: 101 :: 116 :: 97 :: 32 :: (A ++ (ofS "charset=" ++ (c :: cs ++ 34 :: (B ++ 62 :: X)))) := by simp [ofS]
  rw [e1]
  have step : ∀ U, EncodingIn.htmlSearch (60 :: 109 :: 101 :: 116 :: 97 :: 32 :: U)
      = match EncodingIn.lastCharset U with | some g => some g | none => EncodingIn.htmlSearch (109 :: 101 :: 116 :: 97 :: 32 :: U) := by
    intro U; rfl
  rw [step, hl]

/-- **`<meta A charset="e" B>`** — `A` any tag text without `>` (earlier attributes), `B` tag text without `=` and `>`
    (`/` for the void-element slash): the detector's regex, applied at this `<`, returns `e` -/
theorem htmlSearch_meta (A e B X : PStr) (hA : ∀ c ∈ A, c ≠ 62) (he : DetName e) (hB : NoEqGt B) :
    EncodingIn.htmlSearch (ofS "<meta " ++ (A ++ (ofS "charset=\"" ++ (e ++ 34 :: (B ++ 62 :: X))))) = some e := by
  have hl := lastCharset_prefix A _ e hA (lastCharset_key e B X he hB)
  have e1 : ofS "<meta " ++ (A ++ (ofS "charset=\"" ++ (e ++ 34 :: (B ++ 62 :: X))))
      = 60 :: 109 :: 101 :: 116 :: 97 :: 32 :: (A ++ (ofS "charset=\"" ++ (e ++ 34 :: (B ++ 62 :: X)))) := by simp [ofS]
  rw [e1]
  have step : ∀ U, EncodingIn.htmlSearch (60 :: 109 :: 101 :: 116 :: 97 :: 32 :: U)
      = match EncodingIn.lastCharset U with | some g => some g | none => EncodingIn.htmlSearch (109 :: 101 :: 116 :: 97 :: 32 :: U) := by
    intro U; rfl
  rw [step, hl]

end BS.EncodingOut
