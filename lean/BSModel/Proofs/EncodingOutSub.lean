import BSModel.Proofs.EncodingOut
/-! `CHARSET_RE.sub` on the general shape of a content value: any quiet prefix (earlier parameters included), any spelling of
    the key that the live pattern accepts, any value, any continuation (core only) -/
namespace BS.EncodingOut
open BS BS.Gen.EncodingOut

/-- every character is `\s` -/
def AllWs (w : PStr) : Prop := ∀ c ∈ w, isReSpace c = true

/-- `L` spells the word `charset` in the letter classes of the live pattern (any case the flags allow) -/
def SpellsKey (L : PStr) : Prop := matchClasses (charsetReLiteral.take 7) L = some []

/-- could a match's key begin here: after optional white space comes a character the pattern accepts for `c` -/
def startsKey (s : PStr) : Bool :=
  match s.dropWhile isReSpace with
  | c :: _ => (charsetReLiteral.headD []).contains c
  | [] => false

/-- no match attempt inside `pre` can get past its first letter, given that a `;` follows `pre`: at every line start and
    after every `;` of `pre`, what comes after optional white space is not a `c` -/
def quietGo : Bool → PStr → Bool
  | _, [] => true
  | bol, c :: cs =>
    !(bol && startsKey (c :: cs ++ [59])) && !(c == 59 && startsKey (cs ++ [59]))
      && quietGo (charsetReMultiline && c == 10) cs

/-- is `^` true after the text `l` (started in state `b`) -/
def endBol (b : Bool) (l : PStr) : Bool :=
  match l.getLast? with
  | none => b
  | some c => charsetReMultiline && c == 10

/-! ### table facts about the generated shape of the pattern -/

theorem class0_facts :
    (charsetReLiteral.headD []).all (fun c => !isReSpace c) = true ∧ (charsetReLiteral.headD []).contains 59 = false
    ∧ isReSpace 59 = false ∧ isReSpace 61 = false
    ∧ charsetReLiteral = charsetReLiteral.headD [] :: charsetReLiteral.tail
    ∧ charsetReLiteral.take 7 = charsetReLiteral.headD [] :: (charsetReLiteral.take 7).tail
    ∧ matchClasses (charsetReLiteral.drop 7) [61] = some []
    ∧ charsetReLiteral = charsetReLiteral.take 7 ++ charsetReLiteral.drop 7 := by decide

/-! ### generic lemmas -/

theorem dropWhile_append_ne_nil (p : Nat → Bool) : ∀ (a b : PStr), a.dropWhile p ≠ [] →
    (a ++ b).dropWhile p = a.dropWhile p ++ b := by
  intro a
  induction a with
  | nil => intro b h; simp at h
  | cons c cs ih =>
    intro b h
    simp only [List.cons_append, List.dropWhile_cons] at h ⊢
    split
    · rename_i hp; simp only [hp, if_true] at h; exact ih b h
    · rfl

theorem dropWhile_length_le (p : Nat → Bool) (l : PStr) : (l.dropWhile p).length ≤ l.length := by
  induction l with
  | nil => simp
  | cons a l ih => simp only [List.dropWhile_cons]; split <;> simp <;> omega

theorem dropWhile_nil_all (p : Nat → Bool) : ∀ (l : PStr), l.dropWhile p = [] → ∀ c ∈ l, p c = true := by
  intro l
  induction l with
  | nil => intro _ c hc; simp at hc
  | cons a as ih =>
    intro h c hc
    simp only [List.dropWhile_cons] at h
    split at h
    · rename_i hp
      rcases List.mem_cons.mp hc with rfl | hc
      · exact hp
      · exact ih h c hc
    · cases h

theorem endBol_cons (b : Bool) (c : Nat) (l : PStr) : endBol b (c :: l) = endBol (charsetReMultiline && c == 10) l := by
  cases l with
  | nil => simp [endBol]
  | cons d ds =>
    unfold endBol
    rw [List.getLast?_cons_cons]
    cases h : (d :: ds).getLast? with
    | none => simp at h
    | some x => rfl

theorem dropWhile_allws (w rest : PStr) (hw : AllWs w) : (w ++ rest).dropWhile isReSpace = rest.dropWhile isReSpace :=
  List.dropWhile_append_of_pos hw

theorem dropWhile_head_false (c : Nat) (cs : PStr) (h : isReSpace c = false) : (c :: cs).dropWhile isReSpace = c :: cs := by
  simp [List.dropWhile_cons, h]

theorem matchClasses_append (cls : List (List Nat)) : ∀ (L r : PStr), matchClasses cls L = some [] →
    matchClasses cls (L ++ r) = some r := by
  induction cls with
  | nil => intro L r h; simp [matchClasses] at h; subst h; rfl
  | cons cl more ih =>
    intro L r h
    cases L with
    | nil => simp [matchClasses] at h
    | cons c cs =>
      simp only [matchClasses, List.cons_append] at h ⊢
      split
      · rename_i hc; rw [if_pos hc] at h; exact ih cs r h
      · rename_i hc; rw [if_neg hc] at h; cases h

theorem matchClasses_bind (a b : List (List Nat)) : ∀ (s : PStr),
    matchClasses (a ++ b) s = (matchClasses a s).bind (matchClasses b) := by
  induction a with
  | nil => intro s; simp [matchClasses]
  | cons cl more ih =>
    intro s
    cases s with
    | nil =>
      simp only [List.cons_append, matchClasses, Option.bind_none]
    | cons c cs =>
      simp only [List.cons_append, matchClasses]
      split
      · exact ih cs
      · rfl

theorem matchClasses_head_none' (cls : List Nat) (more : List (List Nat)) (c : Nat) (t : PStr)
    (h : cls.contains c = false) : matchClasses (cls :: more) (c :: t) = none := by
  rw [matchClasses]
  simp only [h, Bool.false_eq_true, if_false]

/-- the first letter of a spelled key is in the `c` class, hence not white space -/
theorem spellsKey_head (L : PStr) (h : SpellsKey L) :
    ∃ c cs, L = c :: cs ∧ (charsetReLiteral.headD []).contains c = true ∧ isReSpace c = false := by
  unfold SpellsKey at h
  rw [class0_facts.2.2.2.2.2.1] at h
  cases L with
  | nil => simp [matchClasses] at h
  | cons c cs =>
    simp only [matchClasses] at h
    cases hc : (charsetReLiteral.headD []).contains c
    · rw [if_neg (by rw [hc]; exact Bool.false_ne_true)] at h; cases h
    · refine ⟨c, cs, rfl, hc, ?_⟩
      have := List.all_eq_true.mp class0_facts.1 c (List.contains_iff_mem.mp hc)
      simpa using this

/-! ### the key, in every accepted spelling -/

/-- `\s*charset\s*=\s*` (resp. `\s*charset=`) accepts: white space, the word in any accepted case, and — when the live
    pattern is the tolerant one — white space around `=`; the rest after group 1 is the value -/
theorem key_accepted_general (w0 L w1 w2 old : PStr) (h0 : AllWs w0) (hL : SpellsKey L) (h1 : AllWs w1) (h2 : AllWs w2)
    (htol : charsetReSpaceTolerant = true ∨ (w1 = [] ∧ w2 = [])) (hold : old.dropWhile isReSpace = old) :
    matchKey (w0 ++ (L ++ (w1 ++ (61 :: (w2 ++ old))))) = some old := by
  obtain ⟨c, cs, rfl, _, hcws⟩ := spellsKey_head L hL
  have hd0 : (w0 ++ (c :: cs ++ (w1 ++ (61 :: (w2 ++ old))))).dropWhile isReSpace = c :: cs ++ (w1 ++ (61 :: (w2 ++ old))) := by
    rw [dropWhile_allws _ _ h0]; exact dropWhile_head_false c _ hcws
  have hd1 : (w1 ++ (61 :: (w2 ++ old))).dropWhile isReSpace = 61 :: (w2 ++ old) := by
    rw [dropWhile_allws _ _ h1]; exact dropWhile_head_false 61 _ class0_facts.2.2.2.1
  have hd2 : (w2 ++ old).dropWhile isReSpace = old := by
    rw [dropWhile_allws _ _ h2]; exact hold
  have heq : matchClasses (charsetReLiteral.drop 7) (61 :: (w2 ++ old)) = some (w2 ++ old) :=
    matchClasses_append _ [61] _ class0_facts.2.2.2.2.2.2.1
  unfold matchKey
  simp only [hd0]
  cases ht : charsetReSpaceTolerant
  · -- the strict spelling: no white space around `=`
    rcases htol with htol | ⟨rfl, rfl⟩
    · rw [ht] at htol; cases htol
    · simp only [Bool.false_eq_true, if_false, List.nil_append]
      rw [class0_facts.2.2.2.2.2.2.2, matchClasses_bind, matchClasses_append _ (c :: cs) _ hL]
      simp only [Option.bind_some]
      simpa using heq
  · simp only [if_true]
    rw [matchClasses_append _ (c :: cs) _ hL]
    simp only [hd1, heq, hd2]

/-! ### a quiet prefix is copied -/

theorem startsKey_false_matchKey (x any : PStr) (h : startsKey (x ++ [59]) = false) : matchKey (x ++ 59 :: any) = none := by
  have hne : (x ++ [59]).dropWhile isReSpace ≠ [] := by
    intro hnil
    have := dropWhile_nil_all isReSpace _ hnil 59 (by simp)
    rw [class0_facts.2.2.1] at this; cases this
  have e : x ++ 59 :: any = (x ++ [59]) ++ any := by simp
  unfold startsKey at h
  unfold matchKey
  rw [e, dropWhile_append_ne_nil _ _ _ hne]
  cases hd : (x ++ [59]).dropWhile isReSpace with
  | nil => exact absurd hd hne
  | cons c cs =>
    rw [hd] at h
    simp only at h
    simp only [List.cons_append]
    split
    · rw [class0_facts.2.2.2.2.2.1, matchClasses_head_none' _ _ _ _ h]
    · rw [class0_facts.2.2.2.2.1, matchClasses_head_none' _ _ _ _ h]

theorem matchKey_semicolon (t : PStr) : matchKey (59 :: t) = none := by
  have := startsKey_false_matchKey [] t (by
    simp only [List.nil_append, startsKey, dropWhile_head_false 59 [] class0_facts.2.2.1]
    exact class0_facts.2.1)
  simpa using this

/-- at a `;` the `^` alternative can never win, so the state of `^` does not matter there -/
theorem matchAt_semicolon (bol : Bool) (t : PStr) : matchAt bol (59 :: t) = (matchKey t).map (matchLens (59 :: t)) := by
  unfold matchAt
  cases bol <;> simp [matchKey_semicolon]

theorem subGo_quiet (repl : PStr → PStr) : ∀ (pre : PStr) (bol : Bool) (any : PStr), quietGo bol pre = true →
    subGo repl 0 bol (pre ++ 59 :: any) = pre ++ subGo repl 0 (endBol bol pre) (59 :: any) := by
  intro pre
  induction pre with
  | nil => intro bol any _; simp [endBol]
  | cons c cs ih =>
    intro bol any h
    simp only [quietGo, Bool.and_eq_true, Bool.not_eq_true', Bool.and_eq_false_iff] at h
    obtain ⟨⟨h1, h2⟩, h3⟩ := h
    have hm : matchAt bol (c :: (cs ++ 59 :: any)) = none := by
      unfold matchAt
      have hv : (if bol = true then (matchKey (c :: (cs ++ 59 :: any))).map (matchLens (c :: (cs ++ 59 :: any))) else none) = none := by
        cases bol with
        | false => rfl
        | true =>
          rcases h1 with h1 | h1
          · cases h1
          · have := startsKey_false_matchKey (c :: cs) any (by simpa using h1)
            simp only [List.cons_append] at this
            simp [this]
      simp only [hv]
      split
      · rename_i t heq
        cases heq
        rcases h2 with h2 | h2
        · simp at h2
        · simp [startsKey_false_matchKey cs any h2]
      · rfl
    simp only [List.cons_append]
    rw [subGo, hm]
    simp only
    rw [ih _ any h3, endBol_cons]

/-! ### dropping the matched text -/

theorem subGo_skip (repl : PStr → PStr) : ∀ (l : PStr) (b : Bool) (rest : PStr),
    subGo repl l.length b (l ++ rest) = subGo repl 0 (endBol b l) rest := by
  intro l
  induction l with
  | nil => intro b rest; simp [endBol]
  | cons c cs ih =>
    intro b rest
    simp only [List.length_cons, List.cons_append]
    cases hr : cs ++ rest with
    | nil =>
      have h1 : cs = [] := by cases cs <;> simp_all
      have h2 : rest = [] := by cases cs <;> simp_all
      subst h1; subst h2
      simp [subGo, endBol]
    | cons d ds =>
      rw [subGo, ← hr, ih, endBol_cons]

theorem takeWhile_value (old rest : PStr) (hold : ∀ c ∈ old, c ≠ 59) (hr : rest = [] ∨ ∃ m, rest = 59 :: m) :
    (old ++ rest).takeWhile (fun c => c != 59) = old := by
  rw [List.takeWhile_append_of_pos (fun a ha => by simp [hold a ha])]
  rcases hr with rfl | ⟨m, rfl⟩ <;> simp

/-- **the general shape.** `pre ; key value rest` where `pre` is quiet, the key is any accepted spelling, the value has no
    `;` and `rest` is empty or starts the next parameter: the prefix is copied, group 1 goes through `repl`, the value is
    dropped, and the scan goes on with `rest`. -/
theorem subGo_general (repl : PStr → PStr) (pre w0 L w1 w2 old rest : PStr) (bol : Bool)
    (hq : quietGo bol pre = true) (h0 : AllWs w0) (hL : SpellsKey L) (h1 : AllWs w1) (h2 : AllWs w2)
    (htol : charsetReSpaceTolerant = true ∨ (w1 = [] ∧ w2 = []))
    (hold : ∀ c ∈ old, c ≠ 59) (hws : old.dropWhile isReSpace = old) (hr : rest = [] ∨ ∃ m, rest = 59 :: m) :
    subGo repl 0 bol (pre ++ 59 :: (w0 ++ (L ++ (w1 ++ (61 :: (w2 ++ (old ++ rest)))))))
      = pre ++ repl (59 :: (w0 ++ (L ++ (w1 ++ (61 :: w2)))))
          ++ subGo repl 0 (endBol (endBol bol pre) (59 :: (w0 ++ (L ++ (w1 ++ (61 :: (w2 ++ old))))))) rest := by
  rw [subGo_quiet repl pre bol _ hq]
  have hws' : (old ++ rest).dropWhile isReSpace = old ++ rest := by
    cases old with
    | nil =>
      rcases hr with rfl | ⟨m, rfl⟩
      · rfl
      · exact dropWhile_head_false 59 m class0_facts.2.2.1
    | cons c cs =>
      have : isReSpace c = false := by
        cases hc : isReSpace c
        · rfl
        · simp [hc] at hws
          have := congrArg List.length hws
          have hl := dropWhile_length_le isReSpace cs
          simp at this; omega
      exact dropWhile_head_false c _ this
  have hk := key_accepted_general w0 L w1 w2 (old ++ rest) h0 hL h1 h2 htol hws'
  have hma : matchAt (endBol bol pre) (59 :: (w0 ++ (L ++ (w1 ++ (61 :: (w2 ++ (old ++ rest)))))))
      = some ((59 :: (w0 ++ (L ++ (w1 ++ (61 :: w2))))).length, (59 :: (w0 ++ (L ++ (w1 ++ (61 :: (w2 ++ old)))))).length) := by
    rw [matchAt_semicolon, hk]
    simp only [Option.map_some, matchLens, takeWhile_value old rest hold hr]
    congr 2
    · simp; omega
    · simp; omega
  rw [subGo, hma]
  simp only
  have e1 : (59 :: (w0 ++ (L ++ (w1 ++ (61 :: (w2 ++ (old ++ rest))))))).take (59 :: (w0 ++ (L ++ (w1 ++ (61 :: w2))))).length
      = 59 :: (w0 ++ (L ++ (w1 ++ (61 :: w2)))) := by
    have : 59 :: (w0 ++ (L ++ (w1 ++ (61 :: (w2 ++ (old ++ rest)))))) = (59 :: (w0 ++ (L ++ (w1 ++ (61 :: w2))))) ++ (old ++ rest) := by
      simp
    rw [this, List.take_left']
    rfl
  rw [e1]
  have e2 : w0 ++ (L ++ (w1 ++ (61 :: (w2 ++ (old ++ rest))))) = (w0 ++ (L ++ (w1 ++ (61 :: (w2 ++ old))))) ++ rest := by simp
  have e3 : (59 :: (w0 ++ (L ++ (w1 ++ (61 :: (w2 ++ old)))))).length - 1 = (w0 ++ (L ++ (w1 ++ (61 :: (w2 ++ old))))).length := by
    simp
  rw [e2, e3, subGo_skip, endBol_cons]
  simp only [List.append_assoc]

end BS.EncodingOut
