import BSModel.Proofs.EncodingOut
/-! tree-level facts about the renderer (core only): with `eventual_encoding = None` placeholders render as their
    original text everywhere in the tree; `xmlcharrefreplace` acts on the values only, the markup skeleton is untouched -/
namespace BS.EncodingOut
open BS BS.Gen.EncodingOut

/-- the value as if `set_up_substitutions` had never run -/
def plainV : AttrVal → AttrVal
  | .charsetMeta o => .plain o
  | .contentMeta o => .plain o
  | v => v

def plainA (a : PStr × AttrVal) : PStr × AttrVal := (a.1, plainV a.2)

mutual
def plainN : Node → Node
  | .text s => .text s
  | .tag n as ks => .tag n (as.map plainA) (plainL ks)
def plainL : List Node → List Node
  | [] => []
  | k :: ks => plainN k :: plainL ks
end

theorem plainL_isEmpty (ks : List Node) : (plainL ks).isEmpty = ks.isEmpty := by
  cases ks <;> simp [plainL]

theorem formatAttr_none_plain (a : PStr × AttrVal) : formatAttr none (plainA a) = formatAttr none a := by
  obtain ⟨k, v⟩ := a
  cases v <;> rfl

theorem insertAttr_map (f : PStr × AttrVal → PStr × AttrVal) (hf : ∀ a, (f a).1 = a.1) (a : PStr × AttrVal) :
    ∀ l, insertAttr (f a) (l.map f) = (insertAttr a l).map f := by
  intro l
  induction l with
  | nil => rfl
  | cons b rest ih =>
    simp only [List.map_cons, insertAttr, hf]
    split
    · simp [ih]
    · simp

theorem sortAttrs_map (f : PStr × AttrVal → PStr × AttrVal) (hf : ∀ a, (f a).1 = a.1) :
    ∀ l, sortAttrs (l.map f) = (sortAttrs l).map f := by
  intro l
  induction l with
  | nil => rfl
  | cons a rest ih =>
    simp only [sortAttrs, List.map_cons, List.foldr_cons] at ih ⊢
    rw [ih, insertAttr_map f hf]

theorem openTag_none_plain (n : PStr) (as : List (PStr × AttrVal)) (e : Bool) :
    openTag none n (as.map plainA) e = openTag none n as e := by
  unfold openTag
  rw [sortAttrs_map plainA (fun _ => rfl), List.flatMap_map]
  simp only [formatAttr_none_plain]

mutual
theorem decodeNode_none_plain (parent : PStr) (t : Node) : decodeNode none parent (plainN t) = decodeNode none parent t := by
  cases t with
  | text s => rfl
  | tag n as ks =>
    simp only [plainN, decodeNode, plainL_isEmpty, openTag_none_plain]
    rw [decodeKids_none_plain n ks]
theorem decodeKids_none_plain (parent : PStr) (l : List Node) : decodeKids none parent (plainL l) = decodeKids none parent l := by
  cases l with
  | nil => rfl
  | cons k ks =>
    simp only [plainL, decodeKids]
    rw [decodeNode_none_plain parent k, decodeKids_none_plain parent ks]
end

mutual
theorem prettyNode_none_plain (parent : PStr) (lv : Nat) (t : Node) :
    prettyNode none parent lv (plainN t) = prettyNode none parent lv t := by
  cases t with
  | text s => rfl
  | tag n as ks =>
    simp only [plainN, prettyNode, plainL_isEmpty, openTag_none_plain, decodeKids_none_plain]
    rw [prettyKids_none_plain n (lv + 1) ks]
theorem prettyKids_none_plain (parent : PStr) (lv : Nat) (l : List Node) :
    prettyKids none parent lv (plainL l) = prettyKids none parent lv l := by
  cases l with
  | nil => rfl
  | cons k ks =>
    simp only [plainL, prettyKids]
    rw [prettyNode_none_plain parent lv k, prettyKids_none_plain parent lv ks]
end

/-! ### `xmlcharrefreplace` commutes with rendering -/

/-- every tag name and attribute name of the tree is ASCII -/
def asciiStr (s : PStr) : Bool := s.all (fun c => c < 128)

mutual
def asciiNames : Node → Bool
  | .text _ => true
  | .tag n as ks => asciiStr n && as.all (fun a => asciiStr a.1) && asciiNamesL ks
def asciiNamesL : List Node → Bool
  | [] => true
  | k :: ks => asciiNames k && asciiNamesL ks
end

/-- one attribute with the replacement applied to its value only -/
def formatAttrX (C : Codec) (ev : Option PStr) (a : PStr × AttrVal) : PStr :=
  match a.2 with
  | .novalue => a.1
  | v => a.1 ++ [61] ++ xmlcharrefreplace C (quotedAttributeValue (substituteXml (attrValue ev v)))

def openTagX (C : Codec) (ev : Option PStr) (name : PStr) (attrs : List (PStr × AttrVal)) (isEmpty : Bool) : PStr :=
  [60] ++ name ++ (sortAttrs attrs).flatMap (fun a => 32 :: formatAttrX C ev a)
    ++ (if isEmpty then voidElementClosePrefix else []) ++ [62]

mutual
/-- the rendering in which only text pieces and attribute values have gone through `xmlcharrefreplace` -/
def decodeNodeX (C : Codec) (ev : Option PStr) (parent : PStr) : Node → PStr
  | .text s => xmlcharrefreplace C (textPiece parent s)
  | .tag n as ks =>
    if isVoid n && ks.isEmpty then openTagX C ev n as true
    else openTagX C ev n as false ++ decodeKidsX C ev n ks ++ closeTag n
def decodeKidsX (C : Codec) (ev : Option PStr) (parent : PStr) : List Node → PStr
  | [] => []
  | k :: ks => decodeNodeX C ev parent k ++ decodeKidsX C ev parent ks
end

theorem asciiStr_lt (s : PStr) (h : asciiStr s = true) : ∀ c ∈ s, c < 128 := by
  intro c hc
  have := List.all_eq_true.mp h c hc
  simpa using this

theorem xcr_formatAttr (C : Codec) (hA : C.AsciiOK) (ev : Option PStr) (a : PStr × AttrVal) (ha : asciiStr a.1 = true) :
    xmlcharrefreplace C (formatAttr ev a) = formatAttrX C ev a := by
  obtain ⟨k, v⟩ := a
  have hk := xcr_ascii C hA k (asciiStr_lt k ha)
  cases v <;>
    simp only [formatAttr, formatAttrX, xcr_append, hk, xcr_ascii C hA [61] (by simp)]

theorem xcr_attrs (C : Codec) (hA : C.AsciiOK) (ev : Option PStr) : ∀ (l : List (PStr × AttrVal)),
    l.all (fun a => asciiStr a.1) = true →
    xmlcharrefreplace C (l.flatMap (fun a => 32 :: formatAttr ev a)) = l.flatMap (fun a => 32 :: formatAttrX C ev a) := by
  intro l
  induction l with
  | nil => intro _; rfl
  | cons a rest ih =>
    intro h
    simp only [List.all_cons, Bool.and_eq_true] at h
    simp only [List.flatMap_cons]
    rw [xcr_append, ih h.2]
    have : xmlcharrefreplace C (32 :: formatAttr ev a) = 32 :: formatAttrX C ev a := by
      have e : 32 :: formatAttr ev a = [32] ++ formatAttr ev a := rfl
      rw [e, xcr_append, xcr_ascii C hA [32] (by simp), xcr_formatAttr C hA ev a h.1]; rfl
    rw [this]

theorem sortAttrs_all (p : PStr × AttrVal → Bool) : ∀ (l : List (PStr × AttrVal)), l.all p = true → (sortAttrs l).all p = true := by
  have hins : ∀ (a : PStr × AttrVal) (l : List (PStr × AttrVal)), p a = true → l.all p = true → (insertAttr a l).all p = true := by
    intro a l ha
    induction l with
    | nil => intro _; simp [insertAttr, ha]
    | cons b rest ih =>
      intro h
      simp only [List.all_cons, Bool.and_eq_true] at h
      simp only [insertAttr]
      split
      · simp [h.1, ih h.2]
      · simp [ha, h.1, h.2]
  intro l
  induction l with
  | nil => intro _; rfl
  | cons a rest ih =>
    intro h
    simp only [List.all_cons, Bool.and_eq_true] at h
    simp only [sortAttrs, List.foldr_cons] at ih ⊢
    exact hins a _ h.1 (ih h.2)

theorem voidPrefix_ascii : ∀ c ∈ voidElementClosePrefix, c < 128 := by decide

theorem xcr_openTag (C : Codec) (hA : C.AsciiOK) (ev : Option PStr) (n : PStr) (as : List (PStr × AttrVal)) (e : Bool)
    (hn : asciiStr n = true) (has : as.all (fun a => asciiStr a.1) = true) :
    xmlcharrefreplace C (openTag ev n as e) = openTagX C ev n as e := by
  unfold openTag openTagX
  simp only [xcr_append]
  rw [xcr_ascii C hA [60] (by simp), xcr_ascii C hA n (asciiStr_lt n hn), xcr_ascii C hA [62] (by simp),
    xcr_attrs C hA ev _ (sortAttrs_all _ as has)]
  cases e
  · simp [xmlcharrefreplace]
  · simp only [if_true]; rw [xcr_ascii C hA _ voidPrefix_ascii]

theorem xcr_closeTag (C : Codec) (hA : C.AsciiOK) (n : PStr) (hn : asciiStr n = true) :
    xmlcharrefreplace C (closeTag n) = closeTag n := by
  unfold closeTag
  rw [xcr_append, xcr_append, xcr_ascii C hA [60, 47] (by simp), xcr_ascii C hA n (asciiStr_lt n hn),
    xcr_ascii C hA [62] (by simp)]

mutual
theorem xcr_decodeNode (C : Codec) (hA : C.AsciiOK) (ev : Option PStr) (parent : PStr) (t : Node) (h : asciiNames t = true) :
    xmlcharrefreplace C (decodeNode ev parent t) = decodeNodeX C ev parent t := by
  cases t with
  | text s => rfl
  | tag n as ks =>
    simp only [asciiNames, Bool.and_eq_true] at h
    obtain ⟨⟨hn, has⟩, hks⟩ := h
    simp only [decodeNode, decodeNodeX]
    split
    · exact xcr_openTag C hA ev n as true hn has
    · rw [xcr_append, xcr_append, xcr_openTag C hA ev n as false hn has, xcr_closeTag C hA n hn,
        xcr_decodeKids C hA ev n ks hks]
theorem xcr_decodeKids (C : Codec) (hA : C.AsciiOK) (ev : Option PStr) (parent : PStr) (l : List Node) (h : asciiNamesL l = true) :
    xmlcharrefreplace C (decodeKids ev parent l) = decodeKidsX C ev parent l := by
  cases l with
  | nil => rfl
  | cons k ks =>
    simp only [asciiNamesL, Bool.and_eq_true] at h
    simp only [decodeKids, decodeKidsX]
    rw [xcr_append, xcr_decodeNode C hA ev parent k h.1, xcr_decodeKids C hA ev parent ks h.2]
end

end BS.EncodingOut
