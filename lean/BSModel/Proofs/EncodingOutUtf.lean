import BSModel.Model.EncodingOutUtf
import BSModel.Proofs.EncodingOut
/-! laws of the concrete UTF codecs (core only) -/
namespace BS.EncodingOut
open BS

theorem isScalar_lt (c : Nat) (h : isScalar c = true) : c < 0x110000 := by
  simp [isScalar] at h; exact h.1

theorem isScalar_not_surr (c : Nat) (h : isScalar c = true) : ¬ (0xD800 ≤ c ∧ c ≤ 0xDFFF) := by
  simp [isScalar, isSurr] at h; omega

/-! ### UTF-8 -/

theorem utf8Go_ascii (b : Nat) (bs : Bytes) (h : b < 0x80) : utf8Go 0 0 0 (b :: bs) = (utf8Go 0 0 0 bs).map (b :: ·) := by
  simp [utf8Go, h]

theorem utf8Go_lead2 (b : Nat) (bs : Bytes) (h1 : 0xC2 ≤ b) (h2 : b < 0xE0) :
    utf8Go 0 0 0 (b :: bs) = utf8Go 1 (b - 0xC0) 0x80 bs := by
  have : ¬ b < 0x80 := by omega
  simp [utf8Go, this, h1, h2]

theorem utf8Go_lead3 (b : Nat) (bs : Bytes) (h1 : 0xE0 ≤ b) (h2 : b < 0xF0) :
    utf8Go 0 0 0 (b :: bs) = utf8Go 2 (b - 0xE0) 0x800 bs := by
  have a1 : ¬ b < 0x80 := by omega
  have a2 : ¬ b < 0xE0 := by omega
  simp [utf8Go, a1, a2, h1, h2]

theorem utf8Go_lead4 (b : Nat) (bs : Bytes) (h1 : 0xF0 ≤ b) (h2 : b < 0xF5) :
    utf8Go 0 0 0 (b :: bs) = utf8Go 3 (b - 0xF0) 0x10000 bs := by
  have a1 : ¬ b < 0x80 := by omega
  have a2 : ¬ b < 0xE0 := by omega
  have a3 : ¬ b < 0xF0 := by omega
  simp [utf8Go, a1, a2, a3, h1, h2]

theorem utf8Go_mid (k acc mn b : Nat) (bs : Bytes) (h1 : 0x80 ≤ b) (h2 : b < 0xC0) :
    utf8Go (k + 2) acc mn (b :: bs) = utf8Go (k + 1) (acc * 64 + (b - 0x80)) mn bs := by
  simp [utf8Go, isCont, h1, h2]

theorem utf8Go_last (acc mn b : Nat) (bs : Bytes) (h1 : 0x80 ≤ b) (h2 : b < 0xC0)
    (hv : mn ≤ acc * 64 + (b - 0x80)) (hs : isScalar (acc * 64 + (b - 0x80)) = true) :
    utf8Go 1 acc mn (b :: bs) = (utf8Go 0 0 0 bs).map ((acc * 64 + (b - 0x80)) :: ·) := by
  simp [utf8Go, isCont, h1, h2, hv, hs]

/-- one character: the decoder reads back what the encoder wrote, whatever follows -/
theorem utf8_char (c : Nat) (hc : isScalar c = true) (rest : Bytes) :
    utf8Go 0 0 0 (utf8Char c ++ rest) = (utf8Go 0 0 0 rest).map (c :: ·) := by
  have hlt := isScalar_lt c hc
  unfold utf8Char
  split
  · rename_i h; simp only [List.cons_append, List.nil_append]; exact utf8Go_ascii c rest h
  · split
    · rename_i h0 h1
      simp only [List.cons_append, List.nil_append]
      rw [utf8Go_lead2 _ _ (by omega) (by omega),
        utf8Go_last _ _ _ _ (by omega) (by omega) (by omega) (by
          have : (0xC0 + c / 64 - 0xC0) * 64 + (0x80 + c % 64 - 0x80) = c := by omega
          rw [this]; exact hc)]
      have : (0xC0 + c / 64 - 0xC0) * 64 + (0x80 + c % 64 - 0x80) = c := by omega
      rw [this]
    · split
      · rename_i h0 h1 h2
        simp only [List.cons_append, List.nil_append]
        have e : ((0xE0 + c / 4096 - 0xE0) * 64 + (0x80 + c / 64 % 64 - 0x80)) * 64 + (0x80 + c % 64 - 0x80) = c := by omega
        rw [utf8Go_lead3 _ _ (by omega) (by omega), utf8Go_mid _ _ _ _ _ (by omega) (by omega),
          utf8Go_last _ _ _ _ (by omega) (by omega) (by omega) (by rw [e]; exact hc), e]
      · rename_i h0 h1 h2
        simp only [List.cons_append, List.nil_append]
        have e : (((0xF0 + c / 262144 - 0xF0) * 64 + (0x80 + c / 4096 % 64 - 0x80)) * 64 + (0x80 + c / 64 % 64 - 0x80)) * 64
            + (0x80 + c % 64 - 0x80) = c := by omega
        rw [utf8Go_lead4 _ _ (by omega) (by omega), utf8Go_mid _ _ _ _ _ (by omega) (by omega),
          utf8Go_mid _ _ _ _ _ (by omega) (by omega),
          utf8Go_last _ _ _ _ (by omega) (by omega) (by omega) (by rw [e]; exact hc), e]

theorem utf8_roundTrip : utf8Codec.RoundTrip := by
  intro s hs
  show utf8Go 0 0 0 (utf8Enc s) = some s
  induction s with
  | nil => rfl
  | cons c cs ih =>
    have hc : isScalar c = true := hs c (by simp)
    simp only [utf8Enc, List.flatMap_cons]
    rw [utf8_char c hc]
    have := ih (fun x hx => hs x (by simp [hx]))
    simp only [utf8Enc] at this
    rw [this]; rfl

theorem utf8_asciiOK : utf8Codec.AsciiOK := by
  intro c hc
  simp [utf8Codec, isScalar, isSurr]; omega

theorem utf8_asciiCompat : utf8Codec.AsciiCompat := by
  intro a s ha _
  show utf8Enc (a ++ s) = a ++ utf8Enc s
  simp only [utf8Enc, List.flatMap_append]
  congr 1
  induction a with
  | nil => rfl
  | cons c cs ih =>
    have hc : c < 0x80 := ha c (by simp)
    simp only [List.flatMap_cons, utf8Char, hc, if_true]
    rw [ih (fun x hx => ha x (by simp [hx]))]; rfl

/-! ### UTF-32 -/

theorem utf32le_char (c : Nat) (hc : isScalar c = true) (rest : Bytes) :
    utf32leDec (utf32leChar c ++ rest) = (utf32leDec rest).map (c :: ·) := by
  have hlt := isScalar_lt c hc
  have e : c % 256 + 256 * (c / 256 % 256) + 65536 * (c / 65536 % 256) + 16777216 * (c / 16777216 % 256) = c := by omega
  simp only [utf32leChar, List.cons_append, List.nil_append, utf32leDec, e, hc]
  have h0 : c % 256 < 256 := by omega
  have h1 : c / 256 % 256 < 256 := by omega
  have h2 : c / 65536 % 256 < 256 := by omega
  have h3 : c / 16777216 % 256 < 256 := by omega
  simp [h0, h1, h2, h3]

theorem utf32le_roundTrip : utf32leCodec.RoundTrip := by
  intro s hs
  show utf32leDec (s.flatMap utf32leChar) = some s
  induction s with
  | nil => rfl
  | cons c cs ih =>
    simp only [List.flatMap_cons]
    rw [utf32le_char c (hs c (by simp)), ih (fun x hx => hs x (by simp [hx]))]; rfl

theorem utf32_roundTrip : utf32Codec.RoundTrip := by
  intro s hs
  show (match bom32le ++ s.flatMap utf32leChar with
    | 0xFF :: 0xFE :: 0 :: 0 :: rest => utf32leDec rest
    | 0 :: 0 :: 0xFE :: 0xFF :: rest => utf32beDec rest
    | b => utf32leDec b) = some s
  simp only [bom32le, List.cons_append, List.nil_append]
  exact utf32le_roundTrip s hs

theorem utf_asciiOK (c : Nat) (hc : c < 128) : isScalar c = true := by
  simp [isScalar, isSurr]; omega

/-! ### UTF-16 -/

theorem unitsLE_bytes (us : List Nat) (h : ∀ u ∈ us, u < 65536) :
    unitsLE (us.flatMap (fun u => [u % 256, u / 256])) = some us := by
  induction us with
  | nil => rfl
  | cons u rest ih =>
    have hu := h u (by simp)
    have h1 : u % 256 < 256 := by omega
    have h2 : u / 256 < 256 := by omega
    have e : u % 256 + 256 * (u / 256) = u := by omega
    simp only [List.flatMap_cons, List.cons_append, List.nil_append, unitsLE, ih (fun x hx => h x (by simp [hx])), e]
    simp [h1, h2]

theorem utf16Units_lt (c : Nat) (hc : isScalar c = true) : ∀ u ∈ utf16Units c, u < 65536 := by
  have hlt := isScalar_lt c hc
  intro u hu
  unfold utf16Units at hu
  split at hu
  · simp at hu; omega
  · simp at hu; omega

theorem utf16_units_char (c : Nat) (hc : isScalar c = true) (rest : List Nat) :
    utf16FromUnits (utf16Units c ++ rest) = (utf16FromUnits rest).map (c :: ·) := by
  have hlt := isScalar_lt c hc
  have hns := isScalar_not_surr c hc
  unfold utf16Units
  split
  · rename_i hb
    have hsu : isSurr c = false := by simp [isSurr]; omega
    have hhi : ¬ (0xD800 ≤ c ∧ c < 0xDC00) := by omega
    cases rest with
    | nil => simp [utf16FromUnits, hsu]
    | cons v rest' =>
      simp only [List.cons_append, List.nil_append, utf16FromUnits, hsu]
      simp [hhi]
  · rename_i hb
    have e : 0x10000 + (0xD800 + (c - 0x10000) / 1024 - 0xD800) * 1024 + (0xDC00 + (c - 0x10000) % 1024 - 0xDC00) = c := by omega
    have a1 : 0xD800 ≤ 0xD800 + (c - 0x10000) / 1024 := by omega
    have a2 : 0xD800 + (c - 0x10000) / 1024 < 0xDC00 := by omega
    have a3 : 0xDC00 ≤ 0xDC00 + (c - 0x10000) % 1024 := by omega
    have a4 : 0xDC00 + (c - 0x10000) % 1024 < 0xE000 := by omega
    simp only [List.cons_append, List.nil_append, utf16FromUnits, e]
    simp [a2, a4]

theorem utf16_units (s : PStr) (hs : ∀ c ∈ s, isScalar c = true) : utf16FromUnits (s.flatMap utf16Units) = some s := by
  induction s with
  | nil => rfl
  | cons c cs ih =>
    simp only [List.flatMap_cons]
    rw [utf16_units_char c (hs c (by simp)), ih (fun x hx => hs x (by simp [hx]))]; rfl

theorem utf16le_roundTrip : utf16leCodec.RoundTrip := by
  intro s hs
  show (unitsLE (s.flatMap utf16leChar)).bind utf16FromUnits = some s
  have e : s.flatMap utf16leChar = (s.flatMap utf16Units).flatMap (fun u => [u % 256, u / 256]) := by
    rw [List.flatMap_assoc]; rfl
  rw [e, unitsLE_bytes]
  · exact utf16_units s hs
  · intro u hu
    simp only [List.mem_flatMap] at hu
    obtain ⟨c, hc, hu⟩ := hu
    exact utf16Units_lt c (hs c hc) u hu

theorem utf16_roundTrip : utf16Codec.RoundTrip := by
  intro s hs
  show (match bom16le ++ s.flatMap utf16leChar with
    | 0xFF :: 0xFE :: rest => utf16leDec rest
    | 0xFE :: 0xFF :: rest => utf16beDec rest
    | b => utf16leDec b) = some s
  simp only [bom16le, List.cons_append, List.nil_append]
  exact utf16le_roundTrip s hs

theorem unitsBE_bytes (us : List Nat) (h : ∀ u ∈ us, u < 65536) :
    unitsBE (us.flatMap (fun u => [u / 256, u % 256])) = some us := by
  induction us with
  | nil => rfl
  | cons u rest ih =>
    have hu := h u (by simp)
    have h1 : u % 256 < 256 := by omega
    have h2 : u / 256 < 256 := by omega
    have e : u % 256 + 256 * (u / 256) = u := by omega
    simp only [List.flatMap_cons, List.cons_append, List.nil_append, unitsBE, ih (fun x hx => h x (by simp [hx])), e]
    simp [h1, h2]

theorem utf16be_roundTrip : utf16beCodec.RoundTrip := by
  intro s hs
  show (unitsBE (s.flatMap utf16beChar)).bind utf16FromUnits = some s
  have e : s.flatMap utf16beChar = (s.flatMap utf16Units).flatMap (fun u => [u / 256, u % 256]) := by
    rw [List.flatMap_assoc]; rfl
  rw [e, unitsBE_bytes]
  · exact utf16_units s hs
  · intro u hu
    simp only [List.mem_flatMap] at hu
    obtain ⟨c, hc, hu⟩ := hu
    exact utf16Units_lt c (hs c hc) u hu

theorem utf32be_char (c : Nat) (hc : isScalar c = true) (rest : Bytes) :
    utf32beDec (utf32beChar c ++ rest) = (utf32beDec rest).map (c :: ·) := by
  have hlt := isScalar_lt c hc
  have e : c % 256 + 256 * (c / 256 % 256) + 65536 * (c / 65536 % 256) + 16777216 * (c / 16777216 % 256) = c := by omega
  simp only [utf32beChar, List.cons_append, List.nil_append, utf32beDec, e, hc]
  have h0 : c % 256 < 256 := by omega
  have h1 : c / 256 % 256 < 256 := by omega
  have h2 : c / 65536 % 256 < 256 := by omega
  have h3 : c / 16777216 % 256 < 256 := by omega
  simp [h0, h1, h2, h3]

theorem utf32be_roundTrip : utf32beCodec.RoundTrip := by
  intro s hs
  show utf32beDec (s.flatMap utf32beChar) = some s
  induction s with
  | nil => rfl
  | cons c cs ih =>
    simp only [List.flatMap_cons]
    rw [utf32be_char c (hs c (by simp)), ih (fun x hx => hs x (by simp [hx]))]; rfl

/-! ### the byte-order mark is found -/

theorem sniff_utf32 (s : PStr) : sniffBom (utf32Codec.enc s) = some .utf32le := by
  show sniffBom (bom32le ++ s.flatMap utf32leChar) = _
  simp [sniffBom, bom32le]

/-- `utf-16` output is recognised by its BOM unless the document starts with U+0000 (then the first four bytes are the
    UTF-32-LE mark) or is empty -/
theorem sniff_utf16 (c : Nat) (cs : PStr) (h0 : c ≠ 0) (hc : c < 0x10000) :
    sniffBom (utf16Codec.enc (c :: cs)) = some .utf16le := by
  show sniffBom (bom16le ++ (c :: cs).flatMap utf16leChar) = _
  simp only [bom16le, List.flatMap_cons, utf16leChar, utf16Units, hc, if_true, List.cons_append, List.nil_append]
  simp [sniffBom]
  omega

end BS.EncodingOut
