import BSModel.Model.EncodingRx
import BSModel.Proofs.EncodingDecl
/-! The regex engine on the two generated patterns (bytes flavour) equals the hand-written matchers
    `xmlMatch` / `htmlSearch` of `Model/EncodingIn.lean` on every input. Core Lean only. -/
namespace BS.EncodingIn.Rx
open BS BS.EncodingIn

/-! ## the patterns, written by hand in a shape convenient for proofs, and equal to the generated ones -/

/-- a run of literals -/
def lits (l : List Nat) : List Atom := l.map fun c => Atom.one (.lit c)

def quoteCls : Cls := .oneOf [39, 34] false false
def quoteCls' : Cls := .oneOf [34, 39] false false
def termCls : Cls := .oneOf [32, 47, 59, 39, 34, 62] false false

def xmlTail3 : List Atom := lits [63, 62]
def xmlTail2 : List Atom := .gclose :: .one quoteCls :: .rep .any false true true :: xmlTail3
def xmlEnc : List Atom := lits litEncodingEq ++ (.one quoteCls :: .gopen :: .rep .any false true false :: xmlTail2)
def xmlAtomsH : List Atom := .rep .space false true true :: (lits [60, 63] ++ (.rep .any false true true :: xmlEnc))

def htmlTerm : List Atom := [.gclose, .one termCls]
def htmlVal : List Atom := .rep quoteCls' false false true :: .gopen :: .rep (.notLit 62) false true false :: htmlTerm
def htmlCs : List Atom := lits litCharset ++ (.rep .space false true true :: .one (.lit 61) :: .rep .space false true true :: htmlVal)
def htmlMetaTail : List Atom := lits litMeta ++ (.rep (.notLit 62) true true true :: htmlCs)
def htmlAtomsH : List Atom := .one (.lit 60) :: .rep .space false true true :: htmlMetaTail

theorem gen_xml_eq : Gen.c07XmlAnchored = true ∧ Gen.c07XmlAtoms = xmlAtomsH := by decide +kernel
theorem gen_html_eq : Gen.c07HtmlAnchored = false ∧ Gen.c07HtmlAtoms = htmlAtomsH := by decide +kernel

/-! ## character classes of the bytes flavour -/

theorem lowerC_eq_of_nonletter (x c : Nat) (hc : c < 65 ∨ (90 < c ∧ c < 97) ∨ 122 < c) : (lowerC x == c) = (x == c) := by
  unfold lowerC
  by_cases h : 65 ≤ x ∧ x ≤ 90
  · simp only [h, and_self, if_true]
    have h1 : (x + 32 == c) = false := by simp; omega
    have h2 : (x == c) = false := by simp; omega
    rw [h1, h2]
  · simp only [h, if_false]

theorem test_space (x : Nat) : Cls.test bytesFlavor .space x = isSpace x := rfl
theorem test_any (x : Nat) : Cls.test bytesFlavor .any x = (x != 10) := rfl

/-- a literal that is a lower-case letter or not a letter at all -/
theorem test_lit (c x : Nat) (hc : lowerC c = c) : Cls.test bytesFlavor (.lit c) x = (lowerC x == c) := by
  simp [Cls.test, bytesFlavor, hc]

theorem test_lit_nonletter (c x : Nat) (hc : c < 65 ∨ (90 < c ∧ c < 97) ∨ 122 < c) :
    Cls.test bytesFlavor (.lit c) x = (x == c) := by
  have h1 : lowerC c = c := by unfold lowerC; split <;> omega
  rw [test_lit c x h1]
  exact lowerC_eq_of_nonletter x c hc

theorem test_notGt (x : Nat) : Cls.test bytesFlavor (.notLit 62) x = (x != 62) := by
  have := test_lit_nonletter 62 x (by omega)
  simp only [Cls.test] at this ⊢
  rw [this]; rfl

theorem test_quote (x : Nat) : Cls.test bytesFlavor quoteCls x = isQuote x := by
  have h39 := test_lit_nonletter 39 x (by omega)
  have h34 := test_lit_nonletter 34 x (by omega)
  simp only [Cls.test] at h39 h34
  simp only [Cls.test, quoteCls, List.any_cons, List.any_nil, h39, h34, isQuote]
  cases (x == 39) <;> cases (x == 34) <;> rfl

theorem test_quote' (x : Nat) : Cls.test bytesFlavor quoteCls' x = isQuote x := by
  have h39 := test_lit_nonletter 39 x (by omega)
  have h34 := test_lit_nonletter 34 x (by omega)
  simp only [Cls.test] at h39 h34
  simp only [Cls.test, quoteCls', List.any_cons, List.any_nil, h39, h34, isQuote]
  cases (x == 39) <;> cases (x == 34) <;> rfl

theorem test_term (x : Nat) : Cls.test bytesFlavor termCls x = isTerm x := by
  have h32 := test_lit_nonletter 32 x (by omega)
  have h47 := test_lit_nonletter 47 x (by omega)
  have h59 := test_lit_nonletter 59 x (by omega)
  have h39 := test_lit_nonletter 39 x (by omega)
  have h34 := test_lit_nonletter 34 x (by omega)
  have h62 := test_lit_nonletter 62 x (by omega)
  simp only [Cls.test] at h32 h47 h59 h39 h34 h62
  simp only [Cls.test, termCls, List.any_cons, List.any_nil, h32, h47, h59, h39, h34, h62, isTerm]
  cases (x == 32) <;> cases (x == 47) <;> cases (x == 59) <;> cases (x == 39) <;> cases (x == 34) <;> cases (x == 62) <;> rfl

/-! ## generic facts about the engine -/

theorem push_none (res : List Nat) (x : Nat) : St.push ⟨none, res⟩ x = ⟨none, res⟩ := rfl

theorem mSeq_append (F : Flavor) (a b : List Atom) (k : K) : mSeq F (a ++ b) k = mSeq F a (mSeq F b k) := by
  induction a with
  | nil => rfl
  | cons x xs ih => simp only [List.cons_append, mSeq, ih]

/-- a greedy star whose continuation can never start with a character of the star's class is
    deterministic: it takes the whole run -/
theorem starG_det (p : Nat → Bool) (k : K) (hk : ∀ x t st, p x = true → k (x :: t) st = none)
    (inp : List Nat) (res : List Nat) :
    starG p k inp ⟨none, res⟩ = k (inp.dropWhile p) ⟨none, res⟩ := by
  induction inp with
  | nil => rfl
  | cons x t ih =>
    simp only [starG, List.dropWhile_cons]
    by_cases hp : p x = true
    · simp only [hp, if_true, push_none, ih]
      cases h : k (t.dropWhile p) ⟨none, res⟩ with
      | some r => rfl
      | none => exact hk x t _ hp
    · simp only [hp, Bool.false_eq_true, if_false]

/-- a run of literals (lower-case or non-letters) in front: `startsCI`, then the rest -/
theorem mSeq_lits (l : List Nat) (hl : ∀ c ∈ l, lowerC c = c) (rest : List Atom) (k : K) (inp res) :
    mSeq bytesFlavor (lits l ++ rest) k inp ⟨none, res⟩ =
      if startsCI l inp then mSeq bytesFlavor rest k (inp.drop l.length) ⟨none, res⟩ else none := by
  induction l generalizing inp with
  | nil => simp [lits, startsCI]
  | cons c cs ih =>
    have hc := hl c List.mem_cons_self
    have ih' := ih (fun x hx => hl x (List.mem_cons_of_mem _ hx))
    cases inp with
    | nil => simp [lits, mSeq, mAtom, one, startsCI]
    | cons x t =>
      simp only [lits, List.map_cons, List.cons_append, mSeq, mAtom, one, test_lit c x hc, startsCI, push_none,
        List.length_cons, List.drop_succ_cons]
      by_cases hx : (lowerC x == c) = true
      · simp only [hx, if_true, Bool.true_and]
        exact ih' t
      · simp only [hx, Bool.false_eq_true, if_false, Bool.false_and]

/-! ## the XML declaration pattern -/

/-- the part of the subject `.` can run over -/
def line (l : List Nat) : List Nat := l.takeWhile (· != 10)

theorem line_cons_nl (t : List Nat) : line (10 :: t) = [] := by simp [line]
theorem line_cons (x : Nat) (t : List Nat) (h : x ≠ 10) : line (x :: t) = x :: line t := by
  simp [line, List.takeWhile_cons, h]

theorem containsQmGt_cons (x : Nat) (l : List Nat) :
    containsQmGt (x :: l) = ((x == 63 && l.head? == some 62) || containsQmGt l) := rfl

theorem head_line (t : List Nat) : ((line t).head? == some 62) = (t.head? == some 62) := by
  cases t with
  | nil => rfl
  | cons y r =>
    by_cases h : y = 10
    · subst h; simp [line]
    · simp [line_cons y r h]

def K3 : K := mSeq bytesFlavor xmlTail3 final

theorem K3_eq (inp : List Nat) (res : List Nat) :
    K3 inp ⟨none, res⟩ = match inp with
      | x :: y :: _ => if x == 63 && y == 62 then some res else none
      | _ => none := by
  unfold K3 xmlTail3 lits
  simp only [List.map_cons, List.map_nil, mSeq, mAtom]
  cases inp with
  | nil => rfl
  | cons x t =>
    simp only [one, test_lit_nonletter 63 x (by omega), push_none]
    cases t with
    | nil => by_cases h : (x == 63) = true <;> simp [h, one]
    | cons y r =>
      simp only [one, test_lit_nonletter 62 y (by omega), push_none, final]
      by_cases h : (x == 63) = true <;> by_cases h2 : (y == 62) = true <;> simp [h, h2]

/-- greedy `.*` then `?>`: succeeds iff `?>` occurs later on the line -/
theorem starG_any_K3 (inp : List Nat) (res : List Nat) :
    starG (Cls.test bytesFlavor .any) K3 inp ⟨none, res⟩ = if containsQmGt (line inp) then some res else none := by
  induction inp with
  | nil => simp [starG, K3_eq, line, containsQmGt]
  | cons x t ih =>
    simp only [starG, test_any, push_none, ih]
    by_cases hx : x = 10
    · subst hx
      simp [line_cons_nl, containsQmGt, K3_eq]
      cases t <;> simp
    · have hx' : (x != 10) = true := by simpa using hx
      simp only [hx', if_true, line_cons x t hx, containsQmGt_cons, head_line]
      by_cases hc : containsQmGt (line t) = true
      · simp [hc]
      · simp only [hc, Bool.false_eq_true, if_false, Bool.or_false, K3_eq]
        cases t with
        | nil => simp
        | cons y r => simp

def K2 : K := mSeq bytesFlavor xmlTail2 final

theorem K2_eq (inp : List Nat) (acc res0 : List Nat) :
    K2 inp ⟨some acc, res0⟩ = match inp with
      | x :: t => if isQuote x && containsQmGt (line t) then some acc.reverse else none
      | [] => none := by
  unfold K2 xmlTail2
  simp only [mSeq, mAtom]
  cases inp with
  | nil => rfl
  | cons x t =>
    simp only [one, test_quote, Option.getD_some]
    by_cases hq : isQuote x = true
    · simp only [hq, if_true, Bool.true_and]
      have := starG_any_K3 t acc.reverse
      unfold K3 at this
      simp only [St.push, Option.map_none]
      rw [this]
    · simp [hq]

/-- lazy `(.*?)` then closing quote, `.*`, `?>` -/
theorem starL_any_K2 (inp : List Nat) (acc res0 : List Nat) :
    starL (Cls.test bytesFlavor .any) K2 inp ⟨some acc, res0⟩ = lazyQuote (line inp) acc := by
  induction inp generalizing acc with
  | nil => simp [starL, K2_eq, line, lazyQuote]
  | cons x t ih =>
    simp only [starL, K2_eq, test_any]
    by_cases hx : x = 10
    · subst hx
      have : isQuote 10 = false := by decide
      simp [line_cons_nl, lazyQuote, this]
    · have hx' : (x != 10) = true := by simpa using hx
      rw [line_cons x t hx, lazyQuote]
      by_cases hq : (isQuote x && containsQmGt (line t)) = true
      · simp [hq]
      · simp only [hq, Bool.false_eq_true, if_false, hx', if_true]
        exact ih (x :: acc)

theorem litEncodingEq_lower : ∀ c ∈ litEncodingEq, lowerC c = c := by decide
theorem litCharset_lower : ∀ c ∈ litCharset, lowerC c = c := by decide
theorem litMeta_lower : ∀ c ∈ litMeta, lowerC c = c := by decide

/-- `startsCI` of a newline-free literal looks only at the line -/
theorem startsCI_line (l : List Nat) (hl : ∀ a ∈ l, a ≠ 10) (inp : List Nat) :
    startsCI l (line inp) = startsCI l inp := by
  induction l generalizing inp with
  | nil => simp [startsCI]
  | cons a as ih =>
    cases inp with
    | nil => rfl
    | cons x t =>
      by_cases hx : x = 10
      · subst hx
        have : (lowerC 10 == a) = false := by
          have : lowerC 10 = 10 := by decide
          rw [this]; simpa using (hl a List.mem_cons_self).symm
        simp [line_cons_nl, startsCI, this]
      · rw [line_cons x t hx]
        simp only [startsCI, ih (fun b hb => hl b (List.mem_cons_of_mem _ hb))]

theorem line_drop_of_startsCI (l : List Nat) (hl : ∀ a ∈ l, a ≠ 10) (inp : List Nat) (h : startsCI l inp = true) :
    (line inp).drop l.length = line (inp.drop l.length) := by
  induction l generalizing inp with
  | nil => rfl
  | cons a as ih =>
    cases inp with
    | nil => simp [startsCI] at h
    | cons x t =>
      simp only [startsCI, Bool.and_eq_true, beq_iff_eq] at h
      have hx : x ≠ 10 := by
        intro hx; subst hx
        have : lowerC 10 = 10 := by decide
        rw [this] at h
        exact hl a List.mem_cons_self h.1.symm
      rw [line_cons x t hx]
      simp only [List.length_cons, List.drop_succ_cons]
      exact ih (fun b hb => hl b (List.mem_cons_of_mem _ hb)) t h.2

def Kenc : K := mSeq bytesFlavor xmlEnc final

theorem Kenc_eq (inp : List Nat) (res : List Nat) : Kenc inp ⟨none, res⟩ = encHere (line inp) := by
  unfold Kenc xmlEnc encHere
  rw [mSeq_lits _ litEncodingEq_lower, startsCI_line _ (by decide)]
  by_cases hs : startsCI litEncodingEq inp = true
  · simp only [hs, if_true]
    have hd := line_drop_of_startsCI litEncodingEq (by decide) inp hs
    have h9 : litEncodingEq.length = 9 := rfl
    rw [h9] at hd ⊢
    rw [hd]
    simp only [mSeq, mAtom]
    cases inp.drop 9 with
    | nil => rfl
    | cons q r =>
      simp only [one, test_quote]
      by_cases hq10 : q = 10
      · subst hq10
        have : isQuote 10 = false := by decide
        simp [line_cons_nl, this]
      · rw [line_cons q r hq10]
        by_cases hq : isQuote q = true
        · simp only [hq, if_true, St.push, Option.map_none]
          have := starL_any_K2 r [] res
          unfold K2 at this
          exact this
        · simp [hq]
  · simp [hs]

/-- greedy `.*` before `encoding=`: the last position on the line -/
theorem starG_any_Kenc (inp : List Nat) (res : List Nat) :
    starG (Cls.test bytesFlavor .any) Kenc inp ⟨none, res⟩ = lastEncoding (line inp) := by
  induction inp with
  | nil => simp [starG, Kenc_eq, line, lastEncoding, encHere, startsCI, litEncodingEq]
  | cons x t ih =>
    simp only [starG, test_any, push_none, ih, Kenc_eq]
    by_cases hx : x = 10
    · subst hx
      simp [line_cons_nl, lastEncoding, encHere, startsCI, litEncodingEq]
    · have hx' : (x != 10) = true := by simpa using hx
      simp only [hx', if_true, line_cons x t hx, lastEncoding]
      cases lastEncoding (line t) <;> rfl

theorem matchHere_xml (s : List Nat) :
    matchHere bytesFlavor xmlAtomsH s =
      match s.dropWhile isSpace with
      | 60 :: 63 :: rest => lastEncoding (rest.takeWhile (· != 10))
      | _ => none := by
  unfold matchHere xmlAtomsH
  simp only [mSeq, mAtom]
  have hdet : ∀ x t st, Cls.test bytesFlavor .space x = true →
      mSeq bytesFlavor (lits [60, 63] ++ (.rep .any false true true :: xmlEnc)) final (x :: t) st = none := by
    intro x t st hx
    rw [test_space] at hx
    simp only [lits, List.map_cons, List.map_nil, List.cons_append, List.nil_append, mSeq, mAtom, one,
      test_lit_nonletter 60 x (by omega)]
    have : (x == 60) = false := by
      cases h : (x == 60) with
      | false => rfl
      | true => rw [beq_iff_eq.mp h] at hx; revert hx; decide
    simp [this]
  rw [starG_det _ _ hdet]
  have hsp : Cls.test bytesFlavor .space = isSpace := rfl
  rw [hsp]
  rw [mSeq_lits [60, 63] (by decide)]
  cases hd : s.dropWhile isSpace with
  | nil => simp [startsCI]
  | cons a r =>
    cases r with
    | nil => simp [startsCI]
    | cons b rest =>
      simp only [startsCI, List.length_cons, List.length_nil, List.drop_succ_cons, List.drop_zero, Bool.and_true]
      have ha := lowerC_eq_of_nonletter a 60 (by omega)
      have hb := lowerC_eq_of_nonletter b 63 (by omega)
      rw [ha, hb]
      by_cases h1 : a = 60
      · subst h1
        by_cases h2 : b = 63
        · subst h2
          simp only [beq_self_eq_true, Bool.and_self, if_true, mSeq, mAtom]
          exact starG_any_Kenc rest []
        · have : (b == 63) = false := by simpa using h2
          simp [this, h2]
      · have : (a == 60) = false := by simpa using h1
        simp [this, h1]

/-! ## the `<meta … charset=…>` pattern -/

def Kterm : K := mSeq bytesFlavor htmlTerm final

theorem Kterm_eq (inp acc res0 : List Nat) :
    Kterm inp ⟨some acc, res0⟩ = match inp with
      | x :: _ => if isTerm x then some acc.reverse else none
      | [] => none := by
  unfold Kterm htmlTerm
  simp only [mSeq, mAtom]
  cases inp with
  | nil => rfl
  | cons x t => simp only [one, test_term, Option.getD_some, final, St.push, Option.map_none]

theorem isTerm_gt : isTerm 62 = true := by decide

/-- lazy `([^>]*?)` then a closing-class character -/
theorem starL_Kterm (inp acc res0 : List Nat) :
    starL (Cls.test bytesFlavor (.notLit 62)) Kterm inp ⟨some acc, res0⟩ = splitTerm inp acc := by
  induction inp generalizing acc with
  | nil => simp [starL, Kterm_eq, splitTerm]
  | cons x t ih =>
    simp only [starL, Kterm_eq, splitTerm, test_notGt]
    by_cases ht : isTerm x = true
    · simp [ht]
    · have hx : (x != 62) = true := by
        cases h : (x != 62) with
        | true => rfl
        | false =>
          have : x = 62 := by simpa using h
          rw [this] at ht; exact absurd isTerm_gt ht
      simp only [ht, Bool.false_eq_true, if_false, hx, if_true]
      exact ih (x :: acc)

theorem splitTerm_none_iff (l acc : List Nat) : splitTerm l acc = none ↔ ∀ c ∈ l, isTerm c = false := by
  induction l generalizing acc with
  | nil => simp [splitTerm]
  | cons x t ih =>
    simp only [splitTerm]
    by_cases ht : isTerm x = true
    · simp [ht]
    · have ht' : isTerm x = false := by simpa using ht
      simp only [ht', Bool.false_eq_true, if_false, ih, List.mem_cons, forall_eq_or_imp, true_and]

def Kv : K := mSeq bytesFlavor htmlVal final

/-- the value part at a position where no white space is skipped any more -/
def valHere : List Nat → Option (List Nat)
  | [] => none
  | q :: r =>
    if isQuote q then
      match splitTerm r [] with
      | some g => some g
      | none => some []
    else splitTerm (q :: r) []

theorem Kv_eq (inp res : List Nat) : Kv inp ⟨none, res⟩ = valHere inp := by
  unfold Kv htmlVal
  simp only [mSeq, mAtom]
  have hK : ∀ l, starL (Cls.test bytesFlavor (Cls.notLit 62)) (mSeq bytesFlavor htmlTerm final) l ⟨some [], res⟩
      = splitTerm l [] := fun l => starL_Kterm l [] res
  cases inp with
  | nil => simp only [optG, valHere, hK]; rfl
  | cons q r =>
    simp only [optG, test_quote', valHere, push_none]
    by_cases hq : isQuote q = true
    · simp only [hq, if_true, hK]
      cases hs : splitTerm r [] with
      | some g => rfl
      | none => simp [splitTerm, isQuote_isTerm q hq]
    · simp only [hq, Bool.false_eq_true, if_false, hK]

theorem valHere_quote (q : Nat) (r : List Nat) (hq : isQuote q = true) : (valHere (q :: r)).isSome = true := by
  simp only [valHere, hq, if_true]
  cases splitTerm r [] <;> rfl

theorem htmlValue_eq (t : List Nat) :
    htmlValue t = match valHere (t.dropWhile isSpace) with
      | some g => some g
      | none => if (t.takeWhile isSpace).contains 32 then some [] else none := by
  unfold htmlValue
  cases hd : t.dropWhile isSpace with
  | nil => simp [valHere]
  | cons q r =>
    simp only [valHere]
    by_cases hq : isQuote q = true
    · simp only [hq, if_true]
      cases splitTerm r [] <;> rfl
    · simp only [hq, Bool.false_eq_true, if_false]
      cases splitTerm (q :: r) [] <;> rfl

theorem isTerm_space (x : Nat) (hs : isSpace x = true) : isTerm x = (x == 32) := by
  by_cases h : x = 32
  · subst h; rfl
  · have h' : (x == 32) = false := by simpa using h
    rw [h']
    simp only [isSpace, Bool.or_eq_true, beq_iff_eq, Bool.and_eq_true, decide_eq_true_eq] at hs
    rcases hs with hs | hs
    · exact absurd hs h
    · simp only [isTerm, Bool.or_eq_false_iff, beq_eq_false_iff_ne, ne_eq]
      omega

theorem mem_takeWhile_p {α} (p : α → Bool) (l : List α) (c : α) (h : c ∈ l.takeWhile p) : p c = true := by
  induction l with
  | nil => cases h
  | cons x t ih =>
    simp only [List.takeWhile_cons] at h
    split at h
    · rename_i hx
      rcases List.mem_cons.mp h with rfl | h
      · exact hx
      · exact ih h
    · cases h

theorem isQuote_not_space (x : Nat) (hs : isSpace x = true) : isQuote x = false := by
  cases hq : isQuote x with
  | false => rfl
  | true =>
    simp only [isQuote, Bool.or_eq_true, beq_iff_eq] at hq
    rcases hq with rfl | rfl <;> revert hs <;> decide

/-- greedy `\s*` in front of the value, with the engine's backtracking into the white space -/
theorem starG_space_Kv (t res : List Nat) :
    starG (Cls.test bytesFlavor .space) Kv t ⟨none, res⟩ = htmlValue t := by
  have hsp : Cls.test bytesFlavor .space = isSpace := rfl
  rw [hsp]
  induction t with
  | nil => simp [starG, Kv_eq, htmlValue_eq, valHere]
  | cons x t ih =>
    simp only [starG, push_none, ih, Kv_eq]
    by_cases hs : isSpace x = true
    · simp only [hs, if_true]
      rw [htmlValue_eq t, htmlValue_eq (x :: t)]
      simp only [List.dropWhile_cons, List.takeWhile_cons, hs, if_true, List.contains_cons]
      cases hv : valHere (t.dropWhile isSpace) with
      | some g => rfl
      | none =>
        simp only
        by_cases hc : (t.takeWhile isSpace).contains 32 = true
        · rw [hc]; simp only [if_true, Bool.or_true]
        · have hc' : (t.takeWhile isSpace).contains 32 = false := by simpa using hc
          simp only [hc', Bool.false_eq_true, if_false, Bool.or_false]
          -- the engine gives `x` back: the value starts at the white space character `x`
          simp only [valHere, isQuote_not_space x hs, Bool.false_eq_true, if_false, splitTerm, isTerm_space x hs]
          by_cases h32 : x = 32
          · subst h32; simp
          · have h32' : (x == 32) = false := by simpa using h32
            have h32'' : ((32 : Nat) == x) = false := by simpa using (Ne.symm h32)
            simp only [h32', Bool.false_eq_true, if_false, h32'']
            rw [splitTerm_none_iff]
            intro c hc
            have hsplit : t = t.takeWhile isSpace ++ t.dropWhile isSpace := (List.takeWhile_append_dropWhile).symm
            rw [hsplit] at hc
            rcases List.mem_append.mp hc with hc | hc
            · have hcs : isSpace c = true := mem_takeWhile_p isSpace t c hc
              rw [isTerm_space c hcs]
              have : c ≠ 32 := by
                intro h; subst h
                have : (t.takeWhile isSpace).contains 32 = true := by simpa using hc
                rw [hc'] at this; cases this
              simpa using this
            · -- no closing-class character from the first non-space character on
              cases hd : t.dropWhile isSpace with
              | nil => rw [hd] at hc; cases hc
              | cons q r =>
                rw [hd] at hv hc
                have hq : isQuote q = false := by
                  cases hq : isQuote q with
                  | false => rfl
                  | true => have := valHere_quote q r hq; rw [hv] at this; cases this
                simp only [valHere, hq, Bool.false_eq_true, if_false] at hv
                exact (splitTerm_none_iff _ _).mp hv c hc
    · simp only [hs, Bool.false_eq_true, if_false]
      rw [htmlValue_eq (x :: t)]
      simp only [List.dropWhile_cons, List.takeWhile_cons, hs, Bool.false_eq_true, if_false, List.contains_nil]
      cases valHere (x :: t) <;> rfl

def Kcs : K := mSeq bytesFlavor htmlCs final

theorem Kcs_eq (inp res : List Nat) : Kcs inp ⟨none, res⟩ = charsetHere inp := by
  unfold Kcs htmlCs charsetHere
  rw [mSeq_lits _ litCharset_lower]
  by_cases hs : startsCI litCharset inp = true
  · simp only [hs, if_true]
    have h7 : litCharset.length = 7 := rfl
    rw [h7]
    simp only [mSeq, mAtom]
    have hdet : ∀ x t st, Cls.test bytesFlavor .space x = true →
        one (Cls.test bytesFlavor (.lit 61)) (starG (Cls.test bytesFlavor .space) (mSeq bytesFlavor htmlVal final)) (x :: t) st = none := by
      intro x t st hx
      rw [test_space] at hx
      simp only [one, test_lit_nonletter 61 x (by omega)]
      have : (x == 61) = false := by
        cases h : (x == 61) with
        | false => rfl
        | true => rw [beq_iff_eq.mp h] at hx; revert hx; decide
      simp [this]
    rw [starG_det _ _ hdet]
    have hsp : Cls.test bytesFlavor .space = isSpace := rfl
    rw [hsp]
    cases hd : (inp.drop 7).dropWhile isSpace with
    | nil => rfl
    | cons a r =>
      simp only [one, test_lit_nonletter 61 a (by omega), push_none]
      by_cases ha : a = 61
      · subst ha
        simp only [beq_self_eq_true, if_true]
        have := starG_space_Kv r res
        unfold Kv at this
        rw [← hsp]
        exact this
      · have : (a == 61) = false := by simpa using ha
        simp only [this, Bool.false_eq_true, if_false]
        split
        · rename_i heq; simp only [List.cons.injEq] at heq; exact absurd heq.1 ha
        · rfl
  · simp [hs]

/-- greedy `[^>]*` (the tail of `[^>]+`) before `charset` -/
theorem starG_notGt_Kcs (u res : List Nat) :
    starG (Cls.test bytesFlavor (.notLit 62)) Kcs u ⟨none, res⟩ = lastCharset u := by
  induction u with
  | nil => simp [starG, Kcs_eq, lastCharset, charsetHere, startsCI, litCharset]
  | cons c t ih =>
    simp only [starG, test_notGt, push_none, ih, Kcs_eq, lastCharset]
    by_cases hc : c = 62
    · subst hc; simp
    · have h1 : (c != 62) = true := by simpa using hc
      have h2 : (c == 62) = false := by simpa using hc
      simp only [h1, if_true, h2, Bool.false_eq_true, if_false]
      cases lastCharset t <;> rfl

theorem matchHere_html (s : List Nat) :
    matchHere bytesFlavor htmlAtomsH s = match s with
      | c :: t => if c == 60 then metaAt t else none
      | [] => none := by
  unfold matchHere htmlAtomsH
  simp only [mSeq, mAtom]
  cases s with
  | nil => rfl
  | cons c t =>
    simp only [one, test_lit_nonletter 60 c (by omega), push_none]
    by_cases hc : (c == 60) = true
    · simp only [hc, if_true]
      have hdet : ∀ x t st, Cls.test bytesFlavor .space x = true →
          mSeq bytesFlavor htmlMetaTail final (x :: t) st = none := by
        intro x t st hx
        rw [test_space] at hx
        unfold htmlMetaTail
        simp only [lits, litMeta, List.map_cons, List.map_nil, List.cons_append, List.nil_append, mSeq, mAtom, one,
          test_lit 109 x (by decide)]
        have : (lowerC x == 109) = false := by
          cases h : (lowerC x == 109) with
          | false => rfl
          | true =>
            have h' := beq_iff_eq.mp h
            simp only [isSpace, Bool.or_eq_true, beq_iff_eq, Bool.and_eq_true, decide_eq_true_eq] at hx
            unfold lowerC at h'
            split at h' <;> omega
        simp [this]
      rw [starG_det _ _ hdet]
      have hsp : Cls.test bytesFlavor .space = isSpace := rfl
      rw [hsp]
      unfold metaAt htmlMetaTail
      rw [mSeq_lits _ litMeta_lower]
      by_cases hs : startsCI litMeta (t.dropWhile isSpace) = true
      · simp only [hs, if_true]
        have h4 : litMeta.length = 4 := rfl
        rw [h4]
        simp only [mSeq, mAtom]
        cases (t.dropWhile isSpace).drop 4 with
        | nil => rfl
        | cons x u =>
          simp only [one, test_notGt, push_none]
          by_cases hx : x = 62
          · subst hx; simp
          · have h1 : (x != 62) = true := by simpa using hx
            have h2 : (x == 62) = false := by simpa using hx
            simp only [h1, if_true, h2, Bool.false_eq_true, if_false]
            have := starG_notGt_Kcs u []
            unfold Kcs at this
            exact this
      · simp [hs]
    · simp [hc]

theorem searchFrom_html (s : List Nat) : searchFrom bytesFlavor htmlAtomsH s = htmlSearch s := by
  induction s with
  | nil => simp [searchFrom, matchHere_html, htmlSearch]
  | cons c t ih =>
    simp only [searchFrom, matchHere_html, htmlSearch, ih]
    by_cases hc : (c == 60) = true
    · simp only [hc, if_true]
      cases metaAt t <;> rfl
    · simp [hc]

/-! ## find_declared_encoding -/

theorem search_xml (markup : List Nat) (endpos : Nat) :
    search bytesFlavor xmlPattern markup endpos =
      match (markup.take endpos).dropWhile isSpace with
      | 60 :: 63 :: rest => lastEncoding (rest.takeWhile (· != 10))
      | _ => none := by
  unfold search xmlPattern
  simp only [gen_xml_eq.1, gen_xml_eq.2, if_true]
  exact matchHere_xml _

theorem search_html (markup : List Nat) (endpos : Nat) :
    search bytesFlavor htmlPattern markup endpos = htmlSearch (markup.take endpos) := by
  unfold search htmlPattern
  simp only [gen_html_eq.1, gen_html_eq.2, Bool.false_eq_true, if_false]
  exact searchFrom_html _

/-- REFINEMENT: `find_declared_encoding` computed by the regex engine on the generated patterns (bytes
    flavour, `search_entire_document=False`) is the hand-written matcher, for every input. -/
theorem findDeclaredRx_eq (markup : List Nat) (isHtml : Bool) :
    findDeclaredRx false markup isHtml false = findDeclared markup isHtml := by
  unfold findDeclaredRx findDeclared xmlMatch
  simp only [Bool.false_eq_true, if_false, search_xml, search_html]
  rfl

/-! ## both flavours: nothing is declared in a text without `<` -/

theorem ci_lt_bytes (x : Nat) : bytesFlavor.ci 60 x = (x == 60) := by
  have := test_lit_nonletter 60 x (by omega)
  simpa [Cls.test] using this

theorem ci_lt_str (x : Nat) : strFlavor.ci 60 x = (x == 60) := by
  have : Gen.c07CiTable.lookup 60 = none := by decide +kernel
  simp [strFlavor, this]

theorem starG_none_of_k_none (p : Nat → Bool) (k : K) (inp : List Nat)
    (hk : ∀ t st, (∀ x ∈ t, x ∈ inp) → k t st = none) (st : St) : starG p k inp st = none := by
  induction inp generalizing st with
  | nil => exact hk [] st (fun _ h => h)
  | cons x t ih =>
    simp only [starG]
    have h1 : ∀ st', starG p k t st' = none := fun st' =>
      ih (fun t' st'' ht' => hk t' st'' (fun y hy => List.mem_cons_of_mem _ (ht' y hy))) st'
    have h2 : k (x :: t) st = none := hk (x :: t) st (fun _ h => h)
    split
    · rw [h1, h2]
    · exact h2

/-- any flavour in which only `<` itself matches the literal `<` -/
theorem findDeclaredRx_none_of_no_lt (isStr : Bool) (markup : List Nat) (isHtml entire : Bool)
    (h : ∀ x ∈ markup, x ≠ 60) : findDeclaredRx isStr markup isHtml entire = none := by
  have hci : ∀ x, (if isStr then strFlavor else bytesFlavor).ci 60 x = (x == 60) := by
    intro x; cases isStr
    · exact ci_lt_bytes x
    · exact ci_lt_str x
  unfold findDeclaredRx
  dsimp only
  generalize (if isStr then strFlavor else bytesFlavor) = F at hci ⊢
  have hone : ∀ (k : K) (t : List Nat) (st : St), (∀ x ∈ t, x ≠ 60) → one (Cls.test F (.lit 60)) k t st = none := by
    intro k t st ht
    cases t with
    | nil => rfl
    | cons x r =>
      have : (x == 60) = false := by simpa using ht x List.mem_cons_self
      simp [one, Cls.test, hci, this]
  have hxml : ∀ n, search F xmlPattern markup n = none := by
    intro n
    unfold search xmlPattern
    simp only [gen_xml_eq.1, gen_xml_eq.2, if_true]
    unfold matchHere xmlAtomsH
    simp only [mSeq, mAtom, lits, List.map_cons, List.cons_append]
    apply starG_none_of_k_none
    intro t st ht
    exact hone _ t st (fun x hx => h x (List.mem_of_mem_take (ht x hx)))
  have hhtml : ∀ n, search F htmlPattern markup n = none := by
    intro n
    unfold search htmlPattern
    simp only [gen_html_eq.1, gen_html_eq.2, Bool.false_eq_true, if_false]
    have hw : ∀ x ∈ markup.take n, x ≠ 60 := fun x hx => h x (List.mem_of_mem_take hx)
    generalize markup.take n = w at hw
    induction w with
    | nil => simp only [searchFrom, matchHere, htmlAtomsH, mSeq, mAtom]; exact hone _ [] _ (fun _ h => nomatch h)
    | cons x t ih =>
      simp only [searchFrom]
      have : matchHere F htmlAtomsH (x :: t) = none := by
        simp only [matchHere, htmlAtomsH, mSeq, mAtom]
        exact hone _ (x :: t) _ hw
      rw [this]
      exact ih (fun y hy => hw y (List.mem_cons_of_mem _ hy))
  simp only [hxml, hhtml]
  cases isHtml <;> rfl

end BS.EncodingIn.Rx
